"""C08 - plain scalars are typed exactly by the YAML 1.1 rules, on load and on dump alike.

spec/TypeRepo.tla (H): Classify/Value of a scalar text by the lexical descriptions of the YAML 1.1 types, no index, no
regexps, no order.  spec/Resolver.tla (L): resolver.py's first-character index + ordered regexp list (regexps as data,
interpreted) and the SafeConstructor converters over models of the builtins.  spec/MC_Resolver.tla: one state per text.

 (a) design check + generation: TLC enumerates every text of the plans below, checks L => H, unambiguity of H, index /
     order independence, quoted => str, and dumps (text, class, value);
 (b) spec -> code: every dumped text is replayed through Resolver.resolve, SafeLoader / CSafeLoader (plain, single, double,
     literal) and SafeDumper / CSafeDumper (as a str) and compared with the dumped class and value (exact rationals);
 (c) code -> spec: generated values (int, float, bool, None, date, datetime) are dumped by both dumpers, the emitted
     scalar is projected by re-parsing; members generated from each type's regexp and the scalars of the repository's
     data corpus are loaded; all those observations are judged by TLC with spec/Trace_Types.tla (Denotes).
"""
import datetime, glob, json, math, os, random, re, sys, zlib
from fractions import Fraction
from .. import tlc, mbt, trace
from ..common import Verdict, use_repo, REPO, SEED, BUILD, ensure_dir

# ----------------------------------------------------------------------------------------------------- enumeration plans
KW = ['yes', 'Yes', 'YES', 'yEs', 'no', 'No', 'NO', 'true', 'True', 'TRUE', 'tRUE', 'false', 'False', 'FALSE', 'on', 'On',
      'ON', 'off', 'Off', 'OFF', 'oFF', 'null', 'Null', 'NULL', 'nULL', '~', '.inf', '.Inf', '.INF', '.iNF', '.nan',
      '.NaN', '.NAN', '.Nan', '<<', '<', '=', 'y', 'n', 'Y', 'N', '+', '-', ' ', '0', '.', '_', 'e']


def free(alphabet, n):
    return [list(alphabet)] * n


def ts_template(full):
    """a date-time, one slot per lexical component (right and wrong alternatives)"""
    if full:
        return [['2001', '0000', '201'], ['-'], ['1', '02', '12', '13'], ['-'], ['1', '29', '30', '31', '32'],
                ['T', 't', ' ', '\t', ''], ['0', '23', '24'], [':'], ['59', '60'], [':'], ['59', '60'],
                ['', '.', '.5', '.123456', '.1234567'],
                ['', 'Z', ' Z', 'z', '+1', ' +01', '-01:30', '+23:59', '+24:00', '-25:00', '+1:5', '-00:60', '+05:30:15']]
    return [['2001', '0000'], ['-'], ['1', '02', '13'], ['-'], ['1', '29', '31', '32'], ['T', ' ', '\t', ''],
            ['0', '23', '24'], [':'], ['59', '60'], [':'], ['00', '60'], ['', '.', '.1234567'],
            ['', 'Z', ' Z', '+1', '-01:30', '+24:00', '+1:5', '+05:30:15']]


WIDE = ['0', '1', '7', '9', 'a', 'e', 'E', 'x', 'b', 'o', '_', '.', ':', '+', '-', ' ', '\t', 'T', 'Z', 'n', '~', '<', '=']
SEXA = [['', '-', '+'], ['1', '0', '1_', '12', '190'], [':'], ['0', '5', '59', '60', '6', '00', '_'], [':', ''],
        ['', '7', '07', '59', '61'], ['', '.'], ['', '5', '_', '25', '0']]
PLANS = {
    # all strings over the numeric alphabet (digits of every base class, prefixes, separators, sign)
    'num5': lambda: free('018xb_.:-', 5),
    'num6': lambda: free('018xb_.:-', 6),
    'num5a': lambda: free('0179aexb_.-', 5),
    # wider alphabet, shorter
    'wide3': lambda: free(WIDE, 3),
    'wide4': lambda: free(WIDE[:20], 4),
    # keywords as macro-symbols
    'kw2': lambda: free(KW, 2),
    'kw3': lambda: free(KW, 3),
    # sexagesimals: free strings and a template (sign, leading group, groups, fraction)
    'sexa5': lambda: free('16:._-', 5),
    'sexa6': lambda: free('16:._-', 6),
    'sexat': lambda: SEXA,
    # dates (10 characters) and date-times (templates)
    'date10': lambda: [['1', '3', '-']] * 4 + [['-']] + [['1', '3', '-']] * 2 + [['-', '1']] + [['1', '3', '0']] * 2,
    'date10w': lambda: [['0', '1', '2', '9']] + [['0', '1', '3', '-']] * 3 + [['-', '1']] + [['0', '1', '3', '-']] * 2 + [['-', '1']] + [['0', '1', '3']] * 2,
    'ts': lambda: ts_template(False),
    'tsfull': lambda: ts_template(True),
    # fractions of a second of 0..10 digits: runs of 9s and 0s as macro-symbols, then single digits
    'frac': lambda: [['2001-12-14 21:59:43', '2001-12-31T23:59:59'], ['', '.'], ['', '9', '99', '999999', '000000', '517599', '12345'],
                     ['', '0', '4', '5', '9'], ['', '0', '5', '9'], ['', '9', '99', '0'], ['', 'Z', ' +01:00']],
    'fracfree': lambda: [['2001-12-31 23:59:59.']] + [['0', '5', '9']] * 9,
    # zones: every spelling class of TypeRepo!TimestampShape - blanks x sign x hour part (0, 00, one digit, 0d, two
    # digits, out of range, three digits) x minute part (absent, 00, non-zero, out of range, one digit, no colon)
    'tz': lambda: [['2001-12-14 21:59:43', '2001-12-31t23:59:59.5', '2001-1-1T0:00:00.'], ['', ' ', ' \t'], ['+', '-'],
                   ['0', '00', '1', '9', '05', '10', '23', '24', '007'], ['', ':00', ':30', ':01', ':59', ':60', ':5', '30']],
    # digit counts and separators: month / day / hour of one or two digits (three: none), minute / second of two
    'tsdig': lambda: [['2001-'], ['1', '01', '012'], ['-'], ['5', '31', '005'], ['T', 't', ' ', '  ', '\t', ' \t', 'T '],
                      ['7', '21', '007'], [':'], ['59', '5'], [':'], ['43', '4'], ['', '.5'], ['', '-0:45']],
    # texts that end in a line feed: resolve() only (Python's $)
    'lf': lambda: free(['1', 'null', '~', '.5', '\n', ' '], 3),
    # exponent forms
    'exp': lambda: [['', '-', '+'], ['1', '0', '12', '1_'], ['.', ''], ['', '5', '0', '_'], ['e', 'E', ''], ['+', '-', ''],
                    ['0', '5', '17', '308', '309', '324', '400', '99999999999']],
}
# Look-alikes: representatives of what a Unicode-aware predicate (\\d, \\s, str.isdigit, re.IGNORECASE, str.lower) would
# put into the classes digit / blank / keyword letter.  H and L know ASCII only: every text with one of them is a str.
U2, UF2, UD2, U0, UF0, U1, U5 = '\u0662', '\uff12', '\u0968', '\u0660', '\uff10', '\u0967', '\u0665'
NBSP, IDSP, EMSP = '\u00a0', '\u3000', '\u2003'
PLANS.update({
    'uni_num': lambda: free(['1', '0', U2, UF2, UD2, '.', ':', '-', '_', NBSP], 4),
    'uni_num3': lambda: free(['1', '0', U2, UF2, '.', ':', '-', NBSP], 3),
    'uni_ts': lambda: [['2'], ['0', U0], ['0', UF2], ['1'], ['-'], ['0', UF0], ['1', U1], ['-'], ['1'], ['5', U5],
                       ['', ' ', NBSP, IDSP, 'T'], ['1'], ['2', U2], [':'], ['3'], ['0', UF0], [':'], ['0'], ['0', U0],
                       ['', 'Z', '.' + U5, '+' + U0 + '1', EMSP + 'Z']],
    'uni_kw': lambda: free(['ye\u017f', 'YE\u017f', 'fal\u017fe', '\uff54rue', '\uff54\uff52\uff55\uff45', 'nu\u029fl', '\u0274ull',
                            '.\u0131nf', '.\uff49nf', '.\u026anf', '\uff4fn', '\u043en', '\u041eff', 'n\u043e', '\uff5e',
                            '\uff1c\uff1c', '\uff1d', '\u212a', 'O\u212a', '-', '.', '1', 'n', NBSP], 2),
})
TIERS = {'quick': ['num5', 'wide3', 'kw2', 'sexa5', 'sexat', 'date10', 'ts', 'tz', 'tsdig', 'frac', 'lf', 'exp', 'uni_num3', 'uni_ts', 'uni_kw'],
         'thorough': ['num6', 'num5a', 'wide4', 'kw3', 'sexa6', 'sexat', 'date10w', 'tsfull', 'tz', 'tsdig', 'frac', 'fracfree', 'lf', 'exp', 'uni_num', 'uni_ts', 'uni_kw'],
         'smoke': ['kw2', 'lf', 'exp']}

TAGP = 'tag:yaml.org,2002:'
PROCS = int(os.environ.get('C08_PROCS', '16'))
# pairs of texts for the position / context streams (spec/MC_Contexts.tla): one typed text with another
CTX_PAIRS = [('1', 'yes'), ('null', '1.5'), ('2001-01-01', 'x'), ('1:30', '0x10'), ('~', 'no'), ('.inf', '-0'),
             ('1_0', '0o7'), ('2001-01-01 00:00:00', '=')]
CTX_PAIRS_MORE = [('true', 'True'), ('0b1', '0_'), ('.nan', '.NaN'), ('1e+3', '1.e+3'), ('<<', '1'), ('Null', 'off'),
                  ('190:20:30.15', '1__0'), ('2001-1-1T1:00:00Z', '2001-13-01'), ('0x_', '0')]


# ------------------------------------------------------------------------------------------------ values <-> digests
def big(n):
    return [int(c) for c in str(n)]


def sdec(fr):
    """exact signed decimal {s, m, e} of a Fraction whose denominator is 2^a 5^b"""
    s = '-' if fr < 0 else '+'
    fr = abs(fr)
    n, d = fr.numerator, fr.denominator
    e = 0
    while d != 1:
        if d % 10 == 0:
            d //= 10
        elif d % 2 == 0:
            d //= 2
            n *= 5
        elif d % 5 == 0:
            d //= 5
            n *= 2
        else:
            raise ValueError('not a decimal fraction')
        e -= 1
    while n and n % 10 == 0:
        n //= 10
        e += 1
    return {'s': s, 'm': big(n), 'e': e if n else 0}


FMAX = sys.float_info.max
HALF_TOP = Fraction(FMAX) + Fraction(2) ** 970      # max + half an ulp: from here on texts round to infinity


def float_digest(v, terms=1):
    if v != v:
        return {'k': 'nan'}
    neg = math.copysign(1.0, v) < 0
    if math.isinf(v):
        lo = sdec(-HALF_TOP if neg else HALF_TOP)
        inf = {'s': '-' if neg else '+', 'inf': True}
        d = {'k': 'inf', 's': '-' if neg else '+', 'neg': neg, 'loin': True, 'hiin': True}
        d['lo'], d['hi'] = (inf, lo) if neg else (lo, inf)
        d['wlo'], d['whi'] = d['lo'], d['hi']
        return d
    f = Fraction(v)
    up, dn = math.nextafter(v, math.inf), math.nextafter(v, -math.inf)
    hi = HALF_TOP if math.isinf(up) else (f + Fraction(up)) / 2
    lo = -HALF_TOP if math.isinf(dn) else (f + Fraction(dn)) / 2
    m, _ = math.frexp(v)
    even = int(abs(m) * 2 ** 53) % 2 == 0 if abs(v) >= sys.float_info.min else int(abs(f) / Fraction(5e-324)) % 2 == 0
    ulp = Fraction(math.ulp(v))
    return {'k': 'num', 'neg': neg, 'lo': sdec(lo), 'hi': sdec(hi), 'loin': even, 'hiin': even,
            'wlo': sdec(f - terms * ulp), 'whi': sdec(f + terms * ulp)}


def digest(v, terms=1):
    """Python value -> (ot, ov) of Trace_Types"""
    if v is None:
        return 'null', {}
    if v is True or v is False:
        return 'bool', {'b': v}
    if type(v) is int:
        return 'int', {'s': '-' if v < 0 else '+', 'm': big(abs(v))}
    if type(v) is float:
        return 'float', float_digest(v, terms)
    if type(v) is datetime.datetime:
        off = v.utcoffset()
        return 'datetime', {'y': v.year, 'mo': v.month, 'd': v.day, 'h': v.hour, 'mi': v.minute, 's': v.second,
                            'us': v.microsecond, 'aware': off is not None,
                            'off': 0 if off is None else off.days * 86400 + off.seconds,
                            'offus': 0 if off is None else off.microseconds}
    if type(v) is datetime.date:
        return 'date', {'y': v.year, 'm': v.month, 'd': v.day}
    if type(v) is str:
        return 'str', {}
    return 'other:' + type(v).__name__, {}


def expected_float(sd):
    """correctly rounded binary64 of the signed decimal the specification exports (None: out of reach of exact arithmetic)"""
    m = int(''.join(map(str, sd['m'])))
    e = sd['e']
    if m == 0:
        x = 0.0
    elif e + len(sd['m']) > 330:
        x = math.inf
    elif e + len(sd['m']) < -345:
        x = 0.0
    else:
        fr = Fraction(m) * Fraction(10) ** e
        try:
            x = float(fr)
        except OverflowError:
            x = math.inf
    return -x if sd['s'] == '-' else x


def same_float(a, b):
    return (a != a and b != b) or (a == b and math.copysign(1, a) == math.copysign(1, b))


def value_matches(hval, real, text):
    """spec -> code comparison of one constructed value with the dumped H value; returns None or a reason"""
    k = hval[0]
    if k == 'null':
        return None if real is None else 'not None'
    if k == 'bool':
        return None if real is hval[1] else 'not %s' % hval[1]
    if k == 'int':
        exp = int(''.join(map(str, hval[2])))
        exp = -exp if hval[1] == '-' else exp
        return None if type(real) is int and real == exp else 'int value %r, expected %d' % (real, exp)
    if k == 'float':
        if type(real) is not float:
            return 'not a float: %r' % (real,)
        if hval[1] == 'nan':
            return None if real != real else 'not nan'
        if hval[1] == 'inf':
            return None if real == (-math.inf if hval[2] == '-' else math.inf) else 'not %sinf' % hval[2]
        exp = expected_float(hval[2])
        if hval[3]:     # sexagesimal: the code sums binary floats, one ulp per term
            terms = text.count(':') + 1
            if math.isinf(exp) or math.isinf(real):
                return None if exp == real else 'sexagesimal float %r, expected %r' % (real, exp)
            tol = terms * math.ulp(exp)
            ok = abs(Fraction(real) - Fraction(exp)) <= Fraction(tol) and math.copysign(1, real) == math.copysign(1, exp)
            return None if ok else 'sexagesimal float %r, expected %r' % (real, exp)
        return None if same_float(real, exp) else 'float %r, expected %r' % (real, exp)
    if k == 'date':
        ok = type(real) is datetime.date and (real.year, real.month, real.day) == tuple(hval[1:4])
        return None if ok else 'date %r, expected %r' % (real, hval[1:4])
    if k == 'datetime':
        if type(real) is not datetime.datetime:
            return 'not a datetime: %r' % (real,)
        y, mo, d, h, mi, s, lo, tz = hval[1:9]
        hi = lo
        base = datetime.datetime(y, mo, d, h, mi, s)
        if tz[0] == 'none':
            if real.tzinfo is not None:
                return 'aware datetime for a text without zone'
            delta = real - base
        else:
            if real.tzinfo is None:
                return 'naive datetime for a text with zone'
            off = datetime.timedelta(0) if tz[0] == 'utc' else \
                (1 if tz[1] == '+' else -1) * datetime.timedelta(hours=tz[2], minutes=tz[3])
            delta = real - base.replace(tzinfo=datetime.timezone(off))
        us = delta // datetime.timedelta(microseconds=1)
        if not lo <= us <= hi:
            return 'datetime %r off by %s' % (real, delta)
        # the zone is part of the value (TypeRepo: local fields + offset as written)
        if tz[0] != 'none' and real.utcoffset() != off:
            return 'datetime %r has the UTC offset %s, the text says %s' % (real, real.utcoffset(), off)
        return None
    if k == 'str':
        return None if type(real) is str and real == text else 'not the string itself: %r' % (real,)
    return 'unexpected H value %r' % (hval,)


# --------------------------------------------------------------------------------------------------- spec -> code replay
_SUSPECT = re.compile(r'^$|^[ \t]|[ \t]$|[\n\r]|: |:$|^:|\t| #|^- |^-$|^---|^\.\.\.|^[?] |^[?]$|^[\[\]{},#&*!|>\'"%@`]')
BATCH = 48


def outcome_of(yaml, fn):
    try:
        return ('ok', fn())
    except yaml.YAMLError as e:
        return ('error', type(e).__name__)
    except RecursionError:
        raise
    except Exception as e:
        return ('exception', type(e).__name__ + ': ' + str(e)[:80])


def load_items(yaml, Loader, texts, render, ctx='seq'):
    """Load the rendered texts as the items of one collection with one loader object (ctx: block sequence, values of a
    block mapping, or a flow sequence); per item -> (style, tag, outcome), or None when the document does not have the
    expected shape (then the caller retries item by item)."""
    if ctx == 'seq':
        doc = ''.join('- ' + render(t) + '\n' for t in texts)
    elif ctx == 'map':
        doc = ''.join('k%d: %s\n' % (i, render(t)) for i, t in enumerate(texts))
    else:
        doc = '[' + ', '.join(render(t) for t in texts) + ']\n'
    ld = Loader(doc)
    try:
        try:
            node = ld.get_single_node()
        except yaml.YAMLError:
            return None
        if ctx == 'map':
            if not isinstance(node, yaml.MappingNode) or len(node.value) != len(texts):
                return None
            nodes = [kv[1] for kv in node.value]
        else:
            if not isinstance(node, yaml.SequenceNode) or len(node.value) != len(texts):
                return None
            nodes = node.value
        out = []
        for item, t in zip(nodes, texts):
            if not isinstance(item, yaml.ScalarNode) or item.value != t:
                return None
            out.append((item.style, item.tag, outcome_of(yaml, lambda: ld.construct_object(item, deep=True))))
        return out
    finally:
        ld.dispose()


def load_each(yaml, Loader, texts, render, ctx='seq'):
    res = load_items(yaml, Loader, texts, render, ctx)
    if res is not None:
        return res
    if len(texts) == 1:
        return [None]
    out = []
    for t in texts:
        r = load_items(yaml, Loader, [t], render, ctx)
        out.append(r[0] if r else None)
    return out


def q_single(t):
    return "'" + t.replace("'", "''") + "'"


def q_double(t):
    return '"' + t.replace('\\', '\\\\').replace('"', '\\"').replace('\t', '\\t').replace('\n', '\\n') + '"'


def q_literal(t):
    return '|-\n  ' + t


def base_pass(yaml, text, drift):
    """use BaseLoader / CBaseLoader / BaseDumper on the text (no verdict: they ignore types by design)"""
    for L in (yaml.BaseLoader, getattr(yaml, 'CBaseLoader', None)):
        if L is None:
            continue
        try:
            yaml.load('- ' + text + '\n- "x"\n', Loader=L)
        except yaml.YAMLError:
            pass
    for D in (yaml.BaseDumper, getattr(yaml, 'CBaseDumper', None)):
        if D is None:
            continue
        try:
            yaml.dump([text], Dumper=D)
        except yaml.YAMLError:
            pass


def judge_plain(hcls, hval, tag, oc, val, text):
    """one occurrence of an untagged plain scalar: node tag `tag`, construction outcome (oc, val), against the
    specification's class and value; None or (got, why)"""
    if oc == 'exception':
        return 'exception:' + val.split(':')[0], val
    if tag != TAGP + hcls:
        return tag.replace(TAGP, ''), 'composed with tag %s' % tag
    if hval[0] in ('undefined', 'merge', 'value'):
        return None                # no value defined: a YAML error or any value
    if oc == 'error':
        return 'error:' + val, 'YAML error for a text that has a value'
    why = value_matches(hval, val, text)
    return ('value', why) if why else None


def classify_key(hcls, hval):
    return hcls if hval[0] != 'undefined' else hcls + '/no-value:' + hval[2]


def work(states, extra):
    yaml = use_repo()
    from yaml.resolver import Resolver
    loaders = [getattr(yaml, n) for n in extra['loaders']]
    dumpers = [getattr(yaml, n) for n in extra['dumpers']]
    rs = Resolver()
    res = {'n': 0, 'bad': [], 'drift': {}, 'samples': [], 'nontrivial': 0, 'plain': 0, 'obs': 0, 'devs': {}, 'seen': 0,
           'traces': [], 'shapes': set()}
    rnd = random.Random(extra['seed'])
    items = []
    for st in states:
        res['n'] += 1
        text = unchars(st['text'])
        items.append((text, st['h']['cls'], st['h']['val'], st['dev']))
        if st['h']['shape'] and st['h']['val'][0] in ('date', 'datetime'):
            res['shapes'].add(json.dumps(st['h']['shape'][0], sort_keys=True))
        d = st['dev'][0]
        res['devs'][d] = res['devs'].get(d, 0) + 1
    # the same text can be reached twice in a template (empty alternatives): replay it once per chunk
    uniq = {}
    for it in items:
        uniq.setdefault(it[0], it)
    items = list(uniq.values())
    res['seen'] = len(items)

    def bad(side, via, text, hcls, hval, got, why):
        res['bad'].append({'key': {'side': side, 'via': via, 'expected': classify_key(hcls, hval), 'got': got},
                           'text': text, 'why': why, 'hval': hval})

    def drift(what):
        res['drift'][what] = res['drift'].get(what, 0) + 1

    # ---- 0. "whatever was loaded before": the untyped Base classes see a part of the texts first, in this same process
    # (one text per first character and every eighth text), then the typed loaders and dumpers must type them as ever
    firsts = {}
    for k, it in enumerate(items):
        if it[0][:1] not in firsts or k % 8 == 0:
            firsts.setdefault(it[0][:1], it)
            base_pass(yaml, it[0], drift)

    # ---- 1. Resolver.resolve directly (plain and quoted flags)
    for text, hcls, hval, dev in items:
        tag = rs.resolve(yaml.ScalarNode, text, (True, False))
        res['obs'] += 2
        if tag != TAGP + hcls:
            if dev[0] == 'dollar-newline' or _SUSPECT.search(text):
                drift('resolve() differs from Classify on a text that is not a plain scalar')   # H is about plain scalars
            else:
                bad('resolve', 'Resolver', text, hcls, hval, tag.replace(TAGP, ''), 'resolve() gives %s' % tag)
        tq = rs.resolve(yaml.ScalarNode, text, (False, True))
        if tq != TAGP + 'str':
            bad('resolve-quoted', 'Resolver', text, 'str', ['str'], tq.replace(TAGP, ''), 'quoted scalar resolves to %s' % tq)

    # ---- 2. load: plain, single-quoted, double-quoted, literal; every loader
    easy = [it for it in items if not _SUSPECT.search(it[0])]
    hard = [it for it in items if _SUSPECT.search(it[0])]
    for L in loaders:
        groups = [('seq', easy[i:i + BATCH]) for i in range(0, len(easy), BATCH)] + [('seq', [it]) for it in hard]
        # the same scalar as a mapping value and inside a flow sequence (quick: a quarter of the texts)
        other = [it for it in easy if extra['literal'] or zlib.crc32(it[0].encode()) % 4 == extra['seed'] % 4]
        for ctx in ('map', 'flow'):
            groups += [(ctx, other[i:i + BATCH]) for i in range(0, len(other), BATCH)]
        for ctx, grp in groups:
            texts = [g[0] for g in grp]
            outs = load_each(yaml, L, texts, lambda t: t, ctx)
            via = L.__name__ if ctx == 'seq' else L.__name__ + '/' + ctx
            for (text, hcls, hval, dev), o in zip(grp, outs):
                if o is None or o[0] not in (None, ''):
                    continue               # the text cannot be written as a plain scalar here: nothing to judge
                res['plain'] += 1
                res['obs'] += 1
                style, tag, (oc, val) = o
                if len(res['traces']) < extra['sample'] and rnd.random() < 0.02:
                    res['traces'].append((text, True, oc, val if oc == 'ok' else None, L.__name__))
                j = judge_plain(hcls, hval, tag, oc, val, text)
                if j:
                    bad('load', via, text, hcls, hval, j[0], j[1])
        for name, render, ok in (('single', q_single, lambda t: '\n' not in t),
                                 ('double', q_double, lambda t: True),
                                 ('literal', q_literal, lambda t: t and t[0] not in ' \t' and '\n' not in t)):
            sel = [it for it in items if ok(it[0]) and (name != 'literal' or extra['literal'] or zlib.crc32(it[0].encode()) % 4 == 0)]
            for i in range(0, len(sel), BATCH):
                grp = sel[i:i + BATCH]
                outs = load_each(yaml, L, [g[0] for g in grp], render)
                for (text, hcls, hval, dev), o in zip(grp, outs):
                    if o is None:
                        drift('%s form of a text did not load as one scalar' % name)
                        continue
                    res['obs'] += 1
                    style, tag, (oc, val) = o
                    if tag != TAGP + 'str' or oc != 'ok' or type(val) is not str or val != text:
                        bad('load-' + name, L.__name__, text, 'str', ['str'], tag.replace(TAGP, '') if oc == 'ok' else oc,
                            '%s scalar gives %s %r' % (name, tag, val))

    # ---- 3. dump every text as a str: whatever looks like another type must not come out plain
    nonascii = [it for it in items if not it[0].isascii()]
    for D, opts, pool in [(D, o, p) for D in dumpers for o, p in (({}, items), ({'allow_unicode': True}, nonascii))]:
        for i in range(0, len(pool), BATCH):
            grp = pool[i:i + BATCH]
            texts = [g[0] for g in grp]
            try:
                out = yaml.dump(texts, Dumper=D, **opts)
                evs = [e for e in yaml.parse(out) if isinstance(e, yaml.ScalarEvent)]
                back = yaml.load(out, Loader=yaml.CSafeLoader if D.__name__.startswith('C') else yaml.SafeLoader)
            except Exception as e:
                bad('dump-str', D.__name__, repr(texts)[:200], 'str', ['str'], 'exception:' + type(e).__name__, str(e)[:200])
                continue
            if len(evs) != len(texts) or not isinstance(back, list) or len(back) != len(texts):
                drift('dump of a list of strings did not re-parse as that many scalars')
                continue
            for (text, hcls, hval, dev), ev, b in zip(grp, evs, back):
                res['obs'] += 1
                plain = bool(ev.implicit[0])        # resolved by the plain-scalar rules when read
                if plain and hcls != 'str':
                    bad('dump-str', D.__name__, text, hcls, hval, 'plain', 'str %r written as plain scalar %r' % (text, ev.value))
                elif type(b) is not str:
                    bad('dump-str', D.__name__, text, hcls, hval, type(b).__name__, 'str %r reads back as %r' % (text, b))
                if len(res['traces']) < extra['sample'] and rnd.random() < 0.01:
                    res['traces'].append((ev.value, bool(plain), 'dump-str', None, D.__name__))
    for text, hcls, hval, dev in items:
        if hcls != 'str':
            res['nontrivial'] += 1
        if len(res['samples']) < 2 and hcls not in ('str',) and rnd.random() < 0.05:
            res['samples'].append({'text': text, 'class': hcls, 'value': json.dumps(hval)[:120]})
    return res


# ------------------------------------------------------------------------------------- code -> spec: observations for TLC
def chars(s):
    """text -> sequence of characters as the specification sees them: ASCII as is, the rest as atoms 'uXXXX'"""
    return [c if ord(c) < 128 else 'u%04X' % ord(c) for c in s]


def unchars(seq):
    return ''.join(chr(int(a[1:], 16)) if len(a) > 1 else a for a in seq)


def gen_values(rnd, tier):
    """int / float / bool / None / date / datetime values from generated ranges (fresh objects: no aliases)"""
    import struct
    n = 150 if tier == 'quick' else 1500
    vals = [None, True, False]
    ints = list(range(-12, 13)) + [59, 60, 61, 3600, 0o17, 0x7f, 255, 256, 1000, 10 ** 6]
    for k in (7, 8, 15, 16, 31, 32, 53, 63, 64, 100, 128):
        ints += [2 ** k - 1, 2 ** k, 2 ** k + 1, -(2 ** k), -(2 ** k) - 1]
    ints += [10 ** k for k in (9, 10, 17, 18, 19, 20, 40)] + [-10 ** 25 + 7]
    ints += [rnd.randrange(-10 ** rnd.randint(1, 45), 10 ** rnd.randint(1, 45)) for _ in range(n)]
    vals += ints
    fl = [0.0, -0.0, math.inf, -math.inf, math.nan, 1.0, -1.0, 0.1, 0.5, 1.5, 1e15, 1e16, 1e17, -1e17, 1e22, 1e23, 1e100,
          1e-4, 1e-5, 1e-7, 123456789012345678.0, 5e-324, -5e-324, 2.2250738585072014e-308, 2.225073858507201e-308,
          sys.float_info.max, -sys.float_info.max, 1e300, 1e-300, 0.30000000000000004, 100.0, 1e21, 9007199254740993.0,
          float(2 ** 63), 1 / 3, 2 / 3, 123.456, 6.02e23, 60.0, 3600.5]
    for _ in range(n):
        c = rnd.random()
        if c < 0.3:
            fl.append(struct.unpack('<d', struct.pack('<Q', rnd.getrandbits(64)))[0])
        elif c < 0.6:
            fl.append(rnd.uniform(-1, 1) * 10 ** rnd.randint(-30, 30))
        elif c < 0.8:
            fl.append(float(rnd.randint(-10 ** rnd.randint(1, 25), 10 ** rnd.randint(1, 25))))
        else:
            fl.append(round(rnd.uniform(-1000, 1000), rnd.randint(0, 6)))
    vals += fl
    D, DT, TD, TZ = datetime.date, datetime.datetime, datetime.timedelta, datetime.timezone
    dates = [D(1, 1, 1), D(9999, 12, 31), D(2000, 2, 29), D(1900, 2, 28), D(2001, 12, 14), D(999, 9, 9), D(2024, 2, 29)]
    dates += [D.fromordinal(rnd.randint(1, D.max.toordinal())) for _ in range(n // 3)]
    vals += dates
    zones = [None, TZ.utc, TZ(TD(hours=1)), TZ(-TD(hours=5)), TZ(TD(hours=5, minutes=30)), TZ(-TD(hours=9, minutes=30)),
             TZ(TD(hours=23, minutes=59)), TZ(-TD(hours=23, minutes=59)), TZ(TD(0)), TZ(TD(minutes=1)), TZ(-TD(minutes=1)),
             TZ(TD(hours=14), 'LINT')]
    dts = []
    # every class of UTC offset a zone can spell: sign x hour part (zero, one digit, two digits) x minute part (zero,
    # non-zero) - the hours alone, the minutes alone, both
    for sg in (1, -1):
        for hh in (0, 1, 9, 10, 23):
            for mm in (0, 1, 30, 59):
                z = TZ(sg * TD(hours=hh, minutes=mm))
                dts += [DT(2001, 12, 14, 21, 59, 43, tzinfo=z), DT(2000, 12, 31, 23, 59, 59, 999999, tzinfo=z),
                        DT(2001, 1, 1, 0, 0, 0, 5000, tzinfo=z)]
    for z in zones:
        dts += [DT(2001, 12, 14, 21, 59, 43, 100000, tzinfo=z), DT(2001, 12, 14, 21, 59, 43, tzinfo=z),
                DT(1, 1, 2, 0, 0, 0, 1, tzinfo=z), DT(9999, 12, 30, 23, 59, 59, 999999, tzinfo=z), DT(2000, 2, 29, 0, 0, tzinfo=z),
                DT(2020, 1, 1, 12, 0, 0, 123456, tzinfo=z), DT(1970, 1, 1, tzinfo=z)]
    for _ in range(n // 2):
        z = rnd.choice(zones) if rnd.random() < 0.6 else TZ(TD(minutes=rnd.randint(-1439, 1439)))
        o = rnd.randint(D(1, 1, 3).toordinal(), D(9999, 12, 29).toordinal())
        us = rnd.choice([0, 0, 1, 10, 500000, 999999, rnd.randrange(10 ** 6), rnd.randrange(10 ** 6)])
        dts.append(DT.combine(D.fromordinal(o), datetime.time(rnd.randrange(24), rnd.randrange(60), rnd.randrange(60), us), tzinfo=z))
    # UTC offsets that are not whole minutes (Python allows them; a YAML 1.1 zone has hours and minutes only)
    dts += [DT(2001, 12, 14, 21, 59, 43, tzinfo=TZ(TD(hours=5, minutes=30, seconds=15))),
            DT(2001, 12, 14, 21, 59, 43, 5, tzinfo=TZ(-TD(seconds=1)))]
    vals += dts
    return vals


def value_feature(v):
    """input class of a dumped value, part of the violation key"""
    if type(v) is datetime.datetime:
        off = v.utcoffset()
        return 'naive' if off is None else ('aware' if off.seconds % 60 == 0 and off.microseconds == 0 else 'aware,offset-with-seconds')
    if type(v) is float:
        return 'nan' if v != v else 'inf' if math.isinf(v) else 'zero' if v == 0 else \
            'exponent-form' if 'e' in repr(v) else 'integral' if v == int(v) else 'fraction'
    if type(v) is int and not isinstance(v, bool):
        return 'negative' if v < 0 else 'non-negative'
    return ''


def observe_dumps(yaml, vals, dumpers, opts):
    """-> list of (trace record, info): one `dump` record per value (the emitted scalar against the value), and for
    every scalar emitted without a tag one `load` record (what the loader made of the emitted text, in the emitted
    document): the dump -> load cycle is judged through the specification at both of its steps."""
    obs = []

    def readback(Dn, ev, b, v):
        if ev.implicit[0] or ev.implicit[1]:
            ot, ov = digest(b, ev.value.count(':') + 1)
            if ot == 'str' and b != ev.value:
                ot = 'other:str-changed'
            obs.append(({'kind': 'load', 'text': chars(ev.value), 'plain': bool(ev.implicit[0]), 'tag': '', 'ot': ot, 'ov': ov, 'rb': True},
                        {'loader': ('CSafeLoader' if Dn.startswith('C') else 'SafeLoader') + '/dumped', 'text': ev.value,
                         'plain': bool(ev.implicit[0]), 'got': repr(b)[:80], 'dumped': repr(v), 'dumper': Dn, 'opts': opts}))
    for Dn in dumpers:
        D = getattr(yaml, Dn)
        for i in range(0, len(vals), 40):
            grp = vals[i:i + 40]
            try:
                out = yaml.dump(grp, Dumper=D, **opts)
                evs = [e for e in yaml.parse(out) if isinstance(e, yaml.ScalarEvent)]
                try:
                    back = yaml.load(out, Loader=yaml.CSafeLoader if Dn.startswith('C') else yaml.SafeLoader)
                except Exception:
                    back = None
                if not isinstance(back, list) or len(back) != len(grp):
                    back = None
            except Exception as e:
                evs, out = None, '%s: %s' % (type(e).__name__, e)
            if evs is None or len(evs) != len(grp):
                # retry one by one so that one failing value does not hide the others
                for v in grp:
                    ot, ov = digest(v)
                    try:
                        o1 = yaml.dump([v], Dumper=D, **opts)
                        e1 = [e for e in yaml.parse(o1) if isinstance(e, yaml.ScalarEvent)]
                        assert len(e1) == 1, o1
                        try:
                            b1 = yaml.load(o1, Loader=yaml.CSafeLoader if Dn.startswith('C') else yaml.SafeLoader)
                            rb = isinstance(b1, list) and len(b1) == 1 and same_value(b1[0], v)
                        except Exception:
                            rb, b1 = False, None
                        obs.append((mk_dump(e1[0], ot, ov, rb), {'dumper': Dn, 'value': repr(v), 'feature': value_feature(v), 'opts': opts}))
                        if isinstance(b1, list) and len(b1) == 1:
                            readback(Dn, e1[0], b1[0], v)
                    except yaml.YAMLError as e:
                        obs.append(({'kind': 'dump', 'text': [], 'plain': False, 'tag': 'none', 'ot': ot, 'ov': ov, 'rb': False},
                                    {'dumper': Dn, 'value': repr(v), 'feature': value_feature(v), 'opts': opts, 'error': str(e)[:100]}))
                    except Exception as e:
                        obs.append(({'kind': 'dump', 'text': [], 'plain': False, 'tag': '', 'ot': 'exception', 'ov': {}, 'rb': False},
                                    {'dumper': Dn, 'value': repr(v), 'feature': value_feature(v), 'opts': opts, 'error': '%s: %s' % (type(e).__name__, e)}))
                continue
            for j, (v, ev) in enumerate(zip(grp, evs)):
                ot, ov = digest(v)
                if back is not None:
                    rb = same_value(back[j], v)
                    readback(Dn, ev, back[j], v)
                elif ev.implicit[0] or ev.implicit[1]:
                    rb = False                  # not used for untagged scalars
                else:                           # the batch did not load (another item): read this one back alone
                    try:
                        b1 = yaml.load(yaml.dump([v], Dumper=D, **opts), Loader=yaml.CSafeLoader if Dn.startswith('C') else yaml.SafeLoader)
                        rb = isinstance(b1, list) and len(b1) == 1 and same_value(b1[0], v)
                    except Exception:
                        rb = False
                obs.append((mk_dump(ev, ot, ov, rb), {'dumper': Dn, 'value': repr(v), 'feature': value_feature(v), 'opts': opts}))
    return obs


def same_value(a, b):
    if type(a) is not type(b):
        return False
    if type(a) is float:
        return same_float(a, b)
    if type(a) is datetime.datetime:
        if (a.tzinfo is None) != (b.tzinfo is None) or a != b:
            return False
        off = b.utcoffset()         # the offset comes back where a YAML zone (hours and minutes) can express it
        return off is None or bool(off.seconds % 60 or off.microseconds) or a.utcoffset() == off
    return a == b


def mk_dump(ev, ot, ov, rb=False):
    """projection of an emitted scalar: `plain` = the parser says it is resolved by the plain-scalar rules (an untagged
    plain scalar, or any style under the non-specific tag '!'); tag = explicit tag, '' when the tag is left to the resolver"""
    tag = ''
    if not (ev.implicit[0] or ev.implicit[1]):
        tag = ev.tag[len(TAGP):] if ev.tag and ev.tag.startswith(TAGP) else 'foreign'
    return {'kind': 'dump', 'text': chars(ev.value), 'plain': bool(ev.implicit[0]), 'tag': tag, 'ot': ot, 'ov': ov, 'rb': rb}


# --------------------------------------------------------------- dump clause in every situation (spec/MC_DumpSpace.tla)
# scalar nodes of the pool of MC_DumpSpace: spellings of every type (as the representer writes them and as a document may
# spell them) and strs that look like each type
DUMP_REPS = [('null', 'null'), ('null', '~'), ('null', ''), ('bool', 'true'), ('bool', 'No'), ('int', '12'), ('int', '-3'),
             ('int', '0x1F'), ('int', '1:30'), ('float', '1.5'), ('float', '1.0e+16'), ('float', '.inf'), ('float', '-.inf'),
             ('float', '.nan'), ('float', '1:30.5'), ('timestamp', '2001-12-14'), ('timestamp', '2001-12-14 21:59:43'),
             ('timestamp', '2001-12-14 21:59:43.250000+05:30'), ('timestamp', '2001-12-14T21:59:43Z'),
             ('str', 'abc'), ('str', 'a b'), ('str', 'a: b'), ('str', 'a:b'), ('str', 'a,b'), ('str', '12'), ('str', 'true'),
             ('str', 'null'), ('str', '~'), ('str', ''), ('str', '1.5'), ('str', '.inf'), ('str', '2001-12-14'),
             ('str', '2001-12-14 21:59:43'), ('str', '1:30'), ('str', '<<'), ('str', '='), ('str', '- a'), ('str', '#a'),
             ('str', 'a #b'), ('str', '1e3')]
STYLE_CHAR = {'none': None, 'single': "'", 'double': '"', 'literal': '|', 'folded': '>'}
FLOW_OPT = {'block': False, 'flow': True, 'auto': None}


def boundary_values():
    """typed values at the boundaries of every field of every type + strs that look like each type (no random choice:
    the same in every worker process)"""
    D, DT, TD, TZ = datetime.date, datetime.datetime, datetime.timedelta, datetime.timezone
    vals = [None, True, False]
    vals += [0, 1, -1, 9, -9, 10, -10, 12, 59, 60, 61, 3599, 3600, 255, 1000, 10 ** 6, 2 ** 31 - 1, -2 ** 31, 2 ** 63, -2 ** 63 - 1,
             2 ** 64, 10 ** 20, -10 ** 25 + 7]
    vals += [0.0, -0.0, math.inf, -math.inf, math.nan, 1.0, -1.0, 0.1, 1.5, -1.5, 1e15, 1e16, 1e17, -1e17, 1e22, 1e23, 1e-4, 1e-5,
             1e-7, 5e-324, sys.float_info.max, -sys.float_info.max, 1e300, 1e-300, 123.456, 60.0, 3600.5, 1 / 3, 6.02e23]
    years, small = [1, 9, 10, 99, 100, 999, 1000, 2001, 9999], [1, 9, 10]
    vals += [D(y, 12, 14) for y in years] + [D(2001, m, 14) for m in small + [12]] + [D(2001, 1, d) for d in small + [28, 30, 31]]
    vals += [D(2000, 2, 29), D(1900, 2, 28), D(1, 1, 1), D(9999, 12, 31)]
    base = dict(year=2001, month=12, day=14, hour=21, minute=59, second=43, microsecond=0)
    field_values = {'year': years, 'month': small + [12], 'day': small + [28, 31], 'hour': [0] + small + [23],
                    'minute': [0] + small + [59], 'second': [0] + small + [59],
                    'microsecond': [1, 9, 10, 99, 100, 999, 1000, 9999, 10000, 99999, 100000, 250000, 500000, 999999]}
    dts = [DT(**base)]
    for f, fv in field_values.items():
        dts += [DT(**dict(base, **{f: x})) for x in fv if x != base[f]]
    dts += [DT(1, 1, 1, 0, 0, 0), DT(9999, 12, 31, 23, 59, 59, 999999), DT(2001, 1, 1)]
    zones = [TZ.utc, TZ(TD(0)), TZ(TD(hours=1)), TZ(-TD(hours=5)), TZ(TD(hours=5, minutes=30)), TZ(-TD(hours=9, minutes=30)),
             TZ(TD(hours=10)), TZ(TD(hours=23, minutes=59)), TZ(-TD(hours=23, minutes=59)), TZ(TD(minutes=1)), TZ(-TD(minutes=1))]
    for z in zones:
        dts += [DT(**base, tzinfo=z), DT(**dict(base, microsecond=250000), tzinfo=z)]
    dts += [DT(1, 1, 2, 0, 0, 0, 1, tzinfo=TZ(TD(hours=5, minutes=30))), DT(999, 1, 1, 0, 0, tzinfo=TZ.utc),
            DT(9999, 12, 30, 23, 59, 59, 999999, tzinfo=TZ(-TD(hours=5)))]
    vals += dts
    vals += [t for _, t in DUMP_REPS]
    vals += ['True', 'NO', 'off', 'Null', '0b1', '0o7', '017', '1_000', '+1', '-.5', '1e+3', '.NaN', '2001-12-14T21:59:43.25+05:30',
             '2001-1-1', '1 2', 'x']
    seen, out = set(), []
    for x in vals:                                  # 1 / 1.0 / True and '1' stay distinct
        k = (type(x).__name__, repr(x))
        if k not in seen:
            seen.add(k)
            out.append(x)
    return out


def _in_position(pos, x, other):
    return x if pos == 'root' else [x] if pos == 'item' else {x: other} if pos == 'key' else {other: x}


def _scalar_at(pos, evs):
    """the scalar event of the occurrence among the scalar events of one document"""
    want = 1 if pos in ('root', 'item') else 2
    if len(evs) != want:
        return None
    return evs[1] if pos == 'value' else evs[0]


def _out_of_position(pos, doc, ok):
    """-> (loaded, value) of the occurrence in a loaded document"""
    try:
        if pos == 'root':
            return True, doc
        if pos == 'item':
            assert type(doc) is list and len(doc) == 1
            return True, doc[0]
        assert type(doc) is dict and len(doc) == 1
        (k, w), = doc.items()
        return True, k if pos == 'key' else w
    except Exception:
        return False, None


def _doc_events(yaml, text):
    docs, cur = [], None
    for e in yaml.parse(text):
        if isinstance(e, yaml.DocumentStartEvent):
            cur = []
        elif isinstance(e, yaml.DocumentEndEvent):
            docs.append(cur)
        elif isinstance(e, yaml.ScalarEvent):
            cur.append(e)
    return docs


def dump_values_in(yaml, Dn, vals, style, flow, pos):
    """every value dumped as one document in the situation -> list of (event | None, loaded, back, error)"""
    D = getattr(yaml, Dn)
    Ld = yaml.CSafeLoader if Dn.startswith('C') else yaml.SafeLoader
    opts = {'default_style': STYLE_CHAR[style], 'default_flow_style': FLOW_OPT[flow]}
    try:
        out = yaml.dump_all([_in_position(pos, x, 'k') for x in vals], Dumper=D, **opts)
        evs = [_scalar_at(pos, d) for d in _doc_events(yaml, out)]
        back = list(yaml.load_all(out, Loader=Ld))
        if len(evs) == len(vals) and len(back) == len(vals) and None not in evs:
            return [(e,) + _out_of_position(pos, b, True) + (None,) for e, b in zip(evs, back)]
    except Exception:
        pass
    res = []
    for x in vals:                                  # one by one: a failing value must not hide the others
        try:
            out = yaml.dump(_in_position(pos, x, 'k'), Dumper=D, **opts)
            docs = _doc_events(yaml, out)
            e = _scalar_at(pos, docs[0]) if len(docs) == 1 else None
        except yaml.YAMLError as ex:
            res.append((None, False, None, 'yaml:' + str(ex)[:80]))
            continue
        except Exception as ex:
            res.append((None, False, None, 'exception:%s: %s' % (type(ex).__name__, str(ex)[:80])))
            continue
        try:
            ok, b = _out_of_position(pos, yaml.load(out, Loader=Ld), True)
        except Exception:
            ok, b = False, None
        res.append((e, ok, b, None if e is not None else 'shape:' + out[:60]))
    return res


def emit_node_in(yaml, Dn, tag, text, style, flow, pos):
    """serialize the scalar node (tag, text) in the situation -> emitted scalar event (or None)"""
    D = getattr(yaml, Dn)
    node = yaml.ScalarNode(TAGP + tag, text, style=STYLE_CHAR[style])
    other = yaml.ScalarNode(TAGP + 'str', 'k')
    fs = FLOW_OPT[flow]
    if fs is None:
        fs = style == 'none'                        # representer.py: a collection of style-less scalars is a flow one
    if pos == 'item':
        node = yaml.SequenceNode(TAGP + 'seq', [node], flow_style=fs)
    elif pos == 'key':
        node = yaml.MappingNode(TAGP + 'map', [(node, other)], flow_style=fs)
    elif pos == 'value':
        node = yaml.MappingNode(TAGP + 'map', [(other, node)], flow_style=fs)
    docs = _doc_events(yaml, yaml.serialize(node, Dumper=D))
    return _scalar_at(pos, docs[0]) if len(docs) == 1 else None


def dump_work(states, extra):
    """replay of the states of MC_DumpSpace: the node of the state through both serializers / emitters (kind "emit"), and
    - once per situation - every boundary value of every type through dump() (kinds "dump" and "load")"""
    yaml = use_repo()
    reps, dumpers = extra['reps'], extra['dumpers']
    vals = boundary_values()
    res = {'n': 0, 'situations': 0, 'obs': [], 'drift': {}, 'values': len(vals)}
    for st in states:
        res['n'] += 1
        if st['pos'] == '-':
            continue
        style, flow, pos = st['style'], st['flow'], st['pos']
        ctx = {'style': style, 'flow': flow, 'pos': pos}
        tag, text = reps[st['rep'] - 1]
        for Dn in dumpers:
            info = {'dumper': Dn, 'node': [tag, text], 'ctx': ctx}
            try:
                ev = emit_node_in(yaml, Dn, tag, text, style, flow, pos)
            except Exception as ex:
                ev = None
                info['error'] = '%s: %s' % (type(ex).__name__, str(ex)[:80])
            if ev is None or ev.value != text:
                # the text itself was not written back: nothing the type clause can be asked about (C07 / C12 territory)
                k = 'emit %s: node not written as one scalar with its text' % Dn
                res['drift'][k] = res['drift'].get(k, 0) + 1
                continue
            rec = mk_dump(ev, 'node', {})
            rec.update(kind='emit', ntag=tag)
            res['obs'].append((rec, info))
            if Dn == 'SafeDumper' and (rec['plain'], rec['tag']) != (st['em']['plain'], st['em']['tag']):
                k = 'emit model: L writes plain=%s tag=%r, SafeDumper plain=%s tag=%r (style %s)' % (
                    st['em']['plain'], st['em']['tag'], rec['plain'], rec['tag'], style)
                res['drift'][k] = res['drift'].get(k, 0) + 1
        if st['rep'] != 1:
            continue
        res['situations'] += 1
        for Dn in dumpers:
            for x, (ev, loaded, b, err) in zip(vals, dump_values_in(yaml, Dn, vals, style, flow, pos)):
                ot, ov = digest(x)
                info = {'dumper': Dn, 'value': repr(x), 'feature': value_feature(x), 'ctx': ctx, 'opts': ctx}
                if ev is None:
                    if err and err.startswith('exception:'):
                        rec = {'kind': 'dump', 'text': [], 'plain': False, 'tag': '', 'ot': 'exception', 'ov': {}, 'rb': False}
                    else:
                        rec = {'kind': 'dump', 'text': [], 'plain': False, 'tag': 'none', 'ot': ot, 'ov': ov, 'rb': False}
                    info['error'] = err
                    res['obs'].append((rec, info))
                    continue
                if ot == 'str' and ev.value != x:
                    continue                        # folded / wrapped text: the characters are C07's subject
                res['obs'].append((mk_dump(ev, ot, ov, bool(loaded and same_value(b, x))), info))
                if loaded and (ev.implicit[0] or ev.implicit[1]):
                    bt, bv = digest(b, ev.value.count(':') + 1)
                    if bt == 'str' and b != ev.value:
                        bt = 'other:str-changed'
                    res['obs'].append(({'kind': 'load', 'text': chars(ev.value), 'plain': bool(ev.implicit[0]), 'tag': '', 'ot': bt,
                                        'ov': bv, 'rb': True},
                                       {'loader': ('CSafeLoader' if Dn.startswith('C') else 'SafeLoader') + '/dumped', 'text': ev.value,
                                        'plain': bool(ev.implicit[0]), 'got': repr(b)[:80], 'dumped': repr(x), 'dumper': Dn, 'ctx': ctx}))
    return res


def regex_members(yaml, rnd, count):
    """random members (and near-members: one edit) of every implicit resolver regexp of the real Resolver class"""
    try:
        import re._parser as sp
    except ImportError:
        import sre_parse as sp
    pats = []
    seen = set()
    for ch, lst in yaml.resolver.Resolver.yaml_implicit_resolvers.items():
        for tag, rx in lst:
            if id(rx) not in seen:
                seen.add(id(rx))
                pats.append((tag, rx))
    ts = getattr(yaml.constructor.SafeConstructor, 'timestamp_regexp', None)
    if ts is not None:
        pats.append(('ctor-timestamp', ts))

    def gen(node):
        out = []
        for op, av in node:
            op = str(op)
            if op == 'LITERAL':
                out.append(chr(av))
            elif op == 'NOT_LITERAL':
                out.append('x')
            elif op == 'IN':
                cs = []
                for o2, a2 in av:
                    o2 = str(o2)
                    if o2 == 'LITERAL':
                        cs.append(chr(a2))
                    elif o2 == 'RANGE':
                        cs += [chr(a2[0]), chr(a2[1]), chr(rnd.randint(a2[0], a2[1]))]
                out.append(rnd.choice(cs) if cs else '')
            elif op == 'BRANCH':
                out.append(gen(rnd.choice(av[1])))
            elif op == 'SUBPATTERN':
                out.append(gen(av[3]))
            elif op in ('MAX_REPEAT', 'MIN_REPEAT'):
                lo, hi, sub = av
                hi = min(hi, lo + rnd.choice([0, 1, 1, 2, 3, 7]))
                out.append(''.join(gen(sub) for _ in range(rnd.randint(lo, hi))))
            elif op == 'AT':
                pass
            else:
                raise SystemExit('machinery failure: regexp construct %s not handled by the member generator' % op)
        return ''.join(out)
    alphabet = '0123456789_.:+-eExbao TtZ\t'
    members = []
    for tag, rx in pats:
        tree = sp.parse(rx.pattern, rx.flags)
        for _ in range(count):
            s = gen(tree)
            members.append(s)
            if rnd.random() < 0.5 and s:
                i = rnd.randrange(len(s) + 1)
                c = rnd.random()
                t = s[:i] + rnd.choice(alphabet) + s[i:] if c < 0.4 else s[:max(i - 1, 0)] + s[i:] if c < 0.7 else \
                    s[:max(i - 1, 0)] + rnd.choice(alphabet) + s[i:]
                members.append(t)
    return sorted(set(members))


def corpus_scalars(yaml):
    """texts of the plain scalars in the repository's test data"""
    texts = set()
    for f in sorted(glob.glob(os.path.join(REPO, 'tests/legacy_tests/data/*'))):
        try:
            data = open(f, 'rb').read()
            for ev in yaml.parse(data):
                if isinstance(ev, yaml.ScalarEvent) and ev.style in (None, '') and ev.tag is None:
                    if len(ev.value) <= 80 and all(32 <= ord(c) < 127 or c == '\t' for c in ev.value):
                        texts.add(ev.value)
        except Exception:
            continue
    return sorted(texts)


def observe_loads(yaml, texts, loaders):
    """load every text as a plain scalar (where it can be one) and single-quoted -> trace records"""
    obs = []
    for Ln in loaders:
        L = getattr(yaml, Ln)
        easy = [t for t in texts if not _SUSPECT.search(t)]
        hard = [t for t in texts if _SUSPECT.search(t)]
        for plain, render in ((True, lambda t: t), (False, q_single)):
            pool = ([easy[i:i + BATCH] for i in range(0, len(easy), BATCH)] + [[t] for t in hard]) if plain else \
                [[t for t in texts if '\n' not in t][i:i + BATCH] for i in range(0, len(texts), BATCH)]
            for grp in pool:
                if not grp:
                    continue
                for t, o in zip(grp, load_each(yaml, L, grp, render)):
                    if o is None or (plain and o[0] not in (None, '')):
                        continue
                    style, tag, (oc, val) = o
                    if oc == 'ok':
                        ot, ov = digest(val, t.count(':') + 1)
                        if ot == 'str' and val != t:
                            ot = 'other:str-changed'
                    else:
                        ot, ov = oc, {}
                    obs.append(({'kind': 'load', 'text': chars(t), 'plain': plain, 'tag': '', 'ot': ot, 'ov': ov, 'rb': True},
                                 {'loader': Ln, 'text': t, 'plain': plain, 'got': repr(val)[:80]}))
    return obs


# ------------------------------------------------------------------------- positions and contexts (spec/MC_Contexts.tla)
FORM = {'plain': lambda s: s, 'single': q_single, 'double': q_double}


def print_stream(texts, flow, occs):
    """the YAML stream of one MC_Contexts state.  -> (stream text, [(document, element, role)] per occurrence).
    Each document is a sequence; its elements are scalars (role item) or mappings that collect the key / val occurrences
    linked with 'same'; fillers are v<i> (values of key occurrences) and k<i> (keys of val occurrences)."""
    docs, where = [], []
    for i, o in enumerate(occs):
        text = texts[o['w'] - 1]
        if o['link'] == 'doc' or not docs:
            docs.append([])
        elems = docs[-1]
        ent = (i, o['role'], o['form'], text)
        if o['role'] == 'item':
            elems.append(('item', [ent]))
        elif o['link'] == 'same' and elems and elems[-1][0] == 'map':
            elems[-1][1].append(ent)
        else:
            elems.append(('map', [ent]))
        where.append((len(docs) - 1, len(elems) - 1, o['role']))
    out = []
    for elems in docs:
        if flow:
            parts = []
            for kind, ents in elems:
                if kind == 'item':
                    parts.append(FORM[ents[0][2]](ents[0][3]))
                else:
                    parts.append('{' + ', '.join('%s: v%d' % (FORM[f](s), i) if r == 'key' else 'k%d: %s' % (i, FORM[f](s))
                                                 for i, r, f, s in ents) + '}')
            out.append('--- [' + ', '.join(parts) + ']\n')
        else:
            lines = []
            for kind, ents in elems:
                first = True
                for i, r, f, s in ents:
                    lead = '- ' if first else '  '
                    first = False
                    if r == 'item':
                        lines.append(lead + (FORM[f](s) if f != 'literal' else '|-\n    ' + s))
                    elif r == 'key':
                        lines.append(lead + ('%s: v%d' % (FORM[f](s), i) if f != 'literal' else '? |-\n      %s\n  : v%d' % (s, i)))
                    else:
                        lines.append(lead + 'k%d: ' % i + (FORM[f](s) if f != 'literal' else '|-\n      ' + s))
            out.append('---\n' + '\n'.join(lines) + '\n')
    return ''.join(out), where


def occurrence_nodes(yaml, docs_nodes, where):
    """the scalar node of every occurrence, by position; None when the stream does not have the printed shape"""
    nodes = []
    seen = {}
    for d, e, role in where:
        if d >= len(docs_nodes) or not isinstance(docs_nodes[d], yaml.SequenceNode) or e >= len(docs_nodes[d].value):
            return None
        el = docs_nodes[d].value[e]
        if role == 'item':
            n = el
        else:
            if not isinstance(el, yaml.MappingNode):
                return None
            j = seen.get((d, e), 0)
            seen[(d, e)] = j + 1
            if j >= len(el.value):
                return None
            n = el.value[j][0 if role == 'key' else 1]
        if not isinstance(n, yaml.ScalarNode):
            return None
        nodes.append(n)
    return nodes


def ctx_work(states, extra):
    yaml = use_repo()
    loaders = [getattr(yaml, n) for n in extra['loaders']]
    pool = extra['pool']
    res = {'n': 0, 'docs': 0, 'occ': 0, 'bad': [], 'unprintable': 0, 'traces': [], 'sample': None}
    rnd = random.Random(extra['seed'])
    for st in states:
        res['n'] += 1
        occs = st['occ']
        if not occs:
            continue
        texts = pool[st['pair'] - 1]
        stream, where = print_stream(texts, st['flow'], occs)
        res['docs'] += 1
        if res['sample'] is None and len(occs) > 1 and rnd.random() < 0.05:
            res['sample'] = {'stream': stream, 'expected': [e['cls'] for e in st['exp']]}
        if res['docs'] % 4 == 1:
            try:
                list(yaml.load_all(stream, Loader=yaml.BaseLoader))
            except yaml.YAMLError:
                pass
        for L in loaders:
            ld = L(stream)
            try:
                try:
                    dn = []
                    while ld.check_node():
                        dn.append(ld.get_node())
                except yaml.YAMLError:
                    res['unprintable'] += 1
                    continue
                nodes = occurrence_nodes(yaml, dn, where)
                if nodes is None or any(n.value != texts[o['w'] - 1] or (o['form'] == 'plain') != (n.style in (None, ''))
                                        for n, o in zip(nodes, occs)):
                    res['unprintable'] += 1
                    continue
                for i, (n, o, e) in enumerate(zip(nodes, occs, st['exp'])):
                    text = texts[o['w'] - 1]
                    oc, val = outcome_of(yaml, lambda: ld.construct_object(n, deep=True))
                    res['occ'] += 1
                    j = judge_plain(e['cls'], e['val'], n.tag, oc, val, text)
                    if j:
                        prev = sorted({(p['form'], p['role']) for p in occs[:i] if texts[p['w'] - 1] == text})
                        res['bad'].append({'key': {'side': 'load-context', 'via': L.__name__, 'form': o['form'], 'role': o['role'],
                                                   'expected': classify_key(e['cls'], e['val']), 'got': j[0],
                                                   'same_text_before': [list(x) for x in prev]},
                                           'stream': stream, 'occurrence': i, 'why': j[1]})
                    if len(res['traces']) < extra['sample'] and rnd.random() < 0.002:
                        res['traces'].append((text, o['form'] == 'plain', oc, val if oc == 'ok' else None, L.__name__))
            finally:
                ld.dispose()
    return res


def random_streams(yaml, rnd, pool, count, loaders):
    """code -> spec: seeded random nested flow-style streams over a pool of texts, the same text repeated in several
    forms and positions (keys, values, items, nested, across documents); one load observation per occurrence."""
    obs, skipped = [], 0
    forms = ['plain', 'plain', 'single', 'double']
    for _ in range(count):
        texts = rnd.sample(pool, min(len(pool), rnd.randint(1, 3)))
        occs = []

        def scalar():
            s, f = rnd.choice(texts), rnd.choice(forms)
            occs.append((s, f))
            return FORM[f](s)

        def node(depth):
            c = rnd.random()
            if depth >= 3 or c < 0.45:
                return scalar()
            if c < 0.7:
                return '[' + ', '.join(node(depth + 1) for _ in range(rnd.randint(1, 3))) + ']'
            parts = []
            for _ in range(rnd.randint(1, 3)):
                k = scalar() if rnd.random() < 0.7 else 'f%d' % rnd.randrange(100)
                parts.append('%s: %s' % (k, node(depth + 1)))          # value occurrences are appended after their key
            return '{' + ', '.join(parts) + '}'
        stream = ''.join('--- ' + node(0) + '\n' for _ in range(rnd.randint(1, 3)))
        for Ln in loaders:
            ld = getattr(yaml, Ln)(stream)
            try:
                found = []

                def walk(n):
                    if isinstance(n, yaml.ScalarNode):
                        found.append(n)
                    elif isinstance(n, yaml.SequenceNode):
                        for x in n.value:
                            walk(x)
                    else:
                        for k, v in n.value:
                            walk(k)
                            walk(v)
                try:
                    while ld.check_node():
                        walk(ld.get_node())
                except yaml.YAMLError:
                    skipped += 1
                    continue
                found = [n for n in found if not re.fullmatch(r'f\d+', n.value) or n.value in texts]
                if len(found) != len(occs) or any(n.value != s or (f == 'plain') != (n.style in (None, ''))
                                                  for n, (s, f) in zip(found, occs)):
                    skipped += 1
                    continue
                for n, (s, f) in zip(found, occs):
                    oc, val = outcome_of(yaml, lambda: ld.construct_object(n, deep=True))
                    if oc == 'ok':
                        ot, ov = digest(val, s.count(':') + 1)
                        if ot == 'str' and val != s:
                            ot = 'other:str-changed'
                        # the node tag must agree with the constructed type as well (a str built under an int tag ...)
                        if n.tag != TAGP + {'date': 'timestamp', 'datetime': 'timestamp'}.get(ot, ot):
                            ot = 'other:tag-' + n.tag.replace(TAGP, '')
                    else:
                        ot, ov = oc, {}
                    obs.append(({'kind': 'load', 'text': chars(s), 'plain': f == 'plain', 'tag': '', 'ot': ot, 'ov': ov, 'rb': True},
                                 {'loader': Ln + '/stream', 'text': s, 'plain': f == 'plain', 'got': repr(val)[:80], 'stream': stream[:300]}))
            finally:
                ld.dispose()
    return obs, skipped


# ------------------------------------------------------------------------------------------------------------------ main
def sample_records(sampled):
    """the (text, plain, outcome, value) samples taken during the replay, as trace records (cross-check of both judges)"""
    out = []
    for text, plain, oc, val, who in sampled:
        if oc == 'dump-str':
            out.append(({'kind': 'dump', 'text': chars(text), 'plain': plain, 'tag': '', 'ot': 'str', 'ov': {}, 'rb': True},
                        {'dumper': who, 'value': repr(text), 'feature': 'enumerated str'}))
        else:
            if oc == 'ok':
                ot, ov = digest(val, text.count(':') + 1)
            else:
                ot, ov = oc, {}
            out.append(({'kind': 'load', 'text': chars(text), 'plain': plain, 'tag': '', 'ot': ot, 'ov': ov, 'rb': True},
                        {'loader': who, 'text': text, 'plain': plain, 'got': repr(val)[:80]}))
    return out


def main(tier, replay=None):
    v = Verdict('C08', tier)
    yaml = use_repo()
    rnd = random.Random(SEED * 7919 + 8)
    quick = tier == 'quick'
    loaders = ['SafeLoader', 'CSafeLoader'] if quick else ['SafeLoader', 'CSafeLoader', 'FullLoader']
    dumpers = ['SafeDumper', 'CSafeDumper'] if quick else ['SafeDumper', 'CSafeDumper', 'Dumper']

    # ---- (a) TLC: enumeration + design check
    names = TIERS[tier]
    plans = [[[chars(sym) for sym in slot] for slot in PLANS[n]()] for n in names]
    cfgp = os.path.join(ensure_dir(os.path.join(BUILD, 'traces')), 'C08_plans_%s.json' % tier)
    json.dump({'plans': plans}, open(cfgp, 'w'))
    r = tlc.run('MC_Resolver', cfg='MC_Resolver.cfg', dump=True, coverage=False, tag='C08_' + tier,
                timeout=900 if quick else 3600, env={'C08_CFG': cfgp}, heap=os.environ.get('C08_HEAP', '8g'),
                workers=int(os.environ.get('C08_WORKERS', '16')))
    if r.violated:
        print(r.out[-3000:])
        raise SystemExit('machinery failure: MC_Resolver violates %s (the L model does not refine H)' % r.violated)
    tlc.require_ok(r, 'MC_Resolver/' + tier)

    # ---- (b) spec -> code
    extra = {'loaders': loaders, 'dumpers': dumpers, 'seed': SEED, 'sample': 40 if quick else 120, 'literal': not quick}
    out = mbt.pmap(work, r.dump, extra, procs=PROCS, chunks=128 if quick else 512)
    n = sum(o['n'] for o in out)
    if n != r.distinct:
        raise SystemExit('machinery failure: replayed %d texts, TLC found %d states' % (n, r.distinct))
    os.remove(r.dump)
    devs, drift = {}, {}
    sampled, samples = [], []
    for o in out:
        for k, c in o['devs'].items():
            devs[k] = devs.get(k, 0) + c
        for k, c in o['drift'].items():
            drift[k] = drift.get(k, 0) + c
        sampled += o['traces']
        samples += o['samples']
        for b in o['bad']:
            v.violation(b['key'], b)
    for k, c in sorted(drift.items()):
        v.note('spec-drift C08: %s (%d texts)' % (k, c))
    replayed = sum(o['obs'] for o in out)
    # no vacuity of the timestamp part: every spelling class of TypeRepo!TimestampShape is reached by a text that has a
    # value, the zone classes in every combination
    shapes = [json.loads(x) for x in set().union(*[o['shapes'] for o in out])]
    zones = {tuple(sh['zone']) for sh in shapes}
    want = {(sg, hh, mm) for sg in '+-' for hh in ('0', '00', 'd', '0d', 'dd') for mm in ('absent', '00', 'nonzero')} | {('none',), ('Z',)}
    seen = {'sep': {sh['sep'] for sh in shapes}, 'month digits': {sh['dig'][0] for sh in shapes}, 'day digits': {sh['dig'][1] for sh in shapes},
            'hour digits': {sh['dig'][2] for sh in shapes}, 'fraction digits': {tuple(sh['frac']) for sh in shapes},
            'zone gap': {(sh['gap'], 'off' if sh['zone'][0] in '+-' else sh['zone'][0]) for sh in shapes}}
    need = {'sep': {'date', 'T', 't', 'blank', 'blanks'}, 'month digits': {1, 2}, 'day digits': {1, 2}, 'hour digits': {0, 1, 2},
            'fraction digits': {()} | {(i,) for i in range(8)}, 'zone gap': {(0, 'none'), (0, 'Z'), (1, 'Z'), (0, 'off'), (1, 'off'), (2, 'off')}}
    if tier != 'smoke':
        missing = sorted(want - zones) + [(k, x) for k in need for x in sorted(need[k] - seen[k], key=repr)]
        if missing:
            raise SystemExit('machinery failure: timestamp spelling classes not reached by the enumeration: %r' % (missing,))
    shape_cov = {'distinct_shapes': len(shapes), 'zone_classes': len(zones)}

    # ---- (b2) positions and contexts: every occurrence of a text in a stream is typed by its own text and form
    pairs = CTX_PAIRS if quick else CTX_PAIRS + CTX_PAIRS_MORE
    ctxp = os.path.join(BUILD, 'traces', 'C08_ctx_%s.json' % tier)
    json.dump({'pool': [{'t': [chars(a), chars(b)], 'n': 2 if quick or i >= 1 else 3} for i, (a, b) in enumerate(pairs)]},
              open(ctxp, 'w'))
    rc = tlc.run('MC_Contexts', dump=True, coverage=False, tag='C08_ctx_' + tier, timeout=900 if quick else 3600,
                 env={'C08_CFG': ctxp}, heap=os.environ.get('C08_HEAP', '8g'), workers=int(os.environ.get('C08_WORKERS', '16')))
    if rc.violated:
        print(rc.out[-3000:])
        raise SystemExit('machinery failure: MC_Contexts violates %s' % rc.violated)
    tlc.require_ok(rc, 'MC_Contexts/' + tier)
    cout = mbt.pmap(ctx_work, rc.dump, {'loaders': loaders, 'pool': [list(p) for p in pairs], 'seed': SEED, 'sample': 20},
                    procs=PROCS, chunks=128 if quick else 512)
    if sum(o['n'] for o in cout) != rc.distinct:
        raise SystemExit('machinery failure: replayed %d streams, TLC found %d states' % (sum(o['n'] for o in cout), rc.distinct))
    os.remove(rc.dump)
    ctx_occ = sum(o['occ'] for o in cout)
    ctx_unprintable = sum(o['unprintable'] for o in cout)
    if ctx_occ < rc.distinct:
        raise SystemExit('machinery failure: only %d occurrences of %d streams could be judged' % (ctx_occ, rc.distinct))
    for o in cout:
        sampled += o['traces']
        if o['sample'] and len(samples) < 12:
            samples.append(o['sample'])
        for b in o['bad']:
            v.violation(b['key'], b)
    replayed += ctx_occ

    # ---- (b3) the dump clause in every situation: style asked for x block / flow / auto x position x dumper
    dsp = os.path.join(BUILD, 'traces', 'C08_dumpspace_%s.json' % tier)
    json.dump({'reps': [{'tag': t, 'text': chars(x)} for t, x in DUMP_REPS]}, open(dsp, 'w'))
    rd = tlc.run('MC_DumpSpace', dump=True, coverage=False, tag='C08_dumpspace_' + tier, timeout=900, env={'C08_CFG': dsp},
                 heap='3g', workers=min(4, int(os.environ.get('C08_WORKERS', '16'))))
    if rd.violated:
        print(rd.out[-3000:])
        raise SystemExit('machinery failure: MC_DumpSpace violates %s (the model of serializer / emitter does not refine H)' % rd.violated)
    tlc.require_ok(rd, 'MC_DumpSpace/' + tier)
    dout = mbt.pmap(dump_work, rd.dump, {'reps': [list(x) for x in DUMP_REPS], 'dumpers': dumpers}, procs=PROCS, chunks=64)
    if sum(o['n'] for o in dout) != rd.distinct:
        raise SystemExit('machinery failure: replayed %d dump situations, TLC found %d states' % (sum(o['n'] for o in dout), rd.distinct))
    os.remove(rd.dump)
    nsit = sum(o['situations'] for o in dout)
    if nsit != 60 or rd.distinct != 61 * len(DUMP_REPS):
        raise SystemExit('machinery failure: %d dump situations / %d states (5 styles x 3 flow settings x 4 positions expected)' % (nsit, rd.distinct))
    dobs = [x for o in dout for x in o['obs']]
    ddrift = {}
    for o in dout:
        for k, c in o['drift'].items():
            ddrift[k] = ddrift.get(k, 0) + c
    for k, c in sorted(ddrift.items()):
        v.note('spec-drift C08: %s (%d)' % (k, c))

    # ---- (c) code -> spec, judged by TLC
    vals = gen_values(rnd, tier)
    obs = observe_dumps(yaml, vals, dumpers, {})
    if not quick:
        obs += observe_dumps(yaml, vals, dumpers[:2], {'default_flow_style': True})
        obs += observe_dumps(yaml, vals, dumpers[:2], {'canonical': False, 'width': 20, 'indent': 4})
    nround = sum(1 for o in obs if o[0]['kind'] == 'load')
    ndump = len(obs)
    members = regex_members(yaml, rnd, 120 if quick else 1200)
    corpus = corpus_scalars(yaml)
    obs += observe_loads(yaml, members, loaders)
    nmem = len(obs) - ndump
    obs += observe_loads(yaml, corpus, loaders)
    ncorp = len(obs) - ndump - nmem
    spool = [s for s in members + corpus + KW if s and not _SUSPECT.search(s) and not re.search(r'[,\[\]{}#]|^[-?:]', s)]
    spool += ['2\u0660\u0662\u0664-\u0660\u0661-\u0661\u0665', '\uff11\uff12', '1\u0662', 'ye\u017f', '1\u00a0']
    sobs, sskipped = random_streams(yaml, rnd, spool, 150 if quick else 2000, loaders)
    obs += sobs
    nstream = len(sobs)
    obs += sample_records(sampled)
    obs += dobs
    # the same record (same text, form, tag, value) is written in many situations: TLC judges each distinct record once
    uniq, slot = [], {}
    for rec, _ in obs:
        k = json.dumps(rec, sort_keys=True)
        if k not in slot:
            slot[k] = len(uniq)
            uniq.append(rec)
    uverdicts, tstates = trace.judge('Trace_Types', uniq, 'C08_types_' + tier)
    verdicts = [uverdicts[slot[json.dumps(rec, sort_keys=True)]] for rec, _ in obs]
    rejected, reported = 0, set()
    for (rec, info), (ok, why, at) in zip(obs, verdicts):
        if ok:
            continue
        rejected += 1
        if rec['kind'] == 'emit':
            key = dict({'side': 'emit', 'via': info['dumper'], 'node_tag': rec['ntag'], 'why': why,
                        'written': 'plain' if rec['plain'] else 'not plain', 'tag_written': rec['tag']}, **info['ctx'])
        elif rec['kind'] == 'dump' and 'ctx' in info:
            key = dict({'side': 'dump', 'via': info['dumper'], 'expected': rec['ot'], 'feature': info.get('feature', ''), 'why': why,
                        'microseconds': bool(re.search(r'datetime\((\d+, ){6}\d+', info.get('value', '')))}, **info['ctx'])
            if json.dumps(key, sort_keys=True) in reported:
                continue                            # one report per class of value and situation
            reported.add(json.dumps(key, sort_keys=True))
        elif rec['kind'] == 'dump':
            key = {'side': 'dump', 'via': info['dumper'], 'expected': rec['ot'], 'feature': info.get('feature', ''), 'why': why,
                   'microseconds': 'microsecond=' in info.get('value', '') or bool(re.search(r'datetime\((\d+, ){6}\d+', info.get('value', '')))}
        else:
            key = {'side': 'load', 'via': info['loader'], 'plain': rec['plain'], 'why': why, 'got': rec['ot']}
        v.violation(key, {'info': info, 'why': why, 'emitted_or_loaded_text': ''.join(rec['text']), 'observed_type': rec['ot']})

    v.cov = {'states': r.distinct + rc.distinct + rd.distinct + tstates, 'transitions': r.generated + rc.generated + rd.generated, 'enumerated_texts': r.distinct,
             'traces_validated_against_impl': replayed + len(obs), 'replayed_observations': replayed,
             'tlc_judged_observations': len(obs), 'tlc_judged_dump_observations': ndump - nround,
             'tlc_judged_readbacks_of_dumped_scalars': nround, 'timestamp_spelling_classes': shape_cov,
             'tlc_judged_regexp_members': nmem, 'tlc_judged_corpus_scalars': ncorp, 'tlc_rejected': rejected,
             'tlc_judged_stream_occurrences': nstream, 'random_streams_not_in_shape': sskipped,
             'context_streams': rc.distinct, 'context_occurrences_judged': ctx_occ,
             'context_stream_loads_not_in_shape': ctx_unprintable,
             'dump_situations': nsit, 'dump_space_states': rd.distinct, 'dump_space_nodes': len(DUMP_REPS),
             'dump_space_values_per_situation': dout[0]['values'], 'dump_space_observations': len(dobs),
             'tlc_judged_distinct_records': len(uniq),
             'exhaustive': True, 'distinct_nontrivial': sum(o['nontrivial'] for o in out),
             'texts_loadable_as_plain_scalar': sum(o['plain'] for o in out),
             'rule': 'one TLC state per text of the plans; non-trivial = the repository gives the text a type other than str; '
                     'every text is resolved, loaded plain/single/double/literal with %s and dumped as str with %s (a part of them after BaseLoader / CBaseLoader / BaseDumper saw the text in the same process)'
                     % (', '.join(loaders), ', '.join(dumpers)),
             'model_relation_counts': devs, 'plans': {nm: [len(s) for s in PLANS[nm]()] for nm in names},
             'generated_values': len(vals), 'samples': samples[:8],
             'actions': {'Extend': r.generated - len(names), 'AddOccurrence': rc.generated - 2 * len(pairs), 'Situate': rd.generated - len(DUMP_REPS)}}
    v.cov['dump_space_rule'] = ('MC_DumpSpace: one TLC state per scalar node of the pool x style asked for (none \' " | >) x default_flow_style '
                                '(False True None) x position (root, item, key, value); every state is serialized with %s, and in every '
                                'situation every boundary value of every type is dumped; each emitted scalar is judged by TLC (Trace_Types)'
                                % ', '.join(dumpers))
    v.assumptions = ['texts are sequences over the plan alphabets (ASCII); characters outside them are covered only by the corpus scalars',
                     'a text counts as a plain scalar when the loader under test reads "- <text>" as one plain scalar equal to it',
                     'decimal floats must be correctly rounded (exact rational arithmetic); sexagesimal floats within one ulp per term',
                     'datetimes: same instant, same zone awareness, microseconds = the first six fraction digits (truncation, as PyYAML documents); the UTC offset itself is not compared',
                     'texts whose type has no value (0x_, month 13, hour 24, zone +24:00): a YAML error or any value, but no other exception',
                     'dump situations: scalar nodes of one line of printable ASCII; collections of one scalar (sequence) or one pair (mapping), one nesting level',
                     'TLC coverage statistics are off for MC_Resolver (the regexp ASTs make -coverage run out of memory); '
                     'the single action Extend generates every non-initial state']
    return v.finish()
