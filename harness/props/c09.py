"""C09 - tokens and events are grammatical and their positions are true.

Parser half:
  (a) design check: spec/Parser.tla without history, all token sequences up to the bound, invariants NoCrash,
      Grammatical (H monitor EventGrammar), CompleteAtEnd, marks in range / monotone;
  (b) MBT: the history-carrying configuration; every complete token sequence (parser finished or failed) is fed to
      a real yaml.parser.Parser through a stub token source; the real event stream is judged by TLC against
      Trace_Events.tla (H verdict) and compared with the model's event list (L: drift only);
  (c) the events (both back-ends) and tokens of the repository's data corpus and of seeded mutations of it are judged by
      TLC against Trace_Events.tla / Trace_Tokens.tla, including line/column = Pos(input, index) for the Python pipeline.
"""
import itertools
import glob, os, random, re
from .. import tlc, mbt, trace
from ..common import Verdict, use_repo, REPO, SEED

TOK = ["DY1", "DY2", "DT1", "DS", "DE", "BSS", "BMS", "BEND", "FSS", "FMS", "FSE", "FME", "BENTRY", "FENTRY", "KEY",
       "VALUE", "ALIAS", "ANCHOR", "TAG", "TAGH1", "SCALAR"]


def tla_set(xs):
    return '{' + ', '.join('"%s"' % x for x in xs) + '}'


# ------------------------------------------------------------------ stub token source + real parser
def make_driver(yaml):
    from yaml import tokens as T
    from yaml.parser import Parser
    from yaml.error import Mark

    def mk(kind, i):
        s, e = Mark('stub', 2 * i, 0, 2 * i, None, None), Mark('stub', 2 * i + 1, 0, 2 * i + 1, None, None)
        if kind == 'SS':
            return T.StreamStartToken(s, e, encoding=None)
        if kind == 'SE':
            return T.StreamEndToken(s, e)
        if kind == 'DY1':
            return T.DirectiveToken('YAML', (1, 1), s, e)
        if kind == 'DY2':
            return T.DirectiveToken('YAML', (2, 0), s, e)
        if kind == 'DT1':
            return T.DirectiveToken('TAG', ('!h1!', 'tag:h1:'), s, e)
        if kind == 'ALIAS':
            return T.AliasToken('x', s, e)
        if kind == 'ANCHOR':
            return T.AnchorToken('x', s, e)
        if kind == 'TAG':
            return T.TagToken(('!', 'foo'), s, e)
        if kind == 'TAGH1':
            return T.TagToken(('!h1!', 'bar'), s, e)
        if kind == 'SCALAR':
            return T.ScalarToken('v', True, s, e)
        cls = {'DS': T.DocumentStartToken, 'DE': T.DocumentEndToken, 'BSS': T.BlockSequenceStartToken,
               'BMS': T.BlockMappingStartToken, 'BEND': T.BlockEndToken, 'FSS': T.FlowSequenceStartToken,
               'FMS': T.FlowMappingStartToken, 'FSE': T.FlowSequenceEndToken, 'FME': T.FlowMappingEndToken,
               'BENTRY': T.BlockEntryToken, 'FENTRY': T.FlowEntryToken, 'KEY': T.KeyToken, 'VALUE': T.ValueToken}[kind]
        return cls(s, e)

    class Stub(Parser):
        def __init__(self, kinds):
            Parser.__init__(self)
            self.toks = [mk(k, i) for i, k in enumerate(kinds)]

        def check_token(self, *choices):
            if self.toks:
                if not choices:
                    return True
                for c in choices:
                    if isinstance(self.toks[0], c):
                        return True
            return False

        def peek_token(self):
            return self.toks[0] if self.toks else None

        def get_token(self):
            return self.toks.pop(0) if self.toks else None

    def run(kinds):
        """-> (events [[kind, s, e]], outcome, errmarks)"""
        p = Stub(kinds)
        evs, outcome, errm = [], 'ok', []
        try:
            while p.check_event():
                ev = p.get_event()
                evs.append([type(ev).__name__[:-5], ev.start_mark.index, ev.end_mark.index])
        except yaml.YAMLError as e:
            outcome = 'yamlerror'
            for m in (getattr(e, 'context_mark', None), getattr(e, 'problem_mark', None)):
                if m is not None:
                    errm.append(m.index)
        except Exception as e:
            outcome = 'exception:' + type(e).__name__
        return evs, outcome, errm
    return run


def work(states, extra):
    yaml = use_repo()
    run = make_driver(yaml)
    res = {'n': 0, 'tested': 0, 'traces': {}, 'drift': [], 'finals': {}}
    for st in states:
        res['n'] += 1
        if st['st'] not in ('done', 'error', 'crash'):
            continue
        res['tested'] += 1
        res['finals'][st['st']] = res['finals'].get(st['st'], 0) + 1
        toks = st['toks']
        evs, outcome, errm = run(toks)
        key = (tuple(map(tuple, evs)), outcome, tuple(errm), 2 * len(toks))
        if key not in res['traces']:
            res['traces'][key] = toks
        # L comparison (drift only)
        exp_out = {'done': 'ok', 'error': 'yamlerror', 'crash': 'exception'}[st['st']]
        lev = [list(x) for x in st['out']]
        lerr = [] if st['st'] != 'error' else ([st['err']['c']] if st['err']['what'] not in (
            'duplicate YAML directive', 'incompatible', 'duplicate tag handle', 'expected <document start>') else []) + [st['err']['p']]
        if evs != lev or outcome.split(':')[0] != exp_out or (st['st'] == 'error' and errm != lerr):
            if len(res['drift']) < 5:
                res['drift'].append({'tokens': toks, 'model': [lev, st['st'], lerr], 'real': [evs, outcome, errm]})
            res['ndrift'] = res.get('ndrift', 0) + 1
    return res


def ev_trace(evs, outcome, errm, length, exact=False, breaks=(0,), boms=()):
    return {'len': length, 'outcome': outcome if outcome in ('ok', 'yamlerror') else 'exception',
            'events': [{'k': k, 's': s, 'e': e, 'sl': 0, 'sc': 0, 'el': 0, 'ec': 0} if len(x) == 3 else
                       {'k': x[0], 's': x[1], 'e': x[2], 'sl': x[3], 'sc': x[4], 'el': x[5], 'ec': x[6]}
                       for x in evs for k, s, e in [x[:3]]],
            'errmarks': [{'i': m, 'l': 0, 'c': 0} if isinstance(m, int) else {'i': m[0], 'l': m[1], 'c': m[2]} for m in errm],
            'exact': exact, 'breaks': list(breaks), 'boms': list(boms)}


# ------------------------------------------------------------------ corpus (real scanner + parser, both back-ends)
def line_structure(text):
    """indices at which a line starts, and positions of zero-width U+FEFF (projection of the input only)"""
    breaks, boms, i, n = [0], [], 0, len(text)
    while i < n:
        ch = text[i]
        if ch == '\r' and i + 1 < n and text[i + 1] == '\n':
            i += 2
            breaks.append(i)
            continue
        if ch in '\r\n\x85  ':
            breaks.append(i + 1)
        elif ch == '﻿':
            boms.append(i)
        i += 1
    return breaks, boms


def corpus_inputs(tier):
    rnd = random.Random(SEED)
    files = sorted(glob.glob(os.path.join(REPO, 'tests/legacy_tests/data/*')))
    texts = []
    for f in files:
        if f.endswith(('.code', '.detect', '.py', '.pyc')):
            continue
        try:
            b = open(f, 'rb').read()
            t = b.decode('utf-8')
        except Exception:
            continue
        if len(t) > 9000 or not t:
            continue
        texts.append((os.path.basename(f), t))
    out = list(texts)
    nmut = 2 if tier == 'quick' else 12
    alphabet = ['-', ':', ' ', '\n', '[', ']', '{', '}', ',', '&a', '*a', '!t', '|', '>', '"', "'", '#', '?', '\t', '---', '...',
                '%', '\r\n', ' ', 'x']
    for name, t in texts:
        for j in range(nmut):
            k = rnd.randrange(len(t) + 1)
            op = rnd.randrange(3)
            if op == 0:
                m = t[:k]                                   # truncation
            elif op == 1:
                m = t[:k] + rnd.choice(alphabet) + t[k:]    # insertion
            else:
                m = t[:k] + t[k + 1 + rnd.randrange(3):]    # deletion
            out.append(('%s~%d' % (name, j), m))
    return out + scaled_inputs(rnd, tier)


def scaled_inputs(rnd, tier):
    """Inputs whose size crosses the constants of the reader and the scanner: single-line flow collections longer than the
    1024-character simple-key limit in every simple-key position, and documents whose length straddles the 4096-character
    refill block (delivered as str and through streams).  Names start with '@' so that corpus_work adds stream delivery."""
    out = []
    word = lambda: ''.join(rnd.choice('abcdefgh') for _ in range(rnd.randrange(1, 9)))
    n = 3 if tier == 'quick' else 24
    longword = lambda: ''.join(rnd.choice('abcdefgh') for _ in range(rnd.randrange(50, 110)))
    for j in range(4 * n):
        target = rnd.randrange(1030, 2600)
        items = []
        kind = ['map', 'seqmap', 'seq', 'map'][j % 4]
        while sum(len(x) + 2 for x in items) < target:
            items.append({'map': '%s: %s' % (word(), word()), 'seq': word(), 'seqmap': '{%s: %s}' % (word(), word())}[kind])
        body = ('{%s}' if kind == 'map' else '[%s]') % ', '.join(items)
        for pos, fmt in (('root', '%s\n'), ('entry', '- %s\n- x\n'), ('qkey', '? %s\n: v\n'), ('value', 'k: %s\n'),
                         ('key', '%s: v\n'))[:5 if j % 4 == 0 else 4]:
            out.append(('@flow-%s-%s-%d' % (kind, pos, j), fmt % body))
    for j in range(n):
        block = rnd.choice([4096, 8192])
        total = block + rnd.randrange(-3, 4)
        lines = []
        while sum(len(x) for x in lines) < total - 12:
            lines.append('%s: %s\n' % (word(), longword()))          # few, long lines: the traces stay small
        head = ''.join(lines)
        pad = total - len(head) - len('k: ')
        tail = 'k: ' + 'v' * max(1, min(pad, 9))
        for end in ('', '\n'):
            out.append(('@block-%d-%d%s' % (block, j, 'n' if end else ''), head + tail + end))
        for extra in range(0, 9, 4):
            out.append(('@block1-%d-%d-%d' % (block, j, extra), head + ('w: %s\n' % ('u' * extra) if extra else '') + 'count: 5'))
    return out


class ShortReads:
    """a stream whose read(n) returns pieces of the given sizes (cyclically), never more than n"""
    def __init__(self, data, sizes):
        self.data, self.pos, self.sizes, self.k = data, 0, sizes, 0

    def read(self, n=-1):
        size = self.sizes[self.k % len(self.sizes)]
        self.k += 1
        if n is not None and n >= 0:
            size = min(size, n)
        piece = self.data[self.pos:self.pos + size]
        self.pos += len(piece)
        return piece


def crc(name):
    import zlib
    return zlib.crc32(name.encode()) + SEED


FULL_BOM = False


def corpus_work(items):
    yaml = use_repo()
    import io
    from yaml.reader import Reader
    traces, meta, ttraces = [], [], []
    for name, text in items:
        try:
            Reader(text)                         # inputs with non-printable characters belong to C07/C03
        except yaml.YAMLError:
            continue
        breaks, boms = line_structure(text)
        import io
        variants = [('py', yaml.Loader, lambda: text, len(text), True),
                    ('c', yaml.CLoader, lambda: text.encode('utf-8'), len(text.encode('utf-8')), False)]
        if name.startswith('@') or len(text) > 2000:
            variants += [('py-textstream', yaml.Loader, lambda: io.StringIO(text), len(text), True),
                         ('py-bytestream', yaml.Loader, lambda: io.BytesIO(text.encode('utf-8')), len(text), True),
                         ('c-bytestream', yaml.CLoader, lambda: io.BytesIO(text.encode('utf-8')), len(text.encode('utf-8')), False)]
        # short reads: every refill boundary of the reader falls inside some lexeme (anchors, aliases, directive names, plain
        # scalars, indentation), at seeded piece sizes of 1-7 units
        if name.startswith('@') or any(c in text for c in '&*%!') or crc(name) % 4 == 0:
            sizes = [1 + (crc(name) + 7 * k) % 7 for k in range(5)]
            variants += [('py-shortread-text', yaml.Loader, lambda: ShortReads(text, sizes), len(text), True),
                         ('py-shortread-bytes', yaml.Loader, lambda: ShortReads(text.encode('utf-8'), sizes), len(text), True)]
        # byte input that starts with a byte order mark: the input of the property is then the decoded character sequence, the mark
        # included (that is the sequence the reader's index counts on the unchanged tree, as for a str that starts with U+FEFF)
        bomv = []
        if not text.startswith('\ufeff') and '~' not in name:
            t2 = '\ufeff' + text
            b2, m2 = line_structure(t2)
            enc = [('py-bom-utf8', 'utf-8'), ('py-bom-utf16le', 'utf-16-le'), ('py-bom-utf16be', 'utf-16-be')]
            for tagname, codec in (enc if name.startswith('@') or FULL_BOM else [enc[crc(name) % 3]]):
                data = t2.encode(codec)
                bomv.append((tagname, yaml.Loader, (lambda d=data: d) if crc(name) % 2 else (lambda d=data: io.BytesIO(d)),
                             len(t2), True, t2, b2, m2))
        for variant in [x + (text, breaks, boms) for x in variants] + bomv:
            backend, L, mk, length, exact, txt, brk, bms = variant
            evs, outcome, errm = [], 'ok', []
            try:
                for ev in yaml.parse(mk(), Loader=L):
                    s, e = ev.start_mark, ev.end_mark
                    evs.append([type(ev).__name__[:-5], s.index, e.index, s.line, s.column, e.line, e.column])
            except yaml.YAMLError as ex:
                outcome = 'yamlerror'
                for m in (getattr(ex, 'context_mark', None), getattr(ex, 'problem_mark', None)):
                    if m is not None:
                        errm.append([m.index, m.line, m.column])
            except Exception as ex:
                outcome = 'exception:' + type(ex).__name__
            traces.append(ev_trace(evs, outcome, errm, length, exact, brk, bms))
            meta.append({'input': name, 'backend': backend, 'text': txt if len(txt) < 400 else txt[:400] + '...'})
            # token level
            toks, outcome, errm = [], 'ok', []
            try:
                for tk in yaml.scan(mk(), Loader=L):
                    s, e = tk.start_mark, tk.end_mark
                    kind = type(tk).__name__[:-5]
                    chk, val, span = False, '', ''
                    if exact and s.line == e.line:
                        if kind in ('Anchor', 'Alias'):
                            chk, val, span = True, tk.value, txt[s.index + 1:e.index]
                        elif kind == 'Scalar' and tk.plain:
                            chk, val, span = True, tk.value, txt[s.index:e.index]
                    toks.append({'k': kind, 's': s.index, 'e': e.index, 'sl': s.line, 'sc': s.column, 'el': e.line,
                                 'ec': e.column, 'chk': chk, 'val': val, 'span': span})
            except yaml.YAMLError as ex:
                outcome = 'yamlerror'
                for m in (getattr(ex, 'context_mark', None), getattr(ex, 'problem_mark', None)):
                    if m is not None:
                        errm.append({'i': m.index, 'l': m.line, 'c': m.column})
            except Exception as ex:
                outcome = 'exception'
            ttraces.append({'len': length, 'outcome': outcome, 'tokens': toks, 'errmarks': errm, 'exact': exact,
                            'breaks': brk, 'boms': bms})
    return traces, meta, ttraces


# ------------------------------------------------------------------ every short string over structural focus alphabets
ENUM = {'quick': [('flow', '[]a: ,', 7, 5), ('block', '-a: \n?', 6, 5), ('mixed', '{}[]a:, ?-\n', 4, 4)],
        'thorough': [('flow', '[]a: ,', 8, 7), ('block', '-a: \n?', 7, 7), ('mixed', '{}[]a:, ?-\n', 5, 5), ('quote', '"a: \n\'#', 6, 6)]}


def enum_strings(tier):
    """(family, alphabet, n) -> all strings of length 1..n; split into prefix classes so that workers regenerate their share"""
    jobs = []
    for fam, alpha, ntok, nev in ENUM[tier]:
        for first2 in itertools.product(alpha, repeat=2):
            jobs.append((fam, alpha, ntok, nev, ''.join(first2)))
        jobs.append((fam, alpha, 1, 1, ''))                 # the strings of length 1
    return jobs


def enum_work(jobs):
    """tokens of every string (pure-Python scanner), events of the shorter ones (pure-Python parser); str input only:
    delivery forms are C07's business, the C back-end is held to less by the statement and is covered by the corpus part"""
    yaml = use_repo()
    ttraces, etraces, tmeta, emeta = [], [], [], []
    for fam, alpha, ntok, nev, pre in jobs:
        if pre == '':
            texts = list(alpha)
        else:
            texts = [pre] + [pre + ''.join(t) for n in range(1, ntok - 1) for t in itertools.product(alpha, repeat=n)]
        for text in texts:
            breaks, boms = line_structure(text)
            toks, outcome, errm = [], 'ok', []
            try:
                for tk in yaml.scan(text, Loader=yaml.Loader):
                    s, e = tk.start_mark, tk.end_mark
                    kind = type(tk).__name__[:-5]
                    chk, val, span = False, '', ''
                    if kind == 'Scalar' and tk.plain and s.line == e.line:
                        chk, val, span = True, tk.value, text[s.index:e.index]
                    toks.append({'k': kind, 's': s.index, 'e': e.index, 'sl': s.line, 'sc': s.column, 'el': e.line,
                                 'ec': e.column, 'chk': chk, 'val': val, 'span': span})
            except yaml.YAMLError as ex:
                outcome = 'yamlerror'
                for m in (getattr(ex, 'context_mark', None), getattr(ex, 'problem_mark', None)):
                    if m is not None:
                        errm.append({'i': m.index, 'l': m.line, 'c': m.column})
            except Exception:
                outcome = 'exception'
            ttraces.append({'len': len(text), 'outcome': outcome, 'tokens': toks, 'errmarks': errm, 'exact': True,
                            'breaks': breaks, 'boms': boms})
            tmeta.append(fam + ':' + text)
            if len(text) > nev:
                continue
            evs, outcome, errm = [], 'ok', []
            try:
                for ev in yaml.parse(text, Loader=yaml.Loader):
                    s, e = ev.start_mark, ev.end_mark
                    evs.append([type(ev).__name__[:-5], s.index, e.index, s.line, s.column, e.line, e.column])
            except yaml.YAMLError as ex:
                outcome = 'yamlerror'
                for m in (getattr(ex, 'context_mark', None), getattr(ex, 'problem_mark', None)):
                    if m is not None:
                        errm.append([m.index, m.line, m.column])
            except Exception as ex:
                outcome = 'exception:' + type(ex).__name__
            etraces.append(ev_trace(evs, outcome, errm, len(text), True, breaks, boms))
            emeta.append(fam + ':' + text)
    return ttraces, tmeta, etraces, emeta


def main(tier, replay=None):
    v = Verdict('C09', tier)
    # (a) design check, lazy token choice
    r = tlc.run('Parser', cfg='MC_Parser.cfg', tag='C09_design', timeout=3000,
                constants={'MaxTokens': 7 if tier == 'quick' else 9, 'Tok': tla_set(TOK), 'History': 'FALSE'})
    if r.violated:
        print(r.out[-3000:])
        raise SystemExit('machinery failure: Parser.tla violates %s (L => H fails in the model)' % r.violated)
    tlc.require_ok(r, 'Parser design check')
    unfired = [a for a, c in r.actions.items() if c[1] == 0]
    if unfired or len(r.actions) < 38:
        raise SystemExit('machinery failure: parser actions never taken: %s (%d actions seen)' % (unfired, len(r.actions)))
    states, trans = r.distinct, r.generated
    # (b) MBT
    r2 = tlc.run('Parser', cfg='MC_Parser.cfg', tag='C09_mbt', dump=True, timeout=3000, coverage=False,
                 constants={'MaxTokens': 5 if tier == 'quick' else 6, 'Tok': tla_set(TOK), 'History': 'TRUE'})
    tlc.require_ok(r2, 'Parser MBT')
    states += r2.distinct
    trans += r2.generated
    out = mbt.pmap(work, r2.dump)
    os.remove(r2.dump)
    if sum(o['n'] for o in out) != r2.distinct:
        raise SystemExit('machinery failure: dump/state count mismatch')
    tested = sum(o['tested'] for o in out)
    finals = {}
    uniq = {}
    for o in out:
        for k, n in o['finals'].items():
            finals[k] = finals.get(k, 0) + n
        uniq.update(o['traces'])
    ndrift = sum(o.get('ndrift', 0) for o in out)
    if ndrift:
        ex = [d for o in out for d in o['drift']][:3]
        v.note('spec-drift C09/parser: %d token sequences where the real parser differs from Parser.tla, e.g. %s' % (ndrift, ex))
    keys = list(uniq)
    traces = [ev_trace([list(e) for e in k[0]], k[1], list(k[2]), k[3]) for k in keys]
    verdicts, s3 = trace.judge('Trace_Events', traces, 'C09_stub')
    states += s3
    for k, (ok, why, at) in zip(keys, verdicts):
        if not ok:
            v.violation({'stage': 'parser', 'clause': why, 'driver': 'stub-tokens'},
                        {'tokens': uniq[k], 'events': k[0], 'outcome': k[1], 'at_event': at})
    # (c) corpus + mutations, both back-ends
    items = corpus_inputs(tier)
    global FULL_BOM
    FULL_BOM = tier == 'thorough'
    import multiprocessing as mp
    chunks = [items[i::32] for i in range(32)]
    with mp.Pool(16) as pool:
        res = pool.map(corpus_work, chunks)
    ctraces = [t for r_ in res for t in r_[0]]
    cmeta = [m for r_ in res for m in r_[1]]
    verdicts, s4 = trace.judge('Trace_Events', ctraces, 'C09_corpus')
    states += s4
    for m, t, (ok, why, at) in zip(cmeta, ctraces, verdicts):
        if not ok:
            v.violation({'stage': 'events', 'clause': why, 'backend': m['backend'],
                         'input': m['input'].split('~')[0]},
                        {'input': m, 'at_event': at, 'event': t['events'][at - 1] if 0 < at <= len(t['events']) else None,
                         'outcome': t['outcome'], 'errmarks': t['errmarks']})
    ttraces = [t for r_ in res for t in r_[2]]
    verdicts, s5 = trace.judge('Trace_Tokens', ttraces, 'C09_tokens')
    states += s5
    for m, t, (ok, why, at) in zip(cmeta, ttraces, verdicts):
        if not ok:
            v.violation({'stage': 'tokens', 'clause': why, 'backend': m['backend'], 'input': m['input'].split('~')[0]},
                        {'input': m, 'at_token': at, 'token': t['tokens'][at - 1] if 0 < at <= len(t['tokens']) else None,
                         'outcome': t['outcome'], 'errmarks': t['errmarks']})
    # (c2) every short string over the structural focus alphabets, pure-Python scanner and parser, judged by the same modules
    jobs = enum_strings(tier)
    with mp.Pool(16) as pool:
        eres = pool.map(enum_work, [jobs[i::64] for i in range(64)], chunksize=1)
    ett = [t for r_ in eres for t in r_[0]]
    etm = [m for r_ in eres for m in r_[1]]
    eet = [t for r_ in eres for t in r_[2]]
    eem = [m for r_ in eres for m in r_[3]]
    verdicts, s6 = trace.judge('Trace_Tokens', ett, 'C09_enum_tokens', batch=40000)
    states += s6
    for m, t, (ok, why, at) in zip(etm, ett, verdicts):
        if not ok:
            v.violation({'stage': 'tokens', 'clause': why, 'backend': 'py', 'input': 'enum:' + m.split(':')[0]},
                        {'input': m, 'at_token': at, 'tokens': [(x['k'], x['s'], x['e']) for x in t['tokens']],
                         'outcome': t['outcome'], 'errmarks': t['errmarks']})
    verdicts, s7 = trace.judge('Trace_Events', eet, 'C09_enum_events', batch=40000)
    states += s7
    for m, t, (ok, why, at) in zip(eem, eet, verdicts):
        if not ok:
            v.violation({'stage': 'events', 'clause': why, 'backend': 'py', 'input': 'enum:' + m.split(':')[0]},
                        {'input': m, 'at_event': at, 'events': [(x['k'], x['s'], x['e']) for x in t['events']],
                         'outcome': t['outcome'], 'errmarks': t['errmarks']})
    # (d) error.py: what a Mark prints (Snippet.tla / Trace_Snippet.tla) - not part of C09's statement: drift notes only
    from .. import snippet
    sn = snippet.stage(tier, 'C09_snippet')
    states += sn['states']
    trans += sn['transitions']
    if sn['drift']:
        v.note('spec-drift C09/snippet: Mark.get_snippet differs from Snippet.tla on %d of %d enumerated (buffer, pointer, '
               'max_length, indent), e.g. %s' % (sn['drift'], sn['replayed'], sn['examples'][:1]))
    if sn['rejected']:
        v.note('spec-drift C09/snippet: %d of %d marks of real errors are not what Snippet.tla computes (%s), e.g. %s'
               % (len(sn['rejected']), sn['judged'], sorted({w for w, _ in sn['rejected']}), str(sn['rejected'][0][1])[:300]))
    v.cov = {'states': states, 'transitions': trans, 'corpus_token_streams_judged': len(ttraces),
             'enumerated_strings_token_streams_judged': len(ett), 'enumerated_strings_event_streams_judged': len(eet),
             'enumerated_families': {f: {'alphabet': a, 'tokens_up_to': nt, 'events_up_to': ne} for f, a, nt, ne in ENUM[tier]},
             'snippet_states_replayed': sn['replayed'], 'snippet_error_marks_judged': sn['judged'],
             'traces_validated_against_impl': len(traces) + len(ctraces) + len(ttraces) + len(ett) + len(eet) + sn['replayed'] + sn['judged'],
             'token_sequences_replayed': tested, 'distinct_event_streams_judged': len(traces),
             'corpus_event_streams_judged': len(ctraces), 'model_outcomes': finals, 'exhaustive': True,
             'actions_fired': {a: c[1] for a, c in r.actions.items()},
             'samples': [{'tokens': uniq[k], 'events': [e[0] for e in k[0]], 'outcome': k[1]} for k in keys[:3]] +
                        [{'input': m['input'], 'backend': m['backend']} for m in cmeta[:2]],
             'rule': 'design check over all token sequences <= %d tokens (lazy choice); every complete sequence of the '
                     'history configuration replayed through the real Parser; corpus + seeded mutations through scan/parse of '
                     'both back-ends; all real event streams judged by TLC (Trace_Events.tla)' % (7 if tier == 'quick' else 9)}
    v.assumptions = ['token sequences start with STREAM-START and end with STREAM-END exactly once',
                     'LibYAML marks: range / order / grammar only (byte offsets), as the property states']
    return v.finish()
