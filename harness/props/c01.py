"""C01 - safe loading is confined to plain data, for every document (spec/Construct.tla, H_Confinement.tla)."""
from ..common import Verdict
from .. import confine as K

ALL = K.CORE12 + K.REPO3 + K.PYEXACT + K.PYPREFIX + K.LOOKALIKE
PARENTS = ['seq', 'map', 'set', 'omap', 'pairs', 'str', 'null', 'py/tuple', 'py/name:', 'py/object/apply:', 'local']
CONFIGS = {
    'solo': dict(MaxNodes=1, LeafBases=ALL, ParentBases=['seq'], Names=K.ALLNAMES, Vals=['g', 'b', 'e'], MaxEntries=2, MustChain='TRUE'),
    'pair': dict(MaxNodes=2, LeafBases=ALL, ParentBases=PARENTS, Names=['res', 'unimpsub'], Vals=['g', 'e'],
                 MaxEntries=1, MustChain='TRUE'),
    'pair2': dict(MaxNodes=2, LeafBases=['str', 'local', 'py/object/apply:', 'py/name:'],
                  ParentBases=['seq', 'map', 'set', 'omap', 'str'], Names=['res'], Vals=['g', 'e'],
                  MaxEntries=2, MustChain='TRUE'),
    'triple': dict(MaxNodes=3, LeafBases=['int', 'local', 'py/object/apply:'],
                   ParentBases=['seq', 'map', 'omap', 'str', 'local'], Names=['res'], Vals=['g'], MaxEntries=1, MustChain='TRUE'),
    # a merge source whose entries the merging mapping overrides: every merged pair is still constructed
    'merge3': dict(MaxNodes=3, LeafBases=['local', 'py/object/apply:'], ParentBases=['map'], Names=['res'], Vals=['g'],
                   MaxEntries=2, MustChain='TRUE', Kinds=['s', 'm'], LeafKinds=['s'], KeyFillers=['k', 'M']),
    # the '=' default value of a mapping that carries a scalar type: the converters must be handed text, never an object the
    # default value's own tag would select (python/name on a mapping-form default value, existing objects whose methods record)
    'eqobj': dict(MaxNodes=2, LeafBases=['str', 'int', 'local', 'py/name:', 'py/object/apply:'],
                  ParentBases=['null', 'bool', 'int', 'float', 'binary', 'timestamp', 'str', 'map', 'py/none', 'py/bool', 'py/str',
                               'py/bytes', 'py/int', 'py/long', 'py/float', 'py/complex', 'py/name:'],
                  Names=['trap', 'res'], Vals=['g', 'e'], MaxEntries=1, MustChain='TRUE', Kinds=['s', 'm'], LeafKinds=['s', 'm'],
                  KeyFillers=['k', 'V'], ValFillers=['x', 'E']),
    # existing objects of every kind (function, class, lazy attribute, builtin, iterator, generic object, Mapping instance,
    # unhashable object) named by python/name on a scalar or on a mapping with a '=' key, in every position of a 2-node
    # document: element, key, value, set member, omap entry, merge source, '=' default
    'objpos': dict(MaxNodes=2, LeafBases=['py/name:'],
                   ParentBases=['seq', 'map', 'set', 'omap', 'pairs', 'str', 'py/dict', 'py/tuple', 'py/list'],
                   Names=K.OBJNAMES, Vals=['e'], MaxEntries=1, MustChain='TRUE', Kinds=['s', 'q', 'm'], LeafKinds=['s', 'm'],
                   KeyFillers=['k', 'M', 'V'], ValFillers=['x', 'E']),
    # thorough only
    'pairw': dict(MaxNodes=2, LeafBases=ALL, ParentBases=ALL, Names=K.ALLNAMES, Vals=['g', 'b', 'e'], MaxEntries=1, MustChain='TRUE'),
    'triplew': dict(MaxNodes=3, LeafBases=['str', 'int', 'local', 'py/name:', 'py/object/apply:', 'merge', 'value'],
                    ParentBases=['seq', 'map', 'set', 'omap', 'str', 'py/tuple', 'local', 'py/object/apply:'],
                    Names=['res', 'unimp'], Vals=['g', 'e'], MaxEntries=1, MustChain='TRUE'),
    'free2': dict(MaxNodes=2, LeafBases=['str', 'local', 'py/object/apply:', 'py/name:', 'set', 'binary'],
                  ParentBases=['seq', 'map', 'set', 'omap', 'pairs', 'str', 'null', 'local', 'py/dict'], Names=['res', 'lazy'],
                  Vals=['g', 'e'], MaxEntries=2, MustChain='FALSE'),
}
# (the large configurations first: all TLC runs start side by side, each dump is replayed when its run completes)
TIERS = {'quick': ['pair', 'triple', 'pair2', 'merge3', 'eqobj', 'objpos', 'solo'],
         'thorough': ['pairw', 'triplew', 'free2', 'eqobj', 'objpos', 'solo']}
# customisation histories of the application before it loads (spec/ConstructPrelude.tla)
PRELUDES = {'quick': ['hist2', 'hist3q'], 'thorough': ['hist2', 'hist3', 'hist4q']}


def replay_file(path, pid):
    """Re-run the documents of a replay file: each is loaded once with the unsafe loaders (the order the check uses) and
    then with the entry point that was reported; prints what is observed now. Exit 1 if any still violates H."""
    import json
    from ..common import use_repo
    yaml = use_repo()
    K.customise(yaml)
    ins = K.Instruments(yaml)
    d = json.load(open(path))
    bad = 0
    for x in d['violations']:
        det = x['detail']
        if 'history' in det:
            # a customisation history (ConstructPrelude.tla): performed in a forked child, then the reported load
            entries = [('Unsafe', 'UnsafeLoader'), ('Unsafe', 'CUnsafeLoader'), ('x', det['entry'])]
            out = K.in_child(lambda: K.replay_history(yaml, ins, det['history'], None, None, entries))
            if out is None:
                raise SystemExit('machinery failure: replay of history %s failed' % det['history_text'])
            obs = [k for k, doc, entry, when in out['pairs'] if doc == det['doc'] and when == det['when']]
            o = dict(zip(('st', 'ex', 'ty', 'eff'), obs[0][3:7])) if obs else {'st': '?', 'ex': '', 'ty': [], 'eff': []}
            what = 'after [%s] %s' % (det['history_text'], det['doc'].strip())
        else:
            for e in ('UnsafeLoader', 'CUnsafeLoader'):
                ins.observe(e, det['doc'])
            o = ins.observe(det['entry'], det['doc'])
            what = det['doc'].strip()[:120]
        same = (o['st'], o['ex'], list(o['ty']), list(o['eff'])) == (det['observed']['st'], det['observed']['ex'], list(det['observed']['ty']), list(det['observed']['eff']))
        print('%s %s via %s: reported %s, now %s%s' % (pid, what, det['entry'], det['observed'],
              {k: o[k] for k in ('st', 'ex', 'ty', 'eff')}, ' (reproduced)' if same else ''))
        bad += same
    if bad:
        print('VIOLATION property=%s replay=%s' % (pid, path))
    return 1 if bad else 0


def main(tier, replay=None, pid='C01', classes=('Safe', 'Base')):
    if replay:
        return replay_file(replay, pid)
    v = Verdict(pid, tier)
    K.run(v, pid, list(classes), [(n, CONFIGS[n]) for n in TIERS[tier]], [(n, K.PRELUDE_CONFIGS[n]) for n in PRELUDES[tier]])
    v.assumptions = ['documents are printed in flow style with verbatim tags; names are concretised to harness canary modules',
                     'effects are observed through sys.addaudithook, sys.modules, canary call logs and the types of the result',
                     'yaml.org types without a constructor (merge, value, yaml) may be accepted or rejected (the statement is silent)']
    return v.finish()
