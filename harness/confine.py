"""C01 / C04 engine: spec/Construct.tla enumerates documents over the tag vocabulary, computes for every loader class the
requirement of the property statements (req) and the outcome the constructor model predicts (lval); every document is
printed, loaded with the real classes under audit / canary instruments, and the distinct (requirement, observation) pairs
are judged by TLC (spec/Trace_Confine.tla, H_Confinement.tla)."""
import builtins, datetime, os, sys, json, time
from . import tlc, mbt, trace
from .common import use_repo, VERIF, SEED

CANARY_DIR = os.path.join(VERIF, 'harness', 'canary_mods')
Y = 'tag:yaml.org,2002:'
CORE12 = ['null', 'bool', 'int', 'float', 'binary', 'timestamp', 'omap', 'pairs', 'set', 'str', 'seq', 'map']
REPO3 = ['merge', 'value', 'yaml']
PYEXACT = ['py/none', 'py/bool', 'py/str', 'py/unicode', 'py/bytes', 'py/int', 'py/long', 'py/float', 'py/complex',
           'py/list', 'py/tuple', 'py/dict']
PYPREFIX = ['py/name:', 'py/module:', 'py/object:', 'py/object/new:', 'py/object/apply:']
LOOKALIKE = ['py/name', 'py/', 'py/objectx:', 'py/object/applyx:', 'lpy/object/apply:', 'unknown', 'local', 'localpct']
ALLNAMES = ['res', 'rescls', 'noattr', 'lazy', 'builtin', 'unimp', 'unimpsub', 'missing', 'iter', 'subunimp', 'pct', 'trap',
            'alias', 'mapobj', 'unhash']
# the name classes that denote an EXISTING OBJECT of an imported module (function, class, lazily served attribute, builtin,
# iterator instance, generic object, Mapping instance, unhashable object)
OBJNAMES = ['res', 'rescls', 'lazy', 'builtin', 'iter', 'trap', 'mapobj', 'unhash']

BASETEXT = {b: Y + b for b in CORE12 + REPO3 + ['unknown']}
BASETEXT.update({b: Y + 'python/' + b[3:] for b in PYEXACT + PYPREFIX + ['py/name', 'py/', 'py/objectx:', 'py/object/applyx:']})
BASETEXT.update({'lpy/object/apply:': '!python/object/apply:', 'local': '!foo', 'localpct': '!foo%25s'})
NAMETEXT = {'res': 'verif_canary.fire', 'rescls': 'verif_canary.Obj', 'noattr': 'verif_canary.nosuch',
            'lazy': 'verif_canary.lazyattr', 'builtin': 'vcanary_bfire', 'unimp': 'verif_unimported.fire',
            'unimpsub': 'verif_unimp_pkg.sub.fire', 'missing': 'verif_no_such_mod.fire', 'iter': 'verif_canary.ITER',
            'subunimp': 'verif_pkg.plugin', 'pct': 'verif_canary.f%25s', 'trap': 'verif_canary.TRAP',
            'alias': 'verif_no_such_alias.fire', 'mapobj': 'verif_canary.MAPOBJ', 'unhash': 'verif_canary.UNHASH',
            'e': ''}        # 'alias' is chosen by Instruments (alias_name)
MODTEXT = {'res': 'verif_canary', 'rescls': 'verif_canary', 'noattr': 'verif_canary', 'lazy': 'verif_canary',
           'builtin': 'builtins', 'unimp': 'verif_unimported', 'unimpsub': 'verif_unimp_pkg.sub',
           'missing': 'verif_no_such_mod', 'iter': 'verif_canary', 'subunimp': 'verif_pkg', 'pct': 'verif_canary',
           'trap': 'verif_canary', 'alias': 'verif_no_such_alias', 'mapobj': 'verif_canary', 'unhash': 'verif_canary', 'e': ''}
GOOD = {'null': '~', 'bool': 'yes', 'int': '12', 'float': '1.5', 'binary': 'aGk=', 'timestamp': '2001-01-01',
        'py/none': 'null', 'py/bool': 'true', 'py/bytes': 'aGk=', 'py/int': '7', 'py/long': '8', 'py/float': '2.5',
        'py/complex': '1+2j'}

# loader "classes" of the model -> real entry points, in the order they are exercised on every document
# (the unsafe classes go first on purpose: state they leave behind must not leak into the confined classes)
ENTRY = [('Unsafe', 'UnsafeLoader'), ('Unsafe', 'CUnsafeLoader'), ('Full', 'FullLoader'), ('Full', 'CFullLoader'),
         ('Full', 'full_load'), ('Full', 'full_load_all'), ('Safe', 'SafeLoader'), ('Safe', 'CSafeLoader'), ('Safe', 'safe_load'),
         ('Safe', 'safe_load_all'), ('Base', 'BaseLoader'), ('Base', 'CBaseLoader')]


def tla_set(xs):
    return '{' + ', '.join('"%s"' % x for x in xs) + '}'


# ---------------------------------------------------------------- live tables (initial-state conformance)
def live_tables(yaml):
    """effective exact / multi tables of the shipped loader classes as abstract bases; unknown entries get fresh ids"""
    rev = {v: k for k, v in BASETEXT.items()}
    out, extra_text = {}, {}
    for cls, name in [('Base', 'BaseLoader'), ('Base', 'CBaseLoader'), ('Safe', 'SafeLoader'), ('Safe', 'CSafeLoader'),
                      ('Full', 'FullLoader'), ('Full', 'CFullLoader'), ('Unsafe', 'UnsafeLoader'),
                      ('Unsafe', 'CUnsafeLoader'), ('Unsafe', 'Loader'), ('Unsafe', 'CLoader')]:
        L = getattr(yaml, name)
        exact, multi = [], []
        for tag in L.yaml_constructors:
            if tag is None:
                exact.append('None')
            elif tag in rev:
                exact.append(rev[tag])
            else:
                x = 'x%d' % (len(extra_text) + 1)
                x = next((k for k, v in extra_text.items() if v == tag), x)
                extra_text[x] = tag
                exact.append(x)
        for tag in L.yaml_multi_constructors:
            if tag is None:
                multi.append('None')
            elif tag in rev:
                multi.append(rev[tag])
            else:
                x = next((k for k, v in extra_text.items() if v == tag + 'verif_canary.fire'), 'x%d' % (len(extra_text) + 1))
                extra_text[x] = tag + 'verif_canary.fire'
                multi.append(x)
        out[name] = {'cls': cls, 'exact': exact, 'multi': multi}
    return out, extra_text


def customise(yaml):
    """An application that customises the UNSAFE loader only: a YAMLObject subclass, a constructor and a multi-constructor
    registered on UnsafeLoader.  Their tags join the vocabulary; the statements demand that the confined classes still
    reject (Safe) or ignore (Base) them and never run the registered code."""
    if CANARY_DIR not in sys.path:
        sys.path.insert(1, CANARY_DIR)
    import verif_canary

    class VerifYObj(yaml.YAMLObject):
        yaml_tag = '!verif_yobj'
        yaml_loader = [yaml.UnsafeLoader]

        def __setstate__(self, state):
            verif_canary.LOG.append(('call', 'VerifYObj.__setstate__'))

        @classmethod
        def from_yaml(cls, loader, node):
            verif_canary.LOG.append(('call', 'VerifYObj.from_yaml'))
            return verif_canary.fire
    yaml.UnsafeLoader.add_constructor('!verif_uctor', lambda loader, node: verif_canary.fire())
    yaml.UnsafeLoader.add_multi_constructor('!verif_umulti:', lambda loader, suffix, node: verif_canary.fire())
    # ... and uses the module-level helpers without Loader= (they register on Loader, FullLoader, UnsafeLoader): the
    # registered functions are the application's own and harmless; the shipped tables must otherwise stay as they are
    yaml.add_constructor('!verif_modctor', lambda loader, node: None)
    yaml.add_multi_constructor('!verif_modmulti:', lambda loader, suffix, node: None)
    return VerifYObj


SPEC_TABLES = {
    'Base': {'exact': [], 'multi': []},
    'Safe': {'exact': CORE12 + ['None'], 'multi': []},
    'Full': {'exact': CORE12 + ['None'] + PYEXACT, 'multi': ['py/name:']},
    'Unsafe': {'exact': CORE12 + ['None'] + PYEXACT, 'multi': PYPREFIX},
}


# ---------------------------------------------------------------- printing a state as a document
class Printer:
    def __init__(self, nodes, top, extra_text):
        self.nodes, self.top, self.extra = nodes, top, extra_text
        self.refs = {}
        for n in nodes:
            for r in self._kids(n):
                self.refs[r] = self.refs.get(r, 0) + 1
        self.done = set()

    @staticmethod
    def _kids(n):
        if n['k'] == 'q':
            return [e['id'] for e in n['e'] if e['id']]
        if n['k'] == 'm':
            return [x['id'] for e in n['e'] for x in (e['k'], e['v']) if x['id']]
        return []

    def tagtext(self, t):
        b, nm = t['b'], t['n']
        if b in self.extra:
            return self.extra[b]
        base = BASETEXT[b]
        if nm == '-':
            return base
        return base + (MODTEXT[nm] if b == 'py/module:' else NAMETEXT[nm])

    def ref(self, v):
        if not v['id']:
            return {'x': 'x', 'E': "''", 'k': 'k', 'M': '<<', 'V': '='}[v['s']]
        return self.node(v['id'])

    def node(self, i):
        if i in self.done:
            return '*n%d' % i
        self.done.add(i)
        n = self.nodes[i - 1]
        s = '&n%d ' % i if self.refs.get(i, 0) > 1 else ''
        s += '!<%s> ' % self.tagtext(n['t'])
        if n['k'] == 's':
            val = {'g': GOOD.get(n['t']['b'], 'x'), 'b': 'é!', 'e': ''}[n['v']]
            return s + json.dumps(val, ensure_ascii=False)
        if n['k'] == 'q':
            return s + '[' + ', '.join(self.ref(e) for e in n['e']) + ']'
        return s + '{' + ', '.join('? %s : %s' % (self.ref(e['k']), self.ref(e['v'])) for e in n['e']) + '}'

    def doc(self):
        if len(self.top) == 1:
            return self.node(self.top[0]) + '\n'
        return '[' + ', '.join(self.node(i) for i in self.top) + ']\n'


# ---------------------------------------------------------------- observing one load
def alias_name():
    """Concretisation of the name class 'alias': a module name that cannot be imported as written, but that the
    interpreter's own compatibility table (pickle's fix_imports: _compat_pickle.IMPORT_MAPPING) translates to a standard
    module that is importable and NOT imported in this process.  For the loaders it is a missing module.  Which of the
    candidates is used depends on VERIF_SEED."""
    import importlib.util
    try:
        import _compat_pickle
        table = sorted(_compat_pickle.IMPORT_MAPPING.items())
    except Exception:
        table = []
    cands = []
    for old, new in table:
        if '.' in old or '.' in new or old in sys.modules or new in sys.modules or new in ('tkinter', 'winreg'):
            continue
        try:
            if importlib.util.find_spec(old) is None and importlib.util.find_spec(new) is not None:
                cands.append(old)
        except Exception:
            pass
    if not cands:
        return 'verif_no_such_alias.fire', 'verif_no_such_alias'
    m = cands[SEED % len(cands)]
    return m + '.fire', m


class Instruments:
    def __init__(self, yaml):
        self.yaml = yaml
        if CANARY_DIR not in sys.path:
            sys.path.insert(1, CANARY_DIR)
        import verif_canary, verif_pkg
        self.canary = verif_canary
        self.pkg = verif_pkg
        builtins.vcanary_bfire = verif_canary.fire
        self.attrs = {id(verif_canary.fire), id(verif_canary.Obj), id(verif_canary.LAZY), id(verif_canary.ITER),
                      id(verif_canary.TRAP), id(verif_canary.MAPOBJ), id(verif_canary.UNHASH)}
        self.events = []
        self.on = False
        sys.addaudithook(self._hook)
        # warm-up: everything the converters import lazily is imported before the baseline is taken
        for L in ('SafeLoader', 'CSafeLoader', 'FullLoader', 'BaseLoader'):
            for d in ('[1, 1.5, yes, ~, 2001-01-01, 2001-01-01 10:00:00.5 +01:00, !!binary aGk=, "\\u263A", !!set {a}, !!omap [a: b]]',
                      '!foo x', '? [a]\n: b\n', '!!python/complex 1+2j', '!!bool x', '!!int x', '!!timestamp x'):
                try:
                    yaml.load(d, Loader=getattr(yaml, L))
                except Exception:
                    pass
        NAMETEXT['alias'], MODTEXT['alias'] = alias_name()

    def _hook(self, name, args):
        if self.on:
            self.events.append((name, str(args[0]) if args else ''))

    def types(self, obj):
        seen, out = set(), set()

        def walk(o, in_list):
            if id(o) in self.attrs:
                out.add('attr')
                return
            t = type(o)
            if o is None:
                out.add('None')
            elif t is bool:
                out.add('bool')
            elif t is int:
                out.add('int')
            elif t is float:
                out.add('float')
            elif t is complex:
                out.add('complex')
            elif t is str:
                out.add('str')
            elif t is bytes:
                out.add('bytes')
            elif t is datetime.date or t is datetime.datetime:
                out.add('date')
            elif t in (list, dict, set, tuple):
                if id(o) in seen:
                    return
                seen.add(id(o))
                if t is tuple:
                    out.add('pair' if in_list and len(o) == 2 else 'tuple')
                else:
                    out.add(t.__name__)
                if t is dict:
                    for k, v in o.items():
                        walk(k, False)
                        walk(v, False)
                else:
                    for x in o:
                        walk(x, t is list)
            elif isinstance(o, type(sys)):
                out.add('module')
            elif t is self.canary.Obj:
                out.add('instance')
            else:
                out.add('other:' + t.__name__)
        walk(obj, False)
        return sorted(out)

    def load(self, entry, text):
        yaml = self.yaml
        if entry == 'safe_load':
            return self.observe_once(lambda: yaml.safe_load(text))
        if entry == 'safe_load_all':
            def fn():
                res = list(yaml.safe_load_all(text))
                return res[0] if len(res) == 1 else res
            return self.observe_once(fn)
        if entry == 'full_load':
            return self.observe_once(lambda: yaml.full_load(text))
        if entry == 'full_load_all':
            def fn2():
                res = list(yaml.full_load_all(text))
                return res[0] if len(res) == 1 else res
            return self.observe_once(fn2)
        L = getattr(yaml, entry)
        return self.observe_once(lambda: yaml.load(text, Loader=L))

    def observe_fn(self, fn):
        o = self.observe_once(fn)
        if 'import' in o['eff'] and not any(m.startswith('verif_') for m in o['imported']):
            o2 = self.observe_once(fn)
            if 'import' not in o2['eff']:
                return o2
        return o

    def observe_once(self, fn):
        yaml = self.yaml
        before = set(sys.modules)
        del self.canary.LOG[:]
        del self.events[:]
        self.on = True
        try:
            res = fn()
            st, ex = 'ok', ''
        except yaml.YAMLError as e:
            st, ex, res = 'err', ('ConstructorError' if isinstance(e, yaml.constructor.ConstructorError) else type(e).__name__), None
        except RecursionError:
            st, ex, res = 'crash', 'RecursionError', None
        except Exception as e:
            st, ex, res = 'crash', type(e).__name__, None
        finally:
            self.on = False
        eff = set()
        new = set(sys.modules) - before
        imported = sorted({a for n, a in self.events if n == 'import'} | new)
        if imported:
            eff.add('import')
        for n, a in self.events:
            if n != 'import':
                eff.add('audit:' + n)
        for kind, what in self.canary.LOG:
            eff.add(kind)
        for m in new:
            sys.modules.pop(m, None)
        if 'plugin' in vars(self.pkg):              # the import machinery binds a loaded submodule on its package
            del self.pkg.plugin
        ty = self.types(res) if st == 'ok' else []
        return {'st': st, 'ex': ex, 'ty': ty, 'eff': sorted(eff), 'imported': imported}

    def observe(self, entry, text):
        o = self.load(entry, text)
        if 'import' in o['eff'] and not any(m.startswith('verif_') for m in o['imported']):
            # a module the document does not name was imported: lazy first-use import of the interpreter / library?
            o2 = self.load(entry, text)
            if 'import' not in o2['eff']:
                return o2
        return o


def work(states, extra):
    yaml = use_repo()
    ins = Instruments(yaml)
    classes = extra['classes']
    entries = [(c, e) for c, e in ENTRY if c in classes or c == 'Unsafe']
    res = {'n': 0, 'loads': 0, 'pairs': {}, 'drift': {}, 'samples': [], 'unsafe_eff': 0, 'nontrivial': 0}
    for st in states:
        res['n'] += 1
        nodes, top = st['nodes'], st['top']
        if not top:
            continue
        text = Printer(nodes, top, extra['extra_text']).doc()
        req, lval = st['req'], st['lval']
        if any(req[c]['mustErr'] for c in classes):
            res['nontrivial'] += 1
        for c, entry in entries:
            o = ins.observe(entry, text)
            res['loads'] += 1
            if c == 'Unsafe':
                if o['eff']:
                    res['unsafe_eff'] += 1
                continue
            r, l = req[c], lval[c]
            off = set(tlaset(r['off']))
            undisp = bool(r['mustErr'] and not (off & set(tlaset(r['proper']))))     # the case class of the known finding (Construct.tla: Undispatched)
            key = (c, bool(r['mustErr']), undisp, o['st'], o['ex'], tuple(o['ty']), tuple(o['eff']), False)
            p = res['pairs'].get(key)
            if p is None:
                res['pairs'][key] = p = {'count': 0, 'doc': text, 'entry': entry}
            p['count'] += 1
            # drift: the constructor model's prediction
            if l['st'] != 'unknown':
                lty = sorted(set(x if x != 'pair' else 'tuple' for x in tlaset(l['ty'])))
                oty = sorted(set(x if x != 'pair' else 'tuple' for x in o['ty']))
                leff = sorted(set(tlaset(l['eff'])) - {'getattr'})
                oeff = sorted(set(o['eff']))
                same = (l['st'] == o['st']) and (o['st'] != 'ok' or set(oty) <= set(lty)) and leff == oeff and \
                       (o['st'] != 'err' or (l['ex'] == 'ConstructorError') == (o['ex'] == 'ConstructorError'))
                if not same:
                    dk = '%s: model %s/%s/%s/%s real %s/%s/%s/%s' % (c, l['st'], l['ex'], lty, leff, o['st'], o['ex'], oty, oeff)
                    d = res['drift'].setdefault(dk, {'count': 0, 'doc': text, 'entry': entry})
                    d['count'] += 1
        if len(res['samples']) < 2 and len(nodes) >= extra.get('sample_nodes', 1):
            res['samples'].append({'doc': text.strip(), 'mustErr': {c: req[c]['mustErr'] for c in classes}})
    return res


# ---------------------------------------------------------------- customisation histories (spec/ConstructPrelude.tla)
LOADERS = ['BaseLoader', 'CBaseLoader', 'SafeLoader', 'CSafeLoader', 'FullLoader', 'CFullLoader', 'UnsafeLoader', 'CUnsafeLoader',
           'Loader', 'CLoader']
ENTRY_CLASS = {'safe_load': 'SafeLoader', 'safe_load_all': 'SafeLoader', 'full_load': 'FullLoader', 'full_load_all': 'FullLoader'}
HIST_DOCS = ['%s x', '%s {a: b}', '%s [a]', '[{k: %s {a: b}}, c]']
ALLOPS = ['yobj', 'yobjsub', 'ctor', 'multi', 'modctor', 'modctorx', 'modmulti', 'subctor', 'load']
PRELUDE_CONFIGS = {
    # every ordered pair of customisation steps
    'hist2': dict(MaxSteps=2, Ops=ALLOPS,
                  Singles=['SafeLoader', 'CSafeLoader', 'BaseLoader', 'FullLoader', 'CFullLoader', 'UnsafeLoader'],
                  Lists='{{"SafeLoader"}, {"SafeLoader", "CSafeLoader"}, {"BaseLoader"}, {"FullLoader", "UnsafeLoader"}}',
                  SubBases=['SafeLoader', 'BaseLoader', 'FullLoader']),
    # class-definition histories: YAMLObject classes with / without a yaml_loader of their own, subclasses of earlier ones,
    # module-level registrations and rounds of loads, in every order
    'hist3q': dict(MaxSteps=3, Ops=['yobj', 'yobjsub', 'modctor', 'load'], Singles=['SafeLoader'],
                   Lists='{{"SafeLoader", "CSafeLoader"}}', SubBases=[]),
    'hist4q': dict(MaxSteps=4, Ops=['yobj', 'yobjsub', 'load'], Singles=['SafeLoader', 'CFullLoader'],
                   Lists='{{"SafeLoader", "CSafeLoader"}}', SubBases=[]),
    'hist3': dict(MaxSteps=3, Ops=['yobj', 'yobjsub', 'ctor', 'modctor', 'subctor', 'load'],
                  Singles=['SafeLoader', 'CSafeLoader', 'BaseLoader', 'CFullLoader', 'UnsafeLoader'],
                  Lists='{{"SafeLoader", "CSafeLoader"}, {"BaseLoader", "CBaseLoader"}, {"FullLoader", "UnsafeLoader"}}',
                  SubBases=['SafeLoader', 'FullLoader']),
}


def hist_steps(st):
    """the history of a ConstructPrelude state as plain JSON-able steps"""
    return [{'op': s['op'], 'on': sorted(tlaset(s['on'])), 'form': s['form'], 'par': s['par']} for s in st['hist']]


def hist_text(hist):
    return ' ; '.join('%s%s/%s/%s' % (s['op'], '(base=step %d)' % s['par'] if s['op'] == 'yobjsub' else '', s['form'], ','.join(s['on'])) for s in hist)


def apply_step(yaml, i, s, keep):
    """perform customisation step number i of a history on the live classes; returns (document tag, table key, kind);
    keep: step number -> class object defined by the step"""
    import verif_canary
    tag = '!verif_h%d' % i
    op, form = s['op'], s['form']
    ls = [getattr(yaml, n) for n in s['on']]

    def fire(loader, node):
        return verif_canary.fire()

    def mfire(loader, suffix, node):
        return verif_canary.fire()
    if op == 'yobj':
        def new(cls, *a, **k):
            verif_canary.LOG.append(('call', 'VerifHObj.__new__'))
            return object.__new__(cls)

        def setstate(self, state):
            verif_canary.LOG.append(('call', 'VerifHObj.__setstate__'))
        ns = {'yaml_tag': tag, '__new__': new, '__setstate__': setstate}
        if form == 'one':
            ns['yaml_loader'] = ls[0]
        elif form == 'list':
            ns['yaml_loader'] = list(ls)
        keep[i] = type('VerifHObj%d' % i, (yaml.YAMLObject,), ns)
        return tag, tag, 'exact'
    if op == 'yobjsub':                      # a subclass of the class of step par: own tag, yaml_loader inherited or its own
        ns = {'yaml_tag': tag}
        if form == 'one':
            ns['yaml_loader'] = ls[0]
        elif form == 'list':
            ns['yaml_loader'] = list(ls)
        keep[i] = type('VerifHObj%d' % i, (keep[s['par']],), ns)
        return tag, tag, 'exact'
    if op == 'ctor':
        ls[0].add_constructor(tag, fire)
        return tag, tag, 'exact'
    if op == 'multi':
        ls[0].add_multi_constructor(tag + ':', mfire)
        return tag + ':sfx', tag + ':', 'multi'
    if op == 'modctor':
        if form == 'default':
            yaml.add_constructor(tag, fire)
        else:
            yaml.add_constructor(tag, fire, Loader=ls[0])
        return tag, tag, 'exact'
    if op == 'modmulti':
        yaml.add_multi_constructor(tag + ':', mfire)
        return tag + ':sfx', tag + ':', 'multi'
    if op == 'subctor':
        keep[i] = type('VerifSub%d' % i, (ls[0],), {})
        keep[i].add_constructor(tag, fire)
        return tag, tag, 'exact'
    raise SystemExit('machinery failure: unknown customisation step %r' % (s,))


def replay_history(yaml, ins, hist, req, ltab, entries):
    """(in a forked child) perform the history; at every 'load' step and at the end load documents that carry the tag of
    each step so far through every entry point (unsafe classes first, not judged); compare the live tables with the
    model's.  req[loader][i], ltab[loader]: values of the ConstructPrelude state (None: observe only)."""
    keep, out = {}, {'pairs': [], 'drift': [], 'loads': 0}
    text = hist_text(hist)
    tags = []

    def loads(upto, when):
        for i, t in enumerate(tags[:upto]):
            if t is None:
                continue
            for d in HIST_DOCS:
                doc = d % t[0] + '\n'
                for c, entry in entries:
                    o = ins.observe(entry, doc)
                    out['loads'] += 1
                    if c == 'Unsafe':
                        continue
                    r = req[ENTRY_CLASS.get(entry, entry)][i] if req is not None else {'mustErr': False, 'free': False}
                    out['pairs'].append([[c, bool(r['mustErr']), False, o['st'], o['ex'], list(o['ty']), list(o['eff']), bool(r['free'])],
                                         doc, entry, when])
    for i, s in enumerate(hist):
        if s['op'] == 'load':
            tags.append(None)
            loads(i, i + 1)
        else:
            tags.append(apply_step(yaml, i + 1, s, keep))
    loads(len(hist), 0)
    for l in LOADERS if ltab is not None else []:
        L = getattr(yaml, l)
        live = sorted(i + 1 for i, t in enumerate(tags)
                      if t is not None and t[1] in (L.yaml_constructors if t[2] == 'exact' else L.yaml_multi_constructors))
        model = sorted(tlaset(ltab[l]))
        if live != model:
            out['drift'].append('prelude: after [%s] %s sees the registrations of steps %s, ConstructPrelude.tla says %s' % (text, l, live, model))
    return out


def in_child(fn):
    """run fn() in a forked child (a history mutates class-level state), return its JSON-able result"""
    r, w = os.pipe()
    pid = os.fork()
    if pid == 0:
        code = 1
        try:
            os.close(r)
            with os.fdopen(w, 'w') as f:
                json.dump(fn(), f)
            code = 0
        finally:
            os._exit(code)
    os.close(w)
    with os.fdopen(r) as f:
        data = f.read()
    _pid, status = os.waitpid(pid, 0)
    if status != 0 or not data:
        return None
    return json.loads(data)


def hist_work(states, extra):
    yaml = use_repo()
    ins = Instruments(yaml)
    classes = extra['classes']
    entries = [(c, e) for c, e in ENTRY if c in classes or c == 'Unsafe']
    res = {'n': 0, 'loads': 0, 'pairs': {}, 'drift': {}, 'samples': [], 'optin': 0, 'optin_effective': 0, 'nontrivial': 0}
    for st in states:
        res['n'] += 1
        if not st['hist']:
            continue
        hist = hist_steps(st)
        out = in_child(lambda: replay_history(yaml, ins, hist, st['req'], st['ltab'], entries))
        if out is None:
            raise SystemExit('machinery failure: replay of customisation history %r failed in the child' % (hist,))
        res['loads'] += out['loads']
        res['nontrivial'] += any(k[1] for k, _d, _e, _w in out['pairs'])
        for k, doc, entry, when in out['pairs']:
            key = (k[0], k[1], k[2], k[3], k[4], tuple(k[5]), tuple(k[6]), k[7])
            p = res['pairs'].get(key)
            if p is None:
                res['pairs'][key] = p = {'count': 0, 'doc': doc, 'entry': entry, 'hist': hist, 'when': when}
            p['count'] += 1
            res['optin'] += k[7]
            res['optin_effective'] += bool(k[7] and (k[6] or k[3] != 'ok' or set(k[5]) - {'str', 'list', 'dict'}))
        for d in out['drift']:
            q = res['drift'].setdefault(d.split(' after [')[0] + ' ' + d.split('] ', 1)[1], {'count': 0, 'doc': d, 'entry': '-'})
            q['count'] += 1
        if len(res['samples']) < 1 and len(hist) >= extra['sample_len']:
            res['samples'].append({'history': hist_text(hist), 'loads': out['loads']})
    return res


# ---------------------------------------------------------------- code -> spec: the repository's data files
CORE_TEXT = {Y + b for b in CORE12}
REPO_TEXT = {Y + b for b in REPO3}
OBJ_PREFIX = tuple(Y + 'python/' + p for p in ('object:', 'object/new:', 'object/apply:', 'module:'))


def corpus_requirements(yaml, text):
    """mustErr / undisp flags of the statements for a real document, from its composed node graphs (tags as the resolver
    gives them); returns None when the text does not compose.  child_uses is a transcription of ChildUses of
    spec/Construct.tla (where a node occurs as a value, where it is syntax of a merge / omap entry / '=' default)."""
    try:
        docs = list(yaml.compose_all(text, Loader=yaml.SafeLoader))
    except Exception:
        return None
    S, Q, M = yaml.ScalarNode, yaml.SequenceNode, yaml.MappingNode
    mapt, pairt = (Y + 'map', Y + 'set', Y + 'python/dict'), (Y + 'omap', Y + 'pairs')

    def kv(n):
        return [(x, 'obj') for e in n.value for x in e]

    def child_uses(n, m):
        if isinstance(n, S):
            return []
        if isinstance(n, Q):
            if m == 'obj' and n.tag in pairt:
                return [(c, 'pair' if isinstance(c, M) else 'obj') for c in n.value]
            if m == 'mlist':
                return [(c, 'msrc' if isinstance(c, M) else 'obj') for c in n.value]
            return [(c, 'obj') for c in n.value]
        if m == 'msrc' or (m == 'obj' and n.tag in mapt):
            out = []
            for k, v in n.value:
                if k.tag == Y + 'merge':
                    out.append((v, 'msrc' if isinstance(v, M) else 'mlist' if isinstance(v, Q) else 'obj'))
                else:
                    out += [(k, 'obj'), (v, 'obj')]
            return out
        if m == 'pair':
            return kv(n)
        for k, v in n.value:
            if k.tag == Y + 'value':
                return [(v, 'eqv')]
        return kv(n)

    off = {'Safe': set(), 'Full': set(), 'Base': set()}
    proper, seen, reach = set(), set(), {}
    todo = [(d, 'obj') for d in docs if d is not None]
    while todo:
        n, m = todo.pop()
        if (id(n), m) in seen:
            continue
        seen.add((id(n), m))
        if m == 'obj':
            proper.add(id(n))
        todo += child_uses(n, m)
    todo = [d for d in docs if d is not None]
    while todo:                                     # every node of the document (Reach)
        n = todo.pop()
        if id(n) in reach:
            continue
        reach[id(n)] = n
        if n.tag not in CORE_TEXT and n.tag not in REPO_TEXT:
            off['Safe'].add(id(n))
        if n.tag.startswith(OBJ_PREFIX):
            off['Full'].add(id(n))
        if isinstance(n, Q):
            todo += n.value
        elif isinstance(n, M):
            todo += [x for e in n.value for x in e]
    return {c: {'mustErr': bool(off[c]), 'undisp': bool(off[c]) and not (off[c] & proper)} for c in off}


def corpus_work(args):
    files, classes = args
    yaml = use_repo()
    ins = Instruments(yaml)
    pairs, n = {}, 0
    for f in files:
        try:
            text = open(f, 'rb').read().decode('utf-8')
        except UnicodeDecodeError:
            continue
        if text.startswith('\ufeff'):
            text = text[1:]
        req = corpus_requirements(yaml, text)
        if req is None:
            continue
        for c, entry in ENTRY:
            if c not in classes or entry in ('safe_load', 'full_load', 'full_load_all'):
                continue
            if entry.endswith('Loader'):
                L = getattr(yaml, entry)
                o = ins.observe_fn(lambda: list(yaml.load_all(text, Loader=L)))
            else:
                o = ins.observe_fn(lambda: list(yaml.safe_load_all(text)))
            n += 1
            key = (c, req[c]['mustErr'], req[c]['undisp'], o['st'], o['ex'], tuple(o['ty']), tuple(o['eff']), False)
            p = pairs.setdefault(key, {'count': 0, 'doc': os.path.basename(f), 'entry': entry, 'config': 'corpus'})
            p['count'] += 1
    return pairs, n


def tlaset(v):
    return v[1] if isinstance(v, tuple) and v and v[0] == 'set' else v


# development aids (shared machine): replay processes, TLC runs side by side
PROCS = int(os.environ.get('VERIF_C01_PROCS', '16'))
JVMS = int(os.environ.get('VERIF_C01_JVMS', '8'))


def _tlc_job(job):
    """(in a forked launcher process) one TLC run; the launcher processes run side by side"""
    r = tlc.run(job['module'], cfg=job['cfg'], dump=job['dump'], tag=job['tag'], timeout=job['timeout'], constants=job['constants'],
                coverage=False, workers=job['workers'], heap='2g' if job['kind'] == 'doc' else '1g',
                env={'JAVA_TOOL_OPTIONS': '-XX:ParallelGCThreads=2 -XX:CICompilerCount=2'})    # a dozen JVMs side by side
    r.job = job['name']
    if len(r.out) > 20000:
        r.out = r.out[:4000] + '\n...\n' + r.out[-12000:]
    return r


def run(v, pid, classes, configs, preludes=()):
    """v: Verdict; classes: model classes judged by this property; configs: list of (name, constants dict) of Construct.tla;
    preludes: list of (name, constants dict) of ConstructPrelude.tla.
    All TLC runs are started side by side (launcher processes); every dump is replayed as soon as its run completes."""
    import glob, multiprocessing as mp
    from concurrent.futures import ProcessPoolExecutor, as_completed
    yaml = use_repo()
    keep = customise(yaml)
    tables, extra_text = live_tables(yaml)
    # initial-state conformance (L): live effective tables against the tables of Construct.tla
    extra = {'Base': set(), 'Safe': set(), 'Full': set(), 'Unsafe': set()}
    for name, t in tables.items():
        spec = SPEC_TABLES[t['cls']]
        for kind in ('exact', 'multi'):
            mine = {b for b in t[kind] if b in extra_text and extra_text[b].startswith('!verif_')}     # customise()
            live = [b for b in t[kind] if b not in mine]
            if sorted(live) != sorted(spec[kind]) or (kind == 'multi' and live != spec[kind]):
                v.note('spec-drift %s: %s.%s table differs from Construct.tla: live-only %s, spec-only %s%s' % (
                    pid, name, kind, sorted(set(live) - set(spec[kind])), sorted(set(spec[kind]) - set(live)),
                    '' if sorted(live) != sorted(spec[kind]) else ' (order differs)'))
            for b in t[kind]:
                if b.startswith('x'):
                    extra[t['cls']].add(b)
    allextra = sorted(set().union(*extra.values()))
    # vacuity guards: in the model the unsafe class does have effects, without the named exemption the known
    # structural-use finding is a TLC counterexample, and opting a confined class in exists in the prelude model
    small = {'Kinds': tla_set(['s', 'q', 'm']), 'LeafKinds': tla_set(['s', 'q', 'm']), 'KeyFillers': tla_set(['k', 'M', 'V']), 'MaxNodes': 2, 'LeafBases': tla_set(['str', 'local', 'py/object/apply:']), 'ParentBases': tla_set(['map', 'seq']),
             'Names': tla_set(['res']), 'Vals': tla_set(['g', 'e']), 'MaxEntries': 1, 'MustChain': 'TRUE', 'ConvFail': '"err"'}
    jobs = []
    for name, consts in configs:
        consts = dict(consts)
        if consts['MaxNodes'] <= 2 and consts['MaxEntries'] == 1 or consts['MaxNodes'] == 1:
            consts['LeafBases'] = consts['LeafBases'] + allextra     # live-only tags join the full-vocabulary configurations
        k = {a: (tla_set(b) if isinstance(b, list) else b) for a, b in consts.items()}
        k.update({'ExtraBase': tla_set(sorted(extra['Base'])), 'ExtraSafe': tla_set(sorted(extra['Safe'])),
                  'ExtraFull': tla_set(sorted(extra['Full'])), 'ExtraUnsafe': tla_set(sorted(extra['Unsafe'])),
                  'ConvFail': '"err"'})
        jobs.append(dict(name=name, kind='doc', module='Construct', cfg='MC_Construct.cfg', dump=True, constants=k, timeout=3000,
                         workers=4 if consts['MaxNodes'] > 1 else 2, consts=consts))
    for name, consts in preludes:
        k = {a: (tla_set(b) if isinstance(b, list) else b) for a, b in consts.items()}
        jobs.append(dict(name=name, kind='hist', module='ConstructPrelude', cfg='MC_ConstructPrelude.cfg', dump=True, constants=k,
                         timeout=1200, workers=2, consts=consts))
    for cfg, inv in (('MC_Construct_negctl1.cfg', 'UnsafeInert'), ('MC_Construct_negctl2.cfg', 'ConfinedStrict')):
        jobs.append(dict(name=inv, kind='negctl', module='Construct', cfg=cfg, dump=False, constants=small, timeout=600, workers=2))
    if preludes:
        jobs.append(dict(name='NoOptIn', kind='negctl', module='ConstructPrelude', cfg='MC_ConstructPrelude_negctl.cfg', dump=False,
                         constants=None, timeout=600, workers=1))
    for j in jobs:
        j['tag'] = '%s_%s' % (pid, j['name'])
    bykey = {j['name']: j for j in jobs}
    states = trans = loads = nontrivial = 0
    pairs, drift, samples = {}, {}, []
    unsafe_eff = optin = optin_eff = histories = 0
    t00 = time.time()
    pool = ProcessPoolExecutor(max_workers=min(JVMS, len(jobs)), mp_context=mp.get_context('fork'))
    try:
        futs = [pool.submit(_tlc_job, j) for j in jobs]          # in the order given: the caller lists the large ones first
        # code -> spec meanwhile: the data files of the repository's suite through the same instruments and the same judgement
        files = sorted(glob.glob(os.path.join(os.environ.get('VERIF_REPO', '/repo'), 'tests', 'legacy_tests', 'data', '*')))
        files = [f for f in files if f.rsplit('.', 1)[-1] in ('data', 'loader-error', 'single-loader-error', 'canonical', 'code', 'detect')]
        with mp.Pool(min(8, PROCS)) as cpool:
            parts = cpool.map(corpus_work, [(files[i::16], classes) for i in range(16)])
        corpus_loads = 0
        for pp, n in parts:
            corpus_loads += n
            for kx, p in pp.items():
                q = pairs.setdefault(kx, {'count': 0, 'doc': p['doc'], 'entry': p['entry'], 'config': 'corpus'})
                q['count'] += p['count']
        loads += corpus_loads
        for fut in as_completed(futs):
            r = fut.result()
            j = bykey[r.job]
            name = j['name']
            if j['kind'] == 'negctl':
                if name not in r.violated:
                    print(r.out[-2000:])
                    raise SystemExit('machinery failure: negative control %s was not violated (the model is vacuous)' % name)
                continue
            if r.violated:
                print(r.out[-3000:])
                raise SystemExit('machinery failure: %s.tla violates %s in configuration %s (L does not refine H in the model)' % (j['module'], r.violated, name))
            tlc.require_ok(r, '%s/%s' % (j['module'], name))
            states += r.distinct
            trans += r.generated
            t1 = time.time()
            if j['kind'] == 'doc':
                out = mbt.pmap(work, r.dump, {'classes': classes, 'extra_text': extra_text, 'sample_nodes': j['consts']['MaxNodes']}, procs=PROCS)
            else:
                out = mbt.pmap(hist_work, r.dump, {'classes': classes, 'sample_len': j['consts']['MaxSteps']}, chunks=48, procs=PROCS)
                histories += r.distinct
            n = sum(o['n'] for o in out)
            if n != r.distinct:
                raise SystemExit('machinery failure: replayed %d states of %s, TLC found %d' % (n, name, r.distinct))
            for o in out:
                loads += o['loads']
                nontrivial += o['nontrivial']
                unsafe_eff += o.get('unsafe_eff', 0)
                optin += o.get('optin', 0)
                optin_eff += o.get('optin_effective', 0)
                samples += o['samples'][:1]
                for kx, p in o['pairs'].items():
                    q = pairs.setdefault(kx, dict(p, count=0, config=name))
                    q['count'] += p['count']
                for kx, d in o['drift'].items():
                    q = drift.setdefault(kx, {'count': 0, 'doc': d['doc'], 'entry': d['entry']})
                    q['count'] += d['count']
            os.remove(r.dump)
            print('config %s: %d states, TLC done at +%.1fs (%.1fs), replay %.1fs' % (name, r.distinct, t1 - t00, r.wall, time.time() - t1))
    finally:
        pool.shutdown(wait=True, cancel_futures=True)
    if unsafe_eff == 0:
        raise SystemExit('machinery failure: the unsafe loaders showed no effect on any document: instruments are dead')
    if preludes and optin_eff == 0:
        raise SystemExit('machinery failure: no registration of a customisation history had any effect on the class it names: the replay is dead')
    # judgement of the distinct (requirement, observation) pairs by TLC
    keys = sorted(pairs, key=repr)
    recs = [{'c': k[0], 'mustErr': k[1], 'undisp': k[2], 'st': k[3], 'ex': k[4], 'ty': list(k[5]), 'eff': list(k[6]), 'free': k[7]} for k in keys]
    verdicts, jstates = trace.judge('Trace_Confine', recs, pid + '_judge')
    for k, (ok, why, _at) in zip(keys, verdicts):
        if ok:
            continue
        p = pairs[k]
        case = 'structural-use' if why == 'not rejected (undispatched)' else why
        det = {'entry': p['entry'], 'doc': p['doc'], 'observed': {'st': k[3], 'ex': k[4], 'ty': k[5], 'eff': k[6]},
               'mustErr': k[1], 'count': p['count'], 'config': p['config'],
               'note': 'loads are run in sequence in one process, unsafe classes first; replay the document after an unsafe load of the same text'}
        if 'hist' in p:
            det.update({'history': p['hist'], 'when': p['when'], 'history_text': hist_text(p['hist']),
                        'note': 'the application performs the customisation history first (ConstructPrelude.tla); when: 0 = loads after '
                                'the last step, n = the round of loads that is step n'})
        v.violation({'class': k[0], 'clause': case}, det)
    for dk, d in sorted(drift.items())[:10]:
        v.note('spec-drift %s: %s  (%d loads, e.g. %s via %s)' % (pid, dk, d['count'], d['doc'].strip(), d['entry']))
    v.cov = {'states': states + jstates, 'transitions': trans, 'traces_validated_against_impl': loads, 'exhaustive': True,
             'documents': states - histories, 'customisation_histories': histories, 'loads_by_opted_in_classes': optin,
             'distinct_requirement_observation_pairs_judged_by_tlc': len(keys),
             'distinct_nontrivial': nontrivial, 'unsafe_loads_with_effects': unsafe_eff,
             'samples': samples[:8] + [{'pair': list(map(str, k)), 'count': pairs[k]['count']} for k in keys[:4]],
             'rule': 'every reachable state of Construct.tla is one document, of ConstructPrelude.tla one customisation history; '
                     'non-trivial = some class must reject it / a tag of it; each is loaded through '
                     + ', '.join(e for c, e in ENTRY if c in classes or c == 'Unsafe'),
             'configs': {n: c for n, c in list(configs) + list(preludes)}, 'live_table_extras': extra_text, 'corpus_loads': corpus_loads}
    return v
