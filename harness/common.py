"""Shared plumbing: paths, repo import, evidence files, known findings, verdict printing."""
import json, os, sys, time, hashlib

VERIF = os.path.dirname(os.path.dirname(os.path.abspath(__file__)))
REPO = os.environ.get('VERIF_REPO', '/repo')
BUILD = os.path.join(VERIF, 'build', os.environ['VERIF_BUILD_TAG']) if os.environ.get('VERIF_BUILD_TAG') else os.path.join(VERIF, 'build')
EVIDENCE = os.environ.get('VERIF_EVIDENCE_DIR') or os.path.join(VERIF, 'evidence')
SPEC = os.path.join(VERIF, 'spec')
PY = '/venv/bin/python'
SEED = int(os.environ.get('VERIF_SEED', '0') or 0)


def use_repo():
    """Make `import yaml` resolve to the current working tree of REPO (sources are read directly,
    so every check run sees the tree as it is now)."""
    lib = os.path.join(REPO, 'lib')
    if sys.path[0] != lib:
        sys.path.insert(0, lib)
    sys.dont_write_bytecode = True
    import yaml          # imported once per process: the C extension cannot be re-imported
    assert os.path.realpath(yaml.__file__).startswith(os.path.realpath(lib)), yaml.__file__
    return yaml


def child_env(**extra):
    e = dict(os.environ)
    e['PYTHONPATH'] = os.path.join(REPO, 'lib') + os.pathsep + VERIF
    e['PYTHONDONTWRITEBYTECODE'] = '1'
    e.setdefault('PYTHONHASHSEED', '0')
    e.update({k: str(v) for k, v in extra.items()})
    return e


def ensure_dir(p):
    os.makedirs(p, exist_ok=True)
    return p


class Findings:
    """known_findings.json: genuine defects recorded (never written at run time)."""

    def __init__(self):
        p = os.path.join(VERIF, 'known_findings.json')
        self.known = []
        if os.path.exists(p):
            d = json.load(open(p))
            self.known = list(d.get('known', []))
        import glob
        have = {(k['id'], k['property']) for k in self.known}
        for q in sorted(glob.glob(os.path.join(VERIF, 'known_findings.d', '*.json'))):     # per-property source parts
            self.known += [k for k in json.load(open(q)).get('known', []) if (k['id'], k['property']) not in have]
        self.hit = {}

    def match(self, pid, key):
        """key: dict describing the failing case; a known finding matches when all of its 'match'
        items are equal in key."""
        for k in self.known:
            if k['property'] != pid:
                continue
            if all(key.get(a) == b for a, b in k['match'].items()):
                self.hit.setdefault(k['id'], k)
                return k
        return None


class Verdict:
    def __init__(self, pid, tier):
        self.pid, self.tier = pid, tier
        self.t0 = time.time()
        self.findings = Findings()
        self.violations = []
        self.notes = []
        self.cov = {}
        self.assumptions = []
        self.level = 'model_checking'

    def note(self, msg):
        self.notes.append(msg)
        print('NOTE ' + msg)

    def violation(self, key, detail):
        """key: dict identifying the failing case class; detail: JSON-able replay payload."""
        k = self.findings.match(self.pid, key)
        if k is not None:
            return False
        self.violations.append({'key': key, 'detail': detail})
        return True

    def finish(self):
        wall = time.time() - self.t0
        for k in self.findings.hit.values():
            print('KNOWN-FINDING: property=%s %s' % (self.pid, k['what']))
        rc = 0
        if self.violations:
            rdir = ensure_dir(os.path.join(BUILD, 'replay'))
            path = os.path.join(rdir, '%s_%s.json' % (self.pid, self.tier))
            json.dump({'property': self.pid, 'violations': self.violations[:50]}, open(path, 'w'), indent=1, default=str)
            for v in self.violations[:5]:
                print('  violating case: ' + json.dumps(v['key'], default=str)[:400])
            print('VIOLATION property=%s replay=%s' % (self.pid, path))
            rc = 1
        cov = dict(self.cov)
        cov.setdefault('samples', ['(none)'])
        if self.notes:
            cov['drift_notes'] = self.notes[:20]
        cov['known_findings_reobserved'] = sorted(self.findings.hit)
        ev = {'property_id': self.pid, 'tier': self.tier, 'seed': SEED, 'level': self.level, 'coverage': cov,
              'assumptions': self.assumptions, 'wall_s': round(wall, 2), 'violations': len(self.violations)}
        ensure_dir(EVIDENCE)
        json.dump(ev, open(os.path.join(EVIDENCE, self.pid + '.json'), 'w'), indent=1, default=str)
        print('%s %s: %s in %.1fs  %s' % (self.pid, self.tier, 'VIOLATED' if rc else 'ok', wall,
              {k: v for k, v in cov.items() if isinstance(v, (int, bool))}))
        return rc
