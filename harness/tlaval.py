"""Parser for TLA+ values as TLC prints them (dump files, error traces, PrintT output).
ints, strings, TRUE/FALSE, model values, <<seq>>, {set}, [rec |-> v], (k :> v @@ ...), nested."""
import re

_tok = re.compile(r'\s*(<<|>>|\|->|:>|@@|[\[\]{}(),]|"(?:[^"\\]|\\.)*"|-?\d+|[A-Za-z_][A-Za-z0-9_!]*)')


class P:
    def __init__(self, s):
        self.t = _tok.findall(s)
        self.i = 0

    def peek(self):
        return self.t[self.i] if self.i < len(self.t) else None

    def eat(self, x=None):
        v = self.t[self.i]
        if x is not None and v != x:
            raise ValueError('expected %r got %r at %d: %r' % (x, v, self.i, self.t[max(0, self.i - 5):self.i + 5]))
        self.i += 1
        return v

    def value(self):
        t = self.peek()
        if t == '<<':
            self.eat()
            out = []
            while self.peek() != '>>':
                out.append(self.value())
                if self.peek() == ',':
                    self.eat()
            self.eat('>>')
            return out
        if t == '{':
            self.eat()
            out = []
            while self.peek() != '}':
                out.append(self.value())
                if self.peek() == ',':
                    self.eat()
            self.eat('}')
            return ('set', out)
        if t == '[':
            self.eat()
            d = {}
            while self.peek() != ']':
                k = self.eat()
                self.eat('|->')
                d[k] = self.value()
                if self.peek() == ',':
                    self.eat()
            self.eat(']')
            return d
        if t == '(':
            self.eat()
            d = {}
            while True:
                k = self.value()
                self.eat(':>')
                v = self.value()
                d[_key(k)] = v
                if self.peek() == '@@':
                    self.eat()
                    continue
                break
            self.eat(')')
            return d
        self.eat()
        if t[0] == '"':
            return bytes(t[1:-1], 'utf-8').decode('unicode_escape') if '\\' in t else t[1:-1]
        if t == 'TRUE':
            return True
        if t == 'FALSE':
            return False
        if re.fullmatch(r'-?\d+', t):
            return int(t)
        return t  # model value / identifier


def _key(k):
    if isinstance(k, list):
        return tuple(_key(x) for x in k)
    return k


def parse(s):
    return P(s).value()


def setval(v):
    """('set', [...]) -> list"""
    if isinstance(v, tuple) and v and v[0] == 'set':
        return v[1]
    return v


def parse_dump(path):
    """Yield one dict per state of a TLC -dump file."""
    cur = []
    with open(path) as f:
        for line in f:
            if line.startswith('State '):
                if cur:
                    yield _state(cur)
                cur = []
            elif line.strip():
                cur.append(line)
        if cur:
            yield _state(cur)


def _state(lines):
    txt = ''.join(lines)
    parts = re.split(r'(?m)^/\\ ', txt)
    d = {}
    for p in parts:
        p = p.strip()
        if not p:
            continue
        name, val = p.split('=', 1)
        d[name.strip()] = parse(val)
    return d
