"""Run TLC on a module of /verif/spec and collect what the evidence files need."""
import os, re, shutil, subprocess, time
from .common import SPEC, BUILD, ensure_dir

JAR = '/opt/veriftools/tla/tla2tools.jar:/opt/veriftools/tla/CommunityModules-deps.jar'


class TLCResult:
    pass


def run(module, cfg=None, workers=16, dump=False, timeout=1200, env=None, tag=None, extra=(), coverage=True,
        simulate=None, depth=None, deadlock=False, heap='8g', dfs=False, constants=None):
    """module: name of spec/<module>.tla; cfg: config file name in spec/ (default <module>.cfg).
    constants: optional dict name->TLA text; a derived cfg is written into the run directory."""
    tag = tag or module
    rundir = os.path.join(BUILD, 'tlc', tag)
    shutil.rmtree(rundir, ignore_errors=True)
    ensure_dir(rundir)
    cfgpath = os.path.join(SPEC, cfg or module + '.cfg')
    if constants:
        txt = open(cfgpath).read()
        for k, v in constants.items():
            txt, n = re.subn(r'(?m)^(\s*%s\s*(?:=|<-)\s*).*$' % re.escape(k), lambda m: m.group(1) + str(v), txt)
            if n == 0:
                txt += '\nCONSTANT %s = %s\n' % (k, v)
        cfgpath = os.path.join(rundir, 'derived.cfg')
        open(cfgpath, 'w').write(txt)
    cmd = ['java', '-XX:+UseParallelGC', '-Xmx' + heap, '-Xss256m']
    if dfs:
        cmd.append('-Dtlc2.tool.queue.IStateQueue=StateDeque')
    cmd += ['-cp', JAR, 'tlc2.TLC', '-workers', str(workers), '-metadir', os.path.join(rundir, 'meta'),
            '-noGenerateSpecTE', '-config', cfgpath]
    if coverage:
        cmd += ['-coverage', '1']
    if not deadlock:
        cmd += ['-deadlock']
    dumpfile = None
    if dump:
        dumpfile = os.path.join(rundir, 'states')
        cmd += ['-dump', dumpfile]
        dumpfile += '.dump'
    if simulate:
        cmd += ['-simulate', simulate]
        if depth:
            cmd += ['-depth', str(depth)]
    cmd += list(extra) + [os.path.join(SPEC, module + '.tla')]
    e = dict(os.environ)
    if env:
        e.update({k: str(v) for k, v in env.items()})
    t0 = time.time()
    try:
        p = subprocess.run(cmd, cwd=SPEC, env=e, capture_output=True, text=True, timeout=timeout)
        out, rc = p.stdout + p.stderr, p.returncode
    except subprocess.TimeoutExpired as x:
        out, rc = (x.stdout or b'').decode(errors='replace') + '\nTLC TIMEOUT', 124
    r = TLCResult()
    r.out, r.rc, r.wall, r.dump, r.rundir = out, rc, time.time() - t0, dumpfile, rundir
    open(os.path.join(rundir, 'tlc.out'), 'w').write(out)
    m = re.findall(r'(\d+) states generated, (\d+) distinct states found', out)
    r.generated, r.distinct = (int(m[-1][0]), int(m[-1][1])) if m else (0, 0)
    m = re.search(r'The depth of the complete state graph search is (\d+)', out)
    r.depth = int(m.group(1)) if m else 0
    r.ok = (rc == 0) and 'Model checking completed. No error has been found' in out or (simulate and rc == 0)
    r.violated = re.findall(r'Invariant (\S+) is violated', out) + re.findall(r'Action property (\S+) is violated', out)
    if 'Assumption' in out and 'is false' in out:
        r.violated.append('ASSUME')
    # per-action coverage:  <Name line .. of module M>: distinct:generated
    r.actions = {}
    for name, a, b in re.findall(r'<(\w+) line \d+, col \d+ to line \d+, col \d+ of module \w+>: (\d+):(\d+)', out):
        x = r.actions.setdefault(name, [0, 0])
        x[0] += int(a)
        x[1] += int(b)
    return r


def error_trace(out):
    """Return the list of state texts of a TLC counterexample."""
    return re.findall(r'(?s)State \d+: <[^>]*>\n(.*?)(?=\n\nState |\n\n\d+ states|\nError|\Z)', out)


def require_ok(r, what):
    if not r.ok:
        import sys
        sys.stdout.write(r.out[-6000:])
        raise SystemExit('machinery failure: TLC did not complete for %s (rc=%s)' % (what, r.rc))
