"""Imported by the confinement harness before any load; everything a document could name here records its use."""
LOG = []


def fire(*a, **k):
    LOG.append(('call', 'fire'))
    return 'fired'


class Obj:
    def __new__(cls, *a, **k):
        LOG.append(('call', 'Obj.__new__'))
        return super().__new__(cls)

    def __init__(self, *a, **k):
        LOG.append(('call', 'Obj.__init__'))

    def __setstate__(self, state):
        LOG.append(('call', 'Obj.__setstate__'))


LAZY = object()


def __getattr__(name):           # PEP 562: records every attribute lookup that misses the module dict
    LOG.append(('modgetattr', name))
    if name == 'lazyattr':
        return LAZY
    raise AttributeError(name)


class LoggingIter:
    """an existing iterator instance a document can name: advancing it is calling / mutating a selected object"""
    def __init__(self):
        self.n = 0

    def __iter__(self):
        return self

    def __next__(self):
        LOG.append(('call', 'ITER.__next__'))
        self.n += 1
        if self.n % 3 == 0:
            raise StopIteration
        return 'item'


ITER = LoggingIter()


class Trap:
    """an existing object a document can name, standing for any object reachable in an imported module: looking up one of
    its attributes is recorded as 'objgetattr', calling what was looked up - or any protocol method a converter would use
    on text or numbers - as 'call' (C04: an object selected by the document is never called or mutated)"""
    def __getattr__(self, name):
        LOG.append(('objgetattr', name))
        if name.startswith('__') and name.endswith('__'):
            raise AttributeError(name)

        def method(*a, **k):
            LOG.append(('call', 'TRAP.' + name))
            return self
        return method

    def _used(name, result):
        def f(self, *a, **k):
            LOG.append(('call', 'TRAP.' + name))
            if isinstance(result, type) and issubclass(result, Exception):
                raise result(name)
            return result
        f.__name__ = name
        return f
    __call__ = _used('__call__', 'called')
    __complex__ = _used('__complex__', 1j)
    __int__ = _used('__int__', 1)
    __index__ = _used('__index__', 1)
    __float__ = _used('__float__', 1.0)
    __len__ = _used('__len__', 0)
    __bool__ = lambda self: True             # truth-testing the object is not recorded (it would fall back to __len__)
    __iter__ = _used('__iter__', TypeError)
    __contains__ = _used('__contains__', False)
    __getitem__ = _used('__getitem__', IndexError)
    __setitem__ = _used('__setitem__', None)
    __delitem__ = _used('__delitem__', None)
    __setattr__ = _used('__setattr__', None)
    __delattr__ = _used('__delattr__', None)
    __setstate__ = _used('__setstate__', None)
    __repr__ = _used('__repr__', '<trap>')      # rendering the object (error messages, logs) runs its code as well
    __str__ = _used('__str__', '<trap>')
    __format__ = _used('__format__', '<trap>')
    __bytes__ = _used('__bytes__', b'<trap>')
    del _used


TRAP = Trap()


def _rec(owner, name, fn):
    def f(self, *a, **k):
        LOG.append(('call', '%s.%s' % (owner, name)))
        return fn(self, *a, **k)
    f.__name__ = name
    return f


import collections.abc as _abc


class MapObj(_abc.Mapping):
    """an existing MAPPING instance a document can name (os.environ, a registry, a settings object): iterating it,
    indexing it, measuring or rendering it is calling the selected object"""
    def __init__(self, d):
        object.__setattr__(self, '_d', dict(d))
    __iter__ = _rec('MAPOBJ', '__iter__', lambda self: iter(self._d))
    __getitem__ = _rec('MAPOBJ', '__getitem__', lambda self, k: self._d[k])
    __len__ = _rec('MAPOBJ', '__len__', lambda self: len(self._d))
    __contains__ = _rec('MAPOBJ', '__contains__', lambda self, k: k in self._d)
    __repr__ = _rec('MAPOBJ', '__repr__', lambda self: '<mapobj>')
    __str__ = _rec('MAPOBJ', '__str__', lambda self: '<mapobj>')
    __bool__ = lambda self: True
    __hash__ = lambda self: 7                 # usable as a key; hashing / comparing for a dict slot is not recorded
    __eq__ = lambda self, other: self is other


MAPOBJ = MapObj({'leak': 'secret'})


class Unhashable:
    """an existing UNHASHABLE object a document can name (a module-level list, dict, set or an instance whose class sets
    __hash__ = None): rejecting it as a mapping key needs no code of the object; rendering it does"""
    __hash__ = None
    __repr__ = _rec('UNHASH', '__repr__', lambda self: '<unhashable>')
    __str__ = _rec('UNHASH', '__str__', lambda self: '<unhashable>')
    __format__ = _rec('UNHASH', '__format__', lambda self, spec: '<unhashable>')
    __iter__ = _rec('UNHASH', '__iter__', lambda self: iter(()))
    __len__ = _rec('UNHASH', '__len__', lambda self: 0)
    __eq__ = lambda self, other: self is other


UNHASH = Unhashable()
