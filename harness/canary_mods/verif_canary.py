"""Imported by the confinement harness before any load; everything a document could name here records its use."""
LOG = []


def fire(*a, **k):
    LOG.append(('call', 'fire'))
    return 'fired'


class Obj:
    def __new__(cls, *a, **k):
        LOG.append(('call', 'Obj.__new__'))
        return super().__new__(cls)

    def __init__(self, *a, **k):
        LOG.append(('call', 'Obj.__init__'))

    def __setstate__(self, state):
        LOG.append(('call', 'Obj.__setstate__'))


LAZY = object()


def __getattr__(name):           # PEP 562: records every attribute lookup that misses the module dict
    LOG.append(('modgetattr', name))
    if name == 'lazyattr':
        return LAZY
    raise AttributeError(name)


class LoggingIter:
    """an existing iterator instance a document can name: advancing it is calling / mutating a selected object"""
    def __init__(self):
        self.n = 0

    def __iter__(self):
        return self

    def __next__(self):
        LOG.append(('call', 'ITER.__next__'))
        self.n += 1
        if self.n % 3 == 0:
            raise StopIteration
        return 'item'


ITER = LoggingIter()
