"""An imported package of the confinement harness; its submodule `plugin` is importable but never imported by the harness."""
