"""Importable but never imported: appearing in sys.modules means a document made the loader import it."""
import verif_canary
verif_canary.LOG.append(('call', 'verif_pkg.plugin imported'))


def fire(*a, **k):
    verif_canary.LOG.append(('call', 'verif_pkg.plugin.fire'))
