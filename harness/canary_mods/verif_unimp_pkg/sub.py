"""Importable but never imported by the harness: appearing in sys.modules means a document made the loader import it."""
def fire(*a, **k):
    import verif_canary
    verif_canary.LOG.append(('call', 'unimported.fire'))
