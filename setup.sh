#!/bin/sh
# offline setup: nothing to download; pre-parse every specification so that a syntax error shows up here
set -e
cd "$(dirname "$0")"
mkdir -p build evidence
for f in spec/*.tla; do
  (cd spec && tla-sany "$(basename $f)" > ../build/sany_$(basename $f).log 2>&1) || { cat build/sany_$(basename $f).log; exit 1; }
  # tla-sany exits 0 on semantic errors: look at what it printed
  if grep -q -E "Semantic errors|Parse Error|Fatal errors|Could not find module|\*\*\* Errors" build/sany_$(basename $f).log; then
    echo "specification $f does not parse:"; grep -A6 -E "Semantic errors|Parse Error|Fatal errors|\*\*\* Errors" build/sany_$(basename $f).log | head -20; exit 1
  fi
done
/venv/bin/python -c "import sys; sys.path.insert(0,'.'); from harness.common import use_repo; y=use_repo(); print('yaml from', y.__file__, 'libyaml', y.__with_libyaml__)"
echo setup ok
