----------------------------- MODULE WorkReader -----------------------------
(***************************************************************************)
(* C20, the Reader buffer on its own (reader.py:87-175) under a FREE       *)
(* client: any sequence of peek(i) / prefix(l) / forward(l) in which the   *)
(* client never looks further than Look characters ahead of the pointer    *)
(* and never forwards over a character it has not looked at (this is what  *)
(* Work.tla's scanner guarantees: invariant LookBound there, Look =        *)
(* MaxRun + 2).  Under that assumption, for EVERY call sequence of every   *)
(* length (the configuration space is finite):                             *)
(*   BufferBound : len(buffer) <= 2 * Block + Look + 1                     *)
(*   CallCost    : one call copies at most 2 * (Block + Look) + ... chars  *)
(*   Amortised   : character copies <= Dep per forwarded character         *)
(*                 + (Look + 1) per call + Cap  (credit account; the       *)
(*                 per-call part is real: `prefix(l)` with exactly l       *)
(*                 characters left trims the buffer without refilling it,  *)
(*                 reader.py:95, so a client that repeats it pays l again) *)
(* Variant "nobuftrim" (the consumed prefix is kept, as if                 *)
(* `self.buffer = self.buffer[self.pointer:]` were dropped) is the         *)
(* negative control: it violates all three.                                *)
(***************************************************************************)
EXTENDS Integers, TLC
CONSTANTS Block, Look, Variant, MaxBuf      \* MaxBuf: state constraint for the negative control only
VARIABLES blen, ptr, seen, eof, credit, last, pre     \* pre: determine_encoding has read one block into raw_buffer
vars == <<blen, ptr, seen, eof, credit, last, pre>>

Min2(a, b) == IF a < b THEN a ELSE b
Max2(a, b) == IF a < b THEN b ELSE a
BufMax == 2 * Block + Look + 1
Dep    == 3 + (2 * (Look + 1)) \div Block + 1  \* per character: forward loop 1, decode+check 1, `+=` 1, re-copied remainder
Cap    == 4 * (Block + Look + 2)
PerCall == Look + 1                         \* a call that trims without refilling re-copies at most Look characters
CMax   == 4 * (Block + Look + 2) + Look

Blocks(avail, length) == IF avail >= length THEN 0 ELSE ((length - avail) + Block - 1) \div Block

\* update(length) -> <<blen', ptr', character copies>>
Update(length) ==
  IF eof THEN <<blen, ptr, 0>>
  ELSE LET trim == Variant # "nobuftrim"
           keep == IF trim THEN blen - ptr ELSE blen
           p2   == IF trim THEN 0 ELSE ptr
           pb   == IF pre THEN Block ELSE 0
           k0   == Blocks(keep - p2 + pb, length)
           k    == IF pre /\ k0 = 0 THEN 1 ELSE k0
       IN  <<keep + pb + k * Block, p2,
             (IF trim THEN keep ELSE 0) + k * (keep + pb) + Block * ((k * (k + 1)) \div 2) + k * Block + pb>>

\* cost = characters touched by the call itself (prefix slice, forward loop); a prefix slice is bounded per call
\* (CallCost) and is not something consumption can pay for: a client may take the same prefix again and again
Do(u, cost, fw, sn) ==
  /\ blen' = u[1] /\ ptr' = u[2] + fw
  /\ seen' = sn
  /\ last' = u[3] + cost
  /\ credit' = Min2(Cap, credit + Dep * fw + PerCall) - (u[3] + fw)
  /\ pre' = (pre /\ u[3] = 0 /\ u[1] = blen)
  /\ UNCHANGED eof

NoUp == <<blen, ptr, 0>>
\* after the end of the stream the buffer ends with NUL and the client stays in front of it
Peek    == \E i \in 0 .. Look - 1 : (eof => ptr + i < blen) /\ Do(IF ptr + i >= blen THEN Update(i + 1) ELSE NoUp, 0, 0, Max2(seen, i + 1))
Prefix  == \E l \in 0 .. Look : (eof => ptr + l <= blen) /\ Do(IF ptr + l >= blen THEN Update(l) ELSE NoUp, l, 0, Max2(seen, l))
Forward == \E l \in 0 .. seen : (eof => ptr + l < blen) /\ Do(IF ptr + l + 1 >= blen THEN Update(l + 1) ELSE NoUp, l, l, seen - l)
EndOfStream == ~eof /\ eof' = TRUE /\ UNCHANGED <<blen, ptr, seen, credit, last, pre>>   \* a read returned nothing

Init == blen = 0 /\ ptr = 0 /\ seen = 0 /\ eof = FALSE /\ credit = Cap /\ last = 0 /\ pre = TRUE
Next == Peek \/ Prefix \/ Forward \/ EndOfStream
Spec == Init /\ [][Next]_vars

BufferBound == blen <= BufMax /\ ptr <= blen
CallCost    == last <= CMax
Amortised   == credit >= 0
Bounded     == blen <= MaxBuf                \* CONSTRAINT of the negative control
=============================================================================
