----------------------------- MODULE DocDeliver -----------------------------
(***************************************************************************)
(* How the text of n dumped documents reaches a loader that reads from a   *)
(* file-like object, and what C12 requires of it: load_all / compose_all / *)
(* parse / scan of the stream yield exactly the n documents, however the   *)
(* stream cuts the text into pieces.                                       *)
(*                                                                         *)
(* Environment (the stream): read(asked) returns between 1 and asked of    *)
(* the units that remain, and the empty piece only when nothing remains    *)
(* (the file protocol: short reads are legal - pipes, sockets, unbuffered  *)
(* files, producers that write one line or one document at a time).  A     *)
(* *schedule* is a non-empty sequence of read kinds, applied cyclically:   *)
(*   one   1 unit                 two   2 units                            *)
(*   line  up to and including the next line break                         *)
(*   doc   up to the end of the text written for the current document      *)
(*         (the read ends exactly at a document boundary)                  *)
(*   half  half of what remains of the current document (cut inside)       *)
(*   all   as much as was asked for (exact-size reads; what StringIO does)  *)
(* every piece capped by what was asked for and by what remains.           *)
(*                                                                         *)
(* L (reader.py:146-190, shape of Reader.update / update_raw; the same     *)
(* protocol is spoken by _yaml.pyx input_handler): the consumer asks for   *)
(* `need` units of look-ahead; while fewer are available and the end of    *)
(* input has not been seen, one more piece is requested and appended; the  *)
(* end of input is declared when - and only when - a piece is EMPTY        *)
(* (EofRule = "empty").  EofRule = "short" is the negative control ("a     *)
(* piece shorter than asked for means the stream is exhausted").           *)
(* The consumer (scanner + parser + ...) is ideal here: it takes the units *)
(* in order; a unit carries the number of the document it was written for  *)
(* (0: text after the last document, e.g. the `...` of an open-ended       *)
(* stream end), so "the documents that come back" are the groups of        *)
(* consumed units.                                                         *)
(*                                                                         *)
(* H (H_DocBoundaries (1) and (2) at the level of delivery): when the      *)
(* consumer has seen the end of input, as many documents have come back as *)
(* were written, and document j that came back is document j as written -  *)
(* none lost, none cut short, none merged or split.                        *)
(***************************************************************************)
EXTENDS Naturals, Sequences, FiniteSets
CONSTANTS Shapes,      \* names of the document texts (ShapeText)
          Tails,       \* names of the texts after the last document
          MaxDocs, Sizes, Kinds, MaxPeriod, EofRule

VARIABLES docs,        \* the documents written: sequence of shape names
          expect,      \* the root values they denote (constant; what the harness expects to come back)
          text,        \* what is on the stream: sequence of units [c: code point, d: number of the document, 0 = tail]
          sched, size, \* the schedule of the stream, the number of units the reader asks for per read (model of 4096 / 16384)
          pos,         \* stream offset
          rcv,         \* units received so far (buffer, including what the consumer has taken already)
          eof,         \* the reader has declared the end of input
          ptr,         \* units taken by the consumer
          log,         \* <<asked, got>> of every read
          done         \* the consumer has seen the end of input
vars == <<docs, expect, text, sched, size, pos, rcv, eof, ptr, log, done>>

LF == 10
ShapeText(s) == CASE s = "empty" -> <<45, 45, 45, LF>>                          \* ---
                  [] s = "word"  -> <<45, 45, 45, 32, 97, LF>>                  \* --- a
                  [] s = "below" -> <<45, 45, 45, LF, 97, LF>>                  \* --- / a
                  [] s = "ended" -> <<45, 45, 45, 32, 97, LF, 46, 46, 46, LF>>  \* --- a / ...
                  [] s = "keep"  -> <<45, 45, 45, 32, 124, 43, LF, 32, 97, LF, LF>>   \* --- |+ / _a / (empty line)
                  [] s = "none"  -> <<>>
                  [] s = "dots"  -> <<46, 46, 46, LF>>
\* the value of the root scalar the shape denotes (for the harness: the expected documents)
ShapeValue(s) == CASE s \in {"word", "below", "ended"} -> <<97>> [] s = "keep" -> <<97, LF, LF>> [] OTHER -> <<>>

Min(a, b) == IF a < b THEN a ELSE b
RECURSIVE Units(_, _)
Units(ds, j) == IF j > Len(ds) THEN <<>>
                ELSE LET t == ShapeText(ds[j]) IN [i \in 1 .. Len(t) |-> [c |-> t[i], d |-> j]] \o Units(ds, j + 1)
TextOf(ds, tail) == Units(ds, 1) \o [i \in 1 .. Len(ShapeText(tail)) |-> [c |-> ShapeText(tail)[i], d |-> 0]]
SeqsUpTo(S, n) == UNION {[1 .. k -> S] : k \in 0 .. n}

N == Len(text)
\* document boundaries: offsets at which the text written for a document ends
Bounds == {p \in 1 .. N : text[p].d > 0 /\ (p = N \/ text[p + 1].d # text[p].d)}
LineEnds == {p \in 1 .. N : text[p].c = LF}
NextIn(S, p) == IF \E q \in S : q > p THEN CHOOSE q \in S : q > p /\ \A r \in S : r > p => q <= r ELSE N
Got(kind, asked, p) ==
  LET want == CASE kind = "one" -> 1
                [] kind = "two" -> 2
                [] kind = "line" -> NextIn(LineEnds, p) - p
                [] kind = "doc" -> NextIn(Bounds, p) - p
                [] kind = "half" -> (NextIn(Bounds, p) - p + 1) \div 2
                [] kind = "all" -> asked
  IN  Min(Min(want, asked), N - p)

Init == /\ docs \in SeqsUpTo(Shapes, MaxDocs)
        /\ expect = [j \in 1 .. Len(docs) |-> ShapeValue(docs[j])]
        \* (a `...` after the last document is what an emitter adds to an open-ended stream: never to an empty stream, never
        \* after a document that ends with `...` itself)
        /\ \E tail \in Tails : (tail = "none" \/ (docs # <<>> /\ docs[Len(docs)] # "ended")) /\ text = TextOf(docs, tail)
        /\ sched \in UNION {[1 .. k -> Kinds] : k \in 1 .. MaxPeriod}
        /\ size \in Sizes
        /\ pos = 0 /\ rcv = <<>> /\ eof = FALSE /\ ptr = 0 /\ log = <<>> /\ done = FALSE

Avail == Len(rcv) - ptr
\* look-ahead the consumer wants before it takes a unit: at the start of a line the four units that tell a document
\* marker from content (scanner.py check_document_start / check_document_end), else the unit and its successor
Need == IF ptr = 0 \/ rcv[ptr].c = LF THEN 4 ELSE 2

\* Reader.update_raw: one more piece
Refill ==
  /\ ~done /\ ~eof /\ Avail < Need
  /\ LET kind == sched[(Len(log) % Len(sched)) + 1]
         g == Got(kind, size, pos)
     IN  /\ rcv' = rcv \o SubSeq(text, pos + 1, pos + g)
         /\ pos' = pos + g
         /\ log' = Append(log, <<size, g>>)
         /\ eof' = IF EofRule = "empty" THEN g = 0 ELSE g < size
  /\ UNCHANGED <<docs, expect, text, sched, size, ptr, done>>
\* the consumer takes a unit (forward)
Take ==
  /\ ~done /\ (Avail >= Need \/ eof) /\ Avail > 0
  /\ ptr' = ptr + 1
  /\ UNCHANGED <<docs, expect, text, sched, size, pos, rcv, eof, log, done>>
\* the consumer meets the end-of-input mark (NUL after the last unit received)
End ==
  /\ ~done /\ eof /\ Avail = 0
  /\ done' = TRUE
  /\ UNCHANGED <<docs, expect, text, sched, size, pos, rcv, eof, ptr, log>>
Next == Refill \/ Take \/ End
Spec == Init /\ [][Next]_vars

\* ------------------------------------------------------------------ H
Taken == SubSeq(rcv, 1, ptr)
CameBack == {Taken[i].d : i \in 1 .. ptr} \ {0}
DocBack(j) == LET u == SelectSeq(Taken, LAMBDA x : x.d = j) IN [i \in 1 .. Len(u) |-> u[i].c]
\* (1) n documents in, n out   (2) document j out = document j in
DocBoundariesKept ==
  done => /\ Cardinality(CameBack) = Len(docs)
          /\ \A j \in 1 .. Len(docs) : DocBack(j) = ShapeText(docs[j])
\* nothing is invented or reordered on the way
InOrder == \A i \in 1 .. Len(rcv) : rcv[i] = text[i]
\* the design reason: the end of input is declared only when the stream is exhausted
EofOnlyAtEnd == eof => pos = N
=============================================================================
