SPECIFICATION Spec
CONSTANTS
  SmallSteps = {1, 2, 3, 5, 7}
  PlaceSteps = {64, 1000}
  PyRefills = 1
  CRefills = 1
  FullForms = {"text", "s8"}
  MaxUnits = 17000
  Contexts = {"top", "entries", "doc", "indent", "comment", "plain", "dquote", "squote", "literal", "folded", "spaces", "blank", "tag", "verbatim", "anchor", "flow"}
INVARIANT TypeOK
INVARIANT Aligned
INVARIANT Straddles
INVARIANT MemWhole
