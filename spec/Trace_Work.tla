----------------------------- MODULE Trace_Work -----------------------------
(***************************************************************************)
(* C20: judgement of measurements taken from the real loader / dumper.     *)
(* H_LinearWork, written from the property text: "the amount of work - at  *)
(* most doubles, up to a small tolerance, when the size doubles":          *)
(*      work(2n) <= (2 + Eps/100) * work(n)  for every doubling measured.  *)
(* All arithmetic is integer:  100 * (b - 2a) <= Eps * a  is evaluated as  *)
(* b - 2a <= (Eps * a) \div 100, which is equivalent for integers and      *)
(* stays below 2^31 for a < 10^8.                                          *)
(*                                                                         *)
(* record kinds (one TLC initial state per record, batched):               *)
(*  "ratio": [family, api, n, w]  w = <<work(n), work(2n), work(4n), ...>> *)
(*           work = interpreter-level function calls (sys.setprofile       *)
(*           'call' + 'c_call')                                            *)
(*  "prim":  the structural bounds of Work.tla / WorkReader.tla /          *)
(*           WorkEmit.tla instantiated with the REAL constants             *)
(*           (MaxKey = 1024, Block = the observed read size):              *)
(*           q, k, b, e = <<max at n, max at 2n, max at 4n>> of            *)
(*           len(tokens), len(possible_simple_keys), len(buffer),          *)
(*           len(events); depth, flow, look = the family's block depth,    *)
(*           flow depth and longest unbroken line                          *)
(*           A structure that exceeds its bound AND grows with n is what   *)
(*           "no family exhibits quadratic growth" forbids (its pop / copy *)
(*           cost is its length); exceeding the bound by a constant is     *)
(*           model drift and only noted.                                   *)
(***************************************************************************)
EXTENDS Integers, Sequences, TLC, Json, IOUtils
CONSTANTS Eps,        \* tolerance in percent
          MaxKey      \* 1024
Traces == JsonDeserialize(IOEnv.TRACE_FILE)
VARIABLE tid

Doubles(a, b) == b - 2 * a <= (Eps * a) \div 100           \* H_LinearWork for one doubling

RECURSIVE FirstBad(_, _)
FirstBad(w, i) == IF i >= Len(w) THEN 0 ELSE IF Doubles(w[i], w[i + 1]) THEN FirstBad(w, i + 1) ELSE i

\* bounds of the L models with the real constants
QBound(t) == MaxKey + t.depth + 6                           \* Work!QueueBound : QMax == MaxKey + MaxCol + 6
KBound(t) == IF t.flow + 1 < MaxKey + 2 THEN t.flow + 1 ELSE MaxKey + 2    \* Work!KeysBound
BBound(t) == IF t.block = 0 THEN t.size + 1                 \* str / bytes input: the whole text + NUL
             ELSE 2 * t.block + t.look + 3                     \* Work!BufferBound, WorkReader!BufferBound
EBound(t) == 4                                              \* WorkEmit!EventQueueBound

Last(s) == s[Len(s)]
Grows(s) == 2 * Last(s) > 3 * s[1]                         \* more than half as large again while the size quadruples
Over(s, bound) == Last(s) > bound

JudgePrim(t) ==
  LET bad == [q |-> Over(t.q, QBound(t)), k |-> Over(t.k, KBound(t)), b |-> Over(t.b, BBound(t)), e |-> Over(t.e, EBound(t))]
      grow == [q |-> Grows(t.q), k |-> Grows(t.k), b |-> Grows(t.b), e |-> Grows(t.e)]
  IN  IF bad.q /\ grow.q THEN [ok |-> FALSE, why |-> "token queue grows with the input", at |-> Last(t.q)]
      ELSE IF bad.k /\ grow.k THEN [ok |-> FALSE, why |-> "simple-key table grows with the input", at |-> Last(t.k)]
      ELSE IF bad.b /\ grow.b THEN [ok |-> FALSE, why |-> "reader buffer grows with the input", at |-> Last(t.b)]
      ELSE IF bad.e /\ grow.e THEN [ok |-> FALSE, why |-> "emitter event queue grows with the input", at |-> Last(t.e)]
      ELSE IF bad.q THEN [ok |-> TRUE, why |-> "drift: token queue above the model bound", at |-> Last(t.q)]
      ELSE IF bad.k THEN [ok |-> TRUE, why |-> "drift: simple-key table above the model bound", at |-> Last(t.k)]
      ELSE IF bad.b THEN [ok |-> TRUE, why |-> "drift: reader buffer above the model bound", at |-> Last(t.b)]
      ELSE IF bad.e THEN [ok |-> TRUE, why |-> "drift: event queue above the model bound", at |-> Last(t.e)]
      ELSE [ok |-> TRUE, why |-> "-", at |-> 0]

JudgeRatio(t) ==
  LET i == FirstBad(t.w, 1) IN
  IF \E j \in DOMAIN t.w : t.w[j] <= 0 THEN [ok |-> FALSE, why |-> "no work measured", at |-> 0]
  ELSE IF i = 0 THEN [ok |-> TRUE, why |-> "-", at |-> 0]
  ELSE [ok |-> FALSE, why |-> "work more than doubles when the size doubles", at |-> i]

Judge(t) == IF t.kind = "ratio" THEN JudgeRatio(t) ELSE JudgePrim(t)

Init == tid \in 1 .. Len(Traces)
Next == FALSE /\ tid' = tid
Spec == Init /\ [][Next]_tid
Verdict == LET r == Judge(Traces[tid]) IN PrintT(<<"VERDICT", tid, r.ok, r.why, r.at>>)
=============================================================================
