SPECIFICATION LSpec
CONSTANTS
  Focuses = {"file"}
  Thorough = FALSE
  MaxKey = 1024
  FixD1 = FALSE
  FixD10 = FALSE
  Fine = FALSE
  FromFile = TRUE
INVARIANT Report
