SPECIFICATION Spec
INVARIANT Verdict
