SPECIFICATION Spec
INVARIANT Verdict
