------------------------------ MODULE Scanner ------------------------------
(***************************************************************************)
(* L model of scanner.py (with the part of reader.py it stands on): the    *)
(* character-level scanner as the state machine it is.                     *)
(*                                                                         *)
(* INPUT.  A sequence of abstract symbols, one per class of characters     *)
(* the code distinguishes anywhere (the literal character sets of          *)
(* scanner.py), plus macro-symbols for lexemes a length bound would never  *)
(* reach.  A macro-symbol has a width W(s) > 1 and is made of one first    *)
(* character followed by ASCII letters/digits only, so every loop of the   *)
(* scanner either stops in front of it or runs across it as a whole:       *)
(*                                                                         *)
(*   w  letter that is neither a hex digit nor an escape name (g k z Q Z)  *)
(*   h  hex letter that is not an escape name (A B)   a  hex letter that   *)
(*   is an escape name (a b)   n  escape-name letter (n t v r N L P)       *)
(*   xc uc Uc  the letters x u U (escape codes of 2, 4, 8 hex digits)      *)
(*   0 .. 9    digits     u  non-ASCII printable    nd  non-ASCII digit     *)
(*   (superscripts, circled, Arabic-Indic, fullwidth: the code tests ASCII  *)
(*   digits only, so nd is in no class of its own and behaves like u)      *)
(*   sp tab lf cr nel ls ps bom   np  non-printable (reader error)         *)
(*   - ? : , [ ] { } # & * ! | > ' dq % @ bt bs . < + _ /                  *)
(*   up  URI punctuation ; = $ ~ ( )     o  other ASCII punctuation ^      *)
(*   X2  = x + 2 hex         U4 = u + 4 hex (scalar value)                 *)
(*   U4s = u + D800..DFFF    U8 = U + 8 hex <= 10FFFF   U8s = U0000D800    *)
(*   U8big = U + 00110000..7FFFFFFF        U8huge = U + 80000000..FFFFFFFF *)
(*   YAML TAG  directive names      L  a word of MaxKey characters         *)
(*   DBIG  a run of 4301 digits (CPython refuses int() of > 4300 digits)   *)
(*   NX NB NO ND NU  long numbers (0x / 0b / 0o + 40 digits, 40 decimal     *)
(*   digits, 20 x digit-underscore): ordinary characters for the scanner,   *)
(*   long lexemes for whatever looks at plain scalars after it             *)
(*   P1 = %41   P2a = %C3   P2b = %A9   Pbad = %FF   (URI escapes)         *)
(*                                                                         *)
(* LONG RUNS.  A run symbol R<x> (Rsp Rtab Rlf Rcr Rcrlf Rnel Rls Rps Rw   *)
(* Ru Rhash Rdash Rdot R0 R1) chosen by the environment stands for more    *)
(* than BulkW (1200 / 5000; digits 4400) repetitions of the character      *)
(* class x.  Extend writes it as  x^a  B<x>  x^b : a copies of x, the BULK *)
(* symbol B<x> (one symbol, width BulkW, class x) and b more copies.  The  *)
(* scanner consumes characters in two ways: in a loop over a class (while  *)
(* peek() in set: forward()) - such a loop crosses a bulk as a whole, and  *)
(* the result is the one of crossing W characters one by one because every *)
(* iteration sees the same class ahead (the b copies behind the bulk take  *)
(* the look-ahead of its last character: CR LF) - or by a single forward() *)
(* after a test of one character.  A single forward() that meets a bulk    *)
(* would end inside the run, which a state of this model cannot express:   *)
(* it is a TLC assertion failure (Fwd1), so a complete TLC run proves that *)
(* within the explored bounds the a copies in front always absorb the      *)
(* single forwards (a = 3, 8 for digits: an escape reads 8 hex digits).    *)
(* A bulk of line breaks advances the line by its width; its normalised    *)
(* value is the item NLs(q) (W line feeds).  At most one run per input.    *)
(* Unit runs U<name> (Udash = "- " x n, Ucomma, Uopen = "[" x n, Udoc =    *)
(* "---\n" x n, ...) repeat a TOKEN-producing unit; the scanner's state is *)
(* not periodic over them (indent stack, flow level, 1024 rule), so the    *)
(* model makes no prediction for an input that contains one (outcome       *)
(* "unmodelled"): the specification is the generator of these inputs, H    *)
(* (Trace_Outcome.tla) judges what the implementation does with them.      *)
(*                                                                         *)
(* POSITIONS.  rd = [p, i, l, c, wk]: p symbols consumed, i/l/c the        *)
(* reader's index / line / column (in characters: a macro advances i and   *)
(* c by its width), wk the work counter (one unit per forward() and per    *)
(* step).  Sym(q) is peek(): the q-th symbol, the NUL sentinel "Z" at the  *)
(* end, and a TLC assertion failure beyond it (that would be IndexError).  *)
(*                                                                         *)
(* VALUES.  Token values are sequences of items: q > 0 copy of input       *)
(* symbol number q; NLc a line feed produced by normalisation; SPc the     *)
(* space of a folded break; 10000+q the character denoted by the escape    *)
(* whose designator is symbol q; 20000+q the byte of URI escape q;          *)
(* 30000+q the two hex digits of macro q read as plain characters.         *)
(*                                                                         *)
(* PARTIAL OPERATIONS.  Everything that would be a Python exception other  *)
(* than ScannerError / ReaderError is an explicit "crash" result: chr()    *)
(* of a code above 0x10FFFF (ValueError) or above 2^31 (OverflowError),    *)
(* int() of more than 4300 digits (ValueError), pop of an empty indent     *)
(* stack (IndexError).                                                     *)
(***************************************************************************)
EXTENDS Integers, Sequences, FiniteSets, TLC
TG == INSTANCE TokenGrammar

CONSTANTS Focuses,      \* names of the focus configurations (rows of FocusTable) to explore in this run
          Thorough,     \* BOOLEAN: use the larger bound of each focus
          MaxKey,       \* 1024 in the code
          FixD1,        \* model of fix_proposals/D1.diff: escape codes above 0x10FFFF are a ScannerError
          FixD10,       \* model of fix_proposals/D10.diff: version numbers of more than 9 digits are a ScannerError
          Fine          \* TRUE: one step per method (design check); FALSE: one step per input (enumeration)

(***************************************************************************)
(* Focus configurations: every input is  prefix \o (any string of at most  *)
(* n (quick) or m (thorough) symbols over the alphabet a).  The table is   *)
(* part of the specification because a configuration file cannot contain   *)
(* a tuple, and because one TLC run explores all chosen rows.              *)
(*   struct .. cont       C03 / C09: the scanner's corners                 *)
(*   dstruct, dindic      design check (Fine = TRUE), every action fires   *)
(*   p*                   C06: portable alphabets (LoadPipe.tla)           *)
(*   file                 inputs come from a file (LoadPipe.tla)           *)
(***************************************************************************)
NumMacro == {"NX", "NB", "NO", "ND", "NU"}     \* long numbers: 0x / 0b / 0o + 40 digits, 40 decimal digits, 1_1_1_...
(***************************************************************************)
(* long runs: run symbol -> [b: bulk symbol, x: the repeated unit (base    *)
(* symbols), a / z: copies written in front of / behind the bulk]          *)
(***************************************************************************)
RunTable == [
  Rsp   |-> [b |-> "Bsp",   x |-> <<"sp">>,  a |-> 3, z |-> 1],
  Rtab  |-> [b |-> "Btab",  x |-> <<"tab">>, a |-> 3, z |-> 1],
  Rlf   |-> [b |-> "Blf",   x |-> <<"lf">>,  a |-> 3, z |-> 1],
  Rcr   |-> [b |-> "Bcr",   x |-> <<"cr">>,  a |-> 3, z |-> 1],
  Rcrlf |-> [b |-> "Bcrlf", x |-> <<"cr", "lf">>, a |-> 2, z |-> 1],
  Rnel  |-> [b |-> "Bnel",  x |-> <<"nel">>, a |-> 3, z |-> 1],
  Rls   |-> [b |-> "Bls",   x |-> <<"ls">>,  a |-> 3, z |-> 1],
  Rps   |-> [b |-> "Bps",   x |-> <<"ps">>,  a |-> 3, z |-> 1],
  Rw    |-> [b |-> "Bw",    x |-> <<"w">>,   a |-> 3, z |-> 1],
  Ru    |-> [b |-> "Bu",    x |-> <<"u">>,   a |-> 3, z |-> 1],
  Rhash |-> [b |-> "Bhash", x |-> <<"#">>,   a |-> 3, z |-> 1],
  Rdash |-> [b |-> "Bdash", x |-> <<"-">>,   a |-> 3, z |-> 1],
  Rdot  |-> [b |-> "Bdot",  x |-> <<".">>,   a |-> 3, z |-> 1],
  R0    |-> [b |-> "B0",    x |-> <<"0">>,   a |-> 8, z |-> 1],
  R1    |-> [b |-> "B1",    x |-> <<"1">>,   a |-> 8, z |-> 1]]
RunSyms  == DOMAIN RunTable
BulkSyms == {RunTable[s].b : s \in RunSyms}
\* the class a bulk belongs to: what peek() sees anywhere inside it (Bcrlf: a CR, followed by LF CR LF ... and a CR LF copy)
BulkBase(s) == CASE s = "Bsp" -> "sp" [] s = "Btab" -> "tab" [] s = "Blf" -> "lf" [] s \in {"Bcr", "Bcrlf"} -> "cr"
                 [] s = "Bnel" -> "nel" [] s = "Bls" -> "ls" [] s = "Bps" -> "ps" [] s = "Bw" -> "w" [] s = "Bu" -> "u"
                 [] s = "Bhash" -> "#" [] s = "Bdash" -> "-" [] s = "Bdot" -> "." [] s = "B0" -> "0" [] s = "B1" -> "1"
Cls(s) == IF s \in BulkSyms THEN BulkBase(s) ELSE s
BulkW == IF Thorough THEN 5000 ELSE 1200                      \* characters in a bulk (beyond the interpreter's recursion limit)
DigitBulkW == 4400                                            \* beyond CPython's limit of 4300 digits for int()
\* repeated token-producing units (no prediction by the model; see the header)
UnitSyms == {"Udash", "Uq", "Ucolon", "Ucomma", "Uwcomma", "Uopen", "Ubrace", "Uclose", "Uflowq", "Uflowcolon", "Udoc", "Uend",
             "Uydir", "Udir", "Uanchor", "Utag", "Ualias", "Uentry", "Upair", "Ufpair", "Ucmt", "Usq", "Udq", "Uesc", "Ulit", "Uqq", "Ubsbs",
             "Uempty", "Uqempty"}
RECURSIVE Rep(_, _)
Rep(x, k) == IF k = 0 THEN <<>> ELSE x \o Rep(x, k - 1)
Expand(s) == IF s \in RunSyms THEN LET t == RunTable[s] IN Rep(t.x, t.a) \o <<t.b>> \o Rep(t.x, t.z) ELSE <<s>>
Structural == {"w", "sp", "lf", "-", "?", ":", ",", "[", "]", "{", "}", "#"}
FocusTable == [
  struct   |-> [p |-> <<>>, n |-> 4, m |-> 5, a |-> Structural],
  struct2  |-> [p |-> <<>>, n |-> 1, m |-> 5, a |-> {"w", "sp", "lf", "-", ":", "[", "]", ","}],
  block    |-> [p |-> <<>>, n |-> 5, m |-> 6, a |-> {"w", "sp", "lf", "-", ":", "?"}],
  indic    |-> [p |-> <<>>, n |-> 3, m |-> 4, a |-> {"&", "*", "!", "|", ">", "'", "dq", "%", "@", "bt", "w", "lf", ".", ":", "sp", "-"}],
  breaks   |-> [p |-> <<>>, n |-> 3, m |-> 4, a |-> {"w", "sp", "lf", "cr", "nel", "ls", "ps", "bom", "np", "tab", ":", "-", "#"}],
  docs     |-> [p |-> <<>>, n |-> 5, m |-> 7, a |-> {"-", ".", "w", "lf", "sp"}],
  dquote   |-> [p |-> <<"dq">>, n |-> 4, m |-> 5, a |-> {"w", "sp", "lf", "dq", "bs", "n", "-", "tab"}],
  escape   |-> [p |-> <<"dq", "bs">>, n |-> 2, m |-> 3,
                a |-> {"xc", "uc", "Uc", "0", "1", "h", "a", "X2", "U4", "U4s", "U8", "U8s", "U8big", "U8huge", "dq", "w", "lf",
                       "sp", "/", "_", "bs", "tab", "u", "nd", "9"}],
  hex      |-> [p |-> <<"dq", "bs">>, n |-> 3, m |-> 5, a |-> {"xc", "uc", "0", "1", "h", "dq", "-", "_", "nd"}],
  squote   |-> [p |-> <<"'">>, n |-> 3, m |-> 5, a |-> {"w", "sp", "lf", "dq", "bs", "'", ".", "-", "cr"}],
  yamldir  |-> [p |-> <<"%", "YAML", "sp">>, n |-> 3, m |-> 4, a |-> {"1", "2", "0", ".", "sp", "lf", "#", "w", "DBIG", "u", "nd", "-", "+", "_"}],
  dir      |-> [p |-> <<"%">>, n |-> 3, m |-> 4, a |-> {"YAML", "TAG", "w", "sp", "lf", "!", "1", ".", "-", "#", "P1", "u", "tab"}],
  tagdir   |-> [p |-> <<"%", "TAG", "sp", "!">>, n |-> 3, m |-> 4, a |-> {"w", "!", "sp", "lf", "%", "P1", "Pbad", "1", "h", "#", "-", "+", "_", "nd"}],
  tag      |-> [p |-> <<"!">>, n |-> 3, m |-> 4,
                a |-> {"w", "!", "sp", "lf", "%", "P1", "P2a", "P2b", "Pbad", "<", ">", "tab", ",", "1", "a", "-", "+", "nd"}],
  verbatim |-> [p |-> <<"!", "<">>, n |-> 3, m |-> 4,
                a |-> {"w", "!", "sp", ">", "P1", "P2a", "P2b", "Pbad", "up", "lf", "u", "%", "1", "-", "_", "nd"}],
  literal  |-> [p |-> <<"|">>, n |-> 4, m |-> 5, a |-> {"w", "sp", "lf", "-", "+", "1", "nd"}],
  folded   |-> [p |-> <<">">>, n |-> 3, m |-> 5, a |-> {"w", "sp", "lf", "2", "0", "#", "tab", "cr", "ls"}],
  seqlit   |-> [p |-> <<"-", "sp", "|">>, n |-> 4, m |-> 5, a |-> {"w", "sp", "lf", "1", "nel", "-", ":"}],
  mapblock |-> [p |-> <<"w", ":", "lf">>, n |-> 4, m |-> 5, a |-> {"w", "sp", "lf", ">", "|", "-", ":", "3"}],
  anchors  |-> [p |-> <<>>, n |-> 3, m |-> 4,
                a |-> {"&", "*", "w", "sp", "lf", ":", "-", "_", "1", "u", "@", "bt", "%", "tab", "]", ",", "nd"}],
  longkey  |-> [p |-> <<>>, n |-> 4, m |-> 5, a |-> {"L", "w", ":", "sp", "lf", "?", "["}],
  flowkeys |-> [p |-> <<"[">>, n |-> 3, m |-> 4, a |-> {"w", ":", ",", "?", "]", "[", "{", "}", "lf", "sp"}],
  cont     |-> [p |-> <<"w", "lf", "sp">>, n |-> 4, m |-> 5, a |-> {"-", ".", "w", "sp", "lf", ":", "#"}],
  indentless |-> [p |-> <<"w", ":", "lf", "-">>, n |-> 4, m |-> 6, a |-> {"w", "sp", "lf", "-", ":", "?"}],
  numbers  |-> [p |-> <<>>, n |-> 2, m |-> 3, a |-> {"NX", "NB", "NO", "ND", "NU", "w", "-", "_", ":", ".", "sp", "lf", "[", "h"}],
  dstruct  |-> [p |-> <<>>, n |-> 3, m |-> 4, a |-> Structural],
  dindic   |-> [p |-> <<>>, n |-> 3, m |-> 4, a |-> {"&", "*", "!", "|", ">", "'", "dq", "%", "@", "w", "lf", ".", "sp"}],
  pstruct  |-> [p |-> <<>>, n |-> 3, m |-> 4, a |-> Structural],
  pstruct8 |-> [p |-> <<>>, n |-> 3, m |-> 5, a |-> {"w", "sp", "lf", "-", ":", "[", "]", ","}],
  pblock   |-> [p |-> <<>>, n |-> 4, m |-> 6, a |-> {"w", "sp", "lf", "-", ":", "?"}],
  pflow    |-> [p |-> <<"[">>, n |-> 3, m |-> 4, a |-> {"w", ":", ",", "?", "]", "[", "{", "}", "lf", "sp"}],
  pbreaks  |-> [p |-> <<>>, n |-> 3, m |-> 4, a |-> {"w", "sp", "lf", "cr", "nel", "ls", "ps", ":", "-", "#"}],
  pdocs    |-> [p |-> <<>>, n |-> 4, m |-> 6, a |-> {"-", ".", "w", "lf", "sp"}],
  pdquote  |-> [p |-> <<"dq">>, n |-> 3, m |-> 4, a |-> {"w", "sp", "lf", "dq", "bs", "n", "'", "-", "nel", "ls"}],
  psquote  |-> [p |-> <<"'">>, n |-> 3, m |-> 4, a |-> {"w", "sp", "lf", "dq", "bs", "'", ".", "-", "cr", "ps"}],
  pescape  |-> [p |-> <<"dq", "bs">>, n |-> 2, m |-> 3,
                a |-> {"xc", "uc", "Uc", "0", "1", "h", "a", "X2", "U4", "U8", "dq", "w", "lf", "sp", "/", "_", "bs", "u", "n"}],
  pyamldir |-> [p |-> <<"%", "YAML", "sp", "1", ".", "1">>, n |-> 4, m |-> 5, a |-> {"lf", "-", "sp", "w", "#", ":", "."}],
  ptagdoc  |-> [p |-> <<"%", "TAG", "sp", "!", "w", "!", "sp", "w", ":", "lf", "-", "-", "-", "sp">>, n |-> 4, m |-> 5,
                a |-> {"!", "w", ":", "sp", "lf", "1"}],
  ptag     |-> [p |-> <<"!">>, n |-> 3, m |-> 4, a |-> {"w", "!", "sp", "lf", "P1", "P2a", "P2b", "<", ">", ":", "1", ".", ","}],
  pliteral |-> [p |-> <<"|">>, n |-> 3, m |-> 4, a |-> {"w", "sp", "lf", "-", "+", "1", "#"}],
  pfolded  |-> [p |-> <<">">>, n |-> 3, m |-> 4, a |-> {"w", "sp", "lf", "2", "-", "cr", "ls", "nel"}],
  pseqlit  |-> [p |-> <<"-", "sp", "|">>, n |-> 3, m |-> 4, a |-> {"w", "sp", "lf", "1", "nel", "-", ":"}],
  pmapblock |-> [p |-> <<"w", ":", "lf">>, n |-> 3, m |-> 4, a |-> {"w", "sp", "lf", ">", "|", "-", ":", "3"}],
  panchors |-> [p |-> <<>>, n |-> 3, m |-> 4, a |-> {"&", "*", "w", "sp", "lf", ":", "-", "1", ",", "[", "]"}],
  pcont    |-> [p |-> <<"w", "lf", "sp">>, n |-> 3, m |-> 5, a |-> {"-", ".", "w", "sp", "lf", ":", "#"}],
  ptagdflt |-> [p |-> <<"%", "TAG", "sp", "!", "sp", "w", ":", "lf", "-", "-", "-", "sp", "!", "w", "lf", "-", "-", "-", "sp">>, n |-> 3, m |-> 4,
                a |-> {"!", "w", "sp", "lf", ":"}],
  pindentless |-> [p |-> <<"w", ":", "lf", "-">>, n |-> 4, m |-> 6, a |-> {"w", "sp", "lf", "-", ":"}],
  pbom     |-> [p |-> <<"bom">>, n |-> 3, m |-> 4, a |-> {"w", "sp", "lf", "-", ":", "#", "bom"}],
  pnested  |-> [p |-> <<"-", "sp", "-", "sp", "|">>, n |-> 4, m |-> 6, a |-> {"w", "sp", "lf", "1", "2", "-"}],
  pindic   |-> [p |-> <<>>, n |-> 3, m |-> 3, a |-> {"&", "*", "!", "|", ">", "'", "dq", "%", "@", "bt", "w", "lf", ".", ":", "sp", "-"}],
  \* long runs at every position of short strings, in every context (n / m count the environment's choices, not symbols)
  rtop     |-> [p |-> <<>>, n |-> 3, m |-> 4,
                a |-> {"w", "sp", "lf", ":", "-", "#", "[", ","} \cup {"Rsp", "Rtab", "Rlf", "Rcr", "Rcrlf", "Rnel", "Rls", "Rps", "Rw", "Ru",
                       "Rhash", "Rdash", "Rdot", "R0", "R1"}],
  rflow    |-> [p |-> <<"[", "w", ",">>, n |-> 3, m |-> 4,
                a |-> {"w", "sp", ",", "]", ":", "lf"} \cup {"Rsp", "Rtab", "Rlf", "Rcrlf", "Rw", "Rhash", "R0"}],
  rvalue   |-> [p |-> <<"w", ":">>, n |-> 3, m |-> 4, a |-> {"w", "sp", "lf", "#", ":", "-"} \cup {"Rsp", "Rtab", "Rlf", "Rcr", "Rw", "Rhash"}],
  rcomment |-> [p |-> <<"w", ":", "sp", "w">>, n |-> 2, m |-> 3, a |-> {"w", "sp", "lf", "#"} \cup {"Rsp", "Rtab", "Rhash", "Rw", "Rlf"}],
  rdq      |-> [p |-> <<"dq">>, n |-> 3, m |-> 4,
                a |-> {"w", "sp", "lf", "dq", "bs"} \cup {"Rsp", "Rtab", "Rlf", "Rcr", "Rcrlf", "Rls", "Rw", "Ru", "R0"}],
  rsq      |-> [p |-> <<"'">>, n |-> 3, m |-> 4, a |-> {"w", "sp", "lf", "'"} \cup {"Rsp", "Rtab", "Rlf", "Rnel", "Rw"}],
  rlit     |-> [p |-> <<"|">>, n |-> 3, m |-> 4,
                a |-> {"w", "sp", "lf", "1", "-", "#"} \cup {"Rsp", "Rtab", "Rlf", "Rcr", "Rw", "R0", "R1", "Rhash", "Rdash"}],
  rlitbody |-> [p |-> <<"|", "lf", "sp">>, n |-> 3, m |-> 4, a |-> {"w", "sp", "lf"} \cup {"Rsp", "Rtab", "Rlf", "Rcrlf", "Rps", "Rw", "Ru"}],
  rfold    |-> [p |-> <<">", "lf">>, n |-> 3, m |-> 4, a |-> {"w", "sp", "lf"} \cup {"Rsp", "Rtab", "Rlf", "Rnel", "Rw"}],
  ryaml    |-> [p |-> <<"%", "YAML", "sp">>, n |-> 3, m |-> 4,
                a |-> {"1", "0", ".", "sp", "lf", "#"} \cup {"R0", "R1", "Rsp", "Rtab", "Rhash", "Rlf"}],
  ryaml2   |-> [p |-> <<"%", "YAML", "sp", "1", ".">>, n |-> 3, m |-> 4, a |-> {"1", "0", "sp", "lf"} \cup {"R0", "R1"}],
  rdir     |-> [p |-> <<"%">>, n |-> 3, m |-> 4, a |-> {"w", "sp", "lf", "TAG", "!"} \cup {"Rw", "Rsp", "Rtab", "R0"}],
  rprops   |-> [p |-> <<>>, n |-> 3, m |-> 4, a |-> {"&", "*", "!", "<", "w", "sp", ":"} \cup {"Rw", "R0", "Rsp", "Rtab", "Rdash"}],
  rescape  |-> [p |-> <<"dq", "bs">>, n |-> 2, m |-> 3, a |-> {"xc", "uc", "Uc", "0", "dq", "w"} \cup {"R0", "R1", "Rsp", "Rtab", "Rlf"}],
  runits   |-> [p |-> <<>>, n |-> 2, m |-> 3, a |-> {"w", "sp", "lf", ":", "["} \cup UnitSyms],
  runitsf  |-> [p |-> <<"[", "w", ",">>, n |-> 2, m |-> 2,
                a |-> {"w", "]"} \cup {"Ucomma", "Uwcomma", "Uopen", "Ubrace", "Uflowq", "Uflowcolon", "Ufpair", "Uanchor", "Utag", "Usq", "Udq"}],
  runitsb  |-> [p |-> <<"w", ":">>, n |-> 2, m |-> 2,
                a |-> {"sp", "lf", "w"} \cup {"Udash", "Uq", "Ucolon", "Uentry", "Upair", "Ucmt", "Udoc", "Uend", "Uanchor", "Utag", "Ulit", "Uempty", "Uqempty"}],
  runitsq  |-> [p |-> <<"'">>, n |-> 2, m |-> 3, a |-> {"w", "'", "sp"} \cup {"Uqq", "Usq", "Udq", "Ucmt", "Udoc"}],
  runitsd  |-> [p |-> <<"dq">>, n |-> 2, m |-> 3, a |-> {"w", "dq", "sp"} \cup {"Uesc", "Ubsbs", "Udq", "Usq", "Uend"}],
  \* a flow level that is left and entered again on the same line (a simple-key candidate of the closed collection must be gone)
  reflow1  |-> [p |-> <<"[", "w", "]", ":", "sp", "[">>, n |-> 3, m |-> 5, a |-> {":", "sp", "w", "]", "[", ",", "?"}],
  reflow2  |-> [p |-> <<"{", "w", "}", ":", "sp", "{">>, n |-> 3, m |-> 5, a |-> {":", "sp", "w", "}", "{", ","}],
  reflow3  |-> [p |-> <<"[", "[", "w", "]", ",", "[">>, n |-> 3, m |-> 5, a |-> {":", "sp", "w", "]", "[", ","}],
  drun     |-> [p |-> <<>>, n |-> 3, m |-> 3, a |-> {"w", "sp", "lf", ":", "dq"} \cup {"Rsp", "Rtab", "Rlf", "Rw"}],
  file     |-> [p |-> <<>>, n |-> 0, m |-> 0, a |-> {}]]

\* a run of 4301 digits is only followed where the scanner reads a number as a whole, a long number only where it is a
\* run of ordinary characters (see design_parts/C03.md)
ASSUME \A f \in Focuses : FocusTable[f].a \cap ({"DBIG"} \cup NumMacro) # {} => FocusTable[f].a \cap {"bs", "|", ">", "%", "!"} = {}

VARIABLES focus, inp, pc, rd, done, flow, toks, taken, indent, indents, ask, keys, out, res, err, mon, path
vars == <<focus, inp, pc, rd, done, flow, toks, taken, indent, indents, ask, keys, out, res, err, mon, path>>
Prefix == FocusTable[focus].p
Alphabet == FocusTable[focus].a
MaxLen == IF Thorough THEN FocusTable[focus].m ELSE FocusTable[focus].n

(***************************************************************************)
(* alphabet classes (the literal character sets of scanner.py)             *)
(***************************************************************************)
AlnumMacro == {"X2", "U4", "U4s", "U8", "U8s", "U8big", "U8huge", "YAML", "TAG", "L", "DBIG"} \cup NumMacro
PMacro  == {"P1", "P2a", "P2b", "Pbad"}
Letters == {"w", "h", "a", "n", "xc", "uc", "Uc"}
Digit1  == {"0", "1", "2", "3", "4", "5", "6", "7", "8", "9"}
Digit   == Digit1 \cup {"DBIG"}                       \* '0' <= ch <= '9'
Alnum   == Letters \cup Digit \cup AlnumMacro
NameCh  == Alnum \cup {"-", "_"}                               \* anchors, directive names, tag handles
UriCh   == NameCh \cup {"up", "/", "?", ":", "@", "&", "+", ",", ".", "!", "*", "'", "[", "]", "%"} \cup PMacro
Hex     == Digit \cup {"h", "a"}
Brk     == {"lf", "cr", "nel", "ls", "ps"}
BrkZ    == Brk \cup {"Z"}                                     \* '\0\r\n\x85  '
SpBrkZ  == BrkZ \cup {"sp"}                                   \* '\0 \r\n\x85  '
SpTabBrkZ == SpBrkZ \cup {"tab"}                              \* '\0 \t\r\n\x85  '
FlowInd == {",", "[", "]", "{", "}"}
AnchorEnd == SpTabBrkZ \cup {"?", ":", ",", "]", "}", "%", "@", "bt"} \cup PMacro
NoPlainStart == SpTabBrkZ \cup {"-", "?", ":", ",", "[", "]", "{", "}", "#", "&", "*", "!", "|", ">", "'", "dq",
                                "%", "@", "bt"} \cup PMacro
EscName == {"0", "a", "n", "sp", "tab", "dq", "bs", "/", "_"} \* keys of ESCAPE_REPLACEMENTS
EscLen(s) == CASE s \in {"xc", "X2"} -> 2 [] s \in {"uc", "U4", "U4s"} -> 4
               [] s \in {"Uc", "U8", "U8s", "U8big", "U8huge"} -> 8 [] OTHER -> 0
EscMacro == {"X2", "U4", "U4s", "U8", "U8s", "U8big", "U8huge"}

W(s) == CASE s = "X2" -> 3 [] s \in {"U4", "U4s"} -> 5 [] s \in {"U8", "U8s", "U8big", "U8huge"} -> 9
          [] s = "YAML" -> 4 [] s = "TAG" -> 3 [] s \in PMacro -> 3 [] s = "L" -> MaxKey [] s = "DBIG" -> 4301
          [] s \in {"NX", "NB", "NO"} -> 42 [] s \in {"ND", "NU"} -> 40
          [] s \in {"B0", "B1"} -> DigitBulkW [] s \in BulkSyms \ {"B0", "B1"} -> BulkW
          [] OTHER -> 1
\* line breaks in a symbol that ends a line (Bcrlf: BulkW characters are BulkW / 2 breaks)
Lines(s) == IF s = "Bcrlf" THEN BulkW \div 2 ELSE IF s \in BulkSyms THEN BulkW ELSE 1
C(s) == IF s \in PMacro THEN "%" ELSE s                       \* first character, for comparisons with an indicator


NLc == -1
SPc == -2
NLs(q) == 40000 + q             \* the normalised value of the bulk of line breaks that is symbol q: Lines(inp[q]) line feeds
Esc(q) == 10000 + q
Uri(q) == 20000 + q
Hex2(q) == 30000 + q            \* the two hex digits of URI-escape macro q, read as ordinary characters

Last(s) == s[Len(s)]
Front(s) == SubSeq(s, 1, Len(s) - 1)
Max(a, b) == IF a > b THEN a ELSE b
Restrict(f, D) == [x \in D |-> f[x]]

(***************************************************************************)
(* reader.py: peek / prefix / forward / get_mark                           *)
(***************************************************************************)
\* Sym / SymS give the CLASS of what stands at symbol position q (a bulk looks like its characters); Raw gives the symbol
Sym(q)  == IF q < Len(inp) THEN Cls(inp[q + 1])
           ELSE IF q = Len(inp) THEN "Z"
           ELSE Assert(FALSE, <<"IndexError: peek beyond the NUL sentinel", q, inp>>)
SymS(q) == IF q < Len(inp) THEN Cls(inp[q + 1]) ELSE "Z"      \* slice semantics of prefix(): never fails
Raw(q)  == IF q < Len(inp) THEN inp[q + 1] ELSE "Z"

Mk(r) == [i |-> r.i, l |-> r.l, c |-> r.c]
NoMark == [i |-> -1, l |-> -1, c |-> -1]

\* Fwd: forward() inside a loop over a class of characters (crosses a bulk as a whole: W forwards);
\* Fwd1: a single forward() - meeting a bulk it would stop inside the run, which this model does not represent
Fwd(r) == LET s == Sym(r.p)
              x == Raw(r.p)
              brk == s \in {"lf", "nel", "ls", "ps"} \/ (s = "cr" /\ SymS(r.p + 1) # "lf")
          IN  IF s = "Z" THEN Assert(FALSE, <<"forward() across the NUL sentinel", r, inp>>)
              ELSE [p |-> r.p + 1, i |-> r.i + W(x), l |-> IF brk THEN r.l + Lines(x) ELSE r.l,
                    c |-> IF brk THEN 0 ELSE IF s = "bom" THEN r.c ELSE r.c + W(x), wk |-> r.wk + 1]
Fwd1(r) == IF Raw(r.p) \in BulkSyms THEN Assert(FALSE, <<"a single forward() meets a bulk: not representable", r, inp>>) ELSE Fwd(r)
RECURSIVE FwdTo(_, _), FwdN(_, _), Skip(_, _), SkipUntil(_, _), RunEnd(_, _), RunEndNot(_, _)
FwdTo(r, q)       == IF r.p < q THEN FwdTo(Fwd(r), q) ELSE r                        \* forward(length) after a look-ahead loop
FwdN(r, q)        == IF r.p < q THEN FwdN(Fwd1(r), q) ELSE r                        \* forward(n) for a fixed n
Skip(r, set)      == IF Sym(r.p) \in set THEN Skip(Fwd(r), set) ELSE r            \* while self.peek() in set: forward()
SkipUntil(r, set) == IF Sym(r.p) \notin set THEN SkipUntil(Fwd(r), set) ELSE r
RunEnd(q, set)    == IF Sym(q) \in set THEN RunEnd(q + 1, set) ELSE q             \* while self.peek(length) in set
RunEndNot(q, set) == IF Sym(q) \notin set THEN RunEndNot(q + 1, set) ELSE q
Copies(q1, q2)    == [k \in 1 .. (q2 - q1) |-> q1 + k]                            \* prefix(): symbols q1 .. q2-1 (0-based)

\* scan_line_break
\* LineBreak: called in a loop over line breaks (a bulk: all of its breaks); LineBreak1: called once
LineBreak(r) == LET s == Sym(r.p) IN
  IF s \in {"cr", "lf", "nel"}
  THEN [rd |-> IF s = "cr" /\ SymS(r.p + 1) = "lf" THEN Fwd(Fwd(r)) ELSE Fwd(r),
        v |-> IF Raw(r.p) \in BulkSyms THEN <<NLs(r.p + 1)>> ELSE <<NLc>>]
  ELSE IF s \in {"ls", "ps"} THEN [rd |-> Fwd(r), v |-> <<r.p + 1>>]
  ELSE [rd |-> r, v |-> <<>>]
LineBreak1(r) == IF Raw(r.p) \in BulkSyms /\ Sym(r.p) \in {"cr", "lf", "nel", "ls", "ps"}
                 THEN Assert(FALSE, <<"a single scan_line_break() meets a bulk: not representable", r, inp>>) ELSE LineBreak(r)

\* prefix(3) in ('---', '...') and peek(3) in '\0 \t\r\n\x85  '
DocSep(q) == /\ \/ (SymS(q) = "-" /\ SymS(q + 1) = "-" /\ SymS(q + 2) = "-")
                \/ (SymS(q) = "." /\ SymS(q + 1) = "." /\ SymS(q + 2) = ".")
             /\ Sym(q + 3) \in SpTabBrkZ

RECURSIVE Width(_)
Width(k) == IF k = 0 THEN 0 ELSE Width(k - 1) + W(inp[k])                \* characters in the first k symbols

(***************************************************************************)
(* results of sub-scanners                                                 *)
(***************************************************************************)
NoErr == [kind |-> "-", c |-> NoMark, p |-> NoMark]
MkTok(k, s, e, a, b, x) == [k |-> k, s |-> s, e |-> e, a |-> a, b |-> b, x |-> x]
NoTok == MkTok("-", NoMark, NoMark, <<>>, <<>>, "")
Ok(r, tok)           == [t |-> "ok", rd |-> r, tok |-> tok, e |-> NoErr]
Bad(r, kind, cm, pm) == [t |-> "err", rd |-> r, tok |-> NoTok, e |-> [kind |-> kind, c |-> cm, p |-> pm]]
Boom(r, kind)        == [t |-> "crash", rd |-> r, tok |-> NoTok, e |-> [kind |-> kind, c |-> NoMark, p |-> Mk(r)]]
OkV(r, v)             == [t |-> "ok", rd |-> r, v |-> v, e |-> NoErr]
BadV(r, kind, cm, pm) == [t |-> "err", rd |-> r, v |-> <<>>, e |-> [kind |-> kind, c |-> cm, p |-> pm]]
BoomV(r, kind)        == [t |-> "crash", rd |-> r, v |-> <<>>, e |-> [kind |-> kind, c |-> NoMark, p |-> Mk(r)]]
AsTok(x)              == [t |-> x.t, rd |-> x.rd, tok |-> NoTok, e |-> x.e]      \* a failed part fails the whole token

(***************************************************************************)
(* scan_plain, scan_plain_spaces                                           *)
(***************************************************************************)
PlainStop(q, fl) == LET s == Sym(q) IN
  \/ s \in SpTabBrkZ
  \/ (s = ":" /\ Sym(q + 1) \in SpTabBrkZ \cup (IF fl # 0 THEN FlowInd ELSE {}))
  \/ (fl # 0 /\ s \in {",", "?", "[", "]", "{", "}"})
RECURSIVE PlainEnd(_, _), PlainBreaks(_, _), PlainLoop(_, _, _, _, _, _, _)
PlainEnd(q, fl) == IF PlainStop(q, fl) THEN q ELSE PlainEnd(q + 1, fl)

PlainBreaks(r, acc) == LET s == Sym(r.p) IN       \* while self.peek() in ' \r\n\x85  '
  IF s = "sp" THEN PlainBreaks(Fwd(r), acc)
  ELSE IF s \in Brk THEN LET lb == LineBreak(r) IN
         IF DocSep(lb.rd.p) THEN [rd |-> lb.rd, v |-> <<>>, none |-> TRUE] ELSE PlainBreaks(lb.rd, acc \o lb.v)
  ELSE [rd |-> r, v |-> acc, none |-> FALSE]

\* returns [rd, v, none (the Python function returned None), brk (allow_simple_key was set)]
PlainSpaces(r) ==
  LET q == RunEnd(r.p, {"sp"})
      r1 == FwdTo(r, q)
  IN  IF Sym(q) \in Brk
      THEN LET lb == LineBreak1(r1) IN
           IF DocSep(lb.rd.p) THEN [rd |-> lb.rd, v |-> <<>>, none |-> TRUE, brk |-> TRUE]
           ELSE LET b == PlainBreaks(lb.rd, <<>>) IN
                IF b.none THEN [rd |-> b.rd, v |-> <<>>, none |-> TRUE, brk |-> TRUE]
                ELSE [rd |-> b.rd, none |-> FALSE, brk |-> TRUE,
                      v |-> (IF lb.v # <<NLc>> THEN lb.v ELSE IF b.v = <<>> THEN <<SPc>> ELSE <<>>) \o b.v]
      ELSE [rd |-> r1, v |-> Copies(r.p, q), none |-> FALSE, brk |-> FALSE]

PlainLoop(r, fl, ind, chunks, spaces, endm, a) ==
  LET stop == [rd |-> r, v |-> chunks, endm |-> endm, ask |-> a]
      q == PlainEnd(r.p, fl)
  IN  IF Sym(r.p) = "#" \/ q = r.p THEN stop
      ELSE LET r1 == FwdTo(r, q)
               ch2 == chunks \o spaces \o Copies(r.p, q)
               sp == PlainSpaces(r1)
           IN  IF sp.none \/ sp.v = <<>> \/ Sym(sp.rd.p) = "#" \/ (fl = 0 /\ sp.rd.c < ind)
               THEN [rd |-> sp.rd, v |-> ch2, endm |-> Mk(r1), ask |-> sp.brk]
               ELSE PlainLoop(sp.rd, fl, ind, ch2, sp.v, Mk(r1), sp.brk)

\* -> [t, rd, tok, e, ask]
ScanPlain(r0, fl, indentNow) ==
  LET x == PlainLoop(r0, fl, indentNow + 1, <<>>, <<>>, Mk(r0), FALSE)
  IN  [t |-> "ok", rd |-> x.rd, tok |-> MkTok("Scalar", Mk(r0), x.endm, x.v, <<>>, "plain"), e |-> NoErr, ask |-> x.ask]

(***************************************************************************)
(* scan_flow_scalar and its parts                                          *)
(***************************************************************************)
RECURSIVE FlowBreaks(_, _, _), HexRun(_, _), FlowNonSpaces(_, _, _, _), FlowLoop(_, _, _, _, _)
FlowBreaks(r, start, acc) ==
  IF DocSep(r.p) THEN BadV(r, "quoted_docsep", start, Mk(r))
  ELSE LET r1 == Skip(r, {"sp", "tab"}) IN
       IF Sym(r1.p) \in Brk THEN LET lb == LineBreak(r1) IN FlowBreaks(lb.rd, start, acc \o lb.v) ELSE OkV(r1, acc)

HexRun(q, k) == k = 0 \/ (Sym(q) \in Hex /\ HexRun(q + 1, k - 1))
\* r is placed after the code letter s (symbol number q): for k in range(length): peek(k) must be a hex digit; chr(int(..., 16))
HexEscape(r, start, s, q) ==
  LET n == EscLen(s)
      d(k) == Sym(r.p + k - 1)
      huge == n = 8 /\ d(1) \in {"8", "9", "h", "a"}
      big  == n = 8 /\ ~huge /\ ~(d(1) = "0" /\ d(2) = "0" /\ (d(3) = "0" \/ (d(3) = "1" /\ d(4) = "0")))
  IN  IF ~HexRun(r.p, n) THEN BadV(r, "escape_hex", start, Mk(r))
      ELSE IF (huge \/ big) /\ FixD1 THEN BadV(r, "escape_range", start, Mk(r))
      ELSE IF huge THEN BoomV(r, "OverflowError: chr() of a code above 2^31")
      ELSE IF big THEN BoomV(r, "ValueError: chr() of a code above 0x10FFFF")
      ELSE OkV(FwdN(r, r.p + n), <<Esc(q)>>)

FlowNonSpaces(r, dbl, start, acc) ==
  LET q == RunEndNot(r.p, {"'", "dq", "bs", "Z", "sp", "tab"} \cup Brk)
      r1 == FwdTo(r, q)
      acc1 == acc \o Copies(r.p, q)
      ch == Sym(q)
  IN  IF ~dbl /\ ch = "'" /\ Sym(q + 1) = "'" THEN FlowNonSpaces(Fwd1(Fwd1(r1)), dbl, start, Append(acc1, q + 1))
      ELSE IF (dbl /\ ch = "'") \/ (~dbl /\ ch \in {"dq", "bs"}) THEN FlowNonSpaces(Fwd1(r1), dbl, start, Append(acc1, q + 1))
      ELSE IF dbl /\ ch = "bs" THEN
        LET r2 == Fwd1(r1)
            e == Sym(r2.p)
        IN  IF e \in EscName THEN FlowNonSpaces(Fwd1(r2), dbl, start, Append(acc1, Esc(r2.p + 1)))
            ELSE IF e \in {"U8big", "U8huge"} /\ FixD1              \* raised after forward() over the letter U
                 THEN BadV(r2, "escape_range", start, [i |-> r2.i + 1, l |-> r2.l, c |-> r2.c + 1])
            ELSE IF e = "U8big" THEN BoomV(r2, "ValueError: chr() of a code above 0x10FFFF")
            ELSE IF e = "U8huge" THEN BoomV(r2, "OverflowError: chr() of a code above 2^31")
            ELSE IF e \in EscMacro THEN FlowNonSpaces(Fwd1(r2), dbl, start, Append(acc1, Esc(r2.p + 1)))
            ELSE IF e \in {"xc", "uc", "Uc"} THEN
                 LET h == HexEscape(Fwd1(r2), start, e, r2.p + 1) IN
                 IF h.t # "ok" THEN h ELSE FlowNonSpaces(h.rd, dbl, start, acc1 \o h.v)
            ELSE IF e \in Brk THEN
                 LET fb == FlowBreaks(LineBreak1(r2).rd, start, <<>>) IN
                 IF fb.t # "ok" THEN fb ELSE FlowNonSpaces(fb.rd, dbl, start, acc1 \o fb.v)
            ELSE BadV(r2, "unknown_escape", start, Mk(r2))
      ELSE OkV(r1, acc1)

FlowSpaces(r, start) ==
  LET q == RunEnd(r.p, {"sp", "tab"})
      r1 == FwdTo(r, q)
      ch == Sym(q)
  IN  IF ch = "Z" THEN BadV(r1, "quoted_eof", start, Mk(r1))
      ELSE IF ch \in Brk THEN
           LET lb == LineBreak1(r1)
               fb == FlowBreaks(lb.rd, start, <<>>)
           IN  IF fb.t # "ok" THEN fb
               ELSE OkV(fb.rd, (IF lb.v # <<NLc>> THEN lb.v ELSE IF fb.v = <<>> THEN <<SPc>> ELSE <<>>) \o fb.v)
      ELSE OkV(r1, Copies(r.p, q))

FlowLoop(r, dbl, start, quote, acc) ==
  IF Sym(r.p) = quote THEN OkV(r, acc)
  ELSE LET s == FlowSpaces(r, start) IN
       IF s.t # "ok" THEN s
       ELSE LET n == FlowNonSpaces(s.rd, dbl, start, <<>>) IN
            IF n.t # "ok" THEN n ELSE FlowLoop(n.rd, dbl, start, quote, acc \o s.v \o n.v)

ScanFlowScalar(r0, dbl) ==
  LET start == Mk(r0)
      quote == Sym(r0.p)
      n == FlowNonSpaces(Fwd1(r0), dbl, start, <<>>)
  IN  IF n.t # "ok" THEN AsTok(n)
      ELSE LET x == FlowLoop(n.rd, dbl, start, quote, n.v) IN
           IF x.t # "ok" THEN AsTok(x)
           ELSE LET r9 == Fwd1(x.rd) IN Ok(r9, MkTok("Scalar", start, Mk(r9), x.v, <<>>, quote))

(***************************************************************************)
(* scan_anchor (ALIAS / ANCHOR)                                            *)
(***************************************************************************)
ScanAnchor(r0, kind) ==
  LET start == Mk(r0)
      r1 == Fwd1(r0)
      q == RunEnd(r1.p, NameCh)
      r2 == FwdTo(r1, q)
  IN  IF q = r1.p THEN Bad(r1, "anchor_name", start, Mk(r1))
      ELSE IF Sym(q) \notin AnchorEnd THEN Bad(r2, "anchor_end", start, Mk(r2))
      ELSE Ok(r2, MkTok(kind, start, Mk(r2), Copies(r1.p, q), <<>>, ""))

(***************************************************************************)
(* scan_tag_handle, scan_tag_uri, scan_uri_escapes, scan_tag               *)
(***************************************************************************)
RECURSIVE Utf8Ok(_), UriEscapes(_, _, _, _, _), UriLoop(_, _, _, _)
\* bytes(codes).decode('utf-8') over byte classes: P1 ASCII, P2a lead byte of a 2-byte sequence, P2b / cont continuation, Pbad
Utf8Ok(cls) == \/ cls = <<>>
               \/ (cls[1] = "P1" /\ Utf8Ok(Tail(cls)))
               \/ (cls[1] = "P2a" /\ Len(cls) >= 2 /\ cls[2] \in {"P2b", "cont"} /\ Utf8Ok(Tail(Tail(cls))))
UriEscapes(r, start, m0, items, cls) ==
  LET s == Sym(r.p) IN
  IF s \in PMacro THEN UriEscapes(Fwd1(r), start, m0, Append(items, Uri(r.p + 1)), Append(cls, s))
  ELSE IF s = "%" THEN
       LET r1 == Fwd1(r) IN
       IF ~(Sym(r1.p) \in Hex /\ Sym(r1.p + 1) \in Hex) THEN BadV(r1, "uri_hex", start, Mk(r1))
       ELSE UriEscapes(Fwd1(Fwd1(r1)), start, m0, Append(items, Uri(r.p + 1)),
                       Append(cls, IF Sym(r1.p) \in {"8", "9", "h", "a"} THEN "cont" ELSE "P1"))
  ELSE IF Utf8Ok(cls) THEN OkV(r, items) ELSE BadV(r, "uri_utf8", start, m0)       \* UnicodeDecodeError is caught

\* q = r.p + length
UriLoop(r, q, start, chunks) ==
  LET s == Sym(q) IN
  IF s \in UriCh THEN
     IF C(s) = "%" THEN LET r1 == FwdTo(r, q)
                            e == UriEscapes(r1, start, Mk(r1), <<>>, <<>>)
                        IN  IF e.t # "ok" THEN e ELSE UriLoop(e.rd, e.rd.p, start, chunks \o Copies(r.p, q) \o e.v)
     ELSE UriLoop(r, q + 1, start, chunks)
  ELSE LET r1 == FwdTo(r, q)
           ch2 == chunks \o Copies(r.p, q)
       IN  IF ch2 = <<>> THEN BadV(r1, "uri_expected", start, Mk(r1)) ELSE OkV(r1, ch2)
ScanTagUri(r, start) == UriLoop(r, r.p, start, <<>>)

ScanTagHandle(r, start) ==
  IF Sym(r.p) # "!" THEN BadV(r, "handle_bang", start, Mk(r))
  ELSE IF Sym(r.p + 1) = "sp" THEN OkV(Fwd1(r), Copies(r.p, r.p + 1))
  ELSE LET q == RunEnd(r.p + 1, NameCh) IN
       IF Sym(q) # "!" THEN LET r1 == FwdTo(r, q) IN BadV(r1, "handle_bang", start, Mk(r1))
       ELSE OkV(FwdTo(r, q + 1), Copies(r.p, q + 1))

RECURSIVE TagLook(_)
\* while ch not in '\0 \r\n\x85  ': if ch == '!': use_handle = True ... (TAB is not a terminator here)
TagLook(q) == LET s == Sym(q) IN IF s \in SpBrkZ THEN FALSE ELSE IF s = "!" THEN TRUE ELSE TagLook(q + 1)
ScanTag(r0) ==
  LET start == Mk(r0)
      ch == Sym(r0.p + 1)
      fin(r, h, sfx, hx) == IF Sym(r.p) \notin SpBrkZ THEN Bad(r, "tag_end", start, Mk(r))
                            ELSE Ok(r, MkTok("Tag", start, Mk(r), h, sfx, hx))
  IN  IF ch = "<" THEN
        LET u == ScanTagUri(Fwd1(Fwd1(r0)), start) IN
        IF u.t # "ok" THEN AsTok(u)
        ELSE IF Sym(u.rd.p) # ">" THEN Bad(u.rd, "tag_gt", start, Mk(u.rd))
        ELSE fin(Fwd1(u.rd), <<>>, u.v, "nohandle")
      ELSE IF ch \in SpTabBrkZ THEN fin(Fwd1(r0), <<>>, <<r0.p + 1>>, "nohandle")
      ELSE LET h == IF TagLook(r0.p + 1) THEN ScanTagHandle(r0, start) ELSE OkV(Fwd1(r0), <<r0.p + 1>>) IN
           IF h.t # "ok" THEN AsTok(h)
           ELSE LET u == ScanTagUri(h.rd, start) IN
                IF u.t # "ok" THEN AsTok(u) ELSE fin(u.rd, h.v, u.v, "handle")

(***************************************************************************)
(* scan_directive and its parts                                            *)
(***************************************************************************)
\* scan_yaml_directive_number: int(self.prefix(length))
DirNumber(r, start) ==
  IF Sym(r.p) \notin Digit THEN BadV(r, "dir_digit", start, Mk(r))
  ELSE LET q == RunEnd(r.p, Digit) IN
       IF FixD10 /\ Width(q) - Width(r.p) > 9 THEN BadV(r, "dir_number_long", start, Mk(r))
       ELSE IF Width(q) - Width(r.p) > 4300 THEN BoomV(r, "ValueError: int() of more than 4300 digits")
       ELSE OkV(FwdTo(r, q), Copies(r.p, q))
\* scan_directive_ignored_line
DirIgnored(r, start) ==
  LET r1 == Skip(r, {"sp"})
      r2 == IF Sym(r1.p) = "#" THEN SkipUntil(r1, BrkZ) ELSE r1
  IN  IF Sym(r2.p) \notin BrkZ THEN BadV(r2, "dir_comment", start, Mk(r2)) ELSE OkV(LineBreak1(r2).rd, <<>>)
ScanDirective(r0) ==
  LET start == Mk(r0)
      r1 == Fwd1(r0)
      q == RunEnd(r1.p, NameCh)
      r2 == FwdTo(r1, q)
      pm == Sym(r0.p) \in PMacro            \* '%41' at column 0 is the directive '%' followed by the name '41...'
      name == (IF pm THEN <<Hex2(r0.p + 1)>> ELSE <<>>) \o Copies(r1.p, q)
      fin(r, endm, a, b, x) == LET g == DirIgnored(r, start) IN
                               IF g.t # "ok" THEN AsTok(g) ELSE Ok(g.rd, MkTok("Directive", start, endm, a, b, x))
  IN  IF q = r1.p /\ ~pm THEN Bad(r1, "dir_name", start, Mk(r1))
      ELSE IF Sym(q) \notin SpBrkZ THEN Bad(r2, "dir_name", start, Mk(r2))
      ELSE IF ~pm /\ q = r1.p + 1 /\ Sym(r1.p) = "YAML" THEN
        LET ma == DirNumber(Skip(r2, {"sp"}), start) IN
        IF ma.t # "ok" THEN AsTok(ma)
        ELSE IF Sym(ma.rd.p) # "." THEN Bad(ma.rd, "dir_dot", start, Mk(ma.rd))
        ELSE LET mi == DirNumber(Fwd1(ma.rd), start) IN
             IF mi.t # "ok" THEN AsTok(mi)
             ELSE IF Sym(mi.rd.p) \notin SpBrkZ THEN Bad(mi.rd, "dir_digit_sp", start, Mk(mi.rd))
             ELSE fin(mi.rd, Mk(mi.rd), ma.v, mi.v, "YAML")
      ELSE IF ~pm /\ q = r1.p + 1 /\ Sym(r1.p) = "TAG" THEN
        LET h == ScanTagHandle(Skip(r2, {"sp"}), start) IN
        IF h.t # "ok" THEN AsTok(h)
        ELSE IF Sym(h.rd.p) # "sp" THEN Bad(h.rd, "dir_sp", start, Mk(h.rd))
        ELSE LET u == ScanTagUri(Skip(h.rd, {"sp"}), start) IN
             IF u.t # "ok" THEN AsTok(u)
             ELSE IF Sym(u.rd.p) \notin SpBrkZ THEN Bad(u.rd, "dir_sp", start, Mk(u.rd))
             ELSE fin(u.rd, Mk(u.rd), h.v, u.v, "TAG")
      ELSE fin(SkipUntil(r2, BrkZ), Mk(r2), name, <<>>, "other")

(***************************************************************************)
(* scan_block_scalar and its parts                                         *)
(***************************************************************************)
IncOf(s) == CASE s = "1" -> 1 [] s = "2" -> 2 [] s = "3" -> 3 [] s = "4" -> 4 [] s = "5" -> 5 [] s = "6" -> 6
              [] s = "7" -> 7 [] s = "8" -> 8 [] s = "9" -> 9 [] OTHER -> 0
\* scan_block_scalar_indicators -> [t, rd, chomp ("clip" | "keep" | "strip"), inc (0 = None), e]
BlockIndicators(r, start) ==
  LET s == Sym(r.p)
      isdig(x) == x \in Digit1
      zero(rr) == [t |-> "err", rd |-> rr, chomp |-> "clip", inc |-> 0, e |-> [kind |-> "block_zero", c |-> start, p |-> Mk(rr)]]
      fin(rr, ch, inc) == IF Sym(rr.p) \notin SpBrkZ
                          THEN [t |-> "err", rd |-> rr, chomp |-> ch, inc |-> inc, e |-> [kind |-> "block_indicator", c |-> start, p |-> Mk(rr)]]
                          ELSE [t |-> "ok", rd |-> rr, chomp |-> ch, inc |-> inc, e |-> NoErr]
  IN  IF s \in {"+", "-"} THEN
        LET r1 == Fwd1(r)
            s1 == Sym(r1.p)
            ch == IF s = "+" THEN "keep" ELSE "strip"
        IN  IF isdig(s1) THEN (IF s1 = "0" THEN zero(r1) ELSE fin(Fwd1(r1), ch, IncOf(s1))) ELSE fin(r1, ch, 0)
      ELSE IF isdig(s) THEN
        IF s = "0" THEN zero(r)
        ELSE LET r1 == Fwd1(r)
                 s1 == Sym(r1.p)
             IN  IF s1 \in {"+", "-"} THEN fin(Fwd1(r1), IF s1 = "+" THEN "keep" ELSE "strip", IncOf(s))
                 ELSE fin(r1, "clip", IncOf(s))
      ELSE fin(r, "clip", 0)
\* scan_block_scalar_ignored_line
BlockIgnored(r, start) ==
  LET r1 == Skip(r, {"sp"})
      r2 == IF Sym(r1.p) = "#" THEN SkipUntil(r1, BrkZ) ELSE r1
  IN  IF Sym(r2.p) \notin BrkZ THEN BadV(r2, "block_comment", start, Mk(r2)) ELSE OkV(LineBreak1(r2).rd, <<>>)
RECURSIVE BlockIndentation(_, _, _, _), BlockBreaksLoop(_, _, _, _), SkipIndent(_, _), BlockLoop(_, _, _, _, _, _, _)
\* scan_block_scalar_indentation -> [rd, v, maxi, endm]
BlockIndentation(r, acc, maxi, endm) ==
  LET s == Sym(r.p) IN
  IF s \in Brk THEN LET lb == LineBreak(r) IN BlockIndentation(lb.rd, acc \o lb.v, maxi, Mk(lb.rd))
  ELSE IF s = "sp" THEN LET r1 == Fwd(r) IN BlockIndentation(r1, acc, Max(maxi, r1.c), endm)
  ELSE [rd |-> r, v |-> acc, maxi |-> maxi, endm |-> endm]
\* while self.column < indent and self.peek() == ' ': a bulk of spaces that fits below the indent is crossed, one that does not
\* would be cut (Fwd1: not representable)
SkipIndent(r, ind) == IF r.c < ind /\ Sym(r.p) = "sp"
                      THEN SkipIndent(IF r.c + W(Raw(r.p)) <= ind THEN Fwd(r) ELSE Fwd1(r), ind) ELSE r
\* scan_block_scalar_breaks -> [rd, v, endm]
BlockBreaksLoop(r, ind, acc, endm) ==
  IF Sym(r.p) \in Brk THEN LET lb == LineBreak(r) IN BlockBreaksLoop(SkipIndent(lb.rd, ind), ind, acc \o lb.v, Mk(lb.rd))
  ELSE [rd |-> r, v |-> acc, endm |-> endm]
BlockBreaks(r, ind) == BlockBreaksLoop(SkipIndent(r, ind), ind, <<>>, Mk(r))
\* the inner loop; lb = the last line_break, br = pending breaks
BlockLoop(r, ind, folded, chunks, br, endm, lb) ==
  IF ~(r.c = ind /\ Sym(r.p) # "Z") THEN [rd |-> r, chunks |-> chunks, br |-> br, endm |-> endm, lb |-> lb]
  ELSE LET lead == Sym(r.p) \notin {"sp", "tab"}
           q == RunEndNot(r.p, BrkZ)
           r1 == FwdTo(r, q)
           ch1 == chunks \o br \o Copies(r.p, q)
           l2 == LineBreak1(r1)
           b2 == BlockBreaks(l2.rd, ind)
           r2 == b2.rd
       IN  IF r2.c = ind /\ Sym(r2.p) # "Z"
           THEN LET ch2 == IF folded /\ l2.v = <<NLc>> /\ lead /\ Sym(r2.p) \notin {"sp", "tab"}
                           THEN (IF b2.v = <<>> THEN Append(ch1, SPc) ELSE ch1)
                           ELSE ch1 \o l2.v
                IN  BlockLoop(r2, ind, folded, ch2, b2.v, b2.endm, l2.v)
           ELSE [rd |-> r2, chunks |-> ch1, br |-> b2.v, endm |-> b2.endm, lb |-> l2.v]
ScanBlockScalar(r0, style, indentNow) ==
  LET start == Mk(r0)
      hd == BlockIndicators(Fwd1(r0), start)
  IN  IF hd.t # "ok" THEN [t |-> hd.t, rd |-> hd.rd, tok |-> NoTok, e |-> hd.e]
      ELSE LET ig == BlockIgnored(hd.rd, start) IN
      IF ig.t # "ok" THEN AsTok(ig)
      ELSE LET mini == Max(1, indentNow + 1)
               ia == BlockIndentation(ig.rd, <<>>, 0, Mk(ig.rd))
               ind == IF hd.inc = 0 THEN Max(mini, ia.maxi) ELSE mini + hd.inc - 1
               b0 == IF hd.inc = 0 THEN [rd |-> ia.rd, v |-> ia.v, endm |-> ia.endm] ELSE BlockBreaks(ig.rd, ind)
               x == BlockLoop(b0.rd, ind, style = ">", <<>>, b0.v, b0.endm, <<>>)
               v == x.chunks \o (IF hd.chomp # "strip" THEN x.lb ELSE <<>>) \o (IF hd.chomp = "keep" THEN x.br ELSE <<>>)
           IN  Ok(x.rd, MkTok("Scalar", start, x.endm, v, <<>>, style))

(***************************************************************************)
(* the scanner object as a record, so that methods are functions           *)
(***************************************************************************)
R == [rd |-> rd, done |-> done, flow |-> flow, toks |-> toks, taken |-> taken, indent |-> indent,
      indents |-> indents, ask |-> ask, keys |-> keys, res |-> res, err |-> err]

Fail(r, kind, cm, pm) == [r EXCEPT !.res = "error", !.err = [kind |-> kind, c |-> cm, p |-> pm]]
CrashR(r, kind)       == [r EXCEPT !.res = "crash", !.err = [kind |-> kind, c |-> NoMark, p |-> Mk(r.rd)]]
Then(r, Op(_))        == IF r.res = "run" THEN Op(r) ELSE r
Push(r, tok)          == [r EXCEPT !.toks = Append(@, tok)]
Here(r)               == Mk(r.rd)
KeyMark(k)            == [i |-> k.i, l |-> k.l, c |-> k.c]
\* list.insert(k, x) with Python's clamping of out-of-range indices
InsertAt(s, k, x) == LET n == Len(s)
                         j == IF k < 0 THEN Max(0, n + k) ELSE IF k > n THEN n ELSE k
                     IN  SubSeq(s, 1, j) \o <<x>> \o SubSeq(s, j + 1, n)
\* a token made of the next n symbols
Punct(r, kind, n) == LET r1 == FwdN(r.rd, r.rd.p + n) IN
                     [Push(r, MkTok(kind, Here(r), Mk(r1), <<>>, <<>>, "")) EXCEPT !.rd = r1]
\* the result of a sub-scanner becomes the state of the scanner
Absorb(r, x) == IF x.t = "ok" THEN [Push(r, x.tok) EXCEPT !.rd = x.rd]
                ELSE IF x.t = "err" THEN [r EXCEPT !.res = "error", !.err = x.e, !.rd = x.rd]
                ELSE [r EXCEPT !.res = "crash", !.err = x.e, !.rd = x.rd]

(***************************************************************************)
(* simple keys                                                             *)
(***************************************************************************)
StalePossibleSimpleKeys(r) ==
  LET bad == {lv \in DOMAIN r.keys : r.keys[lv].l # r.rd.l \/ r.rd.i - r.keys[lv].i > MaxKey}
      req == {lv \in bad : r.keys[lv].req}
  IN  IF req # {} THEN Fail(r, "simple_key", KeyMark(r.keys[CHOOSE lv \in req : TRUE]), Here(r))
      ELSE [r EXCEPT !.keys = Restrict(@, DOMAIN @ \ bad)]
RemovePossibleSimpleKey(r) ==
  IF r.flow \in DOMAIN r.keys
  THEN IF r.keys[r.flow].req THEN Fail(r, "simple_key", KeyMark(r.keys[r.flow]), Here(r))
       ELSE [r EXCEPT !.keys = Restrict(@, DOMAIN @ \ {r.flow})]
  ELSE r
SavePossibleSimpleKey(r) ==
  LET required == r.flow = 0 /\ r.indent = r.rd.c IN
  IF r.ask
  THEN LET r1 == RemovePossibleSimpleKey(r) IN
       IF r1.res # "run" THEN r1
       ELSE [r1 EXCEPT !.keys = [lv \in DOMAIN @ \cup {r.flow} |->
                IF lv = r.flow THEN [tn |-> r.taken + Len(r.toks), req |-> required, i |-> r.rd.i, l |-> r.rd.l, c |-> r.rd.c]
                ELSE @[lv]]]
  ELSE r
\* need_more_tokens -> [r, need]
NeedMoreTokens(r) ==
  IF r.done THEN [r |-> r, need |-> FALSE]
  ELSE IF r.toks = <<>> THEN [r |-> r, need |-> TRUE]
  ELSE LET r1 == StalePossibleSimpleKeys(r) IN
       [r |-> r1, need |-> r1.res = "run" /\ \E lv \in DOMAIN r1.keys :
                              /\ r1.keys[lv].tn = r1.taken
                              /\ \A l2 \in DOMAIN r1.keys : r1.keys[l2].tn >= r1.keys[lv].tn]

(***************************************************************************)
(* indentation                                                             *)
(***************************************************************************)
RECURSIVE UnwindIndent(_, _)
UnwindIndent(r, col) ==
  IF r.flow # 0 \/ ~(r.indent > col) THEN r
  ELSE IF r.indents = <<>> THEN CrashR(r, "IndexError: pop from empty list (indents)")
  ELSE UnwindIndent([Push(r, MkTok("BlockEnd", Here(r), Here(r), <<>>, <<>>, "")) EXCEPT
                       !.indent = Last(r.indents), !.indents = Front(r.indents), !.rd.wk = @ + 1], col)
AddIndent(r, col) == IF r.indent < col THEN [r EXCEPT !.indents = Append(@, r.indent), !.indent = col] ELSE r

(***************************************************************************)
(* scan_to_next_token                                                      *)
(***************************************************************************)
RECURSIVE NextTokenLoop(_, _, _)
NextTokenLoop(r, fl, a) ==
  LET r1 == Skip(r, {"sp"})
      r2 == IF Sym(r1.p) = "#" THEN SkipUntil(r1, BrkZ) ELSE r1
      lb == LineBreak(r2)
  IN  IF lb.v # <<>> THEN NextTokenLoop(lb.rd, fl, IF fl = 0 THEN TRUE ELSE a) ELSE [rd |-> r2, ask |-> a]
ScanToNextToken(r) ==
  LET r0 == IF r.rd.i = 0 /\ Sym(r.rd.p) = "bom" THEN Fwd1(r.rd) ELSE r.rd
      x == NextTokenLoop(r0, r.flow, r.ask)
  IN  [r EXCEPT !.rd = x.rd, !.ask = x.ask]

(***************************************************************************)
(* fetchers                                                                *)
(***************************************************************************)
FetchStreamEnd(r) ==
  LET r2 == Then(UnwindIndent(r, -1), RemovePossibleSimpleKey) IN
  IF r2.res # "run" THEN r2
  ELSE [Push(r2, MkTok("StreamEnd", Here(r2), Here(r2), <<>>, <<>>, "")) EXCEPT !.ask = FALSE, !.keys = <<>>, !.done = TRUE]
FetchDirective(r) ==
  LET r2 == Then(UnwindIndent(r, -1), RemovePossibleSimpleKey) IN
  IF r2.res # "run" THEN r2 ELSE Absorb([r2 EXCEPT !.ask = FALSE], ScanDirective(r2.rd))
FetchDocumentIndicator(r, kind) ==
  LET r2 == Then(UnwindIndent(r, -1), RemovePossibleSimpleKey) IN
  IF r2.res # "run" THEN r2 ELSE Punct([r2 EXCEPT !.ask = FALSE], kind, 3)
FetchFlowCollectionStart(r, kind) ==
  LET r1 == SavePossibleSimpleKey(r) IN
  IF r1.res # "run" THEN r1 ELSE Punct([r1 EXCEPT !.flow = @ + 1, !.ask = TRUE], kind, 1)
FetchFlowCollectionEnd(r, kind) ==
  LET r1 == RemovePossibleSimpleKey(r) IN
  IF r1.res # "run" THEN r1 ELSE Punct([r1 EXCEPT !.flow = @ - 1, !.ask = FALSE], kind, 1)
FetchFlowEntry(r) ==
  LET r1 == RemovePossibleSimpleKey([r EXCEPT !.ask = TRUE]) IN
  IF r1.res # "run" THEN r1 ELSE Punct(r1, "FlowEntry", 1)
\* the block-context part shared by '-', '?' and the complex ':'
BlockStart(r, kind, why) ==
  IF r.flow # 0 THEN r
  ELSE IF ~r.ask THEN Fail(r, why, NoMark, Here(r))
  ELSE IF r.indent < r.rd.c THEN Push(AddIndent(r, r.rd.c), MkTok(kind, Here(r), Here(r), <<>>, <<>>, ""))
  ELSE r
FetchBlockEntry(r) ==
  LET r1 == BlockStart(r, "BlockSequenceStart", "seq_not_allowed") IN
  IF r1.res # "run" THEN r1
  ELSE LET r2 == RemovePossibleSimpleKey([r1 EXCEPT !.ask = TRUE]) IN
       IF r2.res # "run" THEN r2 ELSE Punct(r2, "BlockEntry", 1)
FetchKey(r) ==
  LET r1 == BlockStart(r, "BlockMappingStart", "key_not_allowed") IN
  IF r1.res # "run" THEN r1
  ELSE LET r2 == RemovePossibleSimpleKey([r1 EXCEPT !.ask = (r.flow = 0)]) IN
       IF r2.res # "run" THEN r2 ELSE Punct(r2, "Key", 1)
FetchValue(r) ==
  IF r.flow \in DOMAIN r.keys
  THEN LET k == r.keys[r.flow]
           km == KeyMark(k)
           at == k.tn - r.taken
           r1 == [r EXCEPT !.keys = Restrict(@, DOMAIN @ \ {r.flow}),
                           !.toks = InsertAt(@, at, MkTok("Key", km, km, <<>>, <<>>, ""))]
           r2 == IF r.flow = 0 /\ r1.indent < k.c
                 THEN [AddIndent(r1, k.c) EXCEPT !.toks = InsertAt(@, at, MkTok("BlockMappingStart", km, km, <<>>, <<>>, ""))]
                 ELSE r1
       IN  Punct([r2 EXCEPT !.ask = FALSE], "Value", 1)
  ELSE IF r.flow = 0 /\ ~r.ask THEN Fail(r, "value_not_allowed", NoMark, Here(r))
  ELSE LET r1 == IF r.flow = 0 /\ r.indent < r.rd.c
                 THEN Push(AddIndent(r, r.rd.c), MkTok("BlockMappingStart", Here(r), Here(r), <<>>, <<>>, ""))
                 ELSE r
           r2 == RemovePossibleSimpleKey([r1 EXCEPT !.ask = (r.flow = 0)])
       IN  IF r2.res # "run" THEN r2 ELSE Punct(r2, "Value", 1)
FetchAnchorLike(r, kind) ==          \* fetch_alias / fetch_anchor
  LET r1 == SavePossibleSimpleKey(r) IN
  IF r1.res # "run" THEN r1 ELSE Absorb([r1 EXCEPT !.ask = FALSE], ScanAnchor(r1.rd, kind))
FetchTag(r) ==
  LET r1 == SavePossibleSimpleKey(r) IN
  IF r1.res # "run" THEN r1 ELSE Absorb([r1 EXCEPT !.ask = FALSE], ScanTag(r1.rd))
FetchBlockScalar(r, style) ==
  LET r1 == RemovePossibleSimpleKey([r EXCEPT !.ask = TRUE]) IN
  IF r1.res # "run" THEN r1 ELSE Absorb(r1, ScanBlockScalar(r1.rd, style, r1.indent))
FetchFlowScalar(r, dbl) ==
  LET r1 == SavePossibleSimpleKey(r) IN
  IF r1.res # "run" THEN r1 ELSE Absorb([r1 EXCEPT !.ask = FALSE], ScanFlowScalar(r1.rd, dbl))
FetchPlain(r) ==
  LET r1 == SavePossibleSimpleKey(r) IN
  IF r1.res # "run" THEN r1
  ELSE LET x == ScanPlain(r1.rd, r1.flow, r1.indent) IN Absorb([r1 EXCEPT !.ask = x.ask], x)

(***************************************************************************)
(* fetch_more_tokens: which fetcher the if-chain selects                   *)
(***************************************************************************)
CheckPlain(r) == LET ch == Sym(r.rd.p) IN
  \/ ch \notin NoPlainStart
  \/ (Sym(r.rd.p + 1) \notin SpTabBrkZ /\ (ch = "-" \/ (r.flow = 0 /\ ch \in {"?", ":"})))
Which(r) ==
  LET ch == C(Sym(r.rd.p))
      p == r.rd.p
      sep(x) == r.rd.c = 0 /\ SymS(p) = x /\ SymS(p + 1) = x /\ SymS(p + 2) = x /\ Sym(p + 3) \in SpTabBrkZ
  IN  CASE ch = "Z" -> "StreamEnd"
        [] ch = "%" /\ r.rd.c = 0 -> "Directive"
        [] ch = "-" /\ sep("-") -> "DocumentStart"
        [] ch = "." /\ sep(".") -> "DocumentEnd"
        [] ch = "[" -> "FlowSequenceStart"
        [] ch = "{" -> "FlowMappingStart"
        [] ch = "]" -> "FlowSequenceEnd"
        [] ch = "}" -> "FlowMappingEnd"
        [] ch = "," -> "FlowEntry"
        [] ch = "-" /\ ~sep("-") /\ Sym(p + 1) \in SpTabBrkZ -> "BlockEntry"
        [] ch = "?" /\ (r.flow # 0 \/ Sym(p + 1) \in SpTabBrkZ) -> "Key"
        [] ch = ":" /\ (r.flow # 0 \/ Sym(p + 1) \in SpTabBrkZ) -> "Value"
        [] ch = "*" -> "Alias"
        [] ch = "&" -> "Anchor"
        [] ch = "!" -> "Tag"
        [] ch = "|" /\ r.flow = 0 -> "Literal"
        [] ch = ">" /\ r.flow = 0 -> "Folded"
        [] ch = "'" -> "Single"
        [] ch = "dq" -> "Double"
        [] OTHER -> IF CheckPlain(r) THEN "Plain" ELSE "NoToken"

(***************************************************************************)
(* actions                                                                 *)
(*                                                                         *)
(* Fine = TRUE (design check): one step per method - Need (the loop head   *)
(* of get_token), ScanToNextToken, StalePossibleSimpleKeys, UnwindIndent,  *)
(* one action per fetch_*, Take (the consumer receives a token).           *)
(* Fine = FALSE (enumeration for model-based testing): the same operators  *)
(* composed into one step per input (RunAll), so that a state is a test    *)
(* case: input, delivered tokens, outcome.                                 *)
(* path records the fetchers taken (TLC's -coverage cannot instrument this *)
(* module: it runs out of memory expanding the nested operators), so the   *)
(* no-vacuity check counts actions from it.                                *)
(***************************************************************************)
Tick(r) == [r EXCEPT !.rd.wk = @ + 1]
\* (\E over a singleton: TLC evaluates the new scanner record once instead of once per primed variable)
Apply(r0, nextpc, name) == \E r \in {r0} :
  /\ rd' = [r.rd EXCEPT !.wk = @ + 1] /\ done' = r.done /\ flow' = r.flow /\ toks' = r.toks /\ taken' = r.taken
  /\ indent' = r.indent /\ indents' = r.indents /\ ask' = r.ask /\ keys' = r.keys /\ res' = r.res /\ err' = r.err
  /\ pc' = IF r.res = "run" THEN nextpc ELSE "end"
  /\ path' = IF name = "" THEN path ELSE Append(path, name)
  /\ UNCHANGED <<focus, inp, out, mon>>

\* the environment writes the input, one symbol at a time, then hands it to the reader
\* (a run symbol is written as its expansion x^a B x^z and counts as one choice; at most one run per input)
HasRun == \E j \in DOMAIN inp : inp[j] \in BulkSyms \cup UnitSyms
Extra  == IF \E j \in DOMAIN inp : inp[j] \in BulkSyms
          THEN Len(Expand(CHOOSE s \in RunSyms : \E j \in DOMAIN inp : inp[j] = RunTable[s].b)) - 1 ELSE 0
Extend == /\ pc = "grow" /\ Len(inp) - Extra < Len(Prefix) + MaxLen
          /\ \E s \in Alphabet : /\ s \in RunSyms \cup UnitSyms => ~HasRun
                                 /\ inp' = inp \o Expand(s)
          /\ UNCHANGED <<focus, pc, rd, done, flow, toks, taken, indent, indents, ask, keys, out, res, err, mon, path>>
\* Reader.__init__ / check_printable: the whole (small) input is checked before the first token is asked for
NonPrintables == {j \in 1 .. Len(inp) : inp[j] = "np"}
ReaderError == LET j == CHOOSE x \in NonPrintables : \A y \in NonPrintables : x <= y
               IN  [kind |-> "reader", c |-> NoMark, p |-> [i |-> Width(j - 1), l |-> -1, c |-> -1]]
ReaderCheck ==
  /\ pc = "grow" /\ Fine
  /\ IF NonPrintables = {} THEN pc' = "need" /\ UNCHANGED <<res, err>>
     ELSE pc' = "end" /\ res' = "reader_error" /\ err' = ReaderError
  /\ UNCHANGED <<focus, inp, rd, done, flow, toks, taken, indent, indents, ask, keys, out, mon, path>>

\* get_token / check_token: while self.need_more_tokens(): self.fetch_more_tokens()
Need == /\ pc = "need"
        /\ LET x == NeedMoreTokens(R) IN Apply(x.r, IF x.need THEN "scan" ELSE "take", "")
\* the consumer takes one token (yaml.scan: while check_token(): yield get_token())
Take == /\ pc = "take"
        /\ IF toks = <<>> THEN /\ res' = "ok" /\ pc' = "end" /\ UNCHANGED <<out, toks, taken, mon>>
           ELSE /\ out' = Append(out, Head(toks)) /\ toks' = Tail(toks) /\ taken' = taken + 1
                /\ mon' = TG!TGStep(mon, Head(toks).k) /\ pc' = "need" /\ UNCHANGED res
        /\ rd' = [rd EXCEPT !.wk = @ + 1]
        /\ UNCHANGED <<focus, inp, done, flow, indent, indents, ask, keys, err, path>>

AScanToNextToken == pc = "scan" /\ Apply(ScanToNextToken(R), "stale", "")
AStalePossibleSimpleKeys == pc = "stale" /\ Apply(StalePossibleSimpleKeys(R), "unwind", "")
AUnwindIndent == pc = "unwind" /\ Apply(UnwindIndent(R, rd.c), "fetch", "")

FetchBy(name, r) ==
  CASE name = "StreamEnd" -> FetchStreamEnd(r)
    [] name = "Directive" -> FetchDirective(r)
    [] name = "DocumentStart" -> FetchDocumentIndicator(r, "DocumentStart")
    [] name = "DocumentEnd" -> FetchDocumentIndicator(r, "DocumentEnd")
    [] name = "FlowSequenceStart" -> FetchFlowCollectionStart(r, "FlowSequenceStart")
    [] name = "FlowMappingStart" -> FetchFlowCollectionStart(r, "FlowMappingStart")
    [] name = "FlowSequenceEnd" -> FetchFlowCollectionEnd(r, "FlowSequenceEnd")
    [] name = "FlowMappingEnd" -> FetchFlowCollectionEnd(r, "FlowMappingEnd")
    [] name = "FlowEntry" -> FetchFlowEntry(r)
    [] name = "BlockEntry" -> FetchBlockEntry(r)
    [] name = "Key" -> FetchKey(r)
    [] name = "Value" -> FetchValue(r)
    [] name = "Alias" -> FetchAnchorLike(r, "Alias")
    [] name = "Anchor" -> FetchAnchorLike(r, "Anchor")
    [] name = "Tag" -> FetchTag(r)
    [] name = "Literal" -> FetchBlockScalar(r, "|")
    [] name = "Folded" -> FetchBlockScalar(r, ">")
    [] name = "Single" -> FetchFlowScalar(r, FALSE)
    [] name = "Double" -> FetchFlowScalar(r, TRUE)
    [] name = "Plain" -> FetchPlain(r)
    [] name = "NoToken" -> Fail(r, "no_token", NoMark, Here(r))
Sel(name) == pc = "fetch" /\ Which(R) = name /\ Apply(FetchBy(name, R), "need", name)
AFetchStreamEnd         == Sel("StreamEnd")
AFetchDirective         == Sel("Directive")
AFetchDocumentStart     == Sel("DocumentStart")
AFetchDocumentEnd       == Sel("DocumentEnd")
AFetchFlowSequenceStart == Sel("FlowSequenceStart")
AFetchFlowMappingStart  == Sel("FlowMappingStart")
AFetchFlowSequenceEnd   == Sel("FlowSequenceEnd")
AFetchFlowMappingEnd    == Sel("FlowMappingEnd")
AFetchFlowEntry         == Sel("FlowEntry")
AFetchBlockEntry        == Sel("BlockEntry")
AFetchKey               == Sel("Key")
AFetchValue             == Sel("Value")
AFetchAlias             == Sel("Alias")
AFetchAnchor            == Sel("Anchor")
AFetchTag               == Sel("Tag")
AFetchLiteral           == Sel("Literal")
AFetchFolded            == Sel("Folded")
AFetchSingle            == Sel("Single")
AFetchDouble            == Sel("Double")
AFetchPlain             == Sel("Plain")
ANoToken                == Sel("NoToken")

\* Fine = FALSE: the whole scan of one input as one step
Prepared(r) == LET r1 == StalePossibleSimpleKeys(ScanToNextToken(r)) IN
               IF r1.res # "run" THEN r1 ELSE UnwindIndent(r1, r1.rd.c)
RECURSIVE RunAll(_, _, _, _)
RunAll(r, o, m, pth) ==
  LET x == NeedMoreTokens(r) IN
  IF x.r.res # "run" THEN [r |-> x.r, out |-> o, mon |-> m, path |-> pth]
  ELSE IF x.need THEN
       LET P == Prepared(x.r) IN
       IF P.res # "run" THEN [r |-> P, out |-> o, mon |-> m, path |-> pth]
       ELSE LET f == FetchBy(Which(P), Tick(P)) IN
            IF f.res # "run" THEN [r |-> f, out |-> o, mon |-> m, path |-> Append(pth, Which(P))]
            ELSE RunAll(f, o, m, Append(pth, Which(P)))
  ELSE IF x.r.toks = <<>> THEN [r |-> [x.r EXCEPT !.res = "ok"], out |-> o, mon |-> m, path |-> pth]
  ELSE RunAll(Tick([x.r EXCEPT !.toks = Tail(@), !.taken = @ + 1]), Append(o, Head(x.r.toks)),
              TG!TGStep(m, Head(x.r.toks).k), pth)
Run ==
  /\ pc = "grow" /\ ~Fine
  /\ IF \E j \in DOMAIN inp : inp[j] \in UnitSyms              \* a unit run: generated, not predicted (see the header)
     THEN /\ res' = "unmodelled"
          /\ UNCHANGED <<err, rd, done, flow, toks, taken, indent, indents, ask, keys, out, mon, path>>
     ELSE IF NonPrintables # {}
     THEN /\ res' = "reader_error" /\ err' = ReaderError
          /\ UNCHANGED <<rd, done, flow, toks, taken, indent, indents, ask, keys, out, mon, path>>
     ELSE \E z \in {RunAll(R, <<>>, mon, <<>>)} :
          /\ rd' = z.r.rd /\ done' = z.r.done /\ flow' = z.r.flow /\ toks' = z.r.toks /\ taken' = z.r.taken
          /\ indent' = z.r.indent /\ indents' = z.r.indents /\ ask' = z.r.ask /\ keys' = z.r.keys
          /\ res' = z.r.res /\ err' = z.r.err /\ out' = z.out /\ mon' = z.mon /\ path' = z.path
  /\ pc' = "end" /\ UNCHANGED <<focus, inp>>

Init == /\ focus \in Focuses /\ inp = Prefix /\ pc = "grow" /\ rd = [p |-> 0, i |-> 0, l |-> 0, c |-> 0, wk |-> 0]
        /\ done = FALSE /\ flow = 0 /\ taken = 0 /\ indent = -1 /\ indents = <<>> /\ ask = TRUE /\ keys = <<>>
        /\ toks = <<MkTok("StreamStart", [i |-> 0, l |-> 0, c |-> 0], [i |-> 0, l |-> 0, c |-> 0], <<>>, <<>>, "")>>
        /\ out = <<>> /\ res = "run" /\ err = NoErr /\ mon = TG!TGInit /\ path = <<>>

Next == \/ Extend \/ ReaderCheck \/ Need \/ Take \/ Run
        \/ AScanToNextToken \/ AStalePossibleSimpleKeys \/ AUnwindIndent
        \/ AFetchStreamEnd \/ AFetchDirective \/ AFetchDocumentStart \/ AFetchDocumentEnd
        \/ AFetchFlowSequenceStart \/ AFetchFlowMappingStart \/ AFetchFlowSequenceEnd \/ AFetchFlowMappingEnd
        \/ AFetchFlowEntry \/ AFetchBlockEntry \/ AFetchKey \/ AFetchValue \/ AFetchAlias \/ AFetchAnchor \/ AFetchTag
        \/ AFetchLiteral \/ AFetchFolded \/ AFetchSingle \/ AFetchDouble \/ AFetchPlain \/ ANoToken
Spec == Init /\ [][Next]_vars

(***************************************************************************)
(* H (C03 / C09 for tokens) and L-level sanity                             *)
(***************************************************************************)
\* Pos(input, index): line and column obtained by counting, independently of the reader's bookkeeping
TotalWidth == Width(Len(inp))
EndsLine(j) == Cls(inp[j]) \in {"lf", "nel", "ls", "ps"} \/ (Cls(inp[j]) = "cr" /\ SymS(j) # "lf")
RECURSIVE LinesIn(_)
LinesIn(q) == IF q = 0 THEN 0 ELSE LinesIn(q - 1) + (IF EndsLine(q) THEN Lines(inp[q]) ELSE 0)   \* breaks in the first q symbols
\* (a mark never points into a symbol that contains line breaks: the scanner's marks are taken at symbol borders)
PosOk(m) ==
  /\ 0 <= m.i /\ m.i <= TotalWidth
  /\ \E q \in 0 .. Len(inp) :
       /\ Width(q) <= m.i /\ (q = Len(inp) \/ m.i < Width(q + 1))
       /\ LET brks == {j \in 1 .. q : EndsLine(j)}
              from == IF brks = {} THEN 0 ELSE CHOOSE j \in brks : \A k \in brks : k <= j
              boms == Cardinality({j \in from + 1 .. q : inp[j] = "bom"})
          IN  m.l = LinesIn(q) /\ m.c = (m.i - Width(from)) - boms

\* never anything but a YAML error (ScannerError / ReaderError), never a Python exception of another type
H_YamlErrorOnly == res # "crash"
\* the scan terminates: work is bounded linearly in the length of the input (no hang in the model)
H_Terminates == rd.wk <= 12 * (Len(inp) + 2)
\* marks of tokens and of errors lie inside the input and tell the truth about line and column
TokenMarksOk == \A j \in DOMAIN out : PosOk(out[j].s) /\ PosOk(out[j].e) /\ out[j].s.i <= out[j].e.i
H_TokenMarks == pc = "end" => TokenMarksOk
H_ErrorMarks == /\ res = "error" => (PosOk(err.p) /\ (err.c # NoMark => PosOk(err.c)))
                /\ res = "reader_error" => (0 <= err.p.i /\ err.p.i <= TotalWidth)
\* the delivered token stream is a word (a prefix of one, while running or failed) of the scan-level grammar
H_TokenGrammar == ~TG!TGRejected(mon) /\ (res = "ok" => TG!TGComplete(mon))
\* start marks of delivered tokens never move backwards
H_Monotone == pc = "end" => \A j \in 1 .. Len(out) - 1 : out[j].s.i <= out[j + 1].s.i
\* L-level: the retroactive KEY is inserted at a position that exists in the queue; flow keys are never required
L_Sane == /\ \A lv \in DOMAIN keys : keys[lv].tn >= taken /\ keys[lv].tn <= taken + Len(toks)
          /\ \A lv \in DOMAIN keys : keys[lv].req => lv = 0
          /\ Len(indents) >= 0 /\ (indents # <<>> => indent >= 0)
Finished == pc = "end"
=============================================================================
