------------------------------ MODULE H_Format ------------------------------
(***************************************************************************)
(* H for C15: "dump output honours the formatting options it was given",   *)
(* written from the property statement, clause by clause, over             *)
(*   o    the option record as the CALLER passed it (not normalised), and  *)
(*   obs  an observation of one dump call, projected to the vocabulary of  *)
(*        the statement (result type, line records, block-entry           *)
(*        positions, document markers, what the readers said, canonical    *)
(*        tokens).                                                         *)
(* No identifier of emitter.py occurs here.  The same operators judge the  *)
(* output of the L model (Format.tla, design check) and the projected      *)
(* output of the real dumpers (Trace_Format.tla).                          *)
(*                                                                         *)
(* o:   indent, width : Int, -1 = not passed (None)                        *)
(*      lb     : "N" | "CR" | "LF" | "CRLF" | "J"    (J = any other value) *)
(*      enc    : "N" | "utf-8" | "utf-16-le" | "utf-16-be"                 *)
(*      stream : "none" | "text" | "binary"                                *)
(*      es, ee : BOOLEAN    explicit_start / explicit_end requested        *)
(*      ver    : "N" | "1.1" | "1.2"                                       *)
(*      tags   : sequence of <<handle, prefix>> (empty = not requested)    *)
(*      canon, au : BOOLEAN  canonical / allow_unicode requested           *)
(*                                                                         *)
(* obs: outcome : "ok" | "yamlerror" | "exception"                         *)
(*      rtype   : "str" | "bytes"   type of the result (or of the chunks   *)
(*                written to the caller's stream)                          *)
(*      decodes : BOOLEAN  the bytes decode in the requested encoding      *)
(*      bom     : "none" | "le" | "be" | "utf8"  signature the bytes start *)
(*                with                                                     *)
(*      lines   : << [ind, brk, cls] >>  one record per line of the text   *)
(*                (after the encoding signature): number of leading        *)
(*                spaces, the break that ends it ("LF","CR","CRLF","NEL",  *)
(*                "LS","PS","EOF"), the classes of its characters          *)
(*                ("ascii" = U+0020..U+007E, anything else is not)         *)
(*      entries : << [ind, first] >> the BLOCK-ENTRY tokens and the        *)
(*                block-context KEY tokens of the re-scanned text: the     *)
(*                indentation (leading spaces) of the line the token is    *)
(*                on, and whether nothing but spaces precedes the token    *)
(*                on that line (i.e. the line STARTS the entry)            *)
(*      marks   : << [k, a, b] >> top-level token classes of the           *)
(*                re-scanned text: "YAML" (a = version), "TAG" (a = handle,*)
(*                b = prefix), "DS" (---), "DE" (...), "X" (content)       *)
(*      ndocs   : number of documents that were dumped                     *)
(*      reread  : << outcome >>  what each of the library's readers said   *)
(*                (events: yaml.parse with Loader and with CLoader)        *)
(*      recompose : << outcome >> the same for the composition of the      *)
(*                events into documents (yaml.compose_all)                 *)
(*      refs    : the anchors and aliases the CALLER supplied (emit only)  *)
(*      ctoks, cevents : canonical token classes of the text / the events  *)
(*                that were dumped (used by clause g, see Canonical.tla)   *)
(***************************************************************************)
EXTENDS Integers, Sequences, FiniteSets

SeqToSet(s) == {s[i] : i \in DOMAIN s}

(***************************************************************************)
(* (b) without allow_unicode the text consists only of printable ASCII and *)
(*     line breaks.  The line breaks of an ASCII text are CR, LF, CR LF    *)
(*     (NEL, LS, PS are not ASCII); a last line without a break is fine.   *)
(***************************************************************************)
LineB(o, ln) == o.au \/ (SeqToSet(ln.cls) \subseteq {"ascii"} /\ ln.brk \in {"LF", "CR", "CRLF", "EOF"})
ClauseB(o, obs) == \A i \in DOMAIN obs.lines : LineB(o, obs.lines[i])

(***************************************************************************)
(* (c) every CR/LF line break is the requested line_break.  Nothing is     *)
(*     said when none (or no valid one) was requested, and nothing about   *)
(*     the other break characters (they may occur raw under allow_unicode).*)
(***************************************************************************)
LineC(o, ln) == (o.lb \in {"CR", "LF", "CRLF"} /\ ln.brk \in {"CR", "LF", "CRLF"}) => ln.brk = o.lb
ClauseC(o, obs) == \A i \in DOMAIN obs.lines : LineC(o, obs.lines[i])

(***************************************************************************)
(* (d) no stream passed: bytes in the requested encoding (UTF-16 with BOM) *)
(*     or str if none was requested.                                       *)
(***************************************************************************)
ClauseD(o, obs) ==
  o.stream = "none" =>
    IF o.enc = "N" THEN obs.rtype = "str"
    ELSE /\ obs.rtype = "bytes"
         /\ obs.decodes
         /\ (o.enc = "utf-16-le" => obs.bom = "le")
         /\ (o.enc = "utf-16-be" => obs.bom = "be")

(***************************************************************************)
(* (e) explicit_start, explicit_end, version and tags produce the          *)
(*     corresponding markers and directives for every document.            *)
(*     The text is cut into documents at its markers: directives belong to *)
(*     the document whose "---" follows them, "---" opens a document,      *)
(*     content before any "---" is an (unmarked) document, "..." closes    *)
(*     the open document.  A "..." with no open document is ignored.       *)
(***************************************************************************)
NoDoc == [open |-> FALSE, start |-> FALSE, end |-> FALSE, yaml |-> <<>>, tags |-> <<>>]

RECURSIVE CutDocs(_, _, _, _)
\* docs: closed documents; st.cur: the open document or NoDoc; st.yaml, st.tags: directives waiting for their "---"
\* (empty whenever a document is open)
CutDocs(marks, i, docs, st) ==
  LET cur == st.cur
      Closed == IF cur.open THEN Append(docs, cur) ELSE docs
      Idle == [cur |-> NoDoc, yaml |-> <<>>, tags |-> <<>>]
  IN
  IF i > Len(marks) THEN Closed
  ELSE LET m == marks[i] IN
       CASE m.k = "YAML" -> CutDocs(marks, i + 1, Closed, [cur |-> NoDoc, yaml |-> Append(st.yaml, m.a), tags |-> st.tags])
         [] m.k = "TAG"  -> CutDocs(marks, i + 1, Closed, [cur |-> NoDoc, yaml |-> st.yaml, tags |-> Append(st.tags, <<m.a, m.b>>)])
         [] m.k = "DS"   -> CutDocs(marks, i + 1, Closed,
                                    [cur |-> [open |-> TRUE, start |-> TRUE, end |-> FALSE, yaml |-> st.yaml, tags |-> st.tags],
                                     yaml |-> <<>>, tags |-> <<>>])
         [] m.k = "DE"   -> IF cur.open THEN CutDocs(marks, i + 1, Append(docs, [cur EXCEPT !.end = TRUE]), Idle)
                            ELSE CutDocs(marks, i + 1, docs, st)
         [] OTHER        -> IF cur.open THEN CutDocs(marks, i + 1, docs, st)         \* "X": content
                            ELSE CutDocs(marks, i + 1, docs, [Idle EXCEPT !.cur = [NoDoc EXCEPT !.open = TRUE]])

Docs(marks) == CutDocs(marks, 1, <<>>, [cur |-> NoDoc, yaml |-> <<>>, tags |-> <<>>])

DocE(o, d) ==
  /\ o.es => d.start
  /\ o.ee => d.end
  /\ o.ver # "N" => d.yaml = <<o.ver>>
  /\ \A i \in DOMAIN o.tags : \E j \in DOMAIN d.tags : d.tags[j] = o.tags[i]
Demands(o) == o.es \/ o.ee \/ o.ver # "N" \/ o.tags # <<>>
ClauseE(o, obs) ==
  Demands(o) => LET ds == Docs(obs.marks) IN Len(ds) = obs.ndocs /\ \A i \in DOMAIN ds : DocE(o, ds[i])

(***************************************************************************)
(* (f) the indentation of every line that starts a block collection entry  *)
(*     is a multiple of the effective indent: the requested one when it is *)
(*     between 2 and 9, otherwise 2.                                       *)
(***************************************************************************)
EffIndent(o) == IF 2 <= o.indent /\ o.indent <= 9 THEN o.indent ELSE 2
EntryF(o, e) == e.first => e.ind % EffIndent(o) = 0
ClauseF(o, obs) == \A i \in DOMAIN obs.entries : EntryF(o, obs.entries[i])

(***************************************************************************)
(* (a) the output is text the library's own reader accepts.                *)
(*     The reader judges a TEXT in the stages characters - tokens - events *)
(*     (obs.reread: yaml.parse to the end) and, per document, the          *)
(*     composition of the events into a node graph (obs.recompose:         *)
(*     yaml.compose_all to the end), which demands that every alias names  *)
(*     an anchor that precedes it in ITS OWN document and that no anchor   *)
(*     occurs twice in a document.  (Constructors judge tags and values,   *)
(*     not the text: they are not part of this clause.)                    *)
(*     With dump_all / serialize_all the library chooses anchors and       *)
(*     aliases itself.  A caller of emit() supplies them: obs.refs is the  *)
(*     sequence of <<"doc">>, <<"anchor", name>>, <<"alias", name>> of the *)
(*     events he dumped (empty for the other calls).  If he dumps an alias *)
(*     without an anchor before it in the same document, or the same       *)
(*     anchor twice in a document, a text that says just that is what he   *)
(*     asked for and the composition stage is not held against the output. *)
(***************************************************************************)
RefsClosed(refs) ==
  \A i \in DOMAIN refs :
     LET SameDoc(j) == \A k \in j .. i : refs[k][1] # "doc"
         Before == {j \in 1 .. i - 1 : refs[j][1] = "anchor" /\ refs[j][2] = refs[i][2] /\ SameDoc(j)}
     IN  CASE refs[i][1] = "alias"  -> Before # {}
           [] refs[i][1] = "anchor" -> Before = {}
           [] OTHER -> TRUE
ClauseA(obs) == /\ obs.outcome = "ok"
                /\ \A i \in DOMAIN obs.reread : obs.reread[i] = "ok"
                /\ RefsClosed(obs.refs) => \A i \in DOMAIN obs.recompose : obs.recompose[i] = "ok"

(***************************************************************************)
(* first failing clause ("-" if none); (g) is judged by Canonical.tla      *)
(***************************************************************************)
Judge(o, obs) ==
  IF obs.outcome # "ok" THEN "no output: " \o obs.outcome
  ELSE IF ~ClauseD(o, obs) THEN "d result type / encoding / BOM"
  ELSE IF ~ClauseB(o, obs) THEN "b non-ASCII without allow_unicode"
  ELSE IF ~ClauseC(o, obs) THEN "c line break"
  ELSE IF ~ClauseA(obs) THEN "a reader rejects the output"            \* before e and f: their observations come from re-scanning
  ELSE IF ~ClauseE(o, obs) THEN "e document markers / directives"
  ELSE IF ~ClauseF(o, obs) THEN "f indentation of block entries"
  ELSE "-"
=============================================================================
