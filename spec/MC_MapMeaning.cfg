SPECIFICATION Spec
CONSTANTS
  MaxNodes = 3
  Keys = {"k1", "k2", "M"}
  Vals = {"v1", "v2"}
  MaxEntries = 2
  MaxElems = 2
  MapTags = {"map"}
  SeqTags = {"seq"}
  Modes = {"A"}
  AllowSelf = FALSE
  MergeShape = "any"
INVARIANT Agree
