SPECIFICATION Spec
CONSTANTS
  Ids = {1, 2}
  Contents = {"a", "b"}
  MaxDocs = 4
  ResetCache = TRUE
  ResetKeeper = TRUE
INVARIANT EachDocumentAsHandedOver
INVARIANT CacheSound
