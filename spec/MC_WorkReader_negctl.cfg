SPECIFICATION Spec
CONSTANTS
  Block = 4
  Look = 5
  Variant = "nobuftrim"
  MaxBuf = 60
CONSTRAINT Bounded
INVARIANT Amortised
