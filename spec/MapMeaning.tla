----------------------------- MODULE MapMeaning -----------------------------
(***************************************************************************)
(* C14: the YAML 1.1 meaning of mappings with merge keys, sets, omap and   *)
(* pairs, and the way SafeConstructor builds them.                         *)
(*                                                                         *)
(* A state is a document: a heap of collection nodes built one node per    *)
(* step (children before parents, so every reference is an alias or an     *)
(* inline definition), plus the order in which the root sequence lists     *)
(* them.  For every document the state carries                             *)
(*   hval : H - the value the property statement defines, by precedence    *)
(*          lookup on the *unmodified* document (no flattening)            *)
(*   lval : L - the value computed the way constructor.py does it:         *)
(*          two-phase construction in queue order, flatten_mapping         *)
(*          rewriting the shared node heap in place                        *)
(* and TLC checks  lval ~ hval  (Agree) on every reachable document; the   *)
(* harness prints every document, loads it with the real loaders and       *)
(* compares the result with hval.                                          *)
(***************************************************************************)
EXTENDS Naturals, Sequences, FiniteSets, TLC

CONSTANTS MaxNodes,     \* collection nodes besides the root sequence
          Keys,         \* subset of {"k1","k2","k1f","M","Q","U"}
          Vals,         \* scalar values
          MaxEntries,   \* entries per mapping node
          MaxElems,     \* elements per sequence node
          MapTags,      \* subset of {"map","set"}
          SeqTags,      \* subset of {"seq","omap","pairs"}
          Modes,        \* subset of {"A","B","C","D"}: how the root lists the nodes (A unreferenced ascending, B all ascending,
                        \* C unreferenced descending, D all descending: every node is used again after its users)
          AllowSelf,    \* BOOLEAN: a mapping may merge itself (&a {<<: *a})
          MergeShape    \* "any": every entry may hold a scalar or a reference; "refs": nesting only through merge keys
                        \* (plain keys hold scalars, merge keys and sequence elements hold references) - the shape of
                        \* documents whose mappings combine several merge keys over shared sources

VARIABLES nodes, mode, top, hval, lval, lord
vars == <<nodes, mode, top, hval, lval, lord>>

S(x) == [id |-> 0, s |-> x]            \* a scalar value
N(i) == [id |-> i, s |-> ""]           \* a reference to collection node i
IsRef(v) == v.id # 0

\* k1f is a key equal to k1 in Python (1.0 == 1); Q is the quoted string "<<"; U an unhashable key ([])
KeyClass(k) == IF k = "k1f" THEN "k1" ELSE k
Range(s) == {s[i] : i \in DOMAIN s}
RECURSIVE Flatten(_)
Flatten(ss) == IF ss = <<>> THEN <<>> ELSE Head(ss) \o Flatten(Tail(ss))
Reverse(s) == [i \in DOMAIN s |-> s[Len(s) + 1 - i]]
RemoveAt(s, i) == [j \in 1 .. Len(s) - 1 |-> IF j < i THEN s[j] ELSE s[j + 1]]
ERR == "ERR"

IsMap(h, i) == h[i].t = "map"
(***************************************************************************)
(* H : the meaning, by the rules of the property statement                 *)
(***************************************************************************)
\* the source mappings named by one merge value, in list order; ok = FALSE if ill-shaped
SourcesOf(h, v) ==
  IF ~IsRef(v) THEN [ok |-> FALSE, s |-> <<>>]
  ELSE IF IsMap(h, v.id) THEN [ok |-> TRUE, s |-> <<v.id>>]
  ELSE IF \A j \in DOMAIN h[v.id].e : IsRef(h[v.id].e[j]) /\ IsMap(h, h[v.id].e[j].id)
       THEN [ok |-> TRUE, s |-> [j \in DOMAIN h[v.id].e |-> h[v.id].e[j].id]]
       ELSE [ok |-> FALSE, s |-> <<>>]

Own(h, n)      == SelectSeq(h[n].e, LAMBDA en : en.k # "M")
MergeVals(h, n) == LET ms == SelectSeq(h[n].e, LAMBDA en : en.k = "M") IN [j \in DOMAIN ms |-> ms[j].v]
\* all sources in decreasing precedence: later merge key first, inside a list the earlier element first
Prec(h, n) == Flatten([j \in DOMAIN MergeVals(h, n) |-> SourcesOf(h, Reverse(MergeVals(h, n))[j]).s])
MergeOk(h, n) == \A j \in DOMAIN MergeVals(h, n) : SourcesOf(h, MergeVals(h, n)[j]).ok

RECURSIVE HKeys(_, _, _)
HKeys(h, n, seen) ==            \* key classes the mapping defines, own or merged (least fixed point on cycles)
  {KeyClass(en.k) : en \in Range(Own(h, n))} \cup
  UNION {HKeys(h, s, seen \cup {n}) : s \in {x \in Range(Prec(h, n)) : x \notin seen \cup {n}}}

\* every value node that is built while building mapping n (overridden entries are built too)
RECURSIVE HAllVals(_, _, _)
HAllVals(h, n, seen) ==
  {en.v : en \in Range(Own(h, n))} \cup
  UNION {HAllVals(h, s, seen \cup {n}) : s \in {x \in Range(Prec(h, n)) : x \notin seen \cup {n}}}

RECURSIVE HLook(_, _, _, _)
HLook(h, n, kc, seen) ==         \* the value node/scalar bound to key class kc
  LET own == SelectSeq(Own(h, n), LAMBDA en : KeyClass(en.k) = kc) IN
  IF own # <<>> THEN own[Len(own)].v                               \* last occurrence wins
  ELSE LET ps == SelectSeq(Prec(h, n), LAMBDA s : s \notin seen \cup {n} /\ kc \in HKeys(h, s, seen \cup {n}))
       IN  HLook(h, ps[1], kc, seen \cup {n})

\* key classes in order of first own occurrence (the order the statement fixes when there is no merge key)
RECURSIVE FirstOcc(_, _)
FirstOcc(es, acc) == IF es = <<>> THEN acc
                     ELSE FirstOcc(Tail(es), IF KeyClass(Head(es).k) \in Range(acc) THEN acc ELSE Append(acc, KeyClass(Head(es).k)))
KeyOrder == <<"k1", "k2", "Q", "U">>
Sorted(ks) == SelectSeq(KeyOrder, LAMBDA k : k \in ks)

\* is the flatten closure of mapping n well shaped ?
RECURSIVE HMergeClosureOk(_, _, _)
HMergeClosureOk(h, n, seen) ==
  /\ MergeOk(h, n)
  /\ \A s \in Range(Prec(h, n)) : s \in seen \cup {n} \/ HMergeClosureOk(h, s, seen \cup {n})

\* every value is a record [t, ord, e]: t in {"s","map","set","seq","pairs","ERR"}
Sc(x)  == [t |-> "s", ord |-> TRUE, e |-> <<x>>]
EV     == [t |-> "ERR", ord |-> TRUE, e |-> <<>>]
IsErr(x) == x.t = "ERR"
\* a "soft" error: the statement allows either a constructor error or a value here (an !!omap / !!pairs entry written
\* with a merge key whose meaning is a single pair: the rules give it a meaning, the implementation rejects it)
EVS    == [t |-> "ERR", ord |-> FALSE, e |-> <<>>]
Hard(x) == IsErr(x) /\ x.ord
ErrOf(vs) == IF \E x \in vs : Hard(x) THEN EV ELSE EVS

RECURSIVE HVal(_, _)
HValOf(h, v) == IF IsRef(v) THEN HVal(h, v.id) ELSE Sc(v.s)
HVal(h, n) ==
  IF IsMap(h, n) THEN
     IF h[n].tag \notin {"map", "set"} THEN EV                       \* !!omap / !!pairs on a mapping node
     ELSE IF ~HMergeClosureOk(h, n, {}) THEN EV
     ELSE LET ks  == HKeys(h, n, {})
              ord == MergeVals(h, n) = <<>>
              seqk == IF ord THEN FirstOcc(Own(h, n), <<>>) ELSE Sorted(ks)
              vs  == [j \in DOMAIN seqk |-> HValOf(h, HLook(h, n, seqk[j], {}))]
          IN  IF "U" \in ks THEN EV
              ELSE IF \E v \in HAllVals(h, n, {}) : IsErr(HValOf(h, v)) THEN ErrOf({HValOf(h, v) : v \in HAllVals(h, n, {})})
              ELSE IF h[n].tag = "set" THEN [t |-> "set", ord |-> FALSE, e |-> [j \in DOMAIN seqk |-> <<seqk[j], Sc("-")>>]]
              ELSE [t |-> "map", ord |-> ord, e |-> [j \in DOMAIN seqk |-> <<seqk[j], vs[j]>>]]
  ELSE
     IF h[n].tag = "seq" THEN
        LET vs == [j \in DOMAIN h[n].e |-> HValOf(h, h[n].e[j])]
        IN  IF \E j \in DOMAIN vs : IsErr(vs[j]) THEN ErrOf(Range(vs)) ELSE [t |-> "seq", ord |-> TRUE, e |-> vs]
     ELSE IF h[n].tag \in {"omap", "pairs"} THEN                    \* a sequence of single-pair mappings
        \* an entry without merge keys must be a mapping with exactly one pair; an entry written with merge keys is
        \* ill-shaped unless its meaning (own keys plus merged ones) is exactly one pair
        LET HasMerge(i) == \E en \in Range(h[i].e) : en.k = "M"
            IllShaped(i) == IF HasMerge(i) THEN ~HMergeClosureOk(h, i, {}) \/ Cardinality(HKeys(h, i, {})) # 1
                            ELSE Len(h[i].e) # 1
        IN
        IF \E j \in DOMAIN h[n].e : ~IsRef(h[n].e[j]) \/ ~IsMap(h, h[n].e[j].id) \/ IllShaped(h[n].e[j].id)
        THEN EV
        ELSE IF \E j \in DOMAIN h[n].e : HasMerge(h[n].e[j].id) THEN EVS
        ELSE LET ps == [j \in DOMAIN h[n].e |-> h[h[n].e[j].id].e[1]]
                 vs == [j \in DOMAIN ps |-> HValOf(h, ps[j].v)]
             IN  IF \E j \in DOMAIN vs : IsErr(vs[j]) THEN ErrOf(Range(vs))
                 ELSE [t |-> "pairs", ord |-> TRUE, e |-> [j \in DOMAIN ps |-> <<KeyClass(ps[j].k), vs[j]>>]]
     ELSE EV                                                         \* !!set on a sequence node

HDoc(h, tp) == LET vs == [j \in DOMAIN tp |-> HVal(h, tp[j])]
               IN  IF \E j \in DOMAIN vs : IsErr(vs[j]) THEN [err |-> TRUE, v |-> <<>>, soft |-> ~\E j \in DOMAIN vs : Hard(vs[j])]
                   ELSE [err |-> FALSE, v |-> vs, soft |-> FALSE]

(***************************************************************************)
(* L : what constructor.py does - flatten_mapping rewrites node.value in   *)
(* place (constructor.py:180-213), objects are built in two phases in      *)
(* queue order (constructor.py:61-74, 400-420).                            *)
(***************************************************************************)
RECURSIVE Flat(_, _), FlatLoop(_, _, _, _), FlatList(_, _, _, _)
\* returns [h |-> heap', err |-> BOOLEAN]
Flat(h, n) == FlatLoop(h, n, 1, <<>>)
FlatLoop(h, n, idx, merge) ==
  IF idx > Len(h[n].e)
  THEN [h |-> IF merge = <<>> THEN h ELSE [h EXCEPT ![n].e = merge \o @], err |-> FALSE]
  ELSE LET en == h[n].e[idx] IN
       IF en.k # "M" THEN FlatLoop(h, n, idx + 1, merge)
       ELSE LET h1 == [h EXCEPT ![n].e = RemoveAt(@, idx)] IN      \* del node.value[index]
            IF ~IsRef(en.v) THEN [h |-> h1, err |-> TRUE]
            ELSE IF IsMap(h1, en.v.id)
            THEN LET r == Flat(h1, en.v.id) IN
                 IF r.err THEN r ELSE FlatLoop(r.h, n, idx, merge \o r.h[en.v.id].e)
            ELSE LET r == FlatList(h1, h1[en.v.id].e, 1, <<>>) IN
                 IF r.err THEN [h |-> r.h, err |-> TRUE]
                 ELSE FlatLoop(r.h, n, idx, merge \o Flatten(Reverse(r.sub)))
\* the submerge loop; sub collects subnode.value of every element
FlatList(h, elems, j, sub) ==
  IF j > Len(elems) THEN [h |-> h, err |-> FALSE, sub |-> sub]
  ELSE IF ~IsRef(elems[j]) \/ ~IsMap(h, elems[j].id) THEN [h |-> h, err |-> TRUE, sub |-> sub]
  ELSE LET r == Flat(h, elems[j].id) IN
       IF r.err THEN [h |-> r.h, err |-> TRUE, sub |-> sub]
       ELSE FlatList(r.h, elems, j + 1, Append(sub, r.h[elems[j].id].e))

\* value references found while building node n from entry list es, in construction order
RefsOfEntries(es) == LET rs == SelectSeq(es, LAMBDA en : IsRef(en.v)) IN [j \in DOMAIN rs |-> rs[j].v.id]
RefsOfElems(es)   == LET rs == SelectSeq(es, IsRef) IN [j \in DOMAIN rs |-> rs[j].id]
RECURSIVE AddNew(_, _, _)
AddNew(q, known, ids) == IF ids = <<>> THEN q
                         ELSE IF Head(ids) \in known \cup Range(q) THEN AddNew(q, known, Tail(ids))
                         ELSE AddNew(Append(q, Head(ids)), known, Tail(ids))

\* process the generator queue; ent[n] = the entry list node n was built from (<<>> when not built yet)
RECURSIVE LRun(_, _, _, _)
LRun(h, q, done, ent) ==
  IF q = <<>> THEN [err |-> FALSE, ent |-> ent, h |-> h]
  ELSE LET n == Head(q) IN
    IF IsMap(h, n) THEN
       IF h[n].tag \notin {"map", "set"} THEN [err |-> TRUE, ent |-> ent, h |-> h]
       ELSE LET r == Flat(h, n) IN
            IF r.err \/ \E en \in Range(r.h[n].e) : en.k = "U" THEN [err |-> TRUE, ent |-> ent, h |-> r.h]
            ELSE LRun(r.h, AddNew(Tail(q), done \cup {n}, RefsOfEntries(r.h[n].e)), done \cup {n},
                      [ent EXCEPT ![n] = r.h[n].e])
    ELSE IF h[n].tag = "seq" THEN
            LRun(h, AddNew(Tail(q), done \cup {n}, RefsOfElems(h[n].e)), done \cup {n}, ent)
    ELSE IF h[n].tag \in {"omap", "pairs"} THEN
            IF \E j \in DOMAIN h[n].e : ~IsRef(h[n].e[j]) \/ ~IsMap(h, h[n].e[j].id) \/ Len(h[h[n].e[j].id].e) # 1
                                          \/ h[h[n].e[j].id].e[1].k = "M"
            THEN [err |-> TRUE, ent |-> ent, h |-> h]
            ELSE LET ps == [j \in DOMAIN h[n].e |-> h[h[n].e[j].id].e[1]] IN
                 LRun(h, AddNew(Tail(q), done \cup {n}, RefsOfEntries(ps)), done \cup {n}, [ent EXCEPT ![n] = ps])
    ELSE [err |-> TRUE, ent |-> ent, h |-> h]

\* dict(): insertion order of first occurrence, value of last occurrence
RECURSIVE LastWins(_, _)
LastWins(es, acc) ==
  IF es = <<>> THEN acc
  ELSE LET kc == KeyClass(Head(es).k)
           i  == IF \E j \in DOMAIN acc : acc[j][1] = kc THEN CHOOSE j \in DOMAIN acc : acc[j][1] = kc ELSE 0
       IN  LastWins(Tail(es), IF i = 0 THEN Append(acc, <<kc, Head(es).v>>) ELSE [acc EXCEPT ![i] = <<kc, Head(es).v>>])

RECURSIVE LVal(_, _, _)
LValOf(h, ent, v) == IF IsRef(v) THEN LVal(h, ent, v.id) ELSE Sc(v.s)
LVal(h, ent, n) ==
  IF IsMap(h, n) THEN
     LET d == LastWins(ent[n], <<>>) IN
     IF h[n].tag = "set" THEN [t |-> "set", ord |-> TRUE, e |-> [j \in DOMAIN d |-> <<d[j][1], Sc("-")>>]]
     ELSE [t |-> "map", ord |-> TRUE, e |-> [j \in DOMAIN d |-> <<d[j][1], LValOf(h, ent, d[j][2])>>]]
  ELSE IF h[n].tag = "seq" THEN [t |-> "seq", ord |-> TRUE, e |-> [j \in DOMAIN h[n].e |-> LValOf(h, ent, h[n].e[j])]]
  ELSE [t |-> "pairs", ord |-> TRUE, e |-> [j \in DOMAIN ent[n] |-> <<KeyClass(ent[n][j].k), LValOf(h, ent, ent[n][j].v)>>]]

LDoc(h, tp) == LET r == LRun(h, tp, {}, [i \in DOMAIN h |-> <<>>])
               IN  IF r.err THEN [err |-> TRUE, v |-> <<>>] ELSE [err |-> FALSE, v |-> [j \in DOMAIN tp |-> LVal(r.h, r.ent, tp[j])]]

(***************************************************************************)
(* comparison of an L value with an H value: equal, except that the order  *)
(* of a mapping built with merge keys (ord = FALSE) is not fixed by H      *)
(***************************************************************************)
RECURSIVE Same(_, _, _)
\* strict: also require L's order where H leaves it open (used for drift only)
Same(l, hh, strict) ==
  /\ l.t = hh.t /\ Len(l.e) = Len(hh.e)
  /\ CASE l.t = "s" -> l.e = hh.e
       [] l.t = "seq" -> \A j \in DOMAIN l.e : Same(l.e[j], hh.e[j], strict)
       [] l.t \in {"map", "set", "pairs"} ->
            IF hh.ord \/ strict THEN \A j \in DOMAIN l.e : l.e[j][1] = hh.e[j][1] /\ Same(l.e[j][2], hh.e[j][2], strict)
            ELSE \A j \in DOMAIN l.e : \E i \in DOMAIN hh.e : l.e[j][1] = hh.e[i][1] /\ Same(l.e[j][2], hh.e[i][2], strict)
       [] OTHER -> TRUE
SameDoc(l, hh) == /\ l.err = hh.err
                  /\ Len(l.v) = Len(hh.v) /\ \A j \in DOMAIN l.v : Same(l.v[j], hh.v[j], FALSE)

(***************************************************************************)
(* generation: one node per step                                           *)
(***************************************************************************)
ValsFor(i, selfOk) == {S(x) : x \in Vals} \cup {N(j) : j \in 1 .. i - 1} \cup (IF selfOk THEN {N(i)} ELSE {})
Scalars(vs) == {v \in vs : ~IsRef(v)}
Refs(vs) == {v \in vs : IsRef(v)}
EntrySet(i) == {[k |-> k, v |-> v] : k \in Keys \ {"M"}, v \in (IF MergeShape = "refs" THEN Scalars(ValsFor(i, FALSE)) ELSE ValsFor(i, FALSE))}
               \cup {[k |-> "M", v |-> v] : v \in (IF "M" \in Keys THEN (IF MergeShape = "refs" THEN Refs(ValsFor(i, AllowSelf)) ELSE ValsFor(i, AllowSelf)) ELSE {})}
SeqsUpTo(Sx, n) == UNION {[1 .. m -> Sx] : m \in 0 .. n}

Referenced(h) == {en.v.id : en \in {x \in UNION {Range(h[i].e) : i \in {j \in DOMAIN h : h[j].t = "map"}} : IsRef(x.v)}}
                 \cup {v.id : v \in {x \in UNION {Range(h[i].e) : i \in {j \in DOMAIN h : h[j].t = "seq"}} : IsRef(x)}}
TopOf(h, m) == LET unref == {i \in DOMAIN h : \A j \in DOMAIN h \ {i} : i \notin Referenced([x \in {j} |-> h[j]])}
                   asc == SelectSeq([i \in DOMAIN h |-> i], LAMBDA i : m \in {"B", "D"} \/ i \in unref)
               IN  IF m \in {"C", "D"} THEN Reverse(asc) ELSE asc

\* (omap/pairs elements may be written with merge keys; H above says what that means)
ElemOk(h, tag, v) == IF tag \notin {"omap", "pairs"} THEN TRUE
                     ELSE IF ~IsRef(v) THEN TRUE
                     ELSE IF ~IsMap(h, v.id) THEN TRUE
                     ELSE TRUE

AddMap == /\ Len(nodes) < MaxNodes
          /\ \E tag \in MapTags, es \in SeqsUpTo(EntrySet(Len(nodes) + 1), MaxEntries) :
               nodes' = Append(nodes, [t |-> "map", tag |-> tag, e |-> es])
AddSeq == /\ Len(nodes) < MaxNodes
          /\ \E tag \in SeqTags, es \in SeqsUpTo(IF MergeShape = "refs" THEN Refs(ValsFor(Len(nodes) + 1, FALSE)) ELSE ValsFor(Len(nodes) + 1, FALSE), MaxElems) :
               /\ \A j \in DOMAIN es : ElemOk(nodes, tag, es[j])
               /\ nodes' = Append(nodes, [t |-> "seq", tag |-> tag, e |-> es])

Compute == /\ top' = TopOf(nodes', mode)
           /\ hval' = HDoc(nodes', top')
           /\ lval' = LDoc(nodes', top')
           /\ lord' = TRUE
           /\ UNCHANGED mode

Init == /\ nodes = <<>> /\ mode \in Modes /\ top = <<>> /\ lord = TRUE
        /\ hval = [err |-> FALSE, v |-> <<>>, soft |-> FALSE] /\ lval = [err |-> FALSE, v |-> <<>>]
Next == (AddMap \/ AddSeq) /\ Compute
Spec == Init /\ [][Next]_vars

\* L refines H : building by flattening in place gives the meaning the statement defines, for every
\* document, every sharing pattern and every construction order
Agree == SameDoc(lval, hval)
=============================================================================
