---------------------------- MODULE StreamPlace ----------------------------
(***************************************************************************)
(* C06, the delivery dimension of the compared space.                      *)
(*                                                                         *)
(* The property quantifies over documents; a document reaches a loader in  *)
(* some FORM - a str, bytes in UTF-8 / UTF-16 (with a byte order mark), or *)
(* a stream object (text or binary) whose read(n) may return fewer than n  *)
(* units (pipes, sockets, raw files: a READ LIMIT `step`) - and both       *)
(* back-ends accept every form.  "Drop-in replacement" therefore means:    *)
(* the same document in the same form gives the same events / nodes /      *)
(* objects with both back-ends (H_BackendEq of Trace_Backends.tla, one     *)
(* case per projection x loader pair x delivery).                          *)
(*                                                                         *)
(* This module is the specification of that dimension:                     *)
(*  1. Deliveries: form x read limit (initial states).                     *)
(*  2. L, the two readers' refill schedules, as far as they decide WHERE   *)
(*     in a document a refill happens (actions Read):                      *)
(*       Python  Reader.update_raw(size = 4096): every read asks for 4096  *)
(*               units; determine_encoding() + the first update(1) make    *)
(*               two reads before the scanner sees anything, so the first  *)
(*               buffer ends after two grants, every later one after one   *)
(*               more;                                                     *)
(*       LibYAML yaml_parser_update_raw_buffer asks for the free space of  *)
(*               its 16384-unit raw buffer; one grant per refill.          *)
(*     A stream grants Min(request, step) units per read.  The harness     *)
(*     compares the read positions this model predicts with the calls the  *)
(*     real readers make on an instrumented stream (drift note only).      *)
(*  3. Placements: every construct of Constructs (a continuation of a      *)
(*     context whose padding is itself one long token or a run of lines),  *)
(*     at every character offset - and, for characters of several units,   *)
(*     every unit offset - relative to every planned refill boundary, so   *)
(*     that comments, plain / quoted / block scalars, tags, anchors, long  *)
(*     whitespace runs, document markers, directives, multi-unit           *)
(*     characters and CR LF pairs straddle the boundary in every way.      *)
(*     For read limits below MinChunk every position of a document is a    *)
(*     refill boundary and no padding is needed: those deliveries are      *)
(*     applied to every text of the other corpora of C06 as they are.      *)
(*                                                                         *)
(* TLC enumerates the space (-dump); harness/props/c06.py concretises      *)
(* every state (symbols of Scanner.tla's alphabet -> characters with       *)
(* VERIF_SEED, padding of exactly pos - off units), runs both back-ends    *)
(* and hands the observations to TLC again (Trace_Backends.tla).  Whether  *)
(* a concretised text belongs to the domain is decided by LoadPipe.tla on  *)
(* the same context with a short padding (the language of Scanner.tla is   *)
(* closed under lengthening a comment, a scalar, a tag, an anchor or a run *)
(* of blanks: none of its rules counts them, except simple keys).          *)
(***************************************************************************)
EXTENDS Naturals, Sequences, FiniteSets, TLC

CONSTANTS SmallSteps,    \* read limits under which every text of the corpora is delivered unpadded
          PlaceSteps,    \* read limits for which placements around the refill boundaries are planned
          PyRefills,     \* number of buffer refills of the Python reader that are planned (1 = the first buffer end)
          CRefills,      \* the same for LibYAML
          FullForms,     \* stream forms for which placements around the full-size refills (read limit Full) are planned
          MaxUnits,      \* no planned document is longer
          Contexts       \* names of the rows of Constructs explored in this run

Full == 65536            \* a read limit above both request sizes: read(n) grants n (StringIO, BytesIO, ordinary files)
MinChunk == 32           \* a placement needs a chunk that is longer than the constructs
ASSUME \A s \in SmallSteps \cup PlaceSteps : s \in 1 .. Full
ASSUME \A s \in PlaceSteps : s >= MinChunk

(***************************************************************************)
(* deliveries                                                              *)
(***************************************************************************)
MemForms    == {"str", "b8", "b8bom", "b16le", "b16be"}
StreamForms == {"text", "s8", "s16le"}
Forms       == MemForms \cup StreamForms
IsStream(f) == f \in StreamForms
\* units of a form: characters (str, text) or bytes
Enc(f)  == CASE f \in {"str", "text"} -> "none" [] f \in {"b8", "b8bom", "s8"} -> "utf-8" [] f = "b16be" -> "utf-16-be"
             [] OTHER -> "utf-16-le"
\* units the form itself puts in front of the document (byte order mark)
Lead(f) == CASE f = "b8bom" -> 3 [] f \in {"b16le", "b16be", "s16le"} -> 2 [] OTHER -> 0
StepsOf(f) == IF IsStream(f) THEN SmallSteps \cup PlaceSteps \cup {Full} ELSE {Full}

(***************************************************************************)
(* L: refill schedules                                                     *)
(***************************************************************************)
Backends == {"py", "c"}
Min(a, b) == IF a < b THEN a ELSE b
Request(be) == IF be = "py" THEN 4096 ELSE 16384
Grant(be, step) == Min(Request(be), step)
\* reads before the scanner sees the first buffer / number of planned buffer ends
FirstReads(be) == IF be = "py" THEN 2 ELSE 1
Planned(be) == IF be = "py" THEN PyRefills ELSE CRefills

(***************************************************************************)
(* constructs: symbols of Scanner.tla's alphabet (one character each but   *)
(* for the macro-symbols, see Wd)                                          *)
(*   context   padding (exactly as many units as the placement needs)      *)
(*   top       comment lines at column 0                                   *)
(*   entries   lines "kNNN: v" of a block mapping                          *)
(*   doc       the same lines, closed by "..." (a document of its own)     *)
(*   indent    "k:" + line break + blanks (one long indentation)           *)
(*   comment   ONE comment: '#' + letters, not ended                       *)
(*   plain     "k: " + words separated by single blanks, not ended         *)
(*   dquote    'k: "' + words          squote   "k: '" + words             *)
(*   literal   "k: |" + lines of one blank + letters                       *)
(*   folded    "k: >" + the same lines                                     *)
(*   spaces    "k:" + blanks           blank    "k: v" + empty lines       *)
(*   tag       "!" + letters           verbatim "!<" + letters             *)
(*   anchor    "&" + letters                                               *)
(*   flow      "[" + "ab, " repeated                                       *)
(***************************************************************************)
Breaks == {<<"lf">>, <<"cr">>, <<"cr", "lf">>, <<"nel">>, <<"ls">>, <<"ps">>}
Entry == <<"w", ":", "sp", "w">>
Constructs == [
  top |-> {
    <<"w", ":", "sp", "w", "sp", "#", "sp", "w", ":", "sp", "w", "lf", "w", ":", "sp", "w", "lf">>,
    <<"#", "w", ":", "sp", "w", "lf", "w", "lf">>,
    <<"-", "sp", "w", "sp", "w", "lf", "sp", "sp", "w", "lf", "-", "sp", "w", "lf">>,
    <<"-", "-", "-", "sp", "w", "lf", ".", ".", ".", "lf", "-", "-", "-", "lf", "w", "lf">>,
    <<"%", "YAML", "sp", "1", ".", "1", "lf", "-", "-", "-", "sp", "w", "lf">>,
    <<"%", "TAG", "sp", "!", "1", "!", "sp", "w", ":", "lf", "-", "-", "-", "sp", "!", "1", "!", "w", "sp", "w", "lf">>,
    <<"w", ":", "sp", "dq", "w", "bs", "n", "bs", "U4", "sp", "bs", "lf", "sp", "w", "dq", "lf">>,
    <<"w", ":", "sp", "'", "w", "'", "'", "w", "lf", "lf", "sp", "w", "'", "lf">>,
    <<"w", ":", "sp", "|", "2", "-", "lf", "sp", "sp", "sp", "w", "lf", "lf", "sp", "sp", "w", "lf", "w", ":", "sp", "w", "lf">>,
    <<"-", "sp", ">", "+", "lf", "sp", "w", "lf", "sp", "sp", "w", "lf", "lf", "-", "sp", "w", "lf">>,
    <<"-", "sp", "!", "w", "P2a", "P2b", "sp", "w", "lf", "-", "sp", "!", "<", "w", ":", "w", ">", "sp", "w", "lf">>,
    <<"-", "sp", "&", "1", "sp", "w", "lf", "-", "sp", "*", "1", "lf">>,
    <<"[", "w", ",", "sp", "{", "w", ":", "sp", "w", "}", ",", "lf", "sp", "w", "]", "lf">>,
    <<"?", "sp", "w", "lf", ":", "sp", "w", "lf">>,
    <<"w", ":", "cr", "lf", "sp", "sp", "w", ":", "sp", "w", "cr", "lf">>,
    <<"w", ":", "sp", "u", "u", "nel", "w", ":", "sp", "w", "ls", "w", ":", "sp", "u", "ps">>,
    <<"w", ":", "sp", "sp", "sp", "w", "sp", "sp", "#", "lf", "lf", "sp", "sp", "lf", "w", ":", "sp", "w", "lf">>},
  entries |-> {
    <<"w", "w", ":", "sp", "w", "lf">>,
    <<"w", "w", ":", "lf", "sp", "sp", "-", "sp", "w", "lf">>,
    <<"?", "sp", "w", "w", "lf", ":", "sp", "w", "lf">>,
    <<"w", "w", ":", "sp", "[", "w", "]", "sp", "#", "w", "lf">>},
  doc |-> {
    <<"%", "YAML", "sp", "1", ".", "1", "lf", "-", "-", "-", "sp", "w", "lf">>,
    <<"%", "TAG", "sp", "!", "1", "!", "sp", "w", ":", "lf", "-", "-", "-", "sp", "!", "1", "!", "w", "sp", "w", "lf">>,
    <<"-", "-", "-", "sp", "w", "lf">>},
  indent |-> {
    <<"sp", "w", ":", "sp", "w", "lf">>},
  comment |-> {<<"w", "sp", "w", ":", "sp", "w">> \o b \o Entry \o b : b \in Breaks},
  plain |-> {
    <<"w", "sp", "w", "sp", "#", "w", "lf">>,
    <<"w", "lf", "sp", "sp", "w", "lf", "w", ":", "sp", "w", "lf">>,
    <<"w", ":", "w", "sp", "sp", "w", "lf">>,
    <<"w", "sp", "sp", "lf", "lf", "sp", "w", "lf">>,
    <<"w", "cr", "lf", "sp", "w", "cr", "lf">>,
    <<"u", "w", "ls", "sp", "u", "nel">>},
  dquote |-> {
    <<"w", "bs", "n", "bs", "dq", "bs", "bs", "dq", "lf">>,
    <<"w", "bs", "X2", "bs", "U4", "bs", "U8", "dq", "lf">>,
    <<"w", "sp", "bs", "lf", "sp", "sp", "w", "dq", "lf">>,
    <<"w", "sp", "lf", "lf", "sp", "w", "dq", "sp", "#", "w", "lf">>,
    <<"w", "bs", "cr", "lf", "sp", "w", "dq", "cr", "lf">>,
    <<"u", "u", "dq", "lf">>},
  squote |-> {
    <<"w", "'", "'", "w", "'", "lf">>,
    <<"w", "lf", "lf", "sp", "w", "'", "lf">>,
    <<"'", "'", "'", "sp", "#", "w", "lf">>},
  literal |-> {
    <<"sp", "w", "w", "lf", "lf", "sp", "sp", "w", "lf", "w", ":", "sp", "w", "lf">>,
    <<"sp", "w", "lf", "sp", "lf", "lf", "w", ":", "sp", "w", "lf">>,
    <<"sp", "#", "w", "lf", "#", "w", "lf", "w", ":", "sp", "w", "lf">>,
    <<"sp", "u", "nel", "sp", "w", "ls", "sp", "w", "cr", "lf">>},
  folded |-> {
    <<"sp", "w", "lf", "sp", "w", "lf", "lf", "sp", "sp", "w", "lf", "sp", "w", "lf", "w", ":", "sp", "w", "lf">>,
    <<"sp", "w", "cr", "lf", "sp", "w", "cr", "lf", "cr", "lf">>},
  spaces |-> {
    <<"sp", "w", "sp", "sp", "#", "w", "lf">>,
    <<"sp", "lf", "sp", "sp", "w", "lf">>,
    <<"sp", "#", "w", "lf", "w", ":", "sp", "w", "lf">>},
  blank |-> {
    <<"lf", "w", ":", "sp", "w", "lf">>,
    <<"sp", "sp", "lf", "#", "w", "lf", "w", ":", "sp", "w", "lf">>,
    <<"cr", "lf", "cr", "lf", "w", ":", "sp", "w", "cr", "lf">>},
  tag |-> {
    <<"w", "P1", "P2a", "P2b", "sp", "w", "lf">>,
    <<"w", "sp", "w", "lf">>,
    <<"w", "lf", "w", ":", "sp", "w", "lf">>},
  verbatim |-> {<<"w", ":", "w", ">", "sp", "w", "lf">>},
  anchor |-> {
    <<"w", "sp", "w", "lf">>,
    <<"w", "lf", "w", ":", "sp", "w", "lf">>},
  flow |-> {
    <<"w", ",", "sp", "w", ":", "sp", "w", ",", "sp", "{", "w", ":", "sp", "w", "}", "]", "lf">>,
    <<"w", "sp", "#", "w", "lf", "sp", ",", "w", "]", "lf">>,
    <<"w", ",", "lf", "sp", "'", "w", "'", ",", "dq", "w", "dq", "]", "lf">>}]
ASSUME Contexts \subseteq DOMAIN Constructs

\* characters of a symbol (W of Scanner.tla; the harness checks it against its concretisation table)
Wd(s) == CASE s \in {"P1", "P2a", "P2b", "X2", "TAG"} -> 3 [] s = "U4" -> 5 [] s = "U8" -> 9 [] s = "YAML" -> 4 [] OTHER -> 1
\* an upper bound of the units one character of symbol s has in a form (the concretisation decides; the harness skips unit
\* offsets that the chosen character does not have)
UnitsMax(s, f) ==
  IF Enc(f) = "none" THEN 1
  ELSE IF Enc(f) = "utf-8" THEN (CASE s = "u" -> 4 [] s = "nel" -> 2 [] s \in {"ls", "ps"} -> 3 [] OTHER -> 1)
  ELSE (IF s = "u" THEN 4 ELSE 2)
RECURSIVE Chars(_)
Chars(c) == IF c = <<>> THEN <<>> ELSE [k \in 1 .. Wd(Head(c)) |-> Head(c)] \o Chars(Tail(c))   \* one entry per character
CharLen(c) == Len(Chars(c))

(***************************************************************************)
(* the state machine                                                       *)
(***************************************************************************)
VARIABLES ph,      \* "deliver" (a delivery, nothing read yet) | "refill" (after reads) | "place" (a placement)
          be, form, step, reads, pos, ctx, con, off, mid
vars == <<ph, be, form, step, reads, pos, ctx, con, off, mid>>

Init == /\ ph = "deliver" /\ be \in Backends /\ form \in Forms /\ step \in StepsOf(form)
        /\ reads = 0 /\ pos = 0 /\ ctx = "-" /\ con = <<>> /\ off = 0 /\ mid = 0

BufferEnds == IF reads < FirstReads(be) THEN 0 ELSE reads - FirstReads(be) + 1     \* buffer ends seen so far
\* one read() call of the reader: the stream grants Min(request, step) units
Read == /\ ph \in {"deliver", "refill"} /\ IsStream(form) /\ (step \in PlaceSteps \/ (step = Full /\ form \in FullForms))
        /\ BufferEnds < Planned(be) /\ pos + Grant(be, step) <= MaxUnits
        /\ ph' = "refill" /\ reads' = reads + 1 /\ pos' = pos + Grant(be, step)
        /\ UNCHANGED <<be, form, step, ctx, con, off, mid>>

\* a construct placed with `off` of its characters (and `mid` units of the next one) in front of the boundary `pos`
Place == /\ ph = "refill" /\ BufferEnds >= 1
         /\ \E x \in Contexts : \E c \in Constructs[x] : \E o \in 0 .. CharLen(c) :
              \E m \in 0 .. (IF o < CharLen(c) THEN UnitsMax(Chars(c)[o + 1], form) - 1 ELSE 0) :
                 /\ pos > Lead(form) + o + m          \* necessary for a padding to exist (the harness counts what it cannot realise)
                 \* UTF-16: the padding and the characters in front of the boundary are whole code units
                 /\ Enc(form) \in {"utf-16-le", "utf-16-be"} => (pos - Lead(form) - m) % 2 = 0
                 /\ ctx' = x /\ con' = c /\ off' = o /\ mid' = m
         /\ ph' = "place" /\ UNCHANGED <<be, form, step, reads, pos>>

Next == Read \/ Place
Spec == Init /\ [][Next]_vars

(***************************************************************************)
(* invariants of the model                                                 *)
(***************************************************************************)
TypeOK == /\ ph \in {"deliver", "refill", "place"} /\ be \in Backends /\ form \in Forms /\ step \in StepsOf(form)
          /\ reads \in Nat /\ pos \in 0 .. MaxUnits /\ off \in Nat /\ mid \in 0 .. 3
\* every read position is a multiple of the grant; a boundary is only planned where the scanner's buffer can end
Aligned == pos = reads * Grant(be, step)
Straddles == ph = "place" => /\ reads >= FirstReads(be) /\ off <= CharLen(con) /\ con \in Constructs[ctx]
                             /\ (mid > 0 => off < CharLen(con))
\* in-memory forms are never refilled
MemWhole == ~IsStream(form) => (reads = 0 /\ ph = "deliver")
=============================================================================
