SPECIFICATION Spec
CONSTANTS
  Targets = {"SafeLoader", "FullLoader", "Loader", "CSafeLoader"}
  Users = {"U1", "U2"}
  OpKinds = {"ctor", "mctor"}
  MaxHist = 2
  FreshVals = TRUE
INVARIANT Refines
PROPERTY NoUpward
PROPERTY SafeUntouched
