SPECIFICATION Spec
CONSTANTS
  MaxTokens = 12
  Tok = {"DY1", "DT1", "DS", "DE", "BSS", "BMS", "BEND", "FSS", "FMS", "FSE", "FME", "BENTRY", "FENTRY", "KEY", "VALUE", "ALIAS", "ANCHOR", "TAG", "TAGH1", "SCALAR"}
  History = TRUE
INVARIANT Emitted
