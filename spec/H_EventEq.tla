----------------------------- MODULE H_EventEq -----------------------------
(***************************************************************************)
(* H for C05: what "emitting then parsing returns the same events" means,  *)
(* written from the property statement; no emitter or parser identifiers.  *)
(*                                                                         *)
(* An event is a record                                                    *)
(*   k     "StreamStart" | "StreamEnd" | "DocumentStart" | "DocumentEnd"   *)
(*         | "Alias" | "Scalar" | "SequenceStart" | "SequenceEnd"          *)
(*         | "MappingStart" | "MappingEnd"                                 *)
(*   a     anchor, t tag: sequences of code points, <<>> = absent          *)
(*   v     scalar value: sequence of code points                           *)
(*   i     implicit flags: <<plain, quoted>> for scalars, <<flag>> for     *)
(*         collection starts, <<>> otherwise (0/1)                         *)
(*   p     (parsed scalars) 1 when the scalar was read in plain style      *)
(*   ver   %YAML of a DocumentStart as <<major, minor>> or <<>>            *)
(*   tags  %TAG of a DocumentStart: sequence of <<handle, prefix>>         *)
(*                                                                         *)
(* Compared: kind sequence (= structure, aliases), anchors, scalar values  *)
(* character for character, tags modulo legitimate elision, directives.    *)
(* Not compared: styles, flow/block, explicit flags, marks, encoding.      *)
(*                                                                         *)
(* Legitimate elision (statement: "tags legitimately elided because the    *)
(* event said they were implicit"): a scalar that reads back without a tag *)
(* in plain style must have had its plain-implicit flag set, one that      *)
(* reads back without a tag in another style its quoted-implicit flag; the *)
(* non-specific tag `!` (= "resolve as if plain") needs the plain flag; a  *)
(* collection that reads back without a tag its implicit flag.             *)
(***************************************************************************)
EXTENDS Naturals, Sequences, FiniteSets

Bang == <<33>>
\* observations omit absent fields; Norm supplies the defaults
Fld(e, f, dflt) == IF f \in DOMAIN e THEN e[f] ELSE dflt
Norm(e) == [k |-> e.k, a |-> Fld(e, "a", <<>>), t |-> Fld(e, "t", <<>>), v |-> Fld(e, "v", <<>>), i |-> Fld(e, "i", <<>>),
            p |-> Fld(e, "p", 0), ver |-> Fld(e, "ver", <<>>), tags |-> Fld(e, "tags", <<>>)]
ScalarTagOk(i, o) == \/ o.t = i.t
                     \/ o.t = <<>> /\ o.p = 1 /\ i.i[1] = 1
                     \/ o.t = <<>> /\ o.p = 0 /\ i.i[2] = 1
                     \/ o.t = Bang /\ i.i[1] = 1
CollTagOk(i, o) == o.t = i.t \/ (o.t = <<>> /\ i.i[1] = 1)
SetOf(s) == {s[j] : j \in DOMAIN s}

\* "-" when the pair is fine, else the name of the clause that fails
EventClause(i, o) ==
  IF i.k # o.k THEN "structure"
  ELSE CASE i.k = "Scalar" -> IF i.a # o.a THEN "anchor" ELSE IF i.v # o.v THEN "scalar value"
                              ELSE IF ~ScalarTagOk(i, o) THEN "tag" ELSE "-"
         [] i.k \in {"SequenceStart", "MappingStart"} -> IF i.a # o.a THEN "anchor" ELSE IF ~CollTagOk(i, o) THEN "tag" ELSE "-"
         [] i.k = "Alias" -> IF i.a # o.a THEN "anchor" ELSE "-"
         [] i.k = "DocumentStart" -> IF i.ver # o.ver THEN "%YAML" ELSE IF SetOf(i.tags) # SetOf(o.tags) THEN "%TAG" ELSE "-"
         [] OTHER -> "-"

RECURSIVE FirstBad(_, _, _)
FirstBad(ein, eout, j) ==                        \* -> [at, why]; at = 0 when the streams are equal in the sense of H
  IF j > Len(ein) /\ j > Len(eout) THEN [at |-> 0, why |-> "-"]
  ELSE IF j > Len(ein) \/ j > Len(eout) THEN [at |-> j, why |-> "structure"]
  ELSE LET c == EventClause(Norm(ein[j]), Norm(eout[j])) IN IF c # "-" THEN [at |-> j, why |-> c] ELSE FirstBad(ein, eout, j + 1)

StreamEq(ein, eout) == FirstBad(ein, eout, 1).at = 0

(***************************************************************************)
(* Well-formedness of an event stream as far as the statement's first      *)
(* sentence needs it: the grammar (checked by EventGrammar's monitor where *)
(* this module is used) plus the attribute rules every YAML processor      *)
(* needs - the harness marks a stream whose attributes break them "ill".   *)
(* For an ill-formed stream the only requirement is the last sentence:     *)
(* the outcome is "ok" or "EmitterError".                                  *)
(***************************************************************************)
OutcomeOk(wellformed, outcome) == IF wellformed THEN outcome = "ok" ELSE outcome \in {"ok", "EmitterError"}

(***************************************************************************)
(* Diagnosis of a scalar whose value changed: the shape of the difference, *)
(* used to tell known defect classes from new ones (never to excuse one).  *)
(***************************************************************************)
\* a DocumentStart whose %TAG directives redefine one of the default handles `!` / `!!` (an input feature used to name a
\* known defect class: a tag with a default prefix written in such a document)
\* (node / value level observations carry the %TAG option of the call in the uncompared field "otags")
RedefinesDefault(ds) == LET tg == Norm(ds).tags \o Fld(ds, "otags", <<>>) IN \E j \in DOMAIN tg : tg[j][1] \in {<<33>>, <<33, 33>>}

SP == 32  LF == 10  NEL == 133  BSL == 92
Brk == {10, 133, 8232, 8233}
LineStart(a, j) == LET ks == {k \in 1 .. j - 1 : a[k] \in Brk}
                   IN  IF ks = {} THEN 1 ELSE (CHOOSE k \in ks : \A m \in ks : m <= k) + 1
\* a fold point inside a more-indented line: a space, in a line that begins with a space, in front of a character
FoldPointInMoreIndentedLine(a) ==
  \E j \in DOMAIN a : a[j] = SP /\ a[LineStart(a, j)] = SP /\ j < Len(a) /\ a[j + 1] \notin Brk \cup {SP}
Without(x, set) == SelectSeq(x, LAMBDA c : c \notin set)
RECURSIVE RefoldMatch(_, _, _)
RefoldMatch(a, b, n) ==                          \* b = a with n>0 insertions of <<backslash, space>> in front of a space
  IF a = <<>> /\ b = <<>> THEN n > 0
  ELSE IF a # <<>> /\ b # <<>> /\ Head(a) = Head(b) THEN RefoldMatch(Tail(a), Tail(b), n)
  ELSE IF Len(b) >= 3 /\ b[1] = BSL /\ b[2] = SP /\ a # <<>> /\ Head(a) = SP THEN RefoldMatch(a, SubSeq(b, 3, Len(b)), n + 1)
  ELSE FALSE
\* the shape of the change and the feature of the input that the known defect needs
DiffClass(a, b) ==
  IF (\E j \in DOMAIN a : a[j] = NEL) /\ Without(a, {NEL, LF, SP}) = Without(b, {NEL, LF, SP}) THEN "nel-read-as-break"
  ELSE IF FoldPointInMoreIndentedLine(a) /\ Without(a, {LF, SP}) = Without(b, {LF, SP}) THEN "fold-in-more-indented-line"
  ELSE IF RefoldMatch(a, b, 0) THEN "backslash-doubled-fold"
  ELSE "other"
=============================================================================
