SPECIFICATION Spec
INVARIANT Verdict
