SPECIFICATION LSpec
CONSTANTS
  Focuses = {"pstruct"}
  Thorough = FALSE
  MaxKey = 1024
  FixD1 = FALSE
  FixD10 = FALSE
  Fine = FALSE
  FromFile = FALSE
INVARIANT H_PipeGrammatical
INVARIANT H_PipeYamlErrorOnly
INVARIANT H_Terminates
INVARIANT H_TokenMarks
INVARIANT H_ErrorMarks
INVARIANT H_TokenGrammar
INVARIANT Report
