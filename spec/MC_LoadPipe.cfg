SPECIFICATION LSpec
CONSTANTS
  Focuses = {"pstruct"}
  Thorough = FALSE
  MaxKey = 1024
  FixD1 = FALSE
  FixD10 = FALSE
  Fine = FALSE
  FromFile = FALSE
INVARIANT H_PipeGrammatical
INVARIANT H_PipeYamlErrorOnly
INVARIANT H_Terminates
INVARIANT LP_TokenMarks
INVARIANT LP_ErrorMarks
INVARIANT LP_TokenGrammar
INVARIANT Report
