------------------------------ MODULE Construct ------------------------------
(***************************************************************************)
(* C01 / C04: what a document can make the constructors do.                *)
(*                                                                         *)
(* A state is a document: a heap of tagged nodes built one node per step   *)
(* (children before parents).  For every document and every loader class   *)
(* the state carries                                                       *)
(*   req[c]  : H - what the property statements demand of class c on this  *)
(*             document, written from the statements alone (tag classes,   *)
(*             allowed result types, allowed effects); no tables, no       *)
(*             dispatch order                                              *)
(*   lval[c] : L - the outcome computed the way constructor.py does it:    *)
(*             exact table, ordered multi-constructor prefix scan, the     *)
(*             None defaults, then the constructor function with the       *)
(*             effects (import / getattr / call / new / setstate) it       *)
(*             performs                                                    *)
(* TLC checks Sat(lval[c], req[c]) on every reachable document (Confined); *)
(* the harness prints every document, loads it with the real classes under *)
(* audit / canary instruments and compares the observation with req[c]     *)
(* (verdict) and with lval[c] (drift).                                     *)
(***************************************************************************)
EXTENDS Naturals, Sequences, FiniteSets, TLC, H_Confinement

CONSTANTS MaxNodes,      \* nodes per document
          LeafBases,     \* tag bases allowed on nodes without node children
          ParentBases,   \* tag bases allowed on nodes with node children
          Names,         \* name classes appended to prefix tags
          Vals,          \* scalar value classes: "g" good for the tag's type, "b" bad, "e" empty
          MaxEntries,    \* entries per collection
          ExtraBase, ExtraSafe, ExtraFull, ExtraUnsafe,   \* tags registered in the live tables of a class but unknown to this module
          Kinds,         \* node kinds generated: subset of {"s", "q", "m"}
          LeafKinds,     \* kinds of nodes without node children
          KeyFillers,    \* plain keys generated: subset of {"k", "M", "V"}
          ValFillers,    \* plain values generated: subset of {"x", "E"} ("E": the empty string, written '')
          MustChain,     \* BOOLEAN: every node after the first refers to its predecessor (no unrelated top nodes)
          ConvFail       \* "err" | "crash": what a converter does on text outside its grammar (see DESIGN D2)

VARIABLES nodes, top, req, lval
vars == <<nodes, top, req, lval>>

Classes == {"Base", "Safe", "Full", "Unsafe"}

(***************************************************************************)
(* Tags.  A tag is [b |-> base, n |-> name]; its text is the token         *)
(* sequence Tok(b) followed by the name.  Python's str.startswith on the   *)
(* text is IsPrefixTok on tokens; the token boundaries are chosen so that  *)
(* every look-alike differs from the registered prefixes in a whole token. *)
(***************************************************************************)
Core12 == {"null", "bool", "int", "float", "binary", "timestamp", "omap", "pairs", "set", "str", "seq", "map"}
Repo3  == {"merge", "value", "yaml"}                 \* yaml.org types without a constructor
PyExact == {"py/none", "py/bool", "py/str", "py/unicode", "py/bytes", "py/int", "py/long", "py/float",
            "py/complex", "py/list", "py/tuple", "py/dict"}
PyPrefix == {"py/name:", "py/module:", "py/object:", "py/object/new:", "py/object/apply:"}
ObjBases == {"py/module:", "py/object:", "py/object/new:", "py/object/apply:"}   \* the object-construction tags of C04
LookAlike == {"py/name", "py/", "py/objectx:", "py/object/applyx:", "lpy/object/apply:", "unknown", "local", "localpct"}
WithName(b) == b \in PyPrefix \cup {"py/objectx:", "py/object/applyx:", "lpy/object/apply:"}

Y == "tag:yaml.org,2002:"
Tok(b) ==
  CASE b \in Core12 \cup Repo3 \cup {"unknown"} -> <<Y, b>>
    [] b = "py/none" -> <<Y, "python/", "none">>       [] b = "py/bool" -> <<Y, "python/", "bool">>
    [] b = "py/str" -> <<Y, "python/", "str">>         [] b = "py/unicode" -> <<Y, "python/", "unicode">>
    [] b = "py/bytes" -> <<Y, "python/", "bytes">>     [] b = "py/int" -> <<Y, "python/", "int">>
    [] b = "py/long" -> <<Y, "python/", "long">>       [] b = "py/float" -> <<Y, "python/", "float">>
    [] b = "py/complex" -> <<Y, "python/", "complex">> [] b = "py/list" -> <<Y, "python/", "list">>
    [] b = "py/tuple" -> <<Y, "python/", "tuple">>     [] b = "py/dict" -> <<Y, "python/", "dict">>
    [] b = "py/name:" -> <<Y, "python/", "name", ":">>
    [] b = "py/module:" -> <<Y, "python/", "module", ":">>
    [] b = "py/object:" -> <<Y, "python/", "object", ":">>
    [] b = "py/object/new:" -> <<Y, "python/", "object", "/", "new", ":">>
    [] b = "py/object/apply:" -> <<Y, "python/", "object", "/", "apply", ":">>
    [] b = "py/name" -> <<Y, "python/", "name">>
    [] b = "py/" -> <<Y, "python/">>
    [] b = "py/objectx:" -> <<Y, "python/", "object", "x", ":">>
    [] b = "py/object/applyx:" -> <<Y, "python/", "object", "/", "apply", "x", ":">>
    [] b = "lpy/object/apply:" -> <<"!", "python/", "object", "/", "apply", ":">>
    [] b = "local" -> <<"!", "foo">>
    [] b = "localpct" -> <<"!", "foo", "%", "s">>          \* a local tag with a literal '%' in it
    [] OTHER -> <<"X", b>>                               \* a live-table tag unknown to this module
IsPrefixTok(p, s) == Len(p) <= Len(s) /\ \A i \in 1 .. Len(p) : p[i] = s[i]
TagTok(t) == IF t.n \in {"-", "e"} THEN Tok(t.b) ELSE Append(Tok(t.b), t.n)
StartsWith(t, p) == IsPrefixTok(Tok(p), TagTok(t))

TagsOver(bs) == {[b |-> b, n |-> "-"] : b \in {x \in bs : ~WithName(x)}}
                \cup {[b |-> b, n |-> n] : b \in {x \in bs : WithName(x)}, n \in Names \cup {"e"}}

S(x) == [id |-> 0, s |-> x]            \* an untagged scalar: "x" filler, "E" the empty string '', "k" key, "M" the merge key <<, "V" the value key =
N(i) == [id |-> i, s |-> ""]           \* a reference to node i
IsRef(v) == v.id # 0
Range(s) == {s[i] : i \in DOMAIN s}
RECURSIVE Flatten(_)
Flatten(ss) == IF ss = <<>> THEN <<>> ELSE Head(ss) \o Flatten(Tail(ss))
Reverse(s) == [i \in DOMAIN s |-> s[Len(s) + 1 - i]]

\* the node a reference denotes; plain scalars are implicit nodes with the tag the resolver gives them
NodeOf(h, v) == IF IsRef(v) THEN h[v.id]
                ELSE [k |-> "s", t |-> [b |-> (CASE v.s = "M" -> "merge" [] v.s = "V" -> "value" [] OTHER -> "str"), n |-> "-"],
                      v |-> (IF v.s = "E" THEN "e" ELSE "b"), e |-> <<>>, fl |-> FALSE]
\* BaseLoader has no implicit resolvers: every plain scalar is a str
NodeOfC(c, h, v) == IF ~IsRef(v) /\ c = "Base" THEN [NodeOf(h, v) EXCEPT !.t = [b |-> "str", n |-> "-"]] ELSE NodeOf(h, v)

(***************************************************************************)
(* H : the property statements                                             *)
(***************************************************************************)
RefsOfNode(nd) == IF nd.k = "q" THEN {x \in Range(nd.e) : IsRef(x)}
                  ELSE IF nd.k = "m" THEN {en.k : en \in {y \in Range(nd.e) : IsRef(y.k)}} \cup {en.v : en \in {y \in Range(nd.e) : IsRef(y.v)}}
                  ELSE {}
RECURSIVE ReachFrom(_, _, _)
ReachFrom(h, todo, seen) ==
  IF todo = {} THEN seen
  ELSE LET i == CHOOSE x \in todo : TRUE
           kids == {r.id : r \in RefsOfNode(h[i])}
       IN  ReachFrom(h, (todo \cup kids) \ (seen \cup {i}), seen \cup {i})
Reach(h, tp) == ReachFrom(h, Range(tp), {})

\* C01: "every tag outside the YAML 1.1 core set is rejected with a constructor error"
\* (the three yaml.org types that have no constructor are left open: H does not say whether they are "core")
OffendsSafe(t) == t.b \notin Core12 \cup Repo3
\* C04: "the object-construction tags (python/object, python/object/new, python/object/apply, python/module) are rejected"
OffendsFull(t) == \E p \in ObjBases : StartsWith(t, p)

(***************************************************************************)
(* Where a node is USED AS A VALUE.  YAML 1.1 gives three constructs in    *)
(* which a collection node is syntax of its parent and not a value of its  *)
(* own: the value of a merge key "<<" (a mapping, or a sequence of         *)
(* mappings, whose entries become entries of the parent), the one-entry    *)
(* mappings that are the elements of an !!omap / !!pairs sequence, and the *)
(* default-value key "=" (a mapping that carries a scalar type stands for  *)
(* the value of its "=" key).  The known finding "structural-use" is that  *)
(* the tag of a node in such a position is not examined; nodes below a     *)
(* "="-mapping other than its "=" value are not looked at at all.          *)
(* Everywhere else - root, sequence element, mapping key, mapping value,   *)
(* set member, key and value of an omap entry and of a merged mapping,     *)
(* elements of a collection that carries a scalar type - a node is a value *)
(* and "rejected" applies to its tag.  Written from the YAML 1.1 types     *)
(* (which tags are mapping / pair-list types); no tables, no constructors. *)
(* A use is [id, m]: "obj" a value; "msrc" merged mapping; "mlist" merge   *)
(* list; "pair" omap/pairs entry; "eqv" the value of a "=" key.            *)
(***************************************************************************)
MapTags  == {"map", "set", "py/dict"}
PairTags == {"omap", "pairs"}
U(i, m) == [id |-> i, m |-> m]
RefUses(vs, m) == {U(v.id, m) : v \in {x \in vs : IsRef(x)}}
KVUses(nd) == UNION {RefUses({nd.e[j].k, nd.e[j].v}, "obj") : j \in DOMAIN nd.e}
IsValueKey(c, h, k) == NodeOfC(c, h, k).t.b = "value"
HasValueKey(c, h, nd) == \E j \in DOMAIN nd.e : IsValueKey(c, h, nd.e[j].k)
FirstValue(c, h, nd) == nd.e[CHOOSE j \in DOMAIN nd.e : IsValueKey(c, h, nd.e[j].k) /\ \A i \in 1 .. j - 1 : ~IsValueKey(c, h, nd.e[i].k)].v
EntryUses(c, h, nd) ==      \* a mapping read as a mapping: "<<" values are merged, every other key and value is a value
  UNION {LET en == nd.e[j] IN
         IF NodeOfC(c, h, en.k).t.b = "merge"
         THEN IF IsRef(en.v) THEN {U(en.v.id, CASE h[en.v.id].k = "m" -> "msrc" [] h[en.v.id].k = "q" -> "mlist" [] OTHER -> "obj")} ELSE {}
         ELSE RefUses({en.k, en.v}, "obj") : j \in DOMAIN nd.e}
ElemUses(h, nd, m) == {U(v.id, IF h[v.id].k = "m" THEN m ELSE "obj") : v \in {x \in Range(nd.e) : IsRef(x)}}
ChildUses(c, h, u) ==
  LET nd == h[u.id] IN
  CASE nd.k = "s" -> {}
    [] nd.k = "q" /\ u.m = "obj" /\ nd.t.b \in PairTags -> ElemUses(h, nd, "pair")
    [] nd.k = "q" /\ u.m = "mlist" -> ElemUses(h, nd, "msrc")
    [] nd.k = "q" -> RefUses(Range(nd.e), "obj")
    [] nd.k = "m" /\ (u.m = "msrc" \/ (u.m = "obj" /\ nd.t.b \in MapTags)) -> EntryUses(c, h, nd)
    [] nd.k = "m" /\ u.m = "pair" -> KVUses(nd)
    [] nd.k = "m" /\ HasValueKey(c, h, nd) -> RefUses({FirstValue(c, h, nd)}, "eqv")       \* "obj" under a non-mapping type, or "eqv"
    [] OTHER -> KVUses(nd)
RECURSIVE UsesFrom(_, _, _, _)
UsesFrom(c, h, todo, seen) ==
  IF todo = {} THEN seen
  ELSE LET u == CHOOSE x \in todo : TRUE
       IN  UsesFrom(c, h, (todo \cup ChildUses(c, h, u)) \ (seen \cup {u}), seen \cup {u})
\* the nodes of the document that occur as a value somewhere
Proper(c, h, tp) == {u.id : u \in {x \in UsesFrom(c, h, {U(i, "obj") : i \in Range(tp)}, {}) : x.m = "obj"}}

Req(c, h, tp) ==
  LET rs == Reach(h, tp)
      off == IF c = "Safe" THEN {i \in rs : OffendsSafe(h[i].t)}
             ELSE IF c = "Full" THEN {i \in rs : OffendsFull(h[i].t)} ELSE {}
  IN [mustErr  |-> off # {},
      off      |-> off,
      proper   |-> Proper(c, h, tp),
      okTypes  |-> OkTypes(c),
      okEff    |-> OkEff(c),
      yamlOnly |-> YamlOnly(c),
      free     |-> c = "Unsafe"]

(***************************************************************************)
(* L : constructor.py                                                      *)
(***************************************************************************)
SafeExact == [b \in Core12 |-> b]       \* tag base -> constructor function (named after the tag)
FullOnly  == [b \in PyExact |-> b]
Extra(c) == CASE c = "Base" -> ExtraBase [] c = "Safe" -> ExtraSafe [] c = "Full" -> ExtraFull [] OTHER -> ExtraUnsafe
HasExact(c, b) == CASE c = "Base" -> b \in ExtraBase
                    [] c = "Safe" -> b \in Core12 \cup ExtraSafe
                    [] OTHER -> b \in Core12 \cup PyExact \cup Extra(c)
\* dict insertion order of yaml_multi_constructors (constructor.py:707-709, 732-746)
Multi(c) == CASE c = "Full" -> <<"py/name:">>
              [] c = "Unsafe" -> <<"py/name:", "py/module:", "py/object:", "py/object/new:", "py/object/apply:">>
              [] OTHER -> <<>>
\* constructor.py:75-97
Dispatch(c, nd) ==
  IF nd.t.n = "-" /\ HasExact(c, nd.t.b) THEN [fn |-> nd.t.b, suf |-> "-"]
  ELSE LET ms == SelectSeq(Multi(c), LAMBDA p : StartsWith(nd.t, p)) IN
       IF ms # <<>> THEN [fn |-> ms[1], suf |-> nd.t.n]
       ELSE IF c = "Base" THEN [fn |-> (CASE nd.k = "s" -> "base_scalar" [] nd.k = "q" -> "base_seq" [] OTHER -> "base_map"), suf |-> "-"]
       ELSE [fn |-> "undefined", suf |-> "-"]

R(st, ex, ty, tp_, eff, vis, kty) == [st |-> st, ex |-> ex, ty |-> ty, top |-> tp_, eff |-> eff, vis |-> vis, kty |-> kty]
Ok(ty, tp_, eff) == R("ok", "", ty, tp_, eff, {}, {})
Err(eff)  == R("err", "ConstructorError", {}, "", eff, {}, {})
Crash(x, eff) == R("crash", x, {}, "", eff, {}, {})
Fail(x, eff) == IF ConvFail = "err" THEN Err(eff) ELSE Crash(x, eff)
\* a failure after earlier steps: effects and visits so far remain
After(prev, r) == [r EXCEPT !.eff = @ \cup prev.eff, !.vis = @ \cup prev.vis]
Both(a, b_, tp_) == R("ok", "", a.ty \cup b_.ty, tp_, a.eff \cup b_.eff, a.vis \cup b_.vis, {})
\* sequential composition of construction steps: the first failure aborts the load
RECURSIVE SeqAll(_)
SeqAll(rs) == IF rs = <<>> THEN Ok({}, "", {})
              ELSE IF Head(rs).st # "ok" THEN Head(rs)
              ELSE LET r == SeqAll(Tail(rs)) IN
                   IF r.st # "ok" THEN After(Head(rs), r) ELSE Both(Head(rs), r, "")

\* SafeConstructor.construct_scalar (constructor.py:173-178): a mapping with a '=' key stands for that key's value.
\* fl: flatten_mapping has already been over this mapping and has retagged its '=' keys as strings, in place.
\* The text of a scalar is good ("g") for the type of the tag it was written under; handed to the converter of another
\* type through the '=' indirection the model makes no prediction ("u").
\* the concrete good texts of the harness: bool "yes"/"true", int "12"/"7"/"8", float "1.5"/"2.5", timestamp
\* "2001-01-01", complex "1+2j", everything else a text no converter accepts; base64 decoding of foreign text: no prediction
IntLike == {"int", "py/int", "py/long"}
FloatLike == {"float", "py/float"}
CrossText(fn, src) ==
  CASE fn \in {"bool", "py/bool"} -> IF src \in {"bool", "py/bool"} THEN "g" ELSE "b"
    [] fn \in IntLike -> IF src \in IntLike THEN "g" ELSE "b"
    [] fn \in FloatLike -> IF src \in IntLike \cup FloatLike THEN "g" ELSE "b"
    [] fn = "py/complex" -> IF src \in IntLike \cup FloatLike \cup {"py/complex"} THEN "g" ELSE "b"
    [] fn = "timestamp" -> IF src = "timestamp" THEN "g" ELSE "b"
    [] fn \in {"binary", "py/bytes"} -> IF src \in {"binary", "py/bytes"} THEN "g" ELSE "u"
    [] OTHER -> "g"
RECURSIVE ScalarOf(_, _, _, _)
ScalarOf(c, h, nd, fn) ==
  IF nd.k = "s" THEN [ok |-> TRUE, v |-> IF nd.v = "g" /\ nd.t.b # fn THEN CrossText(fn, nd.t.b) ELSE nd.v]
  ELSE IF nd.k = "m" /\ c # "Base" /\ ~nd.fl THEN
       LET vs == SelectSeq(nd.e, LAMBDA en : NodeOfC(c, h, en.k).t.b = "value") IN
       IF vs = <<>> THEN [ok |-> FALSE, v |-> ""] ELSE ScalarOf(c, h, NodeOfC(c, h, vs[1].v), fn)
  ELSE [ok |-> FALSE, v |-> ""]

\* find_python_name / find_python_module (constructor.py:525-563); unsafe = UnsafeConstructor
\* name classes whose module is in sys.modules: a function, a class, a missing attribute, an attribute served by the
\* module's __getattr__, a builtin, an existing ITERATOR instance, a not yet imported SUBMODULE of an imported package
\* "pct": a name with a literal '%' (written as the URI escape %25): an attribute that does not exist
\* "trap": an existing object every method of which records its use (what a converter that is handed the object, not
\* text, would call).  "alias": a module name that cannot be imported as written but that the interpreter's own
\* compatibility tables (pickle's fix_imports) translate to an importable, not yet imported standard module: for the
\* code it is a missing module
\* "mapobj": an existing MAPPING instance (os.environ, a registry): iterating / indexing it is calling it; "unhash": an
\* existing unhashable object: as a mapping key it is rejected by its type alone, no code of the object runs
Imported == {"res", "rescls", "noattr", "lazy", "builtin", "iter", "subunimp", "pct", "trap", "mapobj", "unhash"}
NoModule == {"missing", "alias"}
FindName(n, unsafe) ==
  IF n = "e" THEN Err({})
  ELSE LET ie == IF unsafe /\ n \notin Imported THEN {"import"} ELSE {} IN
       IF n \in NoModule THEN Err(ie)
       ELSE IF n \notin Imported /\ ~unsafe THEN Err({})
       ELSE IF n \in {"noattr", "pct"} THEN Err(ie \cup {"modgetattr"})
       ELSE IF n = "subunimp" THEN Err(ie)              \* hasattr(package, 'plugin') is false: nothing is imported
       ELSE Ok({"attr"}, IF n = "unhash" THEN "unhashattr" ELSE "attr", ie \cup {"getattr"} \cup (IF n = "lazy" THEN {"modgetattr"} ELSE {}))

Unhashable == {"list", "dict", "set", "unhashattr"}

RECURSIVE Con(_, _, _), ConMapping(_, _, _), FlatEntries(_, _, _), ConPairs(_, _, _)
\* flatten_mapping retags a key node tagged '=' as a string IN PLACE (constructor.py:206-208): every later use of that
\* node - also as a value through an alias - sees a str
RECURSIVE MergeSrcIds(_, _, _)
MergeSrcIds(c, h, nd) ==        \* mapping nodes flatten_mapping(nd) recurses into
  LET mv == {en.v : en \in {y \in Range(nd.e) : IsRef(y.v) /\ NodeOfC(c, h, y.k).t.b = "merge"}}
      direct == {r.id : r \in {x \in mv : h[x.id].k = "m"}}
      listed == UNION {{x.id : x \in {z \in Range(h[r.id].e) : IsRef(z) /\ h[z.id].k = "m"}} : r \in {x \in mv : h[x.id].k = "q"}}
  IN  direct \cup listed \cup UNION {MergeSrcIds(c, h, h[j]) : j \in direct \cup listed}
Retag(c, h, nd, me) ==
  LET flat == MergeSrcIds(c, h, nd) \cup me
      keys == UNION {{en.k.id : en \in {y \in Range(h[j].e) : IsRef(y.k) /\ h[y.k.id].t.b = "value"}} : j \in flat}
             \cup {en.k.id : en \in {y \in Range(nd.e) : IsRef(y.k) /\ h[y.k.id].t.b = "value"}}
  IN [i \in DOMAIN h |-> IF i \in keys THEN [h[i] EXCEPT !.t = [b |-> "str", n |-> "-"]]
                          ELSE IF i \in flat THEN [h[i] EXCEPT !.fl = TRUE] ELSE h[i]]

\* SafeConstructor.flatten_mapping as a function: the entry list construct_mapping iterates over
FlatEntries(c, h, nd) ==
  LET merges == SelectSeq(nd.e, LAMBDA en : NodeOfC(c, h, en.k).t.b = "merge")
      own    == SelectSeq(nd.e, LAMBDA en : NodeOfC(c, h, en.k).t.b # "merge")
      bad    == [err |-> TRUE, es |-> <<>>]
      src(en) == LET vn == NodeOfC(c, h, en.v) IN
                 IF vn.k = "m" THEN FlatEntries(c, h, vn)
                 ELSE IF vn.k = "q" THEN
                      IF \E j \in DOMAIN vn.e : NodeOfC(c, h, vn.e[j]).k # "m" THEN bad
                      ELSE LET subs == [j \in DOMAIN vn.e |-> FlatEntries(c, h, NodeOfC(c, h, vn.e[j]))] IN
                           IF \E j \in DOMAIN subs : subs[j].err THEN bad
                           ELSE [err |-> FALSE, es |-> Flatten(Reverse([j \in DOMAIN subs |-> subs[j].es]))]
                 ELSE bad
      srcs == [j \in DOMAIN merges |-> src(merges[j])]
  IN  IF \E j \in DOMAIN srcs : srcs[j].err THEN bad
      ELSE [err |-> FALSE, es |-> Flatten([j \in DOMAIN srcs |-> srcs[j].es]) \o own]

\* BaseConstructor.construct_mapping over an entry list: key, hashability, value
ConMapping(c, h, es) ==
  IF es = <<>> THEN Ok({}, "", {})
  ELSE LET k0 == Head(es).k      \* a plain '=' key is a str once flatten_mapping has seen it (same retagging)
           kr == Con(c, h, IF ~IsRef(k0) /\ k0.s = "V" THEN S("k") ELSE k0) IN
       IF kr.st # "ok" THEN kr
       ELSE IF kr.top \in Unhashable THEN After(kr, Err({}))
       ELSE LET vr == Con(c, h, Head(es).v) IN
            IF vr.st # "ok" THEN After(kr, vr)
            ELSE LET rest == ConMapping(c, h, Tail(es)) IN
                 IF rest.st # "ok" THEN After(kr, After(vr, rest))
                 ELSE [Both(Both(kr, vr, ""), rest, "") EXCEPT !.kty = kr.ty \cup rest.kty]

\* construct_yaml_omap / construct_yaml_pairs (constructor.py:352-394)
ConPairs(c, h, elems) ==
  IF elems = <<>> THEN Ok({}, "", {})
  ELSE LET sn == NodeOfC(c, h, Head(elems)) IN
       IF sn.k # "m" \/ Len(sn.e) # 1 THEN Err({})
       ELSE LET kr == Con(c, h, sn.e[1].k) IN
            IF kr.st # "ok" THEN kr
            ELSE LET vr == Con(c, h, sn.e[1].v) IN
                 IF vr.st # "ok" THEN After(kr, vr)
                 ELSE LET rest == ConPairs(c, h, Tail(elems)) IN
                      IF rest.st # "ok" THEN After(kr, After(vr, rest))
                      ELSE [Both(Both(kr, vr, ""), rest, "") EXCEPT !.ty = @ \cup {"pair"}]

NoPrediction == R("unknown", "", {}, "", {}, {}, {})      \* composes like a failure: visits so far are kept
Conv(okType, sc, good) ==      \* a scalar converter: construct_scalar, then the conversion
  IF ~sc.ok THEN Err({}) ELSE IF sc.v = "u" THEN NoPrediction ELSE IF sc.v \in good THEN Ok({okType}, okType, {}) ELSE Fail("ValueError", {})

\* construct_object on the node that reference v denotes
Con(c, h, v) ==
  LET nd == NodeOfC(c, h, v)
      d  == Dispatch(c, nd)
      fn == d.fn
      sc == ScalarOf(c, h, nd, fn)
      unsafe == c = "Unsafe"
      me == IF IsRef(v) THEN {v.id} ELSE {}
      res ==
  CASE fn = "undefined" -> Err({})
    [] fn \in {"null", "py/none"} -> IF sc.ok THEN Ok({"None"}, "None", {}) ELSE Err({})
    [] fn \in {"bool", "py/bool"} -> Conv("bool", sc, {"g"})
    [] fn \in {"int", "py/int", "py/long"} -> Conv("int", sc, {"g"})
    [] fn \in {"float", "py/float"} -> Conv("float", sc, {"g"})
    [] fn = "py/complex" -> IF ~sc.ok THEN Err({}) ELSE IF sc.v = "u" THEN NoPrediction ELSE IF sc.v = "g" THEN Ok({"complex"}, "complex", {}) ELSE Crash("ValueError", {})
    [] fn \in {"binary", "py/bytes"} -> IF ~sc.ok THEN Err({}) ELSE IF sc.v = "u" THEN NoPrediction ELSE IF sc.v = "b" THEN Err({}) ELSE Ok({"bytes"}, "bytes", {})
    [] fn = "timestamp" -> Conv("date", sc, {"g"})
    [] fn \in {"str", "py/str", "py/unicode"} -> IF sc.ok THEN Ok({"str"}, "str", {}) ELSE Err({})
    [] fn = "base_scalar" -> Ok({"str"}, "str", {})
    [] fn \in {"seq", "py/list", "py/tuple", "base_seq"} ->
         IF nd.k # "q" THEN Err({})
         ELSE LET r == SeqAll([j \in DOMAIN nd.e |-> Con(c, h, nd.e[j])]) lab == IF fn = "py/tuple" THEN "tuple" ELSE "list" IN
              IF r.st # "ok" THEN r ELSE [r EXCEPT !.ty = @ \cup {lab}, !.top = lab]
    [] fn \in {"map", "py/dict", "set"} ->
         IF nd.k # "m" THEN Err({})
         ELSE LET fe == FlatEntries(c, h, nd) IN
              IF fe.err THEN Err({})
              ELSE LET r == ConMapping(c, Retag(c, h, nd, me), fe.es) IN
                   IF r.st # "ok" THEN r
                   ELSE IF fn = "set" THEN [r EXCEPT !.ty = r.kty \cup {"set"}, !.top = "set", !.kty = {}]
                   ELSE [r EXCEPT !.ty = @ \cup {"dict"}, !.top = "dict", !.kty = {}]
    [] fn = "base_map" -> LET r == ConMapping(c, h, nd.e) IN
                          IF r.st # "ok" THEN r ELSE [r EXCEPT !.ty = @ \cup {"dict"}, !.top = "dict", !.kty = {}]
    [] fn \in {"omap", "pairs"} ->
         IF nd.k # "q" THEN Err({})
         ELSE LET r == ConPairs(c, h, nd.e) IN IF r.st # "ok" THEN r ELSE [r EXCEPT !.ty = @ \cup {"list"}, !.top = "list"]
    [] fn = "py/name:" ->
         IF ~sc.ok \/ sc.v # "e" THEN Err({}) ELSE FindName(d.suf, unsafe)
    [] fn = "py/module:" ->
         IF ~sc.ok \/ sc.v # "e" THEN Err({})
         ELSE IF d.suf = "e" \/ d.suf \in NoModule THEN Err(IF d.suf \in NoModule THEN {"import"} ELSE {})
         ELSE Ok({"module"}, "module", IF d.suf \in Imported THEN {} ELSE {"import"})
    [] fn \in {"py/object:", "py/object/new:", "py/object/apply:"} ->         \* UnsafeConstructor only; coarse on purpose
         LET f == FindName(d.suf, TRUE) IN
         IF f.st # "ok" THEN f
         ELSE IF fn = "py/object:" /\ nd.k # "m" THEN Err(f.eff \cup {"call"})
         ELSE IF fn # "py/object:" /\ nd.k = "s" THEN Err(f.eff)
         ELSE Ok({"instance"}, "instance", f.eff \cup {"call"})
    [] OTHER ->  \* a tag found in the live table of class c only: H decides, L has no prediction
         NoPrediction
  IN [res EXCEPT !.vis = @ \cup me]

LDoc(c, h, tp) == LET r == SeqAll([j \in DOMAIN tp |-> Con(c, h, N(tp[j]))])
                  IN [st |-> r.st, ex |-> r.ex, ty |-> r.ty, eff |-> r.eff, vis |-> r.vis]

(***************************************************************************)
(* generation: one node per step, children first                           *)
(***************************************************************************)
Referenced(h) == UNION {{r.id : r \in RefsOfNode(h[i])} : i \in DOMAIN h}
TopOf(h) == SelectSeq([i \in DOMAIN h |-> i], LAMBDA i : i \notin Referenced(h))

RefsFor(i) == {N(j) : j \in 1 .. i - 1}
KeySet(i) == {S(f) : f \in KeyFillers} \cup RefsFor(i)
ValSet(i) == {S(f) : f \in ValFillers} \cup RefsFor(i)
SeqsUpTo(Sx, n) == UNION {[1 .. m -> Sx] : m \in 0 .. n}
HasNodeKid(nd) == RefsOfNode(nd) # {}
\* every node but the last must be referenced by the node built right after it or stay a top node; to keep the space a
\* set of *documents* and not of permutations, a new node must refer to the previous one when it refers to any
\* (written with IF, not with \/: TLC splits a disjunction inside an action into sub-actions and would generate the same
\* successor once per true disjunct, evaluating req' and lval' each time)
ChainOk(i, nd) == LET ks == {r.id : r \in RefsOfNode(nd)} IN IF ks = {} THEN (IF i = 1 THEN TRUE ELSE ~MustChain) ELSE (i - 1) \in ks

AddNode ==
  /\ Len(nodes) < MaxNodes
  /\ LET i == Len(nodes) + 1 IN
     \E k \in Kinds :
       \E e \in (CASE k = "s" -> {<<>>}
                   [] k = "q" -> SeqsUpTo(ValSet(i), MaxEntries)
                   [] OTHER   -> SeqsUpTo({[k |-> kk, v |-> vv] : kk \in KeySet(i), vv \in ValSet(i)}, MaxEntries)) :
         \E v \in (IF k = "s" THEN Vals ELSE {"g"}) :
           LET proto == [k |-> k, t |-> [b |-> "str", n |-> "-"], v |-> v, e |-> e, fl |-> FALSE] IN
           /\ ChainOk(i, proto)
           /\ (IF HasNodeKid(proto) THEN TRUE ELSE k \in LeafKinds)
           /\ \E t \in TagsOver(IF HasNodeKid(proto) THEN ParentBases ELSE LeafBases) :
                nodes' = Append(nodes, [proto EXCEPT !.t = t])
  /\ top' = TopOf(nodes')
  /\ req' = [c \in Classes |-> Req(c, nodes', top')]
  /\ lval' = [c \in Classes |-> LDoc(c, nodes', top')]

Init == /\ nodes = <<>> /\ top = <<>>
        /\ req = [c \in Classes |-> Req(c, <<>>, <<>>)]
        /\ lval = [c \in Classes |-> LDoc(c, <<>>, <<>>)]
Next == AddNode
Spec == Init /\ [][Next]_vars

(***************************************************************************)
(* L => H                                                                  *)
(***************************************************************************)
\* the code satisfies the statements on every document, except for the named case class "structural-use"
\* Known finding "structural-use": where a collection node is syntax of its parent (Proper above: the value of a merge
\* key, an element of a merge list, an element of an !!omap / !!pairs sequence, the value of a "=" key, anything else
\* below a "="-mapping under a scalar type) the code never dispatches on that node's own tag, so a foreign tag there is
\* ignored, not rejected.  H demands rejection there too; Undispatched names that case class FROM THE DOCUMENT ALONE:
\* no offending node occurs as a value anywhere.  A document with an offending tag on a value - e.g. below a collection
\* that carries a scalar type such as "!!null [ !foo x ]" - is outside the finding and must be rejected.
Undispatched(c) == req[c].mustErr /\ req[c].off \cap req[c].proper = {}
Confined == \A c \in {"Base", "Safe", "Full"} :
              \/ lval[c].st = "unknown" \/ Sat(lval[c], req[c])
              \/ (Undispatched(c) /\ Sat(lval[c], [req[c] EXCEPT !.mustErr = FALSE]))
\* the instruments of the model are alive: the unsafe class does import, resolve and call (negative control; must be violated)
UnsafeInert == lval["Unsafe"].eff = {}
\* without the exemption the structural-use finding shows up as a counterexample (negative control; must be violated)
ConfinedStrict == \A c \in {"Base", "Safe", "Full"} : lval[c].st = "unknown" \/ Sat(lval[c], req[c])
\* L against the H-level notion of use: a load that succeeds has dispatched on exactly the nodes that occur as values
DispatchExact == \A c \in {"Safe", "Full"} : lval[c].st = "ok" => lval[c].vis = req[c].proper
=============================================================================
