SPECIFICATION Spec
INVARIANT Verdict
