----------------------------- MODULE H_RoundTrip -----------------------------
(***************************************************************************)
(* H of C02: "dumping and loading again yields an equal value of the same  *)
(* types with the same sharing / recursion structure (and the same key     *)
(* order when sort_keys is off)".                                          *)
(*                                                                         *)
(* Written on API-observable values only.  A value is a rooted heap:       *)
(*   heap : Seq(cell)     cell = [t : type label, d : digest, c : Seq(V)]  *)
(*   V    : [id : Nat, t : type label, d : digest]                         *)
(*          id = 0 : a scalar without observable identity (None, bool,     *)
(*                   int, float, str, bytes), carried inline: t, d         *)
(*          id > 0 : a reference to heap[id]: an object whose identity IS  *)
(*                   observable (list, dict, set, date, datetime)          *)
(*   children c: list = items in order; dict = k1, v1, k2, v2, ... in      *)
(*          insertion order; set = members (order meaningless); others <<>>*)
(* Type labels are exact Python type names (bool is not int, 1 is not 1.0),*)
(* digests are canonical strings (float.hex, "nan", decimal int, ...), so  *)
(* "equal value of the same type" is equality of (t, d).                   *)
(*                                                                         *)
(* GraphIso walks both graphs simultaneously from the roots and builds the *)
(* pairing m of identity-bearing objects.  It demands                      *)
(*   - the same (t, d) at every paired position              (equal value) *)
(*   - m is a function: an object reached twice on the left is paired with *)
(*     the same object on the right                     (sharing is kept)  *)
(*   - m is injective: two objects on the left are never paired with one   *)
(*     object on the right                    (no sharing is introduced)   *)
(*   - cycles: a pair already in m is not descended into again, so the     *)
(*     walk terminates on self-referential values and the cycle structure  *)
(*     is the one recorded in m                                            *)
(*   - ordered = TRUE : dict entries are compared position by position     *)
(*     (key order is part of the value); ordered = FALSE : entries are     *)
(*     paired by equal key.  Set members are always paired by equal value. *)
(* Nothing here mentions anchors, tags, styles or any implementation name. *)
(***************************************************************************)
EXTENDS Naturals, Sequences, FiniteSets

IsRef(v) == v.id # 0
\* (type, digest) of whatever v denotes
Lab(h, v) == IF IsRef(v) THEN <<h[v.id].t, h[v.id].d>> ELSE <<v.t, v.d>>

Good(m)   == [ok |-> TRUE, m |-> m, why |-> "-"]
Bad(why)  == [ok |-> FALSE, m |-> <<>>, why |-> why]

OddPos(c) == {p \in DOMAIN c : p % 2 = 1}

RECURSIVE MatchV(_, _, _, _, _, _), MatchSeq(_, _, _, _, _, _, _), MatchDictU(_, _, _, _, _, _, _),
          MatchSetU(_, _, _, _, _, _, _)

\* pair value a of h1 with value b of h2, extending the pairing m
MatchV(h1, h2, ord, m, a, b) ==
  IF IsRef(a) # IsRef(b) THEN Bad("type")
  ELSE IF ~IsRef(a) THEN (IF a.t # b.t THEN Bad("type") ELSE IF a.d # b.d THEN Bad("value") ELSE Good(m))
  ELSE LET i == a.id
           j == b.id
       IN  IF m[i] # 0 THEN (IF m[i] = j THEN Good(m) ELSE Bad("sharing lost"))
           ELSE IF \E x \in DOMAIN m : m[x] = j THEN Bad("sharing introduced")
           ELSE IF h1[i].t # h2[j].t THEN Bad("type")
           ELSE IF h1[i].d # h2[j].d THEN Bad("value")
           ELSE LET m1 == [m EXCEPT ![i] = j]
                    c1 == h1[i].c
                    c2 == h2[j].c
                IN  IF Len(c1) # Len(c2) THEN Bad("length")
                    ELSE IF h1[i].t = "list" \/ (h1[i].t = "dict" /\ ord) THEN MatchSeq(h1, h2, ord, m1, c1, c2, 1)
                    ELSE IF h1[i].t = "dict" THEN MatchDictU(h1, h2, ord, m1, c1, c2, 1)
                    ELSE IF h1[i].t = "set" THEN MatchSetU(h1, h2, ord, m1, c1, c2, 1)
                    ELSE Good(m1)

\* position by position
MatchSeq(h1, h2, ord, m, c1, c2, p) ==
  IF p > Len(c1) THEN Good(m)
  ELSE LET r == MatchV(h1, h2, ord, m, c1[p], c2[p])
       IN  IF r.ok THEN MatchSeq(h1, h2, ord, r.m, c1, c2, p + 1) ELSE r

\* entry by entry, the partner is the entry of c2 with an equal key (keys of a dict are pairwise different)
MatchDictU(h1, h2, ord, m, c1, c2, p) ==
  IF p > Len(c1) THEN Good(m)
  ELSE LET qs == {q \in OddPos(c2) : Lab(h2, c2[q]) = Lab(h1, c1[p])}
       IN  IF qs = {} THEN Bad("key missing")
           ELSE LET q  == CHOOSE x \in qs : \A y \in qs : x <= y
                    rk == MatchV(h1, h2, ord, m, c1[p], c2[q])
                IN  IF ~rk.ok THEN rk
                    ELSE LET rv == MatchV(h1, h2, ord, rk.m, c1[p + 1], c2[q + 1])
                         IN  IF rv.ok THEN MatchDictU(h1, h2, ord, rv.m, c1, c2, p + 2) ELSE rv

MatchSetU(h1, h2, ord, m, c1, c2, p) ==
  IF p > Len(c1) THEN Good(m)
  ELSE LET qs == {q \in DOMAIN c2 : Lab(h2, c2[q]) = Lab(h1, c1[p])}
       IN  IF qs = {} THEN Bad("member missing")
           ELSE LET q == CHOOSE x \in qs : \A y \in qs : x <= y
                    r == MatchV(h1, h2, ord, m, c1[p], c2[q])
                IN  IF r.ok THEN MatchSetU(h1, h2, ord, r.m, c1, c2, p + 1) ELSE r

Iso(h1, r1, h2, r2, ord) == MatchV(h1, h2, ord, [x \in 1 .. Len(h1) |-> 0], r1, r2)

GraphIso(h1, r1, h2, r2, ord) == Iso(h1, r1, h2, r2, ord).ok

\* the verdict with a reason; when only the order of dict entries differs the reason says so
Judge(h1, r1, h2, r2, ord) ==
  LET r == Iso(h1, r1, h2, r2, ord) IN
  IF r.ok THEN "-"
  ELSE IF ord /\ Iso(h1, r1, h2, r2, FALSE).ok THEN "key order"
  ELSE r.why
=============================================================================
