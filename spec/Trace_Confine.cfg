SPECIFICATION Spec
INVARIANT Verdict
