------------------------------- MODULE Reader -------------------------------
(***************************************************************************)
(* L model of lib/yaml/reader.py (class Reader), bound to H of C07         *)
(* (DeliveryIndep.tla).                                                    *)
(*                                                                         *)
(* Variables mirror the attributes of the class (reader.py:59-71):         *)
(*   raw/rawNone = raw_buffer, buf = buffer, ptr = pointer, eof, spos =    *)
(*   stream_pointer, enc = encoding/raw_decode, idx/line/col.              *)
(* One action per method or loop iteration:                                *)
(*   Construct            __init__ (str / bytes / stream branch)           *)
(*   DetermineEncoding    determine_encoding: loop "need >= 2 units or EOF"*)
(*   UpdateRaw            update_raw: ONE stream.read(); the environment   *)
(*                        chooses how many units it returns (1..Block,     *)
(*                        0 only at the end of the stream)                 *)
(*   UpdateLoop, Decode   one iteration of the while loop of update():     *)
(*                        incremental decode with final=eof, undecodable   *)
(*                        tail kept in raw, check_printable, NUL at EOF    *)
(*   Peek, Prefix, Forward, ForwardStep, Complete   the consumer interface *)
(* Python exceptions other than ReaderError (IndexError of buffer[...])    *)
(* are the explicit outcome pc = "crash".                                  *)
(*                                                                         *)
(* The environment is the document, its delivery form, the read-size       *)
(* schedule and the consumer.  The document is revealed lazily (symbol by  *)
(* symbol, only when a read() needs more units), so that behaviours that   *)
(* differ only in the unread tail share their states.  The consumer only   *)
(* moves over characters it has looked at and never past NUL (as the       *)
(* scanner does); Programs selects free or scripted consumers.             *)
(*                                                                         *)
(* The codec (codecs.utf_8_decode / utf_16_le_decode / utf_16_be_decode,   *)
(* part of CPython, not of the repository) is the operator Dec: decode the *)
(* longest prefix of complete valid sequences, fail at the first invalid   *)
(* one, and leave an incomplete tail unless final.                         *)
(***************************************************************************)
EXTENDS Naturals, Sequences, FiniteSets, TLC
H == INSTANCE DeliveryIndep

CONSTANTS Block,          \* largest number of units one read() returns in the model (4096 in the code)
          MaxDoc,         \* symbols per document
          MaxBad,         \* offending symbols per document
          Alphabet,       \* subset of H!Symbols
          FormsC,         \* subset of H!Forms
          Programs,       \* consumers: subset of DOMAIN PT ("any": free consumer within MaxPeek/MaxPrefix/MaxFwd)
          MaxPeek, MaxPrefix, MaxFwd,    \* bounds of the free consumer
          History,        \* BOOLEAN: carry the observation history (MBT configuration)
          PrintableFirst  \* BOOLEAN: model the repaired update() (printable check of the decodable prefix first)

VARIABLES form, doc, closed, src,                       \* environment: delivery form, document so far, units not yet read
          raw, rawNone, buf, ptr, eof, spos, enc,       \* reader.py attributes
          idx, line, col,
          pc, ret, need, op,                            \* control: where in which method
          err, hexp,                                    \* the ReaderError raised / what H expects instead (exported)
          ahead, prog,                                  \* consumer: characters seen ahead of the position, its program
          hok,                                          \* H monitor: every completed call returned what H demands
          calls                                         \* MBT history: the sizes returned by read() (the schedule)
vars == <<form, doc, closed, src, raw, rawNone, buf, ptr, eof, spos, enc, idx, line, col, pc, ret, need, op, err, hexp,
          ahead, prog, hok, calls>>
errv == <<err, hexp>>
envv == <<form, doc, closed, prog>>
rdrv == <<raw, rawNone, buf, ptr, eof, spos, enc, idx, line, col>>

Min(a, b) == IF a < b THEN a ELSE b
NUL == H!NUL
NoErr == [kind |-> "-", pos |-> 0]
NoOp == [name |-> "-", arg |-> 0]
Drop(s, n) == SubSeq(s, n + 1, Len(s))
BadCount(d) == Cardinality({i \in DOMAIN d : H!IsBad(d[i])})

(***************************************************************************)
(* the codec contract                                                      *)
(***************************************************************************)
DecOk(acc, conv)  == [err |-> FALSE, start |-> 0, data |-> acc, conv |-> conv]
DecErr(start)     == [err |-> TRUE, start |-> start, data |-> <<>>, conv |-> 0]
RECURSIVE Dec(_, _, _, _, _)
Dec(r, p, final, e, acc) ==
  LET g     == IF H!Is16(e) THEN 2 ELSE 1                  \* bytes per code unit
      avail == Len(r) - p + 1
  IN  IF avail = 0 THEN DecOk(acc, p - 1)
      ELSE IF avail < g THEN (IF final THEN DecErr(p - 1) ELSE DecOk(acc, p - 1))       \* "truncated data"
      ELSE LET u == r[p] IN
           IF u[4] # e \/ u[2] # 1 \/ u[3] = 0 THEN DecErr(p - 1)       \* other byte order, stray continuation, invalid start
           ELSE LET full == u[3]
                    have == Min(full, g * (avail \div g))
                IN  IF \E j \in 1 .. have - 1 : r[p + j] # <<u[1], j + 1, full, e>> THEN DecErr(p - 1)  \* invalid continuation
                    ELSE IF have < full THEN (IF final THEN DecErr(p - 1) ELSE DecOk(acc, p - 1))     \* unexpected end of data
                    ELSE Dec(r, p + full, final, e, Append(acc, u[1]))
FirstNP(data) == IF \E j \in DOMAIN data : data[j] \in H!NonPrintable
                 THEN CHOOSE j \in DOMAIN data : data[j] \in H!NonPrintable /\ \A k \in 1 .. j - 1 : data[k] \notin H!NonPrintable
                 ELSE 0
StartsWith(r, p) == Len(r) >= Len(p) /\ SubSeq(r, 1, Len(p)) = p

(***************************************************************************)
(* environment: the document and its end                                   *)
(***************************************************************************)
WantsInput == (pc = "new" /\ ~H!IsStream(form)) \/ (pc = "read" /\ Len(src) < Block)
Reveal(s) ==
  /\ WantsInput /\ ~closed /\ Len(doc) < MaxDoc
  /\ H!DocOk(Append(doc, s), form) /\ BadCount(Append(doc, s)) <= MaxBad
  /\ (doc # <<>>) => doc[Len(doc)] # "ODD"
  /\ doc' = Append(doc, s) /\ src' = src \o H!EncodeSym(s, H!EncOf(form))
  /\ UNCHANGED <<form, closed, prog, rdrv, pc, ret, need, op, errv, ahead, hok, calls>>
Close ==
  /\ WantsInput /\ ~closed /\ closed' = TRUE
  /\ UNCHANGED <<form, doc, src, prog, rdrv, pc, ret, need, op, errv, ahead, hok, calls>>

(***************************************************************************)
(* H judgement of one completed call (the monitor hok accumulates them)    *)
(***************************************************************************)
T == H!Ideal(doc, form, closed)
\* every character handed out is the character of the document at that index - under every schedule
JPeek(i, v)   == idx + i + 1 <= Len(T) /\ v = <<T[idx + i + 1]>>
JPrefix(l, v) == /\ v = SubSeq(T, idx + 1, Min(idx + l, Len(T)))
                 /\ Len(v) = l \/ (v # <<>> /\ v[Len(v)] = NUL)               \* short only at the end of the stream
\* index / line / column are Pos(Doc, i)
JPos == H!PosDefined(T, idx) /\ line = H!LineAt(T, idx) /\ col = H!ColAt(T, idx)
HExpect == IF H!FirstBad(doc) = 0 THEN [kind |-> "-", pos |-> 0, span |-> 0] ELSE H!ExpectedError(doc, form)   \* exported with the MBT dump

(***************************************************************************)
(* reader.py                                                               *)
(***************************************************************************)
Raise(k, p) == /\ pc' = "error" /\ err' = [kind |-> k, pos |-> p] /\ hexp' = HExpect

\* update(length), entry: "if self.raw_buffer is None: return"; slice the buffer
EnterUpdate(length) ==
  IF rawNone THEN /\ pc' = "complete" /\ UNCHANGED <<buf, ptr, need>>
  ELSE /\ buf' = Drop(buf, ptr) /\ ptr' = 0 /\ need' = length /\ pc' = "update"

Construct ==                                                          \* __init__
  /\ pc = "new" /\ (H!IsStream(form) \/ closed)
  /\ CASE form = "str" ->                                              \* check_printable(stream); buffer = stream + NUL
            LET np == FirstNP(doc) IN
            /\ IF np > 0 THEN Raise("unprintable", idx + (Len(buf) - ptr) + np - 1) /\ UNCHANGED buf
               ELSE buf' = doc \o <<NUL>> /\ pc' = "ready" /\ UNCHANGED errv
            /\ UNCHANGED <<raw, rawNone, eof, src>>
       [] ~H!IsStream(form) /\ form # "str" ->                         \* bytes: raw_buffer = stream; eof stays True
            /\ raw' = src /\ src' = <<>> /\ rawNone' = FALSE /\ pc' = "detenc" /\ UNCHANGED <<buf, eof, errv>>
       [] OTHER ->                                                     \* a stream: eof = False
            /\ eof' = FALSE /\ pc' = "detenc" /\ UNCHANGED <<raw, rawNone, buf, src, errv>>
  /\ UNCHANGED <<envv, ptr, spos, enc, idx, line, col, ret, need, op, ahead, hok, calls>>

DetermineEncoding ==                                                  \* determine_encoding, one loop test per step
  /\ pc = "detenc"
  /\ IF ~eof /\ (rawNone \/ Len(raw) < 2)
     THEN /\ pc' = "read" /\ ret' = "detenc" /\ UNCHANGED <<enc, op, buf, ptr, need>>
     ELSE /\ enc' = IF H!EncOf(form) = "none" THEN "none"               \* not a bytes object: raw_decode stays None
                    ELSE IF StartsWith(raw, H!EncodeSym("BOM", "utf-16-le")) THEN "utf-16-le"
                    ELSE IF StartsWith(raw, H!EncodeSym("BOM", "utf-16-be")) THEN "utf-16-be"
                    ELSE "utf-8"
          /\ op' = [name |-> "init", arg |-> 0]
          /\ EnterUpdate(1) /\ UNCHANGED ret
  /\ UNCHANGED <<envv, src, raw, rawNone, eof, spos, idx, line, col, errv, ahead, hok, calls>>

UpdateRaw ==                                                          \* update_raw: data = self.stream.read(size)
  /\ pc = "read" /\ (closed \/ Len(src) >= Block)
  /\ \E k \in 0 .. Min(Block, Len(src)) :
       /\ (k = 0) <=> (src = <<>>)                                      \* an empty read means end of stream, and only then
       /\ raw' = (IF rawNone THEN <<>> ELSE raw) \o SubSeq(src, 1, k)
       /\ src' = Drop(src, k)
       /\ spos' = spos + k
       /\ eof' = (eof \/ k = 0)
       /\ calls' = IF History THEN Append(calls, k) ELSE calls
  /\ rawNone' = FALSE /\ pc' = ret /\ ret' = "-"
  /\ UNCHANGED <<envv, buf, ptr, enc, idx, line, col, need, op, errv, ahead, hok>>

UpdateLoop ==                                                         \* "while len(self.buffer) < length: if not self.eof: update_raw()"
  /\ pc = "update"
  /\ IF Len(buf) < need THEN (IF ~eof THEN pc' = "read" /\ ret' = "decode" ELSE pc' = "decode" /\ UNCHANGED ret)
     ELSE pc' = "complete" /\ UNCHANGED ret
  /\ UNCHANGED <<envv, src, rdrv, need, op, errv, ahead, hok, calls>>

Decode ==                                                             \* the rest of the loop body
  /\ pc = "decode"
  /\ LET r == IF enc = "none" THEN DecOk([j \in DOMAIN raw |-> raw[j][1]], Len(raw)) ELSE Dec(raw, 1, eof, enc, <<>>)
         base == IF H!IsStream(form) THEN spos - Len(raw) ELSE 0          \* "if self.stream is not None"
         \* the repaired variant looks for a non-printable character in the decodable prefix before giving up
         pre == IF r.err /\ PrintableFirst THEN Dec(SubSeq(raw, 1, r.start), 1, FALSE, enc, <<>>).data ELSE r.data
         np == FirstNP(pre)
     IN  IF r.err /\ ~(PrintableFirst /\ np > 0)
         THEN Raise("undecodable", base + r.start) /\ UNCHANGED <<raw, rawNone, buf>>
         ELSE IF np > 0
         THEN Raise("unprintable", idx + (Len(buf) - ptr) + np - 1) /\ UNCHANGED <<raw, rawNone, buf>>     \* check_printable
         ELSE /\ buf' = buf \o r.data \o (IF eof THEN <<NUL>> ELSE <<>>)
              /\ raw' = IF eof THEN <<>> ELSE Drop(raw, r.conv)
              /\ rawNone' = eof
              /\ pc' = IF eof THEN "complete" ELSE "update"                 \* break / next iteration
              /\ UNCHANGED errv
  /\ UNCHANGED <<envv, src, ptr, eof, spos, enc, idx, line, col, ret, need, op, ahead, hok, calls>>

\* ---- the consumer interface ---------------------------------------------------------------------------
NoNul(s, n) == \A j \in 1 .. Min(n, Len(s)) : s[j] # NUL
LeadingGood(s) == IF \E j \in DOMAIN s : s[j] = NUL THEN (CHOOSE j \in DOMAIN s : s[j] = NUL /\ NoNul(s, j - 1)) - 1 ELSE Len(s)
\* consumer programs: <<how it looks ("p": peek(0), peek(1), ...; "x": one prefix(n)), how far it looks, how far it moves>>
PT == [any |-> <<"any", 0, 0>>, p11 |-> <<"p", 1, 1>>, p21 |-> <<"p", 2, 1>>, p32 |-> <<"p", 3, 2>>, p33 |-> <<"p", 3, 3>>,
       x22 |-> <<"x", 2, 2>>, x31 |-> <<"x", 3, 1>>, x33 |-> <<"x", 3, 3>>, x42 |-> <<"x", 4, 2>>]
P == PT[prog]
Looking == Len(ahead) < P[2] /\ NoNul(ahead, Len(ahead))
MayPeek(i)   == IF P[1] = "any" THEN i <= MaxPeek ELSE P[1] = "p" /\ Looking /\ i = Len(ahead)
MayPrefix(l) == IF P[1] = "any" THEN l <= MaxPrefix ELSE P[1] = "x" /\ Looking /\ l = P[2]
MayFwd(l)    == IF P[1] = "any" THEN l <= MaxFwd ELSE ~Looking /\ l = Min(P[3], LeadingGood(ahead))

Peek(i) ==                                                            \* try: buffer[pointer+index] except IndexError: update(index+1)
  /\ pc = "ready" /\ MayPeek(i) /\ i <= Len(ahead) /\ NoNul(ahead, i)
  /\ op' = [name |-> "peek", arg |-> i]
  /\ IF ptr + i + 1 <= Len(buf) THEN pc' = "complete" /\ UNCHANGED <<buf, ptr, need>> ELSE EnterUpdate(i + 1)
  /\ UNCHANGED <<envv, src, raw, rawNone, eof, spos, enc, idx, line, col, ret, errv, ahead, hok, calls>>
Prefix(l) ==                                                          \* if pointer+length >= len(buffer): update(length)
  /\ pc = "ready" /\ MayPrefix(l) /\ l >= 1
  /\ op' = [name |-> "prefix", arg |-> l]
  /\ IF ptr + l >= Len(buf) THEN EnterUpdate(l) ELSE pc' = "complete" /\ UNCHANGED <<buf, ptr, need>>
  /\ UNCHANGED <<envv, src, raw, rawNone, eof, spos, enc, idx, line, col, ret, errv, ahead, hok, calls>>
Forward(l) ==                                                         \* if pointer+length+1 >= len(buffer): update(length+1)
  /\ pc = "ready" /\ MayFwd(l) /\ l >= 1 /\ l <= Len(ahead) /\ NoNul(ahead, l)
  /\ op' = [name |-> "forward", arg |-> l]
  /\ IF ptr + l + 1 >= Len(buf) THEN EnterUpdate(l + 1) ELSE pc' = "complete" /\ UNCHANGED <<buf, ptr, need>>
  /\ UNCHANGED <<envv, src, raw, rawNone, eof, spos, enc, idx, line, col, ret, errv, ahead, hok, calls>>

\* a call returns: H judgement j of its result, consumer memory a
Done(j, a) == /\ pc' = "ready" /\ op' = NoOp /\ need' = 0 /\ ahead' = a /\ hok' = (hok /\ j)
Crash == /\ pc' = "crash" /\ UNCHANGED <<op, need, ahead, hok>>         \* IndexError
Complete ==                                                           \* the statements after the update() call
  /\ pc = "complete"
  /\ CASE op.name = "init" -> Done(TRUE, ahead)
       [] op.name = "peek" ->
            IF ptr + op.arg + 1 <= Len(buf)
            THEN LET c == buf[ptr + op.arg + 1] IN
                 Done(JPeek(op.arg, <<c>>), IF op.arg = Len(ahead) THEN Append(ahead, c) ELSE ahead)
            ELSE Crash
       [] op.name = "prefix" ->
            LET v == SubSeq(buf, ptr + 1, Min(ptr + op.arg, Len(buf))) IN
            Done(JPrefix(op.arg, v), IF Len(v) > Len(ahead) THEN v ELSE ahead)
       [] OTHER -> pc' = "fwd" /\ need' = op.arg /\ UNCHANGED <<op, ahead, hok>>
  /\ UNCHANGED <<envv, src, rdrv, ret, errv, calls>>

ForwardStep ==                                                        \* the "while length:" loop of forward()
  /\ pc = "fwd"
  /\ IF need = 0
     THEN Done(JPos, Drop(ahead, op.arg))
          /\ UNCHANGED <<ptr, idx, line, col>>
     ELSE IF ptr + 1 > Len(buf) \/ (buf[ptr + 1] = "CR" /\ ptr + 2 > Len(buf))
     THEN Crash /\ UNCHANGED <<ptr, idx, line, col>>
     ELSE LET ch == buf[ptr + 1] IN
          /\ ptr' = ptr + 1 /\ idx' = idx + 1 /\ need' = need - 1
          /\ IF ch \in {"LF", "NEL", "LS"} \/ (ch = "CR" /\ buf[ptr + 2] # "LF")
             THEN line' = line + 1 /\ col' = 0
             ELSE IF ch # "BOM" THEN col' = col + 1 /\ UNCHANGED line ELSE UNCHANGED <<line, col>>
          /\ UNCHANGED <<op, ahead, hok, pc>>
  /\ UNCHANGED <<envv, src, raw, rawNone, buf, eof, spos, enc, ret, errv, calls>>

Finish ==                                                             \* the consumer has seen NUL at the position: it stops
  /\ pc = "ready" /\ ahead # <<>> /\ ahead[1] = NUL /\ pc' = "end"
  /\ UNCHANGED <<envv, src, rdrv, ret, need, op, errv, ahead, hok, calls>>

Init ==
  /\ form \in FormsC /\ prog \in Programs
  /\ doc = <<>> /\ closed = FALSE /\ src = H!BomUnits(form)
  /\ raw = <<>> /\ rawNone = TRUE /\ buf = <<>> /\ ptr = 0 /\ eof = TRUE /\ spos = 0 /\ enc = "?"
  /\ idx = 0 /\ line = 0 /\ col = 0
  /\ pc = "new" /\ ret = "-" /\ need = 0 /\ op = NoOp /\ err = NoErr /\ hexp = [kind |-> "-", pos |-> 0, span |-> 0]
  /\ ahead = <<>> /\ hok = TRUE /\ calls = <<>>

Next ==
  \/ \E s \in Alphabet : Reveal(s)
  \/ Close \/ Construct \/ DetermineEncoding \/ UpdateRaw \/ UpdateLoop \/ Decode \/ Complete \/ ForwardStep \/ Finish
  \/ \E i \in 0 .. MaxPeek : Peek(i)
  \/ \E l \in 1 .. MaxPrefix : Prefix(l)
  \/ \E l \in 1 .. MaxFwd : Forward(l)
Spec == Init /\ [][Next]_vars

(***************************************************************************)
(* L => H : the invariants                                                 *)
(***************************************************************************)
NoCrash == pc # "crash"
\* peek / prefix returned the characters of the document, forward arrived at Pos(Doc, i): JPeek, JPrefix, JPos of every call
H_Calls  == hok
\* the consumer has been given exactly the document's characters after its position
H_Ahead  == (pc \in {"ready", "end"}) => (idx + Len(ahead) <= Len(T) /\ ahead = SubSeq(T, idx + 1, idx + Len(ahead)))
\* index / line / column are Pos(Doc, i) whenever the reader is at rest
H_Position == (pc \in {"ready", "end"}) => JPos
\* the whole document and then NUL, nothing after it
H_End    == (pc = "end") => (closed /\ H!FirstBad(doc) = 0 /\ idx = Len(T) - 1)
\* an error is raised only for a defective document, names the first offending unit, at its offset in units of the form
H_Error     == (pc = "error") => (H!FirstBad(doc) # 0 /\ H!Names(err, H!ExpectedError(doc, form)))
\* weaker: it names an offending unit of the document at its right offset (holds for the code as it is, see C07 finding)
H_ErrorWeak == (pc = "error") => (\E o \in H!Offences(doc, form) : H!Names(err, o))
\* a defective document is never read past its first offending unit: T stops there (H_Calls / H_Ahead)

(***************************************************************************)
(* MBT export: one line per complete behaviour of the History configuration *)
(* (document, form, schedule, consumer) with the H tables the replay is    *)
(* compared with - the characters T, Pos(T, i) for every i, the expected   *)
(* error - and L's final values (drift probes only).                       *)
(***************************************************************************)
HPosTable == [i \in 1 .. Len(T) + 1 |-> IF H!PosDefined(T, i - 1) THEN <<H!LineAt(T, i - 1), H!ColAt(T, i - 1)>> ELSE <<>>]
Export == (History /\ pc \in {"end", "error", "crash"}) =>
             PrintT("TRIPLE " \o ToString(<<form, prog, doc, calls, pc, T, HPosTable,
                      IF pc = "error" THEN <<hexp.kind, hexp.pos, hexp.span, err.kind, err.pos, H!Offences(doc, form)>> ELSE <<>>, <<spos, idx, line, col>> >>))
=============================================================================
