SPECIFICATION Spec
CONSTANTS
  Block = 4
  MaxKey = 4
  MaxFlow = 1
  MaxCol = 1
  MaxRun = 3
  MaxLen = 24
  Stream = FALSE
  Exact = TRUE
  Variant = "nokeylimit"
  Sym = {"w", "[", ","}
INVARIANT QueueBound
INVARIANT KeysBound
INVARIANT BufferBound
INVARIANT LookBound
INVARIANT IndentBound
INVARIANT StepCost
INVARIANT Progress
INVARIANT LinearPerMech
INVARIANT LinearWork
