------------------------------- MODULE Parser -------------------------------
(***************************************************************************)
(* L model of parser.py: the LL(1) push-down parser as the state machine   *)
(* it is (self.state / self.states / self.marks), one action per parse_*   *)
(* method.  A method that inspects the token after the one it consumes is  *)
(* split at that point into two micro-steps (suffix 2), because the next   *)
(* token is chosen lazily: action Peek picks the kind of the next token    *)
(* only when the parser first looks at it, so TLC explores the DAG of      *)
(* parser configurations rather than the tree of inputs.                   *)
(*                                                                         *)
(* Token i (STREAM-START is token 0) spans the abstract positions          *)
(* [2i, 2i+1]; every event carries the start/end positions the code takes  *)
(* from its tokens.  Operations that would be a Python exception other     *)
(* than ParserError (pop from an empty list, failed assert) lead to        *)
(* st = "crash".                                                           *)
(*                                                                         *)
(* H (EventGrammar) runs alongside: mon is the grammar monitor fed with    *)
(* every emitted event.                                                    *)
(***************************************************************************)
EXTENDS Naturals, Sequences, FiniteSets, TLC
G == INSTANCE EventGrammar

CONSTANTS MaxTokens,     \* tokens between STREAM-START and STREAM-END
          Tok,           \* token kinds the environment may choose
          History        \* BOOLEAN: carry the token list and the event list (MBT configuration)

VARIABLES st, states, marks, n, pk, blk, ind, pa, pt, ps, pe, ptm, tagok, tokend, dsm, ver, handles,
          ev, err, mon, lastStart, toks, out
vars == <<st, states, marks, n, pk, blk, ind, pa, pt, ps, pe, ptm, tagok, tokend, dsm, ver, handles,
          ev, err, mon, lastStart, toks, out>>

NoEv == [k |-> "-", s |-> 0, e |-> 0]
NoErr == [c |-> 0, p |-> 0, what |-> "-"]
Last(s) == s[Len(s)]
Front(s) == SubSeq(s, 1, Len(s) - 1)
S(p) == 2 * p
E(p) == 2 * p + 1

\* the parser configuration as a record, so that methods are functions from records to records
R == [st |-> st, states |-> states, marks |-> marks, n |-> n, pk |-> pk, blk |-> blk, ind |-> ind,
      pa |-> pa, pt |-> pt, ps |-> ps, pe |-> pe, ptm |-> ptm, tagok |-> tagok, tokend |-> tokend,
      dsm |-> dsm, ver |-> ver, handles |-> handles, ev |-> NoEv, err |-> NoErr]

Consume(r)      == [r EXCEPT !.n = @ + 1, !.pk = "none"]
Goto(r, s)      == [r EXCEPT !.st = s]
Push(r, s)      == [r EXCEPT !.states = Append(@, s)]
Crash(r, why)   == [r EXCEPT !.st = "crash", !.err = [c |-> 0, p |-> 0, what |-> why]]
PopState(r)     == IF r.states = <<>> THEN Crash(r, "pop from empty states")
                   ELSE [r EXCEPT !.st = Last(r.states), !.states = Front(r.states)]
PushMark(r, m)  == [r EXCEPT !.marks = Append(@, m)]
PopMark(r)      == IF r.marks = <<>> THEN Crash(r, "pop from empty marks") ELSE [r EXCEPT !.marks = Front(@)]
Emit(r, k, s, e) == [r EXCEPT !.ev = [k |-> k, s |-> s, e |-> e]]
Fail(r, c, p, w) == [r EXCEPT !.st = "error", !.err = [c |-> c, p |-> p, what |-> w]]
FailCtx(r, p, w) == IF r.marks = <<>> THEN Crash(r, "marks[-1] on empty list") ELSE Fail(r, Last(r.marks), p, w)
Empty(r, m)     == Emit(r, "Scalar", m, m)                       \* process_empty_scalar
Node(r, b, i)   == [r EXCEPT !.st = "node", !.blk = b, !.ind = i, !.pa = FALSE, !.pt = FALSE, !.tagok = TRUE]

T == pk
P == n                                       \* index of the peeked token

(***************************************************************************)
(* the methods                                                             *)
(***************************************************************************)
StreamStart(r) == Goto(Emit(Consume(r), "StreamStart", S(P), E(P)), "implicit_document_start")

ImplicitDocumentStart(r) ==
  IF T \notin {"DY1", "DY2", "DT1", "DS", "SE"}
  THEN Node(Push(Emit([r EXCEPT !.handles = {}], "DocumentStart", S(P), S(P)), "document_end"), TRUE, FALSE)
  ELSE Goto(r, "document_start")

DocumentStart(r) ==
  IF T = "DE" THEN Consume(r)                                  \* while check_token(DocumentEndToken): get_token()
  ELSE IF T # "SE" THEN [Goto(r, "directives") EXCEPT !.dsm = S(P), !.ver = FALSE, !.handles = {}]
  ELSE IF r.states # <<>> \/ r.marks # <<>> THEN Crash(r, "assert not self.states / self.marks")
  ELSE Goto(Emit(Consume(r), "StreamEnd", S(P), E(P)), "done")

Directives(r) ==                                               \* process_directives + the rest of parse_document_start
  CASE T = "DY1" -> IF r.ver THEN Fail(r, 0, S(P), "duplicate YAML directive") ELSE [Consume(r) EXCEPT !.ver = TRUE]
    [] T = "DY2" -> IF r.ver THEN Fail(r, 0, S(P), "duplicate YAML directive") ELSE Fail(r, 0, S(P), "incompatible")
    [] T = "DT1" -> IF "h1" \in r.handles THEN Fail(r, 0, S(P), "duplicate tag handle")
                    ELSE [Consume(r) EXCEPT !.handles = @ \cup {"h1"}]
    [] T = "DS"  -> Goto(Push(Emit(Consume(r), "DocumentStart", r.dsm, E(P)), "document_end"), "document_content")
    [] OTHER     -> Fail(r, 0, S(P), "expected <document start>")

DocumentEnd(r) ==
  IF T = "DE" THEN Goto(Emit(Consume(r), "DocumentEnd", S(P), E(P)), "document_start")
  ELSE Goto(Emit(r, "DocumentEnd", S(P), S(P)), "document_start")

DocumentContent(r) ==
  IF T \in {"DY1", "DY2", "DT1", "DS", "DE", "SE"} THEN PopState(Empty(r, S(P)))
  ELSE Node(r, TRUE, FALSE)

\* parse_node, split at each token it consumes
ParseNode(r) ==
  CASE T = "ALIAS"  -> PopState(Emit(Consume(r), "Alias", S(P), E(P)))
    [] T = "ANCHOR" -> [Goto(Consume(r), "node_a") EXCEPT !.pa = TRUE, !.ps = S(P), !.pe = E(P)]
    [] T \in {"TAG", "TAGH1"} -> [Goto(Consume(r), "node_t") EXCEPT !.pt = TRUE, !.ps = S(P), !.pe = E(P), !.ptm = S(P),
                                                                 !.tagok = (T = "TAG" \/ "h1" \in r.handles)]
    [] OTHER -> Goto(r, "node_c")
ParseNodeA(r) ==
  IF T \in {"TAG", "TAGH1"}
  THEN [Goto(Consume(r), "node_c") EXCEPT !.pt = TRUE, !.pe = E(P), !.ptm = S(P), !.tagok = (T = "TAG" \/ "h1" \in r.handles)]
  ELSE Goto(r, "node_c")
ParseNodeT(r) ==
  IF T = "ANCHOR" THEN [Goto(Consume(r), "node_c") EXCEPT !.pa = TRUE, !.pe = E(P)] ELSE Goto(r, "node_c")
ParseNodeC(r) ==
  LET props == r.pa \/ r.pt
      sm == IF props THEN r.ps ELSE S(P)
      em == IF props THEN r.pe ELSE S(P)
  IN  IF r.pt /\ ~r.tagok THEN Fail(r, r.ps, r.ptm, "undefined tag handle")
      ELSE IF r.ind /\ T = "BENTRY" THEN Goto(Emit(r, "SequenceStart", sm, E(P)), "indentless_sequence_entry")
      ELSE IF T = "SCALAR" THEN PopState(Emit(Consume(r), "Scalar", sm, E(P)))
      ELSE IF T = "FSS" THEN Goto(Emit(r, "SequenceStart", sm, E(P)), "flow_sequence_first_entry")
      ELSE IF T = "FMS" THEN Goto(Emit(r, "MappingStart", sm, E(P)), "flow_mapping_first_key")
      ELSE IF r.blk /\ T = "BSS" THEN Goto(Emit(r, "SequenceStart", sm, S(P)), "block_sequence_first_entry")
      ELSE IF r.blk /\ T = "BMS" THEN Goto(Emit(r, "MappingStart", sm, S(P)), "block_mapping_first_key")
      ELSE IF props THEN PopState(Emit(r, "Scalar", sm, em))
      ELSE Fail(r, sm, S(P), "expected the node content")

BlockSequenceFirstEntry(r) == Goto(PushMark(Consume(r), S(P)), "block_sequence_entry")
BlockSequenceEntry(r) ==
  IF T = "BENTRY" THEN [Goto(Consume(r), "block_sequence_entry2") EXCEPT !.tokend = E(P)]
  ELSE IF T # "BEND" THEN FailCtx(r, S(P), "expected <block end>")
  ELSE PopMark(PopState(Emit(Consume(r), "SequenceEnd", S(P), E(P))))
BlockSequenceEntry2(r) ==
  IF T \notin {"BENTRY", "BEND"} THEN Node(Push(r, "block_sequence_entry"), TRUE, FALSE)
  ELSE Goto(Empty(r, r.tokend), "block_sequence_entry")

IndentlessSequenceEntry(r) ==
  IF T = "BENTRY" THEN [Goto(Consume(r), "indentless_sequence_entry2") EXCEPT !.tokend = E(P)]
  ELSE PopState(Emit(r, "SequenceEnd", S(P), S(P)))
IndentlessSequenceEntry2(r) ==
  IF T \notin {"BENTRY", "KEY", "VALUE", "BEND"} THEN Node(Push(r, "indentless_sequence_entry"), TRUE, FALSE)
  ELSE Goto(Empty(r, r.tokend), "indentless_sequence_entry")

BlockMappingFirstKey(r) == Goto(PushMark(Consume(r), S(P)), "block_mapping_key")
BlockMappingKey(r) ==
  IF T = "KEY" THEN [Goto(Consume(r), "block_mapping_key2") EXCEPT !.tokend = E(P)]
  ELSE IF T # "BEND" THEN FailCtx(r, S(P), "expected <block end>")
  ELSE PopMark(PopState(Emit(Consume(r), "MappingEnd", S(P), E(P))))
BlockMappingKey2(r) ==
  IF T \notin {"KEY", "VALUE", "BEND"} THEN Node(Push(r, "block_mapping_value"), TRUE, TRUE)
  ELSE Goto(Empty(r, r.tokend), "block_mapping_value")
BlockMappingValue(r) ==
  IF T = "VALUE" THEN [Goto(Consume(r), "block_mapping_value2") EXCEPT !.tokend = E(P)]
  ELSE Goto(Empty(r, S(P)), "block_mapping_key")
BlockMappingValue2(r) ==
  IF T \notin {"KEY", "VALUE", "BEND"} THEN Node(Push(r, "block_mapping_key"), TRUE, TRUE)
  ELSE Goto(Empty(r, r.tokend), "block_mapping_key")

FlowSequenceFirstEntry(r) == Goto(PushMark(Consume(r), S(P)), "flow_sequence_entry_first")
FlowSequenceEnd(r) == PopMark(PopState(Emit(Consume(r), "SequenceEnd", S(P), E(P))))
FlowSequenceEntryB(r) ==                     \* after the optional ','
  IF T = "KEY" THEN Goto(Emit(r, "MappingStart", S(P), E(P)), "flow_sequence_entry_mapping_key")
  ELSE IF T # "FSE" THEN Node(Push(r, "flow_sequence_entry"), FALSE, FALSE)
  ELSE FlowSequenceEnd(r)
FlowSequenceEntry(r, first) ==
  IF T = "FSE" THEN FlowSequenceEnd(r)
  ELSE IF first THEN FlowSequenceEntryB(r)
  ELSE IF T = "FENTRY" THEN Goto(Consume(r), "flow_sequence_entry_b")
  ELSE FailCtx(r, S(P), "expected ',' or ']'")
FlowSequenceEntryMappingKey(r) == [Goto(Consume(r), "flow_sequence_entry_mapping_key2") EXCEPT !.tokend = E(P)]
FlowSequenceEntryMappingKey2(r) ==
  IF T \notin {"VALUE", "FENTRY", "FSE"} THEN Node(Push(r, "flow_sequence_entry_mapping_value"), FALSE, FALSE)
  ELSE Goto(Empty(r, r.tokend), "flow_sequence_entry_mapping_value")
FlowSequenceEntryMappingValue(r) ==
  IF T = "VALUE" THEN [Goto(Consume(r), "flow_sequence_entry_mapping_value2") EXCEPT !.tokend = E(P)]
  ELSE Goto(Empty(r, S(P)), "flow_sequence_entry_mapping_end")
FlowSequenceEntryMappingValue2(r) ==
  IF T \notin {"FENTRY", "FSE"} THEN Node(Push(r, "flow_sequence_entry_mapping_end"), FALSE, FALSE)
  ELSE Goto(Empty(r, r.tokend), "flow_sequence_entry_mapping_end")
FlowSequenceEntryMappingEnd(r) == Goto(Emit(r, "MappingEnd", S(P), S(P)), "flow_sequence_entry")

FlowMappingFirstKey(r) == Goto(PushMark(Consume(r), S(P)), "flow_mapping_key_first")
FlowMappingEnd(r) == PopMark(PopState(Emit(Consume(r), "MappingEnd", S(P), E(P))))
FlowMappingKeyB(r) ==
  IF T = "KEY" THEN [Goto(Consume(r), "flow_mapping_key2") EXCEPT !.tokend = E(P)]
  ELSE IF T # "FME" THEN Node(Push(r, "flow_mapping_empty_value"), FALSE, FALSE)
  ELSE FlowMappingEnd(r)
FlowMappingKey(r, first) ==
  IF T = "FME" THEN FlowMappingEnd(r)
  ELSE IF first THEN FlowMappingKeyB(r)
  ELSE IF T = "FENTRY" THEN Goto(Consume(r), "flow_mapping_key_b")
  ELSE FailCtx(r, S(P), "expected ',' or '}'")
FlowMappingKey2(r) ==
  IF T \notin {"VALUE", "FENTRY", "FME"} THEN Node(Push(r, "flow_mapping_value"), FALSE, FALSE)
  ELSE Goto(Empty(r, r.tokend), "flow_mapping_value")
FlowMappingValue(r) ==
  IF T = "VALUE" THEN [Goto(Consume(r), "flow_mapping_value2") EXCEPT !.tokend = E(P)]
  ELSE Goto(Empty(r, S(P)), "flow_mapping_key")
FlowMappingValue2(r) ==
  IF T \notin {"FENTRY", "FME"} THEN Node(Push(r, "flow_mapping_key"), FALSE, FALSE)
  ELSE Goto(Empty(r, r.tokend), "flow_mapping_key")
FlowMappingEmptyValue(r) == Goto(Empty(r, S(P)), "flow_mapping_key")

(***************************************************************************)
(* actions                                                                 *)
(***************************************************************************)
Apply(r) ==
  /\ st' = r.st /\ states' = r.states /\ marks' = r.marks /\ n' = r.n /\ pk' = r.pk /\ blk' = r.blk /\ ind' = r.ind
  /\ pa' = r.pa /\ pt' = r.pt /\ ps' = r.ps /\ pe' = r.pe /\ ptm' = r.ptm /\ tagok' = r.tagok /\ tokend' = r.tokend
  /\ dsm' = r.dsm /\ ver' = r.ver /\ handles' = r.handles /\ ev' = r.ev /\ err' = r.err
  /\ mon' = IF r.ev.k = "-" THEN mon ELSE G!MonStep(mon, r.ev.k)
  /\ lastStart' = IF r.ev.k = "-" THEN lastStart ELSE r.ev.s
  /\ out' = IF History /\ r.ev.k # "-" THEN Append(out, <<r.ev.k, r.ev.s, r.ev.e>>) ELSE out
  /\ UNCHANGED toks

Ready(s) == st = s /\ pk # "none"

\* the scanner hands over the next token: any kind while the budget lasts, then STREAM-END, nothing after it
Peek == /\ pk = "none" /\ st \notin {"done", "error", "crash"}
        /\ \E t \in (IF n <= MaxTokens THEN Tok \cup {"SE"} ELSE {"SE"}) :
             /\ pk' = t
             /\ toks' = IF History THEN Append(toks, t) ELSE toks
        /\ ev' = NoEv
        /\ UNCHANGED <<st, states, marks, n, blk, ind, pa, pt, ps, pe, ptm, tagok, tokend, dsm, ver, handles,
                       err, mon, lastStart, out>>

AStreamStart == Ready("stream_start") /\ Apply(StreamStart(R))
AImplicitDocumentStart == Ready("implicit_document_start") /\ Apply(ImplicitDocumentStart(R))
ADocumentStart == Ready("document_start") /\ Apply(DocumentStart(R))
ADirectives == Ready("directives") /\ Apply(Directives(R))
ADocumentEnd == Ready("document_end") /\ Apply(DocumentEnd(R))
ADocumentContent == Ready("document_content") /\ Apply(DocumentContent(R))
AParseNode == Ready("node") /\ Apply(ParseNode(R))
AParseNodeA == Ready("node_a") /\ Apply(ParseNodeA(R))
AParseNodeT == Ready("node_t") /\ Apply(ParseNodeT(R))
AParseNodeC == Ready("node_c") /\ Apply(ParseNodeC(R))
ABlockSequenceFirstEntry == Ready("block_sequence_first_entry") /\ Apply(BlockSequenceFirstEntry(R))
ABlockSequenceEntry == Ready("block_sequence_entry") /\ Apply(BlockSequenceEntry(R))
ABlockSequenceEntry2 == Ready("block_sequence_entry2") /\ Apply(BlockSequenceEntry2(R))
AIndentlessSequenceEntry == Ready("indentless_sequence_entry") /\ Apply(IndentlessSequenceEntry(R))
AIndentlessSequenceEntry2 == Ready("indentless_sequence_entry2") /\ Apply(IndentlessSequenceEntry2(R))
ABlockMappingFirstKey == Ready("block_mapping_first_key") /\ Apply(BlockMappingFirstKey(R))
ABlockMappingKey == Ready("block_mapping_key") /\ Apply(BlockMappingKey(R))
ABlockMappingKey2 == Ready("block_mapping_key2") /\ Apply(BlockMappingKey2(R))
ABlockMappingValue == Ready("block_mapping_value") /\ Apply(BlockMappingValue(R))
ABlockMappingValue2 == Ready("block_mapping_value2") /\ Apply(BlockMappingValue2(R))
AFlowSequenceFirstEntry == Ready("flow_sequence_first_entry") /\ Apply(FlowSequenceFirstEntry(R))
AFlowSequenceEntryFirst == Ready("flow_sequence_entry_first") /\ Apply(FlowSequenceEntry(R, TRUE))
AFlowSequenceEntry == Ready("flow_sequence_entry") /\ Apply(FlowSequenceEntry(R, FALSE))
AFlowSequenceEntryB == Ready("flow_sequence_entry_b") /\ Apply(FlowSequenceEntryB(R))
AFlowSequenceEntryMappingKey == Ready("flow_sequence_entry_mapping_key") /\ Apply(FlowSequenceEntryMappingKey(R))
AFlowSequenceEntryMappingKey2 == Ready("flow_sequence_entry_mapping_key2") /\ Apply(FlowSequenceEntryMappingKey2(R))
AFlowSequenceEntryMappingValue == Ready("flow_sequence_entry_mapping_value") /\ Apply(FlowSequenceEntryMappingValue(R))
AFlowSequenceEntryMappingValue2 == Ready("flow_sequence_entry_mapping_value2") /\ Apply(FlowSequenceEntryMappingValue2(R))
AFlowSequenceEntryMappingEnd == Ready("flow_sequence_entry_mapping_end") /\ Apply(FlowSequenceEntryMappingEnd(R))
AFlowMappingFirstKey == Ready("flow_mapping_first_key") /\ Apply(FlowMappingFirstKey(R))
AFlowMappingKeyFirst == Ready("flow_mapping_key_first") /\ Apply(FlowMappingKey(R, TRUE))
AFlowMappingKey == Ready("flow_mapping_key") /\ Apply(FlowMappingKey(R, FALSE))
AFlowMappingKeyB == Ready("flow_mapping_key_b") /\ Apply(FlowMappingKeyB(R))
AFlowMappingKey2 == Ready("flow_mapping_key2") /\ Apply(FlowMappingKey2(R))
AFlowMappingValue == Ready("flow_mapping_value") /\ Apply(FlowMappingValue(R))
AFlowMappingValue2 == Ready("flow_mapping_value2") /\ Apply(FlowMappingValue2(R))
AFlowMappingEmptyValue == Ready("flow_mapping_empty_value") /\ Apply(FlowMappingEmptyValue(R))

Init == /\ st = "stream_start" /\ states = <<>> /\ marks = <<>> /\ n = 0 /\ pk = "SS" /\ blk = FALSE /\ ind = FALSE
        /\ pa = FALSE /\ pt = FALSE /\ ps = 0 /\ pe = 0 /\ ptm = 0 /\ tagok = TRUE /\ tokend = 0 /\ dsm = 0
        /\ ver = FALSE /\ handles = {} /\ ev = NoEv /\ err = NoErr /\ mon = G!MonInit /\ lastStart = 0
        /\ toks = (IF History THEN <<"SS">> ELSE <<>>)
        /\ out = <<>>

Next == \/ Peek
        \/ AStreamStart \/ AImplicitDocumentStart \/ ADocumentStart \/ ADirectives \/ ADocumentEnd \/ ADocumentContent
        \/ AParseNode \/ AParseNodeA \/ AParseNodeT \/ AParseNodeC
        \/ ABlockSequenceFirstEntry \/ ABlockSequenceEntry \/ ABlockSequenceEntry2
        \/ AIndentlessSequenceEntry \/ AIndentlessSequenceEntry2
        \/ ABlockMappingFirstKey \/ ABlockMappingKey \/ ABlockMappingKey2 \/ ABlockMappingValue \/ ABlockMappingValue2
        \/ AFlowSequenceFirstEntry \/ AFlowSequenceEntryFirst \/ AFlowSequenceEntry \/ AFlowSequenceEntryB
        \/ AFlowSequenceEntryMappingKey \/ AFlowSequenceEntryMappingKey2 \/ AFlowSequenceEntryMappingValue
        \/ AFlowSequenceEntryMappingValue2 \/ AFlowSequenceEntryMappingEnd
        \/ AFlowMappingFirstKey \/ AFlowMappingKeyFirst \/ AFlowMappingKey \/ AFlowMappingKeyB \/ AFlowMappingKey2
        \/ AFlowMappingValue \/ AFlowMappingValue2 \/ AFlowMappingEmptyValue

Spec == Init /\ [][Next]_vars

(***************************************************************************)
(* properties: L => H                                                      *)
(***************************************************************************)
\* the parser never fails with anything but a ParserError (no IndexError from an empty stack, no AssertionError)
NoCrash == st # "crash"
\* every event stream the parser can emit is a prefix of a word of the event grammar ...
Grammatical == mon # G!Reject
\* ... and a complete one when the parser finishes
CompleteAtEnd == (st = "done") => (mon = <<"END">> /\ states = <<>> /\ marks = <<>>)
\* marks lie inside the input, start <= end, and start marks never move backwards
MarksInRange == ev.k # "-" => (0 <= ev.s /\ ev.s <= ev.e /\ ev.e <= E(n) + 2)
MarksMonotone == [][ev'.k # "-" => lastStart <= ev'.s]_vars
ErrorMarksInRange == st = "error" => (err.c <= err.p /\ err.p <= E(n) + 2)
=============================================================================
