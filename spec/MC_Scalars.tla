----------------------------- MODULE MC_Scalars -----------------------------
(***************************************************************************)
(* Bounded design check and test generation for Scalars.tla.               *)
(* One state = one (context, text): Next appends one character (or one     *)
(* macro-symbol), so TLC enumerates every text over Alpha up to MaxLen      *)
(* characters in every context of the                                      *)
(* configured family.  res maps every style choose_scalar_style can return *)
(* for this text in this context (over all style requests and implicit     *)
(* flags) to the outcome of Write ; follow-up ; Scan.                      *)
(*                                                                         *)
(* H (H_EventEq restricted to one scalar): the value read back is the text *)
(* character for character, it is read as one scalar token and the reader  *)
(* resumes exactly at the text the emitter wrote next.                     *)
(***************************************************************************)
EXTENDS Scalars

CONSTANTS Alpha,        \* set of code points and macro-symbols (see Chunk)
          MaxLen,
          Kinds,        \* context kinds, see Cx
          Bests,        \* best_indent values
          Widths,       \* best_width values (80 = default)
          Depths,       \* nesting depth of the enclosing collection (1 = top level)
          Unis,         \* allow_unicode values
          LBs,          \* subset of {"n", "r", "rn"}
          Reqs,         \* style requests: subset of {"none","single","double","literal","folded"}
          IndMax        \* > 0: the alphabet is Alpha plus every character of Scalars!Indicators (each one a symbol of its
                        \* own); a text holds at most IndMax of them (at any position), the rest is from Alpha

\* macro-symbols: lexemes that matter as a whole and that a bound on single characters would reach too late -
\* the document markers as words inside a scalar
DOTS == 900001
DASHES == 900002
Chunk(c) == IF c = DOTS THEN <<46, 46, 46>> ELSE IF c = DASHES THEN <<45, 45, 45>> ELSE <<c>>

\* the alphabet: with IndMax > 0 it follows the literal sets of both sides of Scalars.tla
Symbols == Alpha \cup (IF IndMax > 0 THEN Indicators ELSE {})
NInd(t) == Cardinality({i \in 1 .. Len(t) : t[i] \in Indicators /\ t[i] \notin Alpha})

VARIABLES text, cx, res
vars == <<text, cx, res>>

LBseq(n) == CASE n = "r" -> <<CR>> [] n = "rn" -> <<CR, LF>> [] OTHER -> <<LF>>
Fols(kind) == CASE kind \in {"root0", "root3"} -> {"eof", "dend", "dnext"}
                [] kind \in {"item", "mval", "ckey"} -> {"sib", "eof"}
                [] kind \in {"bkey", "fkey"} -> {"value"}
                [] OTHER -> {"comma", "close"}

\* the context of process_scalar as the emitter state machine produces it (cross-checked against Emitter.tla by the harness)
Cx(kind, b, d, fol) ==
  LET I == b * (d - 1)
      base == [kind |-> kind, d |-> d, fol |-> fol, flow |-> FALSE, sk |-> FALSE, root |-> FALSE, ws0 |-> FALSE,
               c0 |-> 0, indent |-> I + b, pind |-> I]
  IN  CASE kind = "root0" -> [base EXCEPT !.root = TRUE, !.ws0 = TRUE, !.indent = b, !.pind = -1]
        [] kind = "root3" -> [base EXCEPT !.root = TRUE, !.c0 = 3, !.indent = b, !.pind = -1]
        [] kind = "item"  -> [base EXCEPT !.c0 = I + 1]
        [] kind = "mval"  -> [base EXCEPT !.c0 = I + 2]
        [] kind = "bkey"  -> [base EXCEPT !.c0 = I, !.ws0 = TRUE, !.sk = TRUE]
        [] kind = "ckey"  -> [base EXCEPT !.c0 = I + 1]
        \* d nested flow sequences at the root: `[[[x`; the scalar after `[` / after `x,`; simple key / value in a flow mapping
        [] kind = "fitem" -> [base EXCEPT !.flow = TRUE, !.c0 = d, !.ws0 = TRUE, !.indent = b * (d + 1), !.pind = -1]
        [] kind = "fnext" -> [base EXCEPT !.flow = TRUE, !.c0 = d + 2, !.indent = b * (d + 1), !.pind = -1]
        [] kind = "fkey"  -> [base EXCEPT !.flow = TRUE, !.c0 = d, !.ws0 = TRUE, !.sk = TRUE, !.indent = b * (d + 1), !.pind = -1]
        [] kind = "fval"  -> [base EXCEPT !.flow = TRUE, !.c0 = d + 2, !.indent = b * (d + 1), !.pind = -1]

\* best_width is honoured only if it exceeds twice the indent (emitter.py:88-90)
EffWidth(wd, b) == IF wd > 2 * b THEN wd ELSE 80
Ctxs == { Cx(k, b, d, f) @@ [b |-> b, width |-> EffWidth(wd, b), uni |-> u, lb |-> l] :
            <<k, b, d, wd, u, l>> \in Kinds \X Bests \X Depths \X Widths \X Unis \X LBs, f \in {"eof","dend","dnext","sib","value","comma","close"} }
CtxSet == { c \in Ctxs : c.fol \in Fols(c.kind) /\ (c.kind \in {"root0", "root3"} => c.d = 1) }

P(c) == [indent |-> c.indent, width |-> c.width, lb |-> LBseq(c.lb), uni |-> c.uni, best |-> c.b]

\* check_simple_key: a scalar is written as a simple key iff it is neither empty nor multiline (and shorter than 128)
Eligible(an, c) == IF c.sk THEN ~an.empty /\ ~an.multiline
                   ELSE IF c.kind = "ckey" THEN an.empty \/ an.multiline
                   ELSE IF c.kind = "root0" THEN ~an.empty      \* check_empty_document makes the document start explicit
                   ELSE TRUE
ReqPairs == Reqs \X BOOLEAN
Eval(t, c) ==
  LET an == Analyze(t, c.uni)
      Sty(rp) == ChooseStyle(an, rp[1], rp[2], c.flow, c.sk, FALSE)
      styles == IF Eligible(an, c) THEN { Sty(rp) : rp \in ReqPairs } ELSE {}
  IN  [s \in styles |->
         LET r == RoundTrip(t, s, c, P(c))
             d == r.diag \cup (IF "D4" \notin Fix /\ c.uni /\ s # "double" /\ \E i \in 1 .. Len(t) : t[i] = NEL
                               THEN {"nel-written-raw"} ELSE {})
             via == CHOOSE rp \in ReqPairs : Sty(rp) = s
             \* every (style request, implicit[0]) for which this style is the one chosen: all of them are replayed
             \* (a style is a function of the request as well as of the text; the binding checks it per request)
             reqs == {rp \in ReqPairs : Sty(rp) = s}
         IN  [out |-> r.out, ok |-> r.ok, crash |-> r.crash, diag |-> d, open |-> r.open,
              val |-> IF r.ok THEN <<>> ELSE r.val, kind |-> r.kind, req |-> via[1], impl |-> via[2], reqs |-> reqs]]

Init == text = <<>> /\ cx \in CtxSet /\ res = Eval(<<>>, cx)
Next == /\ Len(text) < MaxLen
        /\ \E c \in Symbols : LET t == text \o Chunk(c)
                             IN  Len(t) <= MaxLen /\ NInd(t) <= IndMax /\ text' = t /\ res' = Eval(t, cx)
        /\ cx' = cx
Spec == Init /\ [][Next]_vars

NoCrash == \A s \in DOMAIN res : ~res[s].crash
\* L => H wherever no modelled defect site acted
RoundTripOrDiagnosed == \A s \in DOMAIN res : res[s].ok \/ res[s].diag # {}
\* L => H outright (holds with all repairs modelled)
RoundTripHolds == \A s \in DOMAIN res : res[s].ok
\* per-style variants used to derive counterexamples one defect at a time
FoldedHolds == "folded" \in DOMAIN res => res["folded"].ok
LiteralHolds == "literal" \in DOMAIN res => res["literal"].ok
SingleHolds == "single" \in DOMAIN res => res["single"].ok
DoubleHolds == "double" \in DOMAIN res => res["double"].ok
PlainHolds == "plain" \in DOMAIN res => res["plain"].ok
\* the open_ended flag is set exactly by a root plain scalar or a keep-chomped block scalar
OpenEndedRule == \A s \in DOMAIN res :
  res[s].open = ((s = "plain" /\ cx.root) \/ (s \in {"literal", "folded"} /\ Len(text) >= 1 /\ text[Len(text)] \in EBrk
                                               /\ (Len(text) = 1 \/ text[Len(text) - 1] \in EBrk)))
=============================================================================
