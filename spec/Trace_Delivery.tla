--------------------------- MODULE Trace_Delivery ---------------------------
(***************************************************************************)
(* Judgement of observations recorded from the real code for C07 (code ->  *)
(* spec): TLC decides, with the operators of DeliveryIndep (H), whether    *)
(* what was observed for ONE document under several deliveries (form x     *)
(* read-size schedule x back-end x API) is what the property allows.  One  *)
(* TLC run judges a whole batch: one initial state per trace.              *)
(*                                                                         *)
(* Two kinds of trace.                                                     *)
(*                                                                         *)
(* kind = "reader": a real yaml.reader.Reader driven by a consumer over a  *)
(* scripted stream.                                                        *)
(*   sym     the document as symbols of DeliveryIndep (short documents),   *)
(*           else <<>> and the line structure is given by breaks / boms    *)
(*   form, closed                                                          *)
(*   cls     classes of the characters the consumer must see (blocks of    *)
(*           class letters), got: classes of what it was given             *)
(*   ctail, gtail   the last, partial block of each as letters             *)
(*   breaks  indices at which a line starts, boms: zero-width characters   *)
(*   obs     << <<index, line, column>> >> after forward() calls           *)
(*   want    [kind, pos, span] of the first offending unit ("-" if none),  *)
(*   offs    all offending units, err: [kind, pos] of the ReaderError      *)
(*                                                                         *)
(* kind = "pipe": one document pushed through scan / parse / compose_all / *)
(* load_all of one back-end in several deliveries; ref is the in-memory    *)
(* delivery, dels the others (identical observations merged).              *)
(*   outcome = [form, api, be, st ("ok" | "err" | "exc"), items, err,      *)
(*              n, last, cum: running digests of the items before an error] *)
(*   err = [cls, problem, context, pl, pc, cl, cc, pi, rd, rkind, rpos]    *)
(*   defects = << [kind, cidx, pos (form -> offset in units of the form,   *)
(*                 per back-end)] >> offending units found by abstraction  *)
(*                                                                         *)
(* H, as decided in DESIGN.md 5.0 (C07): same items (tokens / events /     *)
(* nodes / objects incl. line and column, without the encoding attribute   *)
(* and without index); same error = class, problem and context text, line  *)
(* and column; reader errors name the first offending unit at its offset   *)
(* in units of the form.  A document with SEVERAL defects, one of them a   *)
(* reader-level one: deliveries that decode everything up front (str,      *)
(* bytes) meet the reader defect first, deliveries that decode on demand   *)
(* (streams) meet whatever comes first in the text; the statement cannot   *)
(* mean to forbid that (C18 demands on-demand reading), so a reader error  *)
(* may stand against another error located before the offending unit.      *)
(***************************************************************************)
EXTENDS Naturals, Sequences, FiniteSets, TLC, Json, IOUtils
H == INSTANCE DeliveryIndep

Traces == JsonDeserialize(IOEnv.TRACE_FILE)
VARIABLE tid

Ok == [ok |-> TRUE, why |-> "-", at |-> 0]
Bad(w, a) == [ok |-> FALSE, why |-> w, at |-> a]
IsPrefix(a, b) == Len(a) <= Len(b) /\ SubSeq(b, 1, Len(a)) = a

\* ---- the Pos rule, on the symbols of a short document or on the line structure of a long one ------------------
LineOfB(t, pos) == Cardinality({j \in DOMAIN t.breaks : t.breaks[j] <= pos}) - 1
ColOfB(t, pos)  == LET ls == t.breaks[LineOfB(t, pos) + 1]
                   IN  (pos - ls) - Cardinality({j \in DOMAIN t.boms : ls <= t.boms[j] /\ t.boms[j] < pos})
\* text of the stream as symbols: the byte order mark of the form, the document, NUL
Text(t) == H!BomChars(t.form) \o t.sym \o <<H!NUL>>
PosOk(t, i, l, c) ==
  IF t.sym # <<>> THEN i <= Len(Text(t)) /\ H!PosDefined(Text(t), i) /\ l = H!LineAt(Text(t), i) /\ c = H!ColAt(Text(t), i)
  ELSE l = LineOfB(t, i) /\ c = ColOfB(t, i)

(***************************************************************************)
(* reader traces                                                           *)
(***************************************************************************)
JudgeReader(t) ==
  LET nb == Len(t.got) IN
  IF ~IsPrefix(t.got, t.cls) THEN Bad("chars differ from the document", 0)
  ELSE IF ~IsPrefix(t.gtail, t.ctail) THEN Bad("chars differ from the document", nb)
  ELSE IF \E j \in DOMAIN t.obs : ~PosOk(t, t.obs[j][1], t.obs[j][2], t.obs[j][3])
       THEN Bad("position differs from Pos(Doc,i)", CHOOSE j \in DOMAIN t.obs : ~PosOk(t, t.obs[j][1], t.obs[j][2], t.obs[j][3]))
  ELSE IF t.want.kind = "-" /\ t.err.kind # "-" THEN Bad("reader error without offending unit", 0)
  ELSE IF t.want.kind # "-" /\ t.err.kind = "-" THEN Bad("offending unit not reported", 0)
  ELSE IF t.want.kind = "-" /\ ~(t.got = t.cls /\ t.gtail = t.ctail) THEN Bad("document not delivered completely", 0)
  ELSE IF t.want.kind # "-" /\ ~H!Names(t.err, t.want)
       THEN (IF \E j \in DOMAIN t.offs : H!Names(t.err, t.offs[j]) THEN Bad("reader error is not the first offence", 0)
             ELSE Bad("reader error class or offset", 0))
  ELSE Ok

(***************************************************************************)
(* pipeline traces                                                         *)
(***************************************************************************)
PosOf(d, o) == IF o.be = "py" THEN d.ppos[o.form] ELSE d.cpos[o.form]
\* the offending unit a reader error names, if it names one at its right offset
Named(t, o) == {j \in DOMAIN t.defects : H!Names([kind |-> o.err.rkind, pos |-> o.err.rpos],
                                                   [kind |-> t.defects[j].kind, pos |-> PosOf(t.defects[j], o), span |-> t.defects[j].span])}
\* where inside the offending sequence the error points (must not depend on the delivery)
Delta(t, o) == {o.err.rpos - PosOf(t.defects[j], o) : j \in Named(t, o)}
FirstDefect(t) == CHOOSE j \in DOMAIN t.defects : \A k \in DOMAIN t.defects : t.defects[j].cidx <= t.defects[k].cidx
ErrSame(a, b) ==
  /\ a.cls = b.cls /\ a.problem = b.problem /\ a.context = b.context
  /\ a.pl = b.pl /\ a.pc = b.pc /\ a.cl = b.cl /\ a.cc = b.cc /\ a.rkind = b.rkind
\* what one delivery yielded before its error is a prefix of what the other yielded (running digests of the items)
InSeq(x, s) == \E j \in DOMAIN s : s[j] = x
Compat(o, r) == o.n = 0 \/ r.n = 0 \/ InSeq(o.last, r.cum) \/ InSeq(r.last, o.cum)
\* a reader error against another error found earlier in the text (several defects, see above)
Preempts(t, x, y) ==
  /\ x.st = "err" /\ y.st = "err" /\ x.err.rd /\ ~y.err.rd /\ Named(t, x) # {}
  /\ \E j \in Named(t, x) : y.err.pi <= t.defects[j].cidx + 1
  /\ Compat(x, y)

JudgeOne(t, o, r) ==
  IF o.st = "exc" THEN "non-YAML exception"
  ELSE IF o.st = "err" /\ o.err.rd /\ t.defects = <<>> THEN "reader error without offending unit"
  ELSE IF o.st = "err" /\ o.err.rd /\ Named(t, o) = {} THEN "reader error class or offset"
  ELSE IF o.st = "err" /\ o.err.rd /\ FirstDefect(t) \notin Named(t, o) THEN "reader error is not the first offence"
  ELSE IF o.st = "err" /\ ~o.err.rd /\ o.be = "py" /\ o.err.pi >= 0 /\ t.exact
          /\ ~PosOk(t, o.err.pi, o.err.pl, o.err.pc) THEN "error mark differs from Pos(Doc,i)"
  ELSE IF o.st = "ok" /\ r.st = "ok" THEN (IF o.items = r.items THEN "-" ELSE "result differs between deliveries")
  ELSE IF o.st = "err" /\ r.st = "err" THEN
       (IF o.err.rd = r.err.rd
        THEN (IF ~ErrSame(o.err, r.err) THEN "error differs between deliveries"
              ELSE IF o.err.rd THEN (IF Delta(t, o) # Delta(t, r) THEN "reader error offset varies"
                                     ELSE IF Compat(o, r) THEN "-" ELSE "result differs between deliveries")
              ELSE IF o.items = r.items THEN "-" ELSE "result differs between deliveries")
        ELSE IF Preempts(t, o, r) \/ Preempts(t, r, o) THEN "-" ELSE "error differs between deliveries")
  ELSE "only some deliveries fail"

JudgePipe(t) ==
  LET bad == {j \in DOMAIN t.dels : JudgeOne(t, t.dels[j], t.ref) # "-"} IN
  IF JudgeOne(t, t.ref, t.ref) # "-" THEN Bad(JudgeOne(t, t.ref, t.ref), 0)
  ELSE IF bad = {} THEN Ok
  ELSE LET j == CHOOSE j \in bad : \A k \in bad : j <= k IN Bad(JudgeOne(t, t.dels[j], t.ref), j)

Judge(t) == IF t.kind = "reader" THEN JudgeReader(t) ELSE JudgePipe(t)

Init == tid \in 1 .. Len(Traces)
Next == FALSE /\ tid' = tid
Spec == Init /\ [][Next]_tid
Verdict == LET r == Judge(Traces[tid]) IN PrintT(<<"VERDICT", tid, r.ok, r.why, r.at>>)
=============================================================================
