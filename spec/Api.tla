-------------------------------- MODULE Api --------------------------------
(***************************************************************************)
(* The API layer of PyYAML (lib/yaml/__init__.py) as a state machine:      *)
(* one loader / dumper object per call, dispose() in `finally`, generator  *)
(* entry points that can be suspended, interleaved with other calls and    *)
(* abandoned; the per-document resets of every pipeline stage; the         *)
(* library-global (module / class level) containers with frame conditions; *)
(* faults of the caller's stream and callbacks at every invocation.        *)
(*                                                                         *)
(*  L layer: objects carry the attributes of the real classes              *)
(*    Parser      yaml_version, tag_handles   (a REFERENCE: either the     *)
(*                loader's own dict or the class-level DEFAULT_TAGS, as in *)
(*                parser.py:144 `self.tag_handles = self.DEFAULT_TAGS`)    *)
(*    Composer    anchors                     (composer.py:60 reset)       *)
(*    Constructor constructed_objects, recursive_objects, state_generators,*)
(*                deep_construct              (constructor.py:54-65)       *)
(*    Representer represented_objects, object_keeper, alias_key            *)
(*    Serializer  serialized_nodes, anchors, last_anchor_id, closed        *)
(*    Emitter     events (look-ahead queue), tag_prefixes (reference /     *)
(*                copy of DEFAULT_TAG_PREFIXES), the written chunks        *)
(*  and one step function per object kind (LStep, DStep) whose branches    *)
(*  are the methods named in the comments.  The same step function is used *)
(*  by the micro-step specification (one TLC action per method: coverage,  *)
(*  frame conditions per action) and by the macro-step specification (one  *)
(*  TLC action per API step; every idle state is one test case = history). *)
(*                                                                         *)
(*  H layer: H_CallIndep (C11) and H_FaultTransparency (C19).  "Fresh"     *)
(*  means: the same call issued in the initial state.                      *)
(***************************************************************************)
EXTENDS Naturals, Sequences, FiniteSets, TLC

CONSTANTS
  LoadOps,     \* subset of {"load","load_all","compose","compose_all","parse","scan"} issued as complete calls
  GenOps,      \* subset of {"load_all","compose_all","parse","scan"} issued as generators (open / next / close)
  DumpOps,     \* subset of {"dump","dump_all","serialize","serialize_all","emit"}
  Classes,     \* subset of {"base","safe","full","unsafe","user"}
  Backends,    \* subset of {"py","c"}
  IOs,         \* subset of {"mem","file"}: in-memory argument / caller's stream object (read, write, flush)
  Docs,        \* pool of documents
  Vals,        \* pool of values
  MaxHist,     \* bound on the number of API steps
  MaxStream,   \* bound on the number of documents / values per argument of the *_all, parse, scan, emit operations
  MaxSingle,   \* the same for load / compose / dump / serialize
  Faults,      \* BOOLEAN: the environment may make one invocation per API step fail
  Mutation,    \* "none", or the name of a deliberately wrong variant of L (shows that H is sensitive)
  KeepHist,    \* BOOLEAN: carry the history (MBT configurations)
  MaxGens,     \* bound on the number of generator objects created in one history
  Persistent   \* BOOLEAN: a fault is persistent - every invocation from the failing one on fails too (a closed file, a
               \* broken pipe), each with an exception object of its own; FALSE: one-shot faults

VARIABLES
  globals,     \* the module- and class-level containers of the package
  gens,        \* generator objects created so far (suspended, finished or abandoned)
  cur,         \* the API step in progress (micro-step specification only)
  last,        \* the last completed API step with its result
  hist,        \* all completed API steps (when KeepHist)
  nstep        \* number of API steps so far
vars == <<globals, gens, cur, last, hist, nstep>>

StdPrefix == "tag:yaml.org,2002:"
EPrefix   == "tag:e.example,2000:"
Dict(k1, v1, k2, v2) == (k1 :> v1) @@ (k2 :> v2)
EmptyDict == <<>>
Put(d, k, v) == (k :> v) @@ d
Has(d, k) == k \in DOMAIN d

(***************************************************************************)
(* Library-global state.  DEFAULT_TAGS and DEFAULT_TAG_PREFIXES are dicts  *)
(* that per-call objects may *reference*; the others are read-only tables  *)
(* whose content is irrelevant here ("import" = the value they have after  *)
(* import); `other` stands for every further module- or class-level        *)
(* attribute of the package (the conformance harness discovers them by     *)
(* walking the package, not by this list).                                 *)
(***************************************************************************)
Globals0 ==
  [ DEFAULT_TAGS         |-> Dict("!", "!", "!!", StdPrefix),       \* parser.py:76
    DEFAULT_TAG_PREFIXES |-> Dict("!", "!", StdPrefix, "!!"),       \* emitter.py:33
    ESCAPE_REPLACEMENTS  |-> "import",   \* scanner.py:1158, emitter.py:908
    ESCAPE_CODES         |-> "import",   \* scanner.py:1179
    bool_values          |-> "import",   \* constructor.py:224
    inf_value            |-> "import",   \* constructor.py:265, representer.py:167
    timestamp_regexp     |-> "import",   \* constructor.py:310
    registries           |-> "import",   \* the six yaml_* tables of every class (Registry.tla; add_* is not an API call of C11)
    resolvers            |-> "import",   \* resolver.py:170-227
    other                |-> EmptyDict,
    \* a module-level text buffer does NOT exist in the package (every stream=None call creates its own io.StringIO, which
    \* is the object's `written`); the field is the place a wrong variant keeps one.  Its CONTENT is state.
    text_buffer          |-> <<>>,
    \* NOT library state but the rest of the environment of a call: the objects the CALLER owns and hands in - the nodes
    \* passed to serialize / serialize_all (the same value passed again = the same node objects).  What the library may
    \* have written on them: marks per node identity.  No action of L writes here (frame: H_CallerObjects).
    caller               |-> [serialized |-> {}, anchors |-> EmptyDict] ]

\* a reference to a dict: the object's own dict or a global one
OwnRef(d) == [ref |-> "own", own |-> d]
GlobalRef(name) == [ref |-> name, own |-> EmptyDict]
NoRef == [ref |-> "none", own |-> EmptyDict]
Deref(r, g) == IF r.ref = "own" THEN r.own ELSE IF r.ref = "none" THEN EmptyDict ELSE g[r.ref]
\* `r[k] = v` in Python: writes into whatever object r refers to
WriteRef(r, g, k, v) ==
  IF r.ref = "own" THEN [r |-> [r EXCEPT !.own = Put(@, k, v)], g |-> g]
  ELSE [r |-> r, g |-> [g EXCEPT ![r.ref] = Put(@, k, v)]]

(***************************************************************************)
(* The pool.  A document is a block sequence of items, possibly preceded   *)
(* by directives; the items are the situations the statement lists.        *)
(*   s   plain scalar                 da  scalar anchored &a               *)
(*   ua  alias *a    ub  alias *b     rec &r [*r]                          *)
(*   te  scalar tagged !e!str         tb  scalar tagged !!str              *)
(*   SE  scanner error here           PE  parser error here (a stray "]")  *)
(*   KE  constructor error here (unhashable key)                           *)
(*   py  !!python/... node (constructible by the unsafe loaders only)      *)
(*   dk  node built with deep=True whose construction fails inside         *)
(*   cu  node of a user constructor   cg  node of a user two-phase         *)
(*   (generator) constructor          cm  node of a user multi-constructor *)
(*   pt  node whose tag a user PATH resolver supplies (first child, key pk)*)
(*   ir  plain scalar that a user IMPLICIT resolver types                  *)
(* python objects (unsafe classes) and YAMLObject subclasses (registered    *)
(* with the user classes) - objects are built in two steps: the instance    *)
(* first, its state when the document's generators are drained:             *)
(*   po  !!python/object of an ordinary class, state = a mapping            *)
(*   sl  !!python/object of a class with __slots__ and no __dict__, state   *)
(*       written as a plain mapping (not the (dict, slotstate) pair)        *)
(*   ps  !!python/object of a class with __setstate__ whose state holds the *)
(*       alias *a directly: a deep=True construction that meets a node of   *)
(*       constructed_objects      ys  the same as a YAMLObject subclass     *)
(*   pn  !!python/object/new whose argument list holds the alias *a         *)
(*   pk  a mapping whose KEY is a !!python/object with __hash__ / __eq__    *)
(*       over its state (hashed when put into the mapping: complete or      *)
(*       still empty)             yk  the same with a YAMLObject subclass   *)
(* nested collections the LIBRARY constructs in two steps (construct_yaml_  *)
(* seq / construct_yaml_map yield the empty container and fill it when the  *)
(* document's generators are drained) - what is PENDING while a later       *)
(* sibling is constructed:                                                  *)
(*   gs  [sx]            benign                                             *)
(*   gr  [*r]            aliases the ROOT (anchored &r): fine once the root *)
(*                       is registered, "unconstructable recursive node"    *)
(*                       while construct_object(root) is still in progress  *)
(*   ge  [!undefined z]  its second step fails with a ConstructorError      *)
(*   pc  {ck: pcv}       (first child) its second step invokes the user     *)
(*                       constructor of a tag a user PATH resolver supplies *)
(*   ic  plain scalar typed by a user IMPLICIT resolver whose constructor   *)
(*       is a counted user callback                                         *)
(* ROOT kinds (RootKindOf): "sq" the root is a plain block sequence - its   *)
(* children are constructed by the root's own generator, inside the drain   *)
(* loop of construct_document; "uq" the root carries the tag of a           *)
(* non-generator user constructor that calls construct_sequence(node) - the *)
(* children are constructed INSIDE construct_object(root), with the root in *)
(* recursive_objects and the two-step children pending until it returns.    *)
(* The family  <root>_<pending>_<point>  is the product                     *)
(*   root kind x what is pending x the user callback that is the fault point*)
(***************************************************************************)
FamRoots  == {"sq", "uq"}
FamPend   == {"none", "gs", "cg", "pc", "gr", "ge"}    \* nothing / benign / observable callback (user generator; library
                                                       \* mapping over a resolver-dependent user constructor) / failing
FamPoints == {"cu", "cg", "cm", "ic", "yo"}            \* immediate / generator (phase 1, phase 2) / multi / resolver-dependent / from_yaml
FamDocs == {[name |-> r \o "_" \o p \o "_" \o q, root |-> r, pend |-> p, point |-> q] : r \in FamRoots, p \in FamPend, q \in FamPoints}
FamNames == {d.name : d \in FamDocs}
FamOf(n) == CHOOSE d \in FamDocs : d.name = n
RootKindOf(n) == IF n \in FamNames THEN FamOf(n).root ELSE "sq"
RootAnchored(n) == n \in FamNames /\ FamOf(n).pend = "gr"
(***************************************************************************)
(* (C11) Documents given as ENCODED BYTES.  What the Reader does with a    *)
(* byte input depends on things a str input does not have: the encoding,   *)
(* how the caller's stream hands the bytes over, and where the characters  *)
(* that take several bytes lie relative to the points at which the Reader  *)
(* decodes what it has read so far (a character cut by such a point is     *)
(* undecoded state that has to live in the per-call object).  The family   *)
(*   <enc>_<form>_c<width><off>_<end>   is the product                     *)
(*   enc    u8 | ule | ube        utf-8, utf-16-le / -be (with BOM)        *)
(*   form   how a caller's stream (io = "file") answers read(n):           *)
(*          f = n bytes (the Reader decodes after 2 reads, then after each)*)
(*          r1 r2 r3 = at most 1 / 2 / 3 bytes (short reads);              *)
(*          with io = "mem" the argument is the bytes object itself        *)
(*   width  bytes of the multi-byte character (2-4; utf-16: unit / pair)   *)
(*   off    bytes of that character BEFORE the decode point (form f; 0 =   *)
(*          not cut: control) / shift of the whole text against the read   *)
(*          grid (short reads)                                             *)
(*   end    how a call on the document ends: ok, or failing in the scanner *)
(*          (SE), parser (PE), composer (CE), constructor (KE) - with the  *)
(*          multi-byte item "mb" (a plain scalar for every stage of L)     *)
(*          still unread behind the failing item.                          *)
(* Encoding and form of a call are those of its first document.            *)
(***************************************************************************)
EncEncs  == {"u8", "ule", "ube"}
EncForms == {"f", "r1", "r2", "r3"}
EncEnds  == {"ok", "SE", "PE", "CE", "KE"}
EncWidths(e) == IF e = "u8" THEN {2, 3, 4} ELSE {2, 4}
\* utf-16 code units are 2 bytes and full reads return an even number of bytes: only a surrogate pair can be cut, in the middle
EncOffs(e, f, w) == IF e # "u8" /\ f \in {"f", "r2"} THEN {k \in 0 .. w - 1 : k % 2 = 0} ELSE 0 .. w - 1
EncDocs == UNION {UNION {UNION {{[name |-> e \o "_" \o f \o "_c" \o ToString(w) \o ToString(k) \o "_" \o x,
                                  enc |-> e, form |-> f, width |-> w, off |-> k, end |-> x] : k \in EncOffs(e, f, w), x \in EncEnds}
                                : w \in EncWidths(e)} : f \in EncForms} : e \in EncEncs}
EncNames == {d.name : d \in EncDocs}
EncOf(n) == CHOOSE d \in EncDocs : d.name = n
EncItems(x) == CASE x = "ok" -> <<"s", "mb">> [] x = "SE" -> <<"s", "SE", "mb">> [] x = "PE" -> <<"s", "PE", "mb">>
                 [] x = "CE" -> <<"da", "ub", "mb">> [] x = "KE" -> <<"s", "KE", "mb">>
Doc(n) ==
  IF n \in FamNames THEN LET d == FamOf(n) IN
     [yaml |-> FALSE, tag |-> FALSE, items |-> IF d.pend = "none" THEN <<d.point>> ELSE <<d.pend, d.point>>]
  ELSE
  CASE n = "plain"    -> [yaml |-> FALSE, tag |-> FALSE, items |-> <<"s", "s">>]
    [] n = "scanerr"  -> [yaml |-> FALSE, tag |-> FALSE, items |-> <<"s", "SE">>]
    [] n = "parseerr" -> [yaml |-> FALSE, tag |-> FALSE, items |-> <<"s", "PE">>]
    [] n = "comperr"  -> [yaml |-> FALSE, tag |-> FALSE, items |-> <<"da", "ub">>]
    [] n = "ctorerr"  -> [yaml |-> FALSE, tag |-> FALSE, items |-> <<"s", "KE">>]
    [] n = "yamldir"  -> [yaml |-> TRUE,  tag |-> FALSE, items |-> <<"s">>]
    [] n = "tagdir"   -> [yaml |-> FALSE, tag |-> TRUE,  items |-> <<"te">>]
    [] n = "usetag"   -> [yaml |-> FALSE, tag |-> FALSE, items |-> <<"te">>]
    [] n = "stdtag"   -> [yaml |-> FALSE, tag |-> FALSE, items |-> <<"tb">>]
    [] n = "anchors"  -> [yaml |-> FALSE, tag |-> FALSE, items |-> <<"da", "ua">>]
    [] n = "usealias" -> [yaml |-> FALSE, tag |-> FALSE, items |-> <<"ua">>]
    [] n = "rec"      -> [yaml |-> FALSE, tag |-> FALSE, items |-> <<"rec">>]
    [] n = "pyobj"    -> [yaml |-> FALSE, tag |-> FALSE, items |-> <<"py">>]
    [] n = "deepfail" -> [yaml |-> FALSE, tag |-> FALSE, items |-> <<"s", "dk">>]
    [] n = "ucall"    -> [yaml |-> FALSE, tag |-> FALSE, items |-> <<"cu", "s">>]
    [] n = "ugen"     -> [yaml |-> FALSE, tag |-> FALSE, items |-> <<"cg", "cu">>]
    [] n = "umulti"   -> [yaml |-> FALSE, tag |-> FALSE, items |-> <<"s", "cm">>]
    [] n = "paths"    -> [yaml |-> FALSE, tag |-> FALSE, items |-> <<"pt", "ir", "s">>]
    [] n = "pyplain"  -> [yaml |-> FALSE, tag |-> FALSE, items |-> <<"po", "s">>]
    [] n = "slots"    -> [yaml |-> FALSE, tag |-> FALSE, items |-> <<"sl">>]
    [] n = "deepalias" -> [yaml |-> FALSE, tag |-> FALSE, items |-> <<"da", "ps">>]
    [] n = "newalias" -> [yaml |-> FALSE, tag |-> FALSE, items |-> <<"da", "pn">>]
    [] n = "keyed"    -> [yaml |-> FALSE, tag |-> FALSE, items |-> <<"pk">>]
    [] n = "ydeep"    -> [yaml |-> FALSE, tag |-> FALSE, items |-> <<"da", "ys">>]
    [] n = "ykeyed"   -> [yaml |-> FALSE, tag |-> FALSE, items |-> <<"s", "yk">>]
    [] n = "yobj"     -> [yaml |-> FALSE, tag |-> FALSE, items |-> <<"yo", "s">>]
    [] n \in EncNames -> [yaml |-> FALSE, tag |-> FALSE, items |-> EncItems(EncOf(n).end)]
AllDocs == {"plain", "scanerr", "parseerr", "comperr", "ctorerr", "yamldir", "tagdir", "usetag", "stdtag", "anchors",
            "usealias", "rec", "pyobj", "deepfail", "ucall", "ugen", "umulti", "paths",
            "pyplain", "slots", "deepalias", "newalias", "keyed", "ydeep", "ykeyed", "yobj"} \cup FamNames
            \cup EncNames
UserItems == {"cu", "cg", "cm", "yo"}            \* yo: a YAMLObject subclass whose from_yaml is the caller's (registered by the metaclass)
PyItems == {"po", "sl", "ps", "pn", "pk"}        \* constructible by the unsafe classes only
YObjItems == {"ys", "yk"}                        \* YAMLObject subclasses whose yaml_loader is the user classes
AliasUsers == {"ps", "pn", "ys"}                 \* their text contains *a
DeepAliasItems == {"ps", "ys"}                   \* second step: construct_mapping(node, deep=True) over {items: *a}
KeyItems == {"pk", "yk"}
\* every two-step object item occurs at most once in a document (PosOf)
ASSUME \A n \in AllDocs : \A i, j \in DOMAIN Doc(n).items :
          (Doc(n).items[i] = Doc(n).items[j] /\ Doc(n).items[i] \in PyItems \cup YObjItems) => i = j

(***************************************************************************)
(* A value is a list of items.                                             *)
(*   s   a string                     x1, x2  occurrences of shared lists  *)
(*   rec a list that contains itself  ve  an object whose tag starts with  *)
(*   the prefix of handle !e!         RE  an object that has no representer*)
(*   ru  object of a user representer rm  object of a user multi-repr.     *)
(*   nu  a string with a non-ASCII character                               *)
(*   S   (alone) the value is a plain string, not a list                   *)
(*   pv  a mapping {pk: ...} in first position (the path of the user path  *)
(*   resolver)                        iv  a string the user implicit       *)
(*   resolver matches                                                      *)
(* `tags`: the call / the document declares  %TAG !e! <prefix>             *)
(* `ver` : ... declares %YAML 1.1      `au`: the call passes allow_unicode *)
(***************************************************************************)
Val(n) ==
  CASE n = "plainv"   -> [tags |-> FALSE, ver |-> FALSE, au |-> FALSE, items |-> <<"s", "s">>]
    [] n = "shared"   -> [tags |-> FALSE, ver |-> FALSE, au |-> FALSE, items |-> <<"x1", "x1">>]
    [] n = "shared2"  -> [tags |-> FALSE, ver |-> FALSE, au |-> FALSE, items |-> <<"x1", "x2", "x2", "x1">>]
    [] n = "recv"     -> [tags |-> FALSE, ver |-> FALSE, au |-> FALSE, items |-> <<"rec", "s">>]
    [] n = "reprerr"  -> [tags |-> FALSE, ver |-> FALSE, au |-> FALSE, items |-> <<"x1", "x1", "RE">>]
    [] n = "tagged"   -> [tags |-> TRUE,  ver |-> FALSE, au |-> FALSE, items |-> <<"ve">>]
    [] n = "usesve"   -> [tags |-> FALSE, ver |-> FALSE, au |-> FALSE, items |-> <<"ve", "s">>]
    [] n = "verv"     -> [tags |-> FALSE, ver |-> TRUE,  au |-> FALSE, items |-> <<"s">>]
    [] n = "urepr"    -> [tags |-> FALSE, ver |-> FALSE, au |-> FALSE, items |-> <<"ru", "s">>]
    [] n = "umrepr"   -> [tags |-> FALSE, ver |-> FALSE, au |-> FALSE, items |-> <<"x1", "rm", "x1">>]
    [] n = "uni"      -> [tags |-> FALSE, ver |-> FALSE, au |-> FALSE, items |-> <<"nu", "s">>]
    [] n = "uniau"    -> [tags |-> FALSE, ver |-> FALSE, au |-> TRUE,  items |-> <<"nu", "s">>]
    [] n = "pathsv"   -> [tags |-> FALSE, ver |-> FALSE, au |-> FALSE, items |-> <<"pv", "iv", "s">>]
    [] n = "scalarv"  -> [tags |-> FALSE, ver |-> FALSE, au |-> FALSE, items |-> <<"S">>]     \* the root IS a plain scalar
    [] n = "yrepr"    -> [tags |-> FALSE, ver |-> FALSE, au |-> FALSE, items |-> <<"ry", "s">>]   \* ry: object of a YAMLObject subclass with its own to_yaml
AllVals == {"plainv", "shared", "shared2", "recv", "reprerr", "tagged", "usesve", "verv", "urepr", "umrepr", "uni", "uniau", "scalarv", "pathsv", "yrepr"}
ASSUME Docs \subseteq AllDocs /\ Vals \subseteq AllVals
UserValItems == {"ru", "rm", "ry"}

Level(op) == CASE op = "scan" -> 1 [] op = "parse" -> 2 [] op \in {"compose", "compose_all"} -> 3
               [] op \in {"load", "load_all"} -> 4
               [] op = "emit" -> 1 [] op \in {"serialize", "serialize_all"} -> 2 [] OTHER -> 3
IsSingle(op) == op \in {"load", "compose", "dump", "serialize"}
IsLoadOp(op) == op \in {"load", "load_all", "compose", "compose_all", "parse", "scan"}

-----------------------------------------------------------------------------
(***************************************************************************)
(* Loader objects                                                          *)
(***************************************************************************)
NewLoader(op, cls, be, src, io, mode) ==
  [ kind |-> "loader", op |-> op, cls |-> cls, be |-> be, src |-> src, io |-> io,
    mode |-> mode,             \* "call": runs to completion; "gen": suspends after every delivered unit
    pc |-> "unstarted",        \* a generator function body does not run before the first next()
    d |-> 0, i |-> 0,          \* document index, index of the next item of that document
    consumed |-> 0, avail |-> 0, eof |-> FALSE,     \* Reader: chunks consumed / obtained by read(), EOF seen
    yamlVersion |-> "none", th |-> OwnRef(EmptyDict),         \* Parser.yaml_version, Parser.tag_handles
    anchors |-> {}, nodes |-> <<>>, held |-> <<>>,            \* Composer.anchors; the nodes of the current document
    constructed |-> <<>>, recursive |-> {}, sgens |-> <<>>, deep |-> FALSE, k |-> 0,   \* Constructor
    out |-> <<>>, end |-> "-", exc |-> "-", yielded |-> FALSE, disposed |-> FALSE, ninv |-> 0, injected |-> 0,
    written |-> <<>>, rdepth |-> 0, ninj |-> 0, excContent |-> "-" ]      \* rdepth: BaseResolver.resolver_exact_paths / resolver_prefix_paths (their common length)

\* An exception is a record of identity and content.  "INJ" is the object the environment raised FIRST, "INJ2" any later one
\* (persistent faults); its content (type, arguments, attributes, text) is "as raised" unless somebody writes to it.
Raise(o, x) == [o EXCEPT !.exc = IF x = "INJ" /\ o.ninj > 1 THEN "INJ2" ELSE x, !.pc = "dispose",
                         !.excContent = IF x = "INJ" THEN "as raised" ELSE @]
Deliver(o, u) == [o EXCEPT !.out = Append(@, u), !.yielded = (o.mode = "gen")]

CurDoc(o) == Doc(o.src.docs[o.d])
NeedsRead(o) == o.io = "file" /\ ~o.eof /\ o.avail <= o.consumed
NChunks(src) == LET RECURSIVE S(_) S(j) == IF j = 0 THEN 0 ELSE S(j - 1) + 1 + Len(Doc(src.docs[j]).items) IN S(Len(src.docs))

\* stream.read(): one chunk per call, '' at the end of the input (reader.py:177-185)
ReadChunk(o, inj) ==
  IF inj THEN Raise([o EXCEPT !.injected = IF o.injected = 0 THEN o.ninv + 1 ELSE o.injected, !.ninj = o.ninj + 1, !.ninv = o.ninv + 1], "INJ")
  ELSE IF o.avail < NChunks(o.src) THEN [o EXCEPT !.avail = @ + 1, !.ninv = @ + 1]
  ELSE [o EXCEPT !.eof = TRUE, !.ninv = @ + 1]

\* Parser.process_directives (parser.py:217-246): a NEW dict, filled from the directives, completed from DEFAULT_TAGS
ProcessDirectives(o, g, doc) ==
  LET fresh == IF Mutation \in {"th_in_place", "th_update_only"} THEN [r |-> o.th, g |-> g]              \* wrong: reuses the object tag_handles refers to
               ELSE [r |-> OwnRef(EmptyDict), g |-> g]                            \* self.tag_handles = {}
      w1 == IF doc.tag THEN WriteRef(fresh.r, fresh.g, "e", StdPrefix) ELSE fresh  \* %TAG !e! tag:yaml.org,2002:
      w2 == IF Has(Deref(w1.r, w1.g), "!") THEN w1 ELSE WriteRef(w1.r, w1.g, "!", g.DEFAULT_TAGS["!"])
      w3 == IF Has(Deref(w2.r, w2.g), "!!") THEN w2 ELSE WriteRef(w2.r, w2.g, "!!", g.DEFAULT_TAGS["!!"])
      tags == IF doc.tag THEN {"e"} ELSE {}
  IN  [o |-> [o EXCEPT !.yamlVersion = IF doc.yaml THEN "1.1" ELSE "none", !.th = w3.r],
       g |-> w3.g, ev |-> <<"DOCSTART", IF doc.yaml THEN "1.1" ELSE "none", tags>>]

\* Parser.parse_implicit_document_start (parser.py:139-154): tag_handles ALIASES the class attribute; yaml_version is
\* not touched (it is None: an implicit document can only be the first one)
ImplicitDocumentStart(o, g) ==
  [o |-> [o EXCEPT !.th = IF o.be = "py" /\ Mutation # "th_update_only" THEN GlobalRef("DEFAULT_TAGS")   \* by reference
                         ELSE OwnRef(g.DEFAULT_TAGS @@ o.th.own)],     \* libyaml keeps its own table
   g |-> g, ev |-> <<"DOCSTART", "none", {}>>]

HandleOf(it) == CASE it = "te" -> "e" [] it \in {"tb", "py", "dk"} \cup PyItems -> "!!" [] it \in UserItems \cup YObjItems \cup {"ge"} -> "!" [] OTHER -> "-"

\* what the constructor of class cls makes of a node
CtorOutcome(cls, it) ==
  CASE it = "KE" -> "err"
    [] it = "dk" -> IF cls = "base" THEN "plain" ELSE "err"
    [] it = "py" -> IF cls = "unsafe" THEN "pyobj" ELSE IF cls = "base" THEN "plain" ELSE "err"
    [] it = "rec" -> IF cls = "base" THEN "err" ELSE "reclist"
    [] it \in UserItems -> IF cls = "user" THEN "U" ELSE IF cls = "base" THEN "plain" ELSE "err"
    [] it = "pt" -> IF cls = "user" THEN "PT" ELSE "plain"
    [] it = "ir" -> IF cls = "user" THEN "IR" ELSE "plain"
    [] it \in KeyItems /\ cls = "base" -> "err"             \* the tag is ignored, the key is a dict: "found unhashable key"
    [] it \in PyItems -> IF cls = "unsafe" THEN "obj:" \o it ELSE IF cls = "base" THEN "plain" ELSE "err"
    [] it \in YObjItems -> IF cls = "user" THEN "obj:" \o it ELSE IF cls = "base" THEN "plain" ELSE "err"
    [] it = "pc" -> IF cls = "user" THEN "PC" ELSE "plain"
    [] it = "ic" -> IF cls = "user" THEN "IC" ELSE "plain"
    [] it = "gr" -> IF cls = "base" THEN "err" ELSE "plain"      \* BaseConstructor builds the children at once: the root is in progress
    [] OTHER -> "plain"
Constructs(cls, it) == (it \in PyItems /\ cls = "unsafe") \/ (it \in YObjItems /\ cls = "user")
TwoPhase(cls, it) == \/ (it = "rec" /\ cls # "base") \/ (it = "cg" /\ cls = "user")
                     \/ (it \in {"po", "sl", "ps", "ys"} /\ Constructs(cls, it))      \* construct_python_object, construct_yaml_object
                     \/ (it \in {"gs", "gr", "ge", "pc"} /\ cls # "base")            \* construct_yaml_seq / construct_yaml_map

(***************************************************************************)
(* Python objects.  construct_python_object / construct_yaml_object yield  *)
(* the bare instance and set its state in the second step;                 *)
(* set_python_instance_state (constructor.py:630-650) starts from a NEW    *)
(* empty slotstate dict per call, merges the mapping into it when the      *)
(* instance has no __dict__, and setattr()s its items.  A dict that        *)
(* outlives the call does NOT exist in the package; `other[SKey]` is the   *)
(* place a wrong variant keeps one (a mutable default argument: one object *)
(* per process).  Its CONTENT is state, and every later instance whose     *)
(* state goes through this method receives its items.                      *)
(* deep_construct: construct_object(node, deep=True) saves the flag, sets  *)
(* it and restores it on the way out - also when the node is found in      *)
(* constructed_objects (the early return is BEFORE the flag is touched).   *)
(***************************************************************************)
SKey == "FullConstructor.set_python_instance_state.slotstate"
PosOf(o, it) == CHOOSE j \in DOMAIN o.held : o.held[j].it = it
Leaked(g) == Has(g.other, SKey)
\* a mapping keyed by a two-step object: in deep mode the key is complete when it is hashed, otherwise it is still empty
KeyedOutcome(o, g, it) == "map:" \o (IF o.deep THEN "keyfull" ELSE "keyempty") \o (IF it = "pk" /\ Leaked(g) THEN "+leak" ELSE "")
\* deep=True construction of a child that is already in constructed_objects
DeepOverConstructed(o) == IF Mutation = "deep_sticky" THEN [o EXCEPT !.deep = TRUE] ELSE o     \* wrong: flag set before the lookup, early return
\* the rest of a two-step constructor's generator body, for the object at position PosOf(o, it) of the document
SecondPhase(o, g, it) ==
  LET o1 == IF it \in DeepAliasItems THEN DeepOverConstructed(o) ELSE o
      j  == PosOf(o, it)
      o2 == IF it = "po" /\ Leaked(g) THEN [o1 EXCEPT !.constructed[j] = @ \o "+leak"] ELSE o1     \* setattr of foreign items
      g2 == IF it = "sl" /\ Mutation = "shared_slotstate" THEN [g EXCEPT !.other = Put(@, SKey, "x,y")] ELSE g   \* wrong: slotstate.update(state) on the shared dict
  IN  [o |-> o2, g |-> g2]
ResolverItems == {"ic"}          \* the tag comes from a user resolver, the constructor registered for it is a user callback
IsCallback(cls, it) == cls = "user" /\ it \in UserItems \cup ResolverItems
\* the second step of a two-step construction runs caller-supplied code: the rest of a user generator constructor; the
\* library's mapping generator reaching the path-resolved value with its user constructor
\* ("cgn": the user constructor of the node nested in the "cg" item, reached by the generator's construct_sequence)
Phase2Callback(cls, it) == cls = "user" /\ it \in {"cg", "pc", "cgn"}
\* the root of the current document is a node of a non-generator user constructor; construct_object(root) has registered
\* it in recursive_objects (index 0) and has not returned yet
UserRoot(o) == o.d >= 1 /\ o.d <= Len(o.src.docs) /\ RootKindOf(o.src.docs[o.d]) = "uq" /\ o.cls # "base"
RootPending(o) == o.pc = "construct" /\ o.k = 0 /\ UserRoot(o) /\ 0 \notin o.recursive

\* is the next step of o an invocation of something the caller supplied (the points where the environment may fail)?
LInvocation(o) ==
  \/ o.pc \in {"docstart", "item"} /\ NeedsRead(o)
  \/ o.pc = "construct" /\ ~RootPending(o) /\ o.k < Len(o.held) /\ IsCallback(o.cls, o.held[o.k + 1].it)
  \/ o.pc = "drain" /\ o.sgens # <<>> /\ Phase2Callback(o.cls, Head(o.sgens))
  \/ RootPending(o) /\ o.cls = "user"                \* the user constructor of the root itself

(***************************************************************************)
(* The path-resolver stacks (resolver.py:93-117).  A class that registered *)
(* path resolvers (the user subclasses do) pushes one level in             *)
(* descend_resolver and pops it in ascend_resolver around every node the   *)
(* Composer composes / the Serializer serializes; a class without path     *)
(* resolvers returns early.  The stacks belong to the object (created in   *)
(* BaseResolver.__init__), so whatever an exception leaves on them dies    *)
(* with the object.  Modelled: the level of the document's root, pushed at *)
(* the document start and popped at its end; every node below the root     *)
(* needs the depth to be exactly 1 (check_resolver_prefix indexes the      *)
(* registered path with it: a wrong depth raises IndexError / mis-resolves)*)
(***************************************************************************)
HasPaths(cls) == cls = "user"
RKey == "BaseResolver.resolver_exact_paths"
RGet(o, g) == IF Mutation = "shared_resolver_stack" THEN (IF Has(g.other, RKey) THEN g.other[RKey] ELSE 0) ELSE o.rdepth
RSet(o, g, n) ==
  IF Mutation = "shared_resolver_stack"       \* wrong: the stacks are class attributes
  THEN LET old == g.other
       IN  [o |-> o, g |-> [g EXCEPT !.other = IF n = 0 THEN [k \in DOMAIN old \ {RKey} |-> old[k]] ELSE Put(old, RKey, n)]]
  ELSE [o |-> [o EXCEPT !.rdepth = n], g |-> g]

\* an exception of a user constructor passes construct_mapping / construct_sequence untouched (no except clause there)
Annotated(o) == IF Mutation = "annotate_marked_error" THEN [o EXCEPT !.excContent = "rewritten"] ELSE o    \* wrong: marks filled in

LStepCore(o, g, inj) ==
  LET same(o2) == [o |-> o2, g |-> g]
      lvl == Level(o.op)
  IN
  CASE o.pc = "unstarted" -> same([o EXCEPT !.pc = "docstart"])      \* loader = Loader(stream)
    [] o.pc = "docstart" ->
         IF NeedsRead(o) THEN same(ReadChunk(o, inj))
         ELSE IF o.d = Len(o.src.docs) THEN
           \* end of the stream
           IF lvl = 4 /\ IsSingle(o.op) /\ o.held # <<>> THEN same([o EXCEPT !.pc = "construct"])
           ELSE IF lvl = 3 /\ IsSingle(o.op) /\ o.held # <<>> THEN same([Deliver(o, <<"NODE", o.held>>) EXCEPT !.pc = "finish", !.yielded = FALSE])
           ELSE same([o EXCEPT !.pc = "finish"])
         ELSE IF IsSingle(o.op) /\ o.d >= 1 THEN same(Raise(o, "ComposerError"))     \* get_single_node: "expected a single document"
         ELSE
           LET doc == Doc(o.src.docs[o.d + 1])
               explicit == doc.yaml \/ doc.tag \/ ~(o.d = 0 /\ o.src.impl)
               o1 == [o EXCEPT !.d = @ + 1, !.i = 0, !.consumed = @ + 1, !.pc = "item"]
           IN  IF lvl = 1 THEN same(Deliver(o1, <<"DIRS", doc.yaml, doc.tag, explicit>>))
               ELSE LET r == IF explicit THEN ProcessDirectives(o1, g, doc) ELSE ImplicitDocumentStart(o1, g)
                    IN  IF lvl = 2 THEN [o |-> [Deliver(r.o, r.ev) EXCEPT !.pc = "seqstart"], g |-> r.g] ELSE [o |-> r.o, g |-> r.g]
    [] o.pc = "seqstart" -> same([Deliver(o, <<"SEQSTART">>) EXCEPT !.pc = "item"])     \* the root collection of the document (parse only)
    [] o.pc = "item" ->
         IF o.i = Len(CurDoc(o).items) THEN same(IF lvl = 2 THEN [Deliver(o, <<"SEQEND">>) EXCEPT !.pc = "docend"] ELSE [o EXCEPT !.pc = "docend"])
         ELSE IF NeedsRead(o) THEN same(ReadChunk(o, inj))
         ELSE
           LET it == CurDoc(o).items[o.i + 1]
               o1 == [o EXCEPT !.i = @ + 1, !.consumed = @ + 1]
               h == HandleOf(it)
               handles == Deref(o.th, g)
               tag == IF h = "-" THEN "-" ELSE IF Has(handles, h) THEN handles[h] ELSE "?"
           IN  IF it = "SE" THEN same(Raise(o1, "ScannerError"))
               ELSE IF lvl = 1 THEN same(Deliver(o1, <<"TOK", it>>))
               ELSE IF it = "PE" THEN same(Raise(o1, "ParserError"))
               ELSE IF tag = "?" THEN same(Raise(o1, "ParserError"))                  \* "found undefined tag handle"
               ELSE IF lvl = 2 THEN same(Deliver(o1, <<"EV", it, tag>>))
               ELSE \* Composer.compose_node (composer.py:63-85)
                 IF it = "da" /\ "a" \in o.anchors THEN same(Raise(o1, "ComposerError"))       \* duplicate anchor
                 ELSE IF it = "rec" /\ "r" \in o.anchors THEN same(Raise(o1, "ComposerError"))
                 ELSE IF it \in {"ua"} \cup AliasUsers /\ "a" \notin o.anchors THEN same(Raise(o1, "ComposerError"))  \* undefined alias
                 ELSE IF it = "ub" /\ "b" \notin o.anchors THEN same(Raise(o1, "ComposerError"))
                 ELSE IF it = "gr" /\ "r" \notin o.anchors THEN same(Raise(o1, "ComposerError"))
                 ELSE same([o1 EXCEPT !.anchors = @ \cup (IF it = "da" THEN {"a"} ELSE IF it = "rec" THEN {"r"} ELSE {}),
                                      !.nodes = Append(@, [it |-> it, tag |-> tag])])
    [] o.pc = "docend" ->
         IF lvl = 1 THEN same([o EXCEPT !.pc = "docstart"])
         ELSE IF lvl = 2 THEN same([Deliver(o, <<"DOCEND">>) EXCEPT !.pc = "docstart"])
         ELSE \* Composer.compose_document (composer.py:50-61): self.anchors = {}
           LET o1 == [o EXCEPT !.anchors = IF Mutation = "keep_anchors" THEN @ ELSE {}, !.held = o.nodes, !.nodes = <<>>, !.k = 0]
           IN  IF IsSingle(o.op) THEN same([o1 EXCEPT !.pc = "docstart"])
               ELSE IF lvl = 3 THEN same([Deliver(o1, <<"NODE", o1.held>>) EXCEPT !.pc = "docstart", !.held = <<>>])
               ELSE same([o1 EXCEPT !.pc = "construct"])
    [] o.pc = "construct" ->      \* BaseConstructor.construct_object for the next child of the root (constructor.py:67-111)
         IF o.k = Len(o.held) THEN same([o EXCEPT !.pc = "drain"])
         ELSE
           LET n == o.held[o.k + 1]
               oc == CtorOutcome(o.cls, n.it)
               o1 == [o EXCEPT !.k = @ + 1]
           IN  IF IsCallback(o.cls, n.it) /\ inj THEN same(Annotated(Raise([o1 EXCEPT !.injected = IF o.injected = 0 THEN o.ninv + 1 ELSE o.injected, !.ninj = o.ninj + 1, !.ninv = o.ninv + 1], "INJ")))
               ELSE LET o2 == IF IsCallback(o.cls, n.it) THEN [o1 EXCEPT !.ninv = @ + 1] ELSE o1
                    IN  IF n.it = "dk" /\ oc = "err" THEN same(Raise([o2 EXCEPT !.deep = TRUE, !.recursive = @ \cup {o.k + 1}], "ConstructorError"))
                        ELSE IF oc = "err" THEN same(Raise([o2 EXCEPT !.recursive = @ \cup {o.k + 1}], "ConstructorError"))
                        ELSE IF n.it \in KeyItems THEN same([o2 EXCEPT !.constructed = Append(@, KeyedOutcome(o, g, n.it))])
                        ELSE IF n.it = "pn" /\ Constructs(o.cls, n.it)        \* construct_sequence(node, deep=True) over [*a]
                             THEN same(DeepOverConstructed([o2 EXCEPT !.constructed = Append(@, oc)]))
                        ELSE IF n.it = "ge" /\ TwoPhase(o.cls, n.it) /\ o.deep THEN same(Raise(o2, "ConstructorError"))
                        ELSE IF TwoPhase(o.cls, n.it) /\ o.deep               \* constructor.py:97-101: in deep mode the generator is run at once
                             THEN LET r == SecondPhase([o2 EXCEPT !.constructed = Append(@, oc)], g, n.it)
                                  IN  [o |-> [r.o EXCEPT !.ninv = IF n.it = "cg" THEN @ + 2 ELSE IF Phase2Callback(o.cls, n.it) THEN @ + 1 ELSE @], g |-> r.g]
                        ELSE same([o2 EXCEPT !.constructed = Append(@, oc),
                                             !.sgens = IF TwoPhase(o.cls, n.it) THEN Append(@, n.it) ELSE @])
    [] o.pc = "drain" ->          \* construct_document: run the queued generators (constructor.py:56-61)
         IF o.sgens = <<>> THEN same([o EXCEPT !.pc = "creset"])
         ELSE IF Phase2Callback(o.cls, Head(o.sgens)) /\ inj THEN same(Raise([o EXCEPT !.injected = IF o.injected = 0 THEN o.ninv + 1 ELSE o.injected, !.ninj = o.ninj + 1, !.ninv = o.ninv + 1, !.sgens = Tail(@)], "INJ"))
         \* the library's own failures in a second step: an undefined tag inside; an alias of a node that is still being
         \* constructed ("found unconstructable recursive node": only the root, only while construct_object(root) runs)
         ELSE IF Head(o.sgens) = "ge" \/ (Head(o.sgens) = "gr" /\ 0 \in o.recursive)
              THEN same(Raise([o EXCEPT !.sgens = Tail(@)], "ConstructorError"))
         ELSE SecondPhase([o EXCEPT !.sgens = IF Head(o.sgens) = "cg" THEN <<"cgn">> \o Tail(@) ELSE Tail(@),
                                    !.ninv = IF Phase2Callback(o.cls, Head(o.sgens)) THEN @ + 1 ELSE @], g, Head(o.sgens))
    [] o.pc = "creset" ->         \* construct_document: the three resets (constructor.py:62-64)
         LET o1 == [o EXCEPT !.constructed = <<>>, !.recursive = {}, !.held = <<>>, !.k = 0,
                             !.deep = IF Mutation = "deep_sticky" THEN @ ELSE FALSE]     \* wrong: "construct_object restores it itself"
         IN  IF IsSingle(o.op) THEN same([Deliver(o1, <<"OBJ", o.constructed>>) EXCEPT !.pc = "finish", !.yielded = FALSE])
             ELSE same([Deliver(o1, <<"OBJ", o.constructed>>) EXCEPT !.pc = "docstart"])
    [] o.pc = "finish" -> same([o EXCEPT !.pc = "dispose"])
    [] o.pc = "dispose" ->        \* `finally: loader.dispose()` : Parser.dispose (parser.py:89-92) resets state/states only
         same([o EXCEPT !.disposed = TRUE, !.pc = "done", !.end = IF o.exc = "-" THEN "return" ELSE "raise:" \o o.exc])
    [] OTHER -> same(o)

LStepPaths(o, g, inj) ==
  IF ~(HasPaths(o.cls) /\ Level(o.op) >= 3) THEN LStepCore(o, g, inj)
  ELSE IF o.pc = "item" /\ o.i < Len(CurDoc(o).items) /\ ~NeedsRead(o) /\ RGet(o, g) # 1
            /\ CurDoc(o).items[o.i + 1] \notin {"SE", "PE"}
       THEN [o |-> Raise([o EXCEPT !.i = @ + 1, !.consumed = @ + 1], "IndexError"), g |-> g]      \* descend_resolver at a wrong depth
  ELSE LET r == LStepCore(o, g, inj) IN
       IF o.pc = "docstart" /\ r.o.pc = "item" /\ r.o.d = o.d + 1 THEN RSet(r.o, r.g, RGet(r.o, r.g) + 1)   \* descend_resolver(None, None)
       ELSE IF o.pc = "docend" /\ RGet(r.o, r.g) > 0 THEN RSet(r.o, r.g, RGet(r.o, r.g) - 1)                 \* ascend_resolver()
       ELSE r

(***************************************************************************)
(* The root of the document (construct_document, constructor.py:54-65).    *)
(*   data = self.construct_object(node)        \* may raise                 *)
(*   while self.state_generators: ... drain ...                            *)
(*   reset                                                                 *)
(* A plain root ("sq") yields its empty list at once; its children are     *)
(* constructed by its generator in the drain loop (pc "construct" stands   *)
(* for that).  A root of a non-generator user constructor ("uq") is        *)
(* invoked first (an invocation of caller-supplied code: nothing pending), *)
(* then construct_sequence(node) constructs the children inside that call: *)
(* the root stays in recursive_objects (0) and the two-step children stay  *)
(* pending until it returns.  An exception raised there leaves             *)
(* construct_document at once: the pending second steps are NOT run (no    *)
(* `finally` around the drain loop), so no caller-supplied code runs after *)
(* the failure and nothing can replace the exception.                      *)
(* Wrong variant "drain_in_finally" (= seeded C19-M10): the drain loop and *)
(* the resets moved into a `finally` around construct_object(root).        *)
(* Wrong variant "drain_collects_errors" (= seeded C19-S1): the drain loop *)
(* goes on after a failing second step and raises the LAST error at its    *)
(* end.  Wrong variant "drain_on_release" (= seeded C19-S2): the entry      *)
(* point completes the pending second steps before dispose(), also on the  *)
(* error path.                                                             *)
(***************************************************************************)
DrainsAfterFailure(o, r) ==      \* o -> r.o is a step that raised out of the constructor
  /\ o.pc \in {"construct", "drain"} /\ r.o.pc = "dispose"
  /\ CASE Mutation = "drain_in_finally" -> o.pc = "construct" /\ 0 \in r.o.recursive
        [] Mutation = "drain_collects_errors" -> o.pc = "drain" \/ 0 \notin r.o.recursive     \* raised inside the drain loop
        [] Mutation = "drain_on_release" -> o.exc = "-"                                         \* the first failure of the call
        [] OTHER -> FALSE
LStep(o, g, inj) ==
  IF RootPending(o) THEN
     IF o.cls # "user" THEN [o |-> Raise(o, "ConstructorError"), g |-> g]        \* "could not determine a constructor for the tag"
     ELSE IF inj THEN [o |-> Raise([o EXCEPT !.injected = IF o.injected = 0 THEN o.ninv + 1 ELSE o.injected, !.ninj = o.ninj + 1,
                                             !.ninv = o.ninv + 1, !.recursive = @ \cup {0}], "INJ"), g |-> g]
     ELSE [o |-> [o EXCEPT !.ninv = @ + 1, !.recursive = @ \cup {0}], g |-> g]
  ELSE IF o.pc = "creset" /\ o.exc # "-" THEN      \* (wrong variants only) the resets, then the exception goes on
     [o |-> [o EXCEPT !.constructed = <<>>, !.recursive = {}, !.held = <<>>, !.k = 0, !.deep = FALSE, !.pc = "dispose"], g |-> g]
  ELSE LET r == LStepPaths(o, g, inj) IN
       IF o.pc = "docstart" /\ r.o.pc = "item" /\ r.o.d = o.d + 1 /\ Level(o.op) >= 3 /\ RootAnchored(r.o.src.docs[r.o.d])
       THEN [r EXCEPT !.o.anchors = @ \cup {"r"}]                                   \* compose_node registers the root's anchor first
       ELSE IF o.pc = "construct" /\ r.o.pc = "drain" THEN [r EXCEPT !.o.recursive = @ \ {0}]     \* construct_object(root) returns
       ELSE IF DrainsAfterFailure(o, r)
       THEN [r EXCEPT !.o.pc = "drain"]                \* wrong: the pending second steps are run while the exception is in flight
       ELSE r

LActionName(o) ==
  CASE o.pc = "unstarted" -> "CreateLoader"
    [] o.pc \in {"docstart", "item"} /\ NeedsRead(o) -> "Read"
    [] o.pc = "docstart" /\ o.d < Len(o.src.docs) /\ ~(IsSingle(o.op) /\ o.d >= 1) /\ Level(o.op) > 1 ->
          LET doc == Doc(o.src.docs[o.d + 1]) IN
          IF doc.yaml \/ doc.tag \/ ~(o.d = 0 /\ o.src.impl) THEN "ProcessDirectives" ELSE "ImplicitDocumentStart"
    [] o.pc \in {"docstart", "seqstart"} -> "DocumentBoundary"
    [] o.pc = "item" /\ o.i = Len(CurDoc(o).items) -> "DocumentBoundary"
    [] o.pc = "item" -> "ParseComposeNode"
    [] o.pc = "docend" -> IF Level(o.op) >= 3 THEN "ComposeDocumentReset" ELSE "DocumentEnd"
    [] o.pc = "construct" -> "ConstructObject"
    [] o.pc = "drain" -> "DrainStateGenerators"
    [] o.pc = "creset" -> "ConstructDocumentReset"
    [] o.pc = "finish" -> "Finish"
    [] o.pc = "dispose" -> "Dispose"
    [] OTHER -> "Nothing"

-----------------------------------------------------------------------------
(***************************************************************************)
(* Dumper objects                                                          *)
(***************************************************************************)
NewDumper(op, cls, be, vals, io) ==
  [ kind |-> "dumper", op |-> op, cls |-> cls, be |-> be, vals |-> vals, io |-> io, mode |-> "call",
    pc |-> "unstarted", ret |-> "-", d |-> 0,
    represented |-> {}, keeper |-> <<>>, aliasKey |-> "none", rnodes |-> <<>>, ri |-> 0,     \* Representer
    closed |-> "none", serialized |-> {}, sanchors |-> EmptyDict, lastAnchorId |-> 0,       \* Serializer
    pend |-> <<>>, evq |-> <<>>, tp |-> NoRef, wbuf |-> <<>>, au |-> Val(vals[1]).au,       \* Emitter: events, tag_prefixes, allow_unicode
    written |-> <<>>, flushes |-> 0, rdepth |-> 0, openEnded |-> FALSE, ninj |-> 0, excContent |-> "-",                                          \* what the stream received; resolver stacks
    out |-> <<>>, end |-> "-", exc |-> "-", yielded |-> FALSE, disposed |-> FALSE, ninv |-> 0, injected |-> 0 ]

Shared(it) == it \in {"x1", "x2", "rec"}
ObjOf(it) == IF Shared(it) THEN it ELSE "-"
\* Node identity.  The nodes a Representer builds are new objects in every document (key = the document's number); the
\* nodes a caller hands to serialize() / serialize_all() are the caller's: passing the same value twice passes the same
\* node objects twice (key = the value's name).
NodeIdOf(key, obj, j) == <<key, IF obj = "-" THEN ToString(j) ELSE obj>>
RootId(key) == <<key, "root">>
NodesOf(key, items) == [j \in DOMAIN items |-> [it |-> items[j], obj |-> ObjOf(items[j]), id |-> NodeIdOf(key, ObjOf(items[j]), j)]]
DocOpts(o, v) == IF o.op = "emit" THEN [tags |-> v.tags, ver |-> v.ver]
                 ELSE [tags |-> Val(o.vals[1]).tags, ver |-> Val(o.vals[1]).ver]     \* Dumper(tags=..., version=...): per call

\* Serializer.anchor_node (serializer.py:60-73): a node met a second time gets the next id (and is not descended into)
RECURSIVE AnchorPass(_, _, _, _)
AnchorPass(nodes, j, anch, lastId) ==
  IF j > Len(nodes) THEN [anch |-> anch, lastId |-> lastId]
  ELSE LET id == nodes[j].id IN
       IF Has(anch, id) THEN
              IF anch[id] = 0 THEN AnchorPass(nodes, j + 1, Put(anch, id, lastId + 1), lastId + 1)
              ELSE AnchorPass(nodes, j + 1, anch, lastId)
       ELSE IF nodes[j].obj = "rec" THEN AnchorPass(nodes, j + 1, Put(anch, id, lastId + 1), lastId + 1)   \* meets itself inside
       ELSE AnchorPass(nodes, j + 1, Put(anch, id, 0), lastId)
AnchorDoc(root, nodes, anch, lastId) ==
  IF Has(anch, root) THEN (IF anch[root] = 0 THEN [anch |-> Put(anch, root, lastId + 1), lastId |-> lastId + 1]
                           ELSE [anch |-> anch, lastId |-> lastId])
  ELSE AnchorPass(nodes, 1, Put(anch, root, 0), lastId)

Ev(k, a, t) == [k |-> k, a |-> a, t |-> t, tags |-> FALSE, ver |-> FALSE]
\* Serializer.serialize_node (serializer.py:79-110)
RECURSIVE NodeEvents(_, _, _, _)
NodeEvents(nodes, j, anch, done) ==
  IF j > Len(nodes) THEN <<>>
  ELSE LET n == nodes[j]
           a == IF Has(anch, n.id) THEN anch[n.id] ELSE 0
       IN  IF n.id \in done THEN <<Ev("AL", a, "-")>> \o NodeEvents(nodes, j + 1, anch, done)
           ELSE IF n.obj = "rec" THEN <<Ev("SQS", a, "-"), Ev("AL", a, "-"), Ev("SQE", 0, "-")>> \o NodeEvents(nodes, j + 1, anch, done \cup {n.id})
           ELSE IF n.obj # "-" THEN <<Ev("SQS", a, "-"), Ev("SC", 0, "s"), Ev("SQE", 0, "-")>> \o NodeEvents(nodes, j + 1, anch, done \cup {n.id})
           ELSE <<Ev("SC", a, n.it)>> \o NodeEvents(nodes, j + 1, anch, done \cup {n.id})
\* `done` = Serializer.serialized_nodes when the document starts (empty after a reset)
DocEvents(root, nodes, anch, done, opts) ==
  LET ds == [Ev("DS", 0, "-") EXCEPT !.tags = opts.tags, !.ver = opts.ver]
      ra == IF Has(anch, root) THEN anch[root] ELSE 0
  IN  IF root \in done THEN <<ds, Ev("AL", ra, "-"), Ev("DE", 0, "-")>>
      ELSE IF Len(nodes) = 1 /\ nodes[1].it = "S" THEN <<ds, Ev("SC", ra, "S"), Ev("DE", 0, "-")>>        \* scalar root
      ELSE <<ds, Ev("SQS", ra, "-")>> \o NodeEvents(nodes, 1, anch, done \cup {root}) \o <<Ev("SQE", 0, "-"), Ev("DE", 0, "-")>>
\* what a caller of emit() passes for a stream of values: well-formed events, anchors numbered per document
RECURSIVE UserEvents(_, _)
UserEvents(vals, j) ==
  IF j > Len(vals) THEN <<>>
  ELSE LET v == Val(vals[j])
           ns == NodesOf(ToString(j), v.items)
           root == RootId(ToString(j))
       IN  DocEvents(root, ns, AnchorDoc(root, ns, EmptyDict, 0).anch, {}, [tags |-> v.tags, ver |-> v.ver]) \o UserEvents(vals, j + 1)

\* Emitter.need_more_events / need_events (emitter.py:120-148)
RECURSIVE NeedScan(_, _, _, _)
NeedScan(q, j, level, count) ==       \* level is kept +1 (naturals)
  IF j > Len(q) THEN Len(q) < count + 1
  ELSE LET k == q[j].k
           l2 == IF k \in {"DS", "SQS"} THEN level + 1 ELSE IF k \in {"DE", "SQE"} THEN level - 1 ELSE level
       IN  IF k = "STE" \/ l2 = 0 THEN FALSE ELSE NeedScan(q, j + 1, l2, count)
NeedMore(q) == \/ q = <<>>
               \/ q[1].k = "DS" /\ NeedScan(q, 2, 1, 1)
               \/ q[1].k = "SQS" /\ NeedScan(q, 2, 1, 2)

\* one event through the emitter state machine: the new tag_prefixes and the chunk it writes (<<>>: writes nothing)
\* Emitter.open_ended: set by a plain scalar written as the root of a document (write_plain; the libyaml emitter does
\* not do that for plain scalars), cleared by the next indicator
OpenEndedAfter(o, e) == IF e.k \in {"DE", "STS"} THEN o.openEnded
                        ELSE e.k = "SC" /\ e.t = "S" /\ o.be = "py"
Marker == <<"...">>        \* the document end marker: framing between documents, not part of a document
ChunkEmpty(o, e) == e.k = "STS" \/ (e.k = "STE" /\ ~o.openEnded)
EmitOne(o, g, e) ==
  IF e.k = "DS" THEN
    \* expect_document_start (emitter.py:183-197): self.tag_prefixes = self.DEFAULT_TAG_PREFIXES.copy(), then the %TAGs
    LET r0 == IF Mutation = "keep_tag_prefixes" THEN (IF o.tp.ref = "none" THEN GlobalRef("DEFAULT_TAG_PREFIXES") ELSE o.tp)
              ELSE OwnRef(g.DEFAULT_TAG_PREFIXES)
        r1 == IF Mutation = "keep_tag_prefixes" /\ e.tags THEN OwnRef(g.DEFAULT_TAG_PREFIXES) ELSE r0
        w == IF e.tags THEN WriteRef(r1, g, EPrefix, "!e!") ELSE [r |-> r1, g |-> g]
    IN  [tp |-> w.r, g |-> w.g,       \* '...' first if the previous document is open ended and directives follow
         chunks |-> (IF o.openEnded /\ (e.ver \/ e.tags) THEN <<Marker>> ELSE <<>>) \o << <<"DS", e.ver, e.tags>> >>]
  ELSE IF e.k \in {"SC", "SQS"} THEN
    [tp |-> o.tp, g |-> g,
     chunks |-> << <<e.k, e.a, IF e.t = "ve" THEN (IF Has(Deref(o.tp, g), EPrefix) THEN "short" ELSE "verbatim")
                               ELSE IF e.t = "nu" THEN (IF o.au THEN "raw" ELSE "escaped") ELSE e.t>> >>]
  ELSE IF e.k = "STS" THEN [tp |-> o.tp, g |-> g, chunks |-> <<>>]
  ELSE IF e.k = "STE" THEN [tp |-> o.tp, g |-> g, chunks |-> IF o.openEnded THEN <<Marker>> ELSE <<>>]   \* expect_document_start on STREAM-END
  ELSE [tp |-> o.tp, g |-> g, chunks |-> << <<e.k, e.a>> >>]

\* SafeRepresenter has no representer for arbitrary objects; Representer (unsafe) represents them by reduction
ReprOutcome(cls, it) ==
  CASE it = "RE" -> IF cls = "unsafe" THEN "TypeError" ELSE "RepresenterError"
    [] it \in UserValItems \cup {"ve"} -> IF cls = "safe" THEN "RepresenterError" ELSE "ok"
    [] OTHER -> "ok"
ValIsCallback(cls, it) == cls = "user" /\ it \in UserValItems
Streams(o) == o.io = "file"

DInvocation(o) ==
  \/ o.pc = "pump" /\ ~NeedMore(o.evq) /\ ~ChunkEmpty(o, o.evq[1]) /\ o.be = "py" /\ Streams(o)
  \/ o.pc \in {"flush", "finalflush"} /\ Streams(o)
  \/ o.pc = "cwrite" /\ Streams(o)
  \/ o.pc = "represent" /\ o.ri < Len(Val(o.vals[o.d]).items) /\ ValIsCallback(o.cls, Val(o.vals[o.d]).items[o.ri + 1])

\* stream.write(chunks): the injected failure, or the data arrives
WriteTo(o, data, inj, nextpc) ==
  IF inj /\ Streams(o) THEN
     IF Mutation = "wrap_write_error" THEN Raise([o EXCEPT !.injected = IF o.injected = 0 THEN o.ninv + 1 ELSE o.injected, !.ninj = o.ninj + 1, !.ninv = o.ninv + 1], "EmitterError")
     ELSE Raise([o EXCEPT !.injected = IF o.injected = 0 THEN o.ninv + 1 ELSE o.injected, !.ninj = o.ninj + 1, !.ninv = o.ninv + 1], "INJ")
  ELSE [o EXCEPT !.written = @ \o data, !.ninv = IF Streams(o) THEN @ + 1 ELSE @, !.pc = nextpc]

\* an exception out of represent_data leaves through `finally: dumper.dispose()` only: Serializer.close() is NOT called on
\* the error path, so no STREAM-END is emitted after the failure (__init__.py:238-244)
ReprFails(o, x) == IF Mutation = "close_on_represent_error"        \* wrong: "end the stream properly", then re-raise
                   THEN [Raise(o, x) EXCEPT !.closed = "true", !.pend = <<Ev("STE", 0, "-")>>, !.pc = "emit", !.ret = "dispose"]
                   ELSE Raise(o, x)
MarksOnNodes(o) == Mutation = "marks_on_nodes" /\ Level(o.op) = 2      \* wrong: serializer bookkeeping kept on the caller's nodes

DStepCore(o, g, inj) ==
  LET same(o2) == [o |-> o2, g |-> g]
      lvl == Level(o.op)
  IN
  CASE o.pc = "unstarted" ->           \* dumper = Dumper(stream, ...)
         IF lvl = 1 THEN same([o EXCEPT !.pc = "emit", !.ret = "finish",
                                        !.pend = <<Ev("STS", 0, "-")>> \o UserEvents(o.vals, 1) \o <<Ev("STE", 0, "-")>>])
         ELSE same([o EXCEPT !.pc = "open"])
    [] o.pc = "open" ->                \* Serializer.open (serializer.py:26-33)
         same([o EXCEPT !.closed = "false", !.pend = <<Ev("STS", 0, "-")>>, !.pc = "emit", !.ret = "nextval"])
    [] o.pc = "nextval" ->
         IF o.d = Len(o.vals) THEN same([o EXCEPT !.pc = "close"])
         ELSE IF lvl = 3 THEN same([o EXCEPT !.d = @ + 1, !.ri = 0, !.rnodes = <<>>, !.pc = "represent"])
         ELSE same([o EXCEPT !.d = @ + 1, !.rnodes = NodesOf(o.vals[o.d + 1], Val(o.vals[o.d + 1]).items), !.pc = "serialize"])
    [] o.pc = "represent" ->           \* BaseRepresenter.represent_data for the next child (representer.py:33-63)
         LET items == Val(o.vals[o.d]).items IN
         IF o.ri = Len(items) THEN same([o EXCEPT !.pc = "serialize"])
         ELSE LET it == items[o.ri + 1]
                  o1 == [o EXCEPT !.ri = @ + 1]
              IN  IF ValIsCallback(o.cls, it) /\ inj THEN same(ReprFails([o1 EXCEPT !.injected = IF o.injected = 0 THEN o.ninv + 1 ELSE o.injected, !.ninj = o.ninj + 1, !.ninv = o.ninv + 1], "INJ"))
                  ELSE IF ReprOutcome(o.cls, it) # "ok" THEN same(ReprFails(o1, ReprOutcome(o.cls, it)))
                  ELSE same([o1 EXCEPT !.ninv = IF ValIsCallback(o.cls, it) THEN @ + 1 ELSE @,
                                       !.aliasKey = ObjOf(it),
                                       !.represented = IF Shared(it) THEN @ \cup {it} ELSE @,
                                       !.keeper = IF Shared(it) /\ it \notin o.represented THEN Append(@, it) ELSE @,
                                       !.rnodes = Append(@, [it |-> IF o.cls = "unsafe" /\ it \in UserValItems \cup {"ve"} THEN "s" ELSE it,
                                                             obj |-> ObjOf(it), id |-> NodeIdOf(ToString(o.d), ObjOf(it), o.ri + 1)])])
    [] o.pc = "serialize" ->           \* Serializer.serialize (serializer.py:46-58): anchor pass, then the events
         LET root == RootId(IF lvl = 3 THEN ToString(o.d) ELSE o.vals[o.d])
             anch0 == IF MarksOnNodes(o) THEN g.caller.anchors ELSE o.sanchors
             done0 == IF MarksOnNodes(o) THEN g.caller.serialized ELSE o.serialized
             ap == AnchorDoc(root, o.rnodes, anch0, o.lastAnchorId)
             done1 == done0 \cup {o.rnodes[j].id : j \in DOMAIN o.rnodes} \cup {root}
             o2 == [o EXCEPT !.lastAnchorId = ap.lastId,
                             !.pend = DocEvents(root, o.rnodes, ap.anch, done0, DocOpts(o, Val(o.vals[o.d]))),
                             !.pc = "emit", !.ret = "sreset"]
         IN  IF MarksOnNodes(o) THEN [o |-> o2, g |-> [g EXCEPT !.caller = [serialized |-> done1, anchors |-> ap.anch]]]
             ELSE same([o2 EXCEPT !.sanchors = ap.anch, !.serialized = done1])
    [] o.pc = "sreset" ->              \* serializer.py:56-58
         IF Mutation = "keep_serialized" /\ o.lastAnchorId = 0      \* wrong: "nothing to reset when no anchor was generated"
         THEN same([o EXCEPT !.pc = IF lvl = 3 THEN "rreset" ELSE "nextval"])
         ELSE IF MarksOnNodes(o)                                    \* the release walk after DOCUMENT-END (success path only)
         THEN [o |-> [o EXCEPT !.lastAnchorId = 0, !.pc = "nextval"], g |-> [g EXCEPT !.caller = Globals0.caller]]
         ELSE
         same([o EXCEPT !.serialized = {}, !.sanchors = EmptyDict,
                        !.lastAnchorId = IF Mutation = "keep_anchor_id" THEN @ ELSE 0,
                        !.pc = IF lvl = 3 THEN "rreset" ELSE "nextval"])
    [] o.pc = "rreset" ->              \* BaseRepresenter.represent (representer.py:26-31)
         same([o EXCEPT !.represented = {}, !.keeper = <<>>, !.aliasKey = "none", !.rnodes = <<>>, !.pc = "nextval"])
    [] o.pc = "close" ->               \* Serializer.close
         same([o EXCEPT !.closed = "true", !.pend = <<Ev("STE", 0, "-")>>, !.pc = "emit", !.ret = "finish"])
    [] o.pc = "emit" ->                \* Emitter.emit(event): self.events.append(event)
         IF o.pend = <<>> THEN same([o EXCEPT !.pc = o.ret])
         ELSE same([o EXCEPT !.evq = Append(@, Head(o.pend)), !.pend = Tail(@), !.pc = "pump"])
    [] o.pc = "pump" ->                \* while not self.need_more_events(): self.event = self.events.pop(0); self.state()
         IF NeedMore(o.evq) THEN same([o EXCEPT !.pc = "emit"])
         ELSE LET e == o.evq[1]
                  r == EmitOne(o, g, e)
                  o1 == [o EXCEPT !.evq = Tail(@), !.tp = r.tp, !.openEnded = OpenEndedAfter(o, e)]
                  after == IF e.k = "DE" THEN (IF o.be = "py" THEN "flush" ELSE "cwrite")
                           ELSE IF e.k = "STE" THEN (IF o.be = "py" THEN "flush" ELSE "cwrite") ELSE "pump"
              IN  IF r.chunks = <<>> THEN [o |-> [o1 EXCEPT !.pc = after], g |-> r.g]
                  ELSE IF o.be = "py" THEN [o |-> WriteTo(o1, r.chunks, inj, after), g |-> r.g]
                  ELSE [o |-> [o1 EXCEPT !.wbuf = @ \o r.chunks, !.pc = after], g |-> r.g]      \* libyaml buffers
    [] o.pc = "flush" ->               \* Emitter.flush_stream: stream.flush() if the stream has one
         IF inj /\ Streams(o) THEN same(Raise([o EXCEPT !.injected = IF o.injected = 0 THEN o.ninv + 1 ELSE o.injected, !.ninj = o.ninj + 1, !.ninv = o.ninv + 1], "INJ"))
         ELSE same([o EXCEPT !.flushes = @ + 1, !.ninv = IF Streams(o) THEN @ + 1 ELSE @, !.pc = "pump"])
    [] o.pc = "cwrite" ->              \* libyaml flushes its buffer through the write handler
         IF o.wbuf = <<>> THEN same([o EXCEPT !.pc = "pump"])
         ELSE same([WriteTo(o, o.wbuf, inj, "pump") EXCEPT !.wbuf = <<>>])
    [] o.pc = "finish" -> same([Deliver(o, <<"TEXT">>) EXCEPT !.pc = "dispose"])
    [] o.pc = "dispose" ->             \* `finally: dumper.dispose()` : Emitter.dispose (emitter.py:106-109)
         LET x == IF Mutation = "dispose_raises" /\ o.evq # <<>> /\ NeedMore(o.evq) THEN "EmitterError" ELSE o.exc
         IN  same([o EXCEPT !.disposed = TRUE, !.exc = x, !.end = IF x = "-" THEN "return" ELSE "raise:" \o x,
                            !.pc = IF Mutation = "flush_in_finally" /\ Streams(o) /\ lvl >= 2 THEN "finalflush" ELSE "done"])
    [] o.pc = "finalflush" ->          \* wrong variant only: `finally: dumper.dispose(); stream.flush()`
         LET o2 == IF inj THEN Raise([o EXCEPT !.injected = IF o.injected = 0 THEN o.ninv + 1 ELSE o.injected, !.ninj = o.ninj + 1,
                                               !.ninv = o.ninv + 1], "INJ")
                   ELSE [o EXCEPT !.ninv = @ + 1]
         IN  same([o2 EXCEPT !.pc = "done", !.end = IF o2.exc = "-" THEN "return" ELSE "raise:" \o o2.exc])
    [] OTHER -> same(o)

\* Serializer.serialize_node descends / ascends around every node (serializer.py:84-110)
DStepR(o, g, inj) ==
  IF ~(HasPaths(o.cls) /\ Level(o.op) >= 2) THEN DStepCore(o, g, inj)
  ELSE IF o.pc = "serialize" /\ RGet(o, g) # 0 THEN [o |-> Raise(o, "IndexError"), g |-> g]
  ELSE LET r == DStepCore(o, g, inj) IN
       IF o.pc = "serialize" THEN RSet(r.o, r.g, RGet(r.o, r.g) + 1)
       ELSE IF o.pc = "sreset" /\ RGet(r.o, r.g) > 0 THEN RSet(r.o, r.g, RGet(r.o, r.g) - 1)
       ELSE r

\* stream=None: the entry point creates its own io.StringIO and returns its value; nothing of it outlives the call
DStep(o, g, inj) ==
  LET r == DStepR(o, g, inj) IN
  IF Mutation = "shared_text_buffer" /\ o.io = "mem" /\ Level(o.op) >= 2 /\ o.pc = "dispose"     \* wrong: ONE module-level buffer,
  THEN LET total == r.g.text_buffer \o r.o.written                                                \* emptied when the text is returned
       IN  IF r.o.exc = "-" THEN [o |-> [r.o EXCEPT !.written = total], g |-> [r.g EXCEPT !.text_buffer = <<>>]]
           ELSE [o |-> r.o, g |-> [r.g EXCEPT !.text_buffer = total]]
  ELSE r

DActionName(o) ==
  CASE o.pc = "unstarted" -> "CreateDumper"
    [] o.pc = "open" -> "SerializerOpen"
    [] o.pc = "nextval" -> "NextDocument"
    [] o.pc = "represent" -> "RepresentData"
    [] o.pc = "serialize" -> "SerializeAnchorNodes"
    [] o.pc = "sreset" -> "SerializeReset"
    [] o.pc = "rreset" -> "RepresentReset"
    [] o.pc = "close" -> "SerializerClose"
    [] o.pc = "emit" -> "EmitterEmit"
    [] o.pc = "pump" -> IF ~NeedMore(o.evq) /\ o.evq[1].k = "DS" THEN "EmitDocumentStart" ELSE "EmitEvent"
    [] o.pc \in {"flush", "finalflush"} -> "Flush"
    [] o.pc = "cwrite" -> "LibyamlWrite"
    [] o.pc = "finish" -> "Finish"
    [] o.pc = "dispose" -> "Dispose"
    [] OTHER -> "Nothing"

-----------------------------------------------------------------------------
(***************************************************************************)
(* Running an object: the two step functions glued together                *)
(***************************************************************************)
HC == INSTANCE H_CallIndep
HF == INSTANCE H_FaultTransparency

IsInvocation(o) == IF o.kind = "loader" THEN LInvocation(o) ELSE DInvocation(o)
Step(o, g, inj) == IF o.kind = "loader" THEN LStep(o, g, inj) ELSE DStep(o, g, inj)
ActionName(o)   == IF o.kind = "loader" THEN LActionName(o) ELSE DActionName(o)
Stopped(o) == o.pc = "done" \/ o.yielded

\* run until the object delivers a unit (generators) or is done; the invocation with absolute index faultAt fails
RECURSIVE Run(_, _, _)
Run(o, g, faultAt) ==
  IF Stopped(o) THEN [o |-> o, g |-> g]
  ELSE LET r == Step(o, g, faultAt # 0 /\ (o.ninv + 1 = faultAt \/ (Persistent /\ o.ninv + 1 > faultAt)) /\ IsInvocation(o))
       IN  Run(r.o, r.g, faultAt)
\* iterate a generator object to the end, keeping everything it delivers
RECURSIVE Iterate(_, _)
Iterate(o, g) == LET r == Run([o EXCEPT !.yielded = FALSE], g, 0)
                 IN  IF r.o.pc = "done" THEN r ELSE Iterate(r.o, r.g)

\* generator.close() / garbage collection of a suspended generator: GeneratorExit at the yield, `finally` runs
Abandon(o) == IF o.pc \in {"unstarted", "done"} THEN [o EXCEPT !.pc = "done", !.yielded = FALSE, !.disposed = (o.pc = "done")]
              ELSE [Raise(o, "GeneratorExit") EXCEPT !.yielded = FALSE]

(***************************************************************************)
(* API steps.  step = [t, op, cls, be, io, arg, g, fault]                  *)
(***************************************************************************)
Seqs(S, n) == UNION {[1 .. m -> S] : m \in 1 .. n}
\* impl: the first document is written without "---" when it has no directives (an implicit document)
CONSTANT Impls
Sources(op) == {[docs |-> ds, impl |-> im] : ds \in Seqs(Docs, IF IsSingle(op) THEN MaxSingle ELSE MaxStream), im \in Impls}
ValArgs(op) == Seqs(Vals, IF IsSingle(op) THEN MaxSingle ELSE MaxStream)
LoaderClasses == Classes
DClasses == Classes \cap {"safe", "unsafe", "user"}     \* SafeDumper, Dumper, a user subclass of SafeDumper (C variants by Backends)

NewObj(s) == IF IsLoadOp(s.op) THEN NewLoader(s.op, s.cls, s.be, s.arg, s.io, IF s.t = "call" THEN "call" ELSE "gen")
             ELSE NewDumper(s.op, s.cls, s.be, s.arg, s.io)
MkStep(t, op, cls, be, io, arg, gi) == [t |-> t, op |-> op, cls |-> cls, be |-> be, io |-> io, arg |-> arg, g |-> gi, fault |-> 0]

\* what the caller of a complete call gets
CallResult(o) ==
  IF o.kind = "loader" THEN [units |-> IF o.exc = "-" THEN o.out ELSE <<>>, end |-> o.end]
  ELSE [units |-> IF o.io = "file" \/ o.exc = "-" THEN o.written ELSE <<>>, end |-> o.end]
\* what somebody who consumes the deliveries one by one gets (generators; the stream object of a dumper)
ObsResult(o) == [units |-> IF o.kind = "loader" THEN o.out ELSE SelectSeq(o.written, LAMBDA c : c # Marker), end |-> o.end]
\* the result of one next()
NextResult(o0, o1) ==
  [units |-> SubSeq(o1.out, Len(o0.out) + 1, Len(o1.out)),
   end |-> IF o1.yielded THEN "yield" ELSE IF o1.exc = "-" THEN "stop" ELSE o1.end]
Trivial == [units |-> <<>>, end |-> "return"]

\* ---- "in a fresh process": the same step taken from the initial state
FreshCall(s)  == CallResult(Run(NewObj(s), Globals0, 0).o)
FreshObs(s)   == ObsResult(Iterate(NewObj([s EXCEPT !.t = "open"]), Globals0).o)
FreshNext(s, k) == LET f == FreshObs(s)
                   IN  IF k <= Len(f.units) THEN [units |-> <<f.units[k]>>, end |-> "yield"]
                       ELSE [units |-> <<>>, end |-> IF f.end = "return" THEN "stop" ELSE f.end]
\* ---- "what each document gives on its own"
PartArg(s, j) == IF IsLoadOp(s.op) THEN [docs |-> <<s.arg.docs[j]>>, impl |-> (j = 1 /\ s.arg.impl)] ELSE <<s.arg[j]>>
NParts(s) == IF IsLoadOp(s.op) THEN Len(s.arg.docs) ELSE Len(s.arg)
\* per-call options of the dumpers come from the first value; a part keeps the options of the whole call
SameOpts(s, j) == \/ IsLoadOp(s.op)
                  \/ /\ Val(s.arg[j]).au = Val(s.arg[1]).au
                     /\ s.op = "emit" \/ (Val(s.arg[j]).tags = Val(s.arg[1]).tags /\ Val(s.arg[j]).ver = Val(s.arg[1]).ver)
WholeObs(s) == IF IsLoadOp(s.op) THEN FreshObs(s) ELSE ObsResult(Run(NewObj([s EXCEPT !.io = "file"]), Globals0, 0).o)
PartObs(s, j) == WholeObs([s EXCEPT !.arg = PartArg(s, j)])

\* C11, first sentence: the result of a step is the result of the same step in a fresh process
V_CallIndep(s, res, k) ==
  (s.fault = 0) =>
    CASE s.t = "call" -> HC!SameAsFresh(res, FreshCall(s))
      [] s.t = "next" -> HC!SameAsFresh(res, FreshNext(s, k))
      [] OTHER -> TRUE

\* C11, second sentence: a stream gives the list of what each document gives on its own (evaluated for the argument
\* of the last step; it does not depend on the state)
V_Documents(s) ==
  (s.t \in {"call", "open"} /\ ~IsSingle(s.op) /\ \A j \in 1 .. NParts(s) : SameOpts(s, j)) =>
    HC!StreamRule(WholeObs(s), [j \in 1 .. NParts(s) |-> PartObs(s, j)])

\* C19: the injected exception is the one that reaches the caller; what was written is a prefix of the fault-free output
V_FaultTransparency(s, res, o1) ==
  (s.fault > 0) =>
    /\ HF!PassedThrough(res.end, "raise:INJ")              \* the FIRST exception the environment raised
    /\ HF!ContentUnchanged(o1.excContent, "as raised")
    /\ o1.kind = "dumper" => HF!IsPrefix(o1.written, Run(NewObj(s), Globals0, 0).o.written)
\* an object is disposed when its call is over (try / finally in every entry point of __init__.py)
V_Lifetime(s, o1) == s.t \in {"call", "close"} => (o1.pc = "done" /\ (o1.disposed \/ s.t = "close"))
\* C19, last clause = H_CallIndep and H_Globals for the steps that follow a faulted one


(***************************************************************************)
(* Completion of an API step (shared by both specifications)               *)
(***************************************************************************)
Complete(s, gi, res, o1, g1, k) ==
  /\ globals' = g1
  /\ gens' = IF gi = 0 THEN gens
             ELSE IF gi > Len(gens) THEN Append(gens, [o |-> o1, n |-> 0, step |-> s])
             ELSE [gens EXCEPT ![gi] = [o |-> o1, n |-> k, step |-> @.step]]
  /\ last' = [t |-> s.t, faulted |-> s.fault > 0,
               callindep |-> V_CallIndep(s, res, k), documents |-> (nstep = 0 => V_Documents(s)),     \* state-independent: every argument occurs in a first step
               transparent |-> V_FaultTransparency(s, res, o1), lifetime |-> V_Lifetime(s, o1),
               quiet |-> (s.fault > 0 => o1.ninv = o1.injected)]     \* L: no invocation of caller-supplied code after the first failure
  /\ hist' = IF KeepHist THEN Append(hist, [step |-> s, res |-> res]) ELSE hist
  /\ nstep' = nstep + 1

CallSteps ==
  UNION {{MkStep("call", op, cls, be, io, src, 0) : cls \in LoaderClasses, be \in Backends, io \in IOs, src \in Sources(op)} : op \in LoadOps} \cup
  UNION {{MkStep("call", op, cls, be, io, a, 0) : cls \in DClasses, be \in Backends, io \in IOs, a \in ValArgs(op)} : op \in DumpOps}
OpenSteps ==
  UNION {{MkStep("open", op, cls, be, io, src, Len(gens) + 1) : cls \in LoaderClasses, be \in Backends, io \in IOs, src \in Sources(op)} : op \in GenOps}
Live(gi) == gens[gi].o.pc # "done"
FaultRange(o, g) == IF Faults THEN 0 .. (Run(o, g, 0).o.ninv - o.ninv) ELSE {0}

\* ---------------- macro-step specification: one action per API step
MCall == /\ nstep < MaxHist
         /\ \E s \in CallSteps : LET o0 == NewObj(s) IN \E f \in FaultRange(o0, globals) :
              LET r == Run(o0, globals, f)
              IN  Complete([s EXCEPT !.fault = r.o.injected], 0, CallResult(r.o), r.o, r.g, 0)
         /\ cur' = cur
MOpen == /\ nstep < MaxHist /\ Len(gens) < MaxGens
         /\ \E s \in OpenSteps : Complete(s, s.g, Trivial, NewObj(s), globals, 0)
         /\ cur' = cur
MNext == /\ nstep < MaxHist
         /\ \E gi \in DOMAIN gens : Live(gi) /\
              LET o0 == [gens[gi].o EXCEPT !.yielded = FALSE, !.injected = 0] IN \E f \in FaultRange(o0, globals) :
              LET r == Run(o0, globals, IF f = 0 THEN 0 ELSE o0.ninv + f)
                  s == [gens[gi].step EXCEPT !.t = "next", !.fault = IF r.o.injected = 0 THEN 0 ELSE r.o.injected - o0.ninv]
              IN  Complete(s, gi, NextResult(o0, r.o), r.o, r.g, gens[gi].n + 1)
         /\ cur' = cur
MClose == /\ nstep < MaxHist
          /\ \E gi \in DOMAIN gens : Live(gi) /\
               LET r == Run(Abandon(gens[gi].o), globals, 0)
               IN  Complete([gens[gi].step EXCEPT !.t = "close"], gi, Trivial, r.o, r.g, gens[gi].n)
          /\ cur' = cur
MacroNext == MCall \/ MOpen \/ MNext \/ MClose

\* ---------------- micro-step specification: one action per method
NoCur == [active |-> FALSE]
Begin(s, gi, o0, k) == /\ nstep < MaxHist /\ ~cur.active
                       /\ cur' = [active |-> TRUE, step |-> s, gi |-> gi, o0 |-> o0, o |-> o0, k |-> k, faulted |-> FALSE, act |-> "Begin"]
                       /\ UNCHANGED <<globals, gens, last, hist, nstep>>
BeginCall  == \E s \in CallSteps : Begin(s, 0, NewObj(s), 0)
BeginNext  == \E gi \in DOMAIN gens : Live(gi) /\
                Begin([gens[gi].step EXCEPT !.t = "next"], gi, [gens[gi].o EXCEPT !.yielded = FALSE, !.injected = 0], gens[gi].n + 1)
BeginClose == \E gi \in DOMAIN gens : Live(gi) /\
                Begin([gens[gi].step EXCEPT !.t = "close"], gi, Abandon(gens[gi].o), gens[gi].n)
Open       == /\ nstep < MaxHist /\ ~cur.active /\ Len(gens) < MaxGens
              /\ \E s \in OpenSteps : Complete(s, s.g, Trivial, NewObj(s), globals, 0)
              /\ cur' = cur
Method(names, inj) ==
  /\ cur.active /\ ~Stopped(cur.o) /\ ActionName(cur.o) \in names
  /\ inj => (Faults /\ (~cur.faulted \/ Persistent) /\ IsInvocation(cur.o) /\ cur.step.t # "close")
  /\ ~inj => ~(Persistent /\ cur.faulted /\ IsInvocation(cur.o))          \* a broken stream stays broken
  /\ LET r == Step(cur.o, globals, inj)
     IN  /\ cur' = [cur EXCEPT !.o = r.o, !.faulted = @ \/ inj, !.act = IF inj THEN "Fault" ELSE ActionName(cur.o)]
         /\ globals' = r.g
  /\ UNCHANGED <<gens, last, hist, nstep>>
Create                 == Method({"CreateLoader", "CreateDumper"}, FALSE)
Read                   == Method({"Read"}, FALSE)
ProcessDirectivesA     == Method({"ProcessDirectives"}, FALSE)
ImplicitDocumentStartA == Method({"ImplicitDocumentStart"}, FALSE)
DocumentBoundary       == Method({"DocumentBoundary", "DocumentEnd", "NextDocument"}, FALSE)
ParseComposeNode       == Method({"ParseComposeNode"}, FALSE)
ComposeDocumentReset   == Method({"ComposeDocumentReset"}, FALSE)
ConstructObject        == Method({"ConstructObject"}, FALSE)
DrainStateGenerators   == Method({"DrainStateGenerators"}, FALSE)
ConstructDocumentReset == Method({"ConstructDocumentReset"}, FALSE)
SerializerOpenClose    == Method({"SerializerOpen", "SerializerClose"}, FALSE)
RepresentData          == Method({"RepresentData"}, FALSE)
RepresentReset         == Method({"RepresentReset"}, FALSE)
SerializeAnchorNodes   == Method({"SerializeAnchorNodes"}, FALSE)
SerializeReset         == Method({"SerializeReset"}, FALSE)
EmitterEmit            == Method({"EmitterEmit"}, FALSE)
EmitDocumentStart      == Method({"EmitDocumentStart"}, FALSE)
EmitEvent              == Method({"EmitEvent"}, FALSE)
Flush                  == Method({"Flush"}, FALSE)
LibyamlWrite           == Method({"LibyamlWrite"}, FALSE)
Finish                 == Method({"Finish"}, FALSE)
Dispose                == Method({"Dispose"}, FALSE)
Fault                  == Method({"Read", "ConstructObject", "DrainStateGenerators", "RepresentData", "EmitDocumentStart",
                                  "EmitEvent", "Flush", "LibyamlWrite"}, TRUE)
Return == /\ cur.active /\ Stopped(cur.o)
          /\ LET s == [cur.step EXCEPT !.fault = IF cur.o.injected = 0 THEN 0 ELSE cur.o.injected - cur.o0.ninv]
                 res == CASE s.t = "call" -> CallResult(cur.o)
                          [] s.t = "next" -> NextResult(cur.o0, cur.o)
                          [] OTHER -> Trivial
             IN  Complete(s, cur.gi, res, cur.o, globals, cur.k)
          /\ cur' = NoCur
MicroNext == \/ BeginCall \/ BeginNext \/ BeginClose \/ Open \/ Return \/ Fault
             \/ Create \/ Read \/ ProcessDirectivesA \/ ImplicitDocumentStartA \/ DocumentBoundary \/ ParseComposeNode
             \/ ComposeDocumentReset \/ ConstructObject \/ DrainStateGenerators \/ ConstructDocumentReset
             \/ SerializerOpenClose \/ RepresentData \/ RepresentReset \/ SerializeAnchorNodes \/ SerializeReset
             \/ EmitterEmit \/ EmitDocumentStart \/ EmitEvent \/ Flush \/ LibyamlWrite \/ Finish \/ Dispose

Init == /\ globals = Globals0 /\ gens = <<>> /\ cur = NoCur /\ hist = <<>> /\ nstep = 0
        /\ last = [t |-> "init", faulted |-> FALSE, callindep |-> TRUE, documents |-> TRUE, transparent |-> TRUE, lifetime |-> TRUE,
                   quiet |-> TRUE]
SpecMacro == Init /\ [][MacroNext]_vars
SpecMicro == Init /\ [][MicroNext]_vars

-----------------------------------------------------------------------------
(***************************************************************************)
(* Properties                                                              *)
(***************************************************************************)
\* C11, first sentence: no call changes library-global state (also not in the middle of a call)
LibraryPart(g) == [k \in DOMAIN g \ {"caller"} |-> g[k]]
H_Globals == HC!GlobalsUnchanged(LibraryPart(globals), LibraryPart(Globals0))
\* C19 "as if the failed call had not happened" / C11: what the caller handed in is as it was
H_CallerObjects == globals.caller = Globals0.caller
GlobalsFrame == [][globals' = globals]_vars

\* L-level facts about object lifetime (__init__.py): an object is disposed when its call is over; whatever is still
\* alive is a suspended generator; nothing refers to a global dict for writing
H_CallIndep == last.callindep
H_Documents == last.documents
H_FaultTransparency == last.transparent
Lifetime ==
  /\ last.lifetime
  /\ \A gi \in DOMAIN gens : LET o == gens[gi].o IN
       \/ o.pc = "unstarted"
       \/ o.pc = "done"
       \/ (o.yielded /\ ~o.disposed)
  /\ cur.active => \A gi \in DOMAIN gens : gi # cur.gi => Stopped(gens[gi].o) \/ gens[gi].o.pc = "unstarted"
\* L-level fact (NOT part of H: the statement allows e.g. writes while the exception unwinds, as long as the output stays
\* a prefix): once an invocation of caller-supplied code has failed, the library makes no further invocation in that call.
\* It is what makes the failure pass "cleanly" in the unchanged code: with a PERSISTENT fault a later invocation would
\* fail too and its exception would replace the first one - that is how H_FaultTransparency sees such a change.
L_QuietUnwinding == last.quiet
\* per-document state is back to its initial value whenever a generator is suspended between two documents
PerDocumentReset ==
  \A gi \in DOMAIN gens : LET o == gens[gi].o IN
    (o.yielded /\ Level(o.op) >= 3) => (o.anchors = {} /\ o.constructed = <<>> /\ o.recursive = {} /\ o.sgens = <<>> /\ ~o.deep
                                        /\ o.rdepth = 0)

\* MBT: every idle state is a test case
Case == PrintT("CASE " \o ToString(hist))
=============================================================================
