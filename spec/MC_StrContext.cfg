SPECIFICATION Spec
CONSTANTS
  Alphabet = {45, 63, 58, 44, 91, 93, 123, 125, 35, 38, 42, 33, 124, 62, 39, 34, 37, 64, 96, 32, 9, 10, 120, 46, 126, 61, 60, 92, 2000001, 2000002}
  Third = {120}
  MaxLen = 3
  MinDepth = 0
  MaxDepth = 1
  Sibs = {"none", "after"}
  FlowOpts = {"T", "F", "N"}
  StyleOpts = {""}
  Variant = "tree"
  LongUnits = {}
  LongLens = {}
  D12Fixed = FALSE
INVARIANT PlainRoundTrip
INVARIANT BlockStyleInBlockContext
