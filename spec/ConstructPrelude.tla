--------------------------- MODULE ConstructPrelude ---------------------------
(***************************************************************************)
(* C01 / C04: the application customises PyYAML BEFORE it loads anything.  *)
(*                                                                         *)
(* A state is a history of customisation steps (every reachable state is   *)
(* one test case).  A step registers a constructor for a fresh tag "t<i>"  *)
(* (i = position of the step) through one of the public ways:              *)
(*   yobj      a YAMLObject subclass with yaml_tag; its yaml_loader is     *)
(*             left at the default, or names one loader class ("one"), or  *)
(*             a list of loader classes ("list")                           *)
(*   yobjsub   a subclass (own yaml_tag) of the YAMLObject class defined   *)
(*             in an EARLIER step "par"; it has no yaml_loader of its own  *)
(*             ("inherit") or names one class / a list, like yobj          *)
(*   ctor      L.add_constructor(tag, f)                                   *)
(*   multi     L.add_multi_constructor(prefix, f)                          *)
(*   modctor   yaml.add_constructor(tag, f[, Loader=L])                    *)
(*   modmulti  yaml.add_multi_constructor(prefix, f)                       *)
(*   subctor   class U(L): pass;  U.add_constructor(tag, f)                *)
(* or is a round of loads ("load": documents that carry the tags defined   *)
(* so far go through every entry point; later steps then meet whatever the *)
(* loads left behind).  Every ORDER of the steps is a different history:   *)
(* classes that opt in to a safe loader before / after classes that do     *)
(* not, registrations before / after loads.                                *)
(*                                                                         *)
(* H (want, req): who is meant to see a registration follows from the      *)
(* documented interface alone: the named class(es) - for a YAMLObject      *)
(* class the yaml_loader it names itself, else the one its base class      *)
(* names; without a name the                                               *)
(* documented default [Loader, FullLoader, UnsafeLoader]; a registration on *)
(* a user subclass is seen by no shipped class.  A confined loader class   *)
(* (the six safe/base classes of C01, the two full classes of C04) that    *)
(* the application did NOT register a tag on is held to the statements on  *)
(* documents that carry the tag: Safe rejects it, Base ignores it, Full    *)
(* does not run the registered code.  A class the application registered   *)
(* the tag on is no longer "the safe loader" for that tag: free.  What is  *)
(* demanded for the tag of step i depends on step i (and the classes it    *)
(* derives from) only - never on what was defined before or after it, nor  *)
(* on loads (OrderFree).                                                   *)
(*                                                                         *)
(* L (ltab, deflist): how __init__.py / constructor.py do it: the          *)
(* metaclass registers on every class of cls.yaml_loader (attribute lookup *)
(* along the MRO), which - when no class body on the way sets it - is the  *)
(* ONE list object                                                         *)
(* YAMLObject.yaml_loader shared by all such classes (deflist; no step     *)
(* writes to it); add_constructor writes to the named class's own table    *)
(* (copy-on-write, modelled in Registry.tla); the module-level helpers     *)
(* spell out the three default classes; a load writes to no table.         *)
(*                                                                         *)
(* TLC checks L = H on every history (PreludeRefines, DefaultFrozen); the  *)
(* harness replays every history in a forked child through the real        *)
(* classes, compares the live tables with ltab (drift) and loads documents *)
(* that carry each step's tag with every confined entry point under the    *)
(* instruments of C01/C04 - at every "load" step and at the end; the       *)
(* observations are judged by Trace_Confine with req.                      *)
(***************************************************************************)
EXTENDS Naturals, Sequences, FiniteSets, TLC

CONSTANTS MaxSteps,        \* length of a history
          Ops,             \* subset of {"yobj", "yobjsub", "ctor", "multi", "modctor", "modctorx", "modmulti", "subctor", "load"}
          Singles,         \* loader classes a step may name alone
          Lists,           \* loader-class lists a YAMLObject may name (as sets: the order of a list plays no role)
          SubBases         \* shipped classes the application subclasses

VARIABLES hist, deflist, ltab, want, req
vars == <<hist, deflist, ltab, want, req>>

Loaders == {"BaseLoader", "CBaseLoader", "SafeLoader", "CSafeLoader", "FullLoader", "CFullLoader",
            "UnsafeLoader", "CUnsafeLoader", "Loader", "CLoader"}
Confined == {"BaseLoader", "CBaseLoader", "SafeLoader", "CSafeLoader", "FullLoader", "CFullLoader"}
ClassOf(l) == CASE l \in {"BaseLoader", "CBaseLoader"} -> "Base" [] l \in {"SafeLoader", "CSafeLoader"} -> "Safe"
                [] l \in {"FullLoader", "CFullLoader"} -> "Full" [] OTHER -> "Unsafe"
Range(s) == {s[i] : i \in DOMAIN s}

\* the documented default of YAMLObject.yaml_loader and of add_constructor(..., Loader=None)
Default == <<"Loader", "FullLoader", "UnsafeLoader">>

Step(op, on, form, par) == [op |-> op, on |-> on, form |-> form, par |-> par]
IsYobj(s) == s.op \in {"yobj", "yobjsub"}
\* the steps possible after history h
Steps(h) ==
  (IF "yobj" \in Ops THEN {Step("yobj", {}, "default", 0)} \cup {Step("yobj", {l}, "one", 0) : l \in Singles}
                          \cup {Step("yobj", ls, "list", 0) : ls \in Lists} ELSE {})
  \cup (IF "yobjsub" \in Ops
        THEN UNION {{Step("yobjsub", {}, "inherit", j)} \cup {Step("yobjsub", {l}, "one", j) : l \in Singles}
                    \cup {Step("yobjsub", ls, "list", j) : ls \in Lists} : j \in {x \in DOMAIN h : IsYobj(h[x])}}
        ELSE {})
  \cup (IF "ctor" \in Ops THEN {Step("ctor", {l}, "one", 0) : l \in Singles} ELSE {})
  \cup (IF "multi" \in Ops THEN {Step("multi", {l}, "one", 0) : l \in Singles} ELSE {})
  \cup (IF "modctor" \in Ops THEN {Step("modctor", {}, "default", 0)} ELSE {})
  \cup (IF "modctorx" \in Ops THEN {Step("modctor", {l}, "one", 0) : l \in Singles} ELSE {})
  \cup (IF "modmulti" \in Ops THEN {Step("modmulti", {}, "default", 0)} ELSE {})
  \cup (IF "subctor" \in Ops THEN {Step("subctor", {l}, "one", 0) : l \in SubBases} ELSE {})
  \* a round of loads: only when there is a tag to load, never twice in a row, never as the last step (loads follow anyway)
  \cup (IF "load" \in Ops /\ h # <<>> /\ h[Len(h)].op # "load" /\ Len(h) + 1 < MaxSteps THEN {Step("load", {}, "-", 0)} ELSE {})

(***************************************************************************)
(* H                                                                       *)
(***************************************************************************)
\* the loader classes the YAMLObject class of step i names: its own yaml_loader, else what its base class names
RECURSIVE Named(_, _)
Named(h, i) == IF h[i].form = "inherit" THEN Named(h, h[i].par)
               ELSE IF h[i].form = "default" THEN Range(Default) ELSE h[i].on
Targets(h, i) == CASE h[i].op \in {"subctor", "load"} -> {}
                   [] IsYobj(h[i]) -> Named(h, i)
                   [] h[i].form = "default" -> Range(Default)
                   [] OTHER -> h[i].on
Want(h) == [l \in Loaders |-> {i \in DOMAIN h : l \in Targets(h, i)}]
\* what the statements demand of confined loader l on a document that carries the tag of step i (see H_Confinement.Sat)
Req(h) == [l \in Confined |-> [i \in DOMAIN h |->
             [free |-> i \in Want(h)[l], mustErr |-> ClassOf(l) = "Safe" /\ i \notin Want(h)[l]]]]

(***************************************************************************)
(* L                                                                       *)
(***************************************************************************)
Register(tab, ls, i) == [l \in Loaders |-> IF l \in ls THEN tab[l] \cup {i} ELSE tab[l]]
\* cls.yaml_loader as Python finds it: the class body's own value, else the base class's, else the list object d that
\* YAMLObject carries
RECURSIVE Attr(_, _, _)
Attr(h, d, i) == IF h[i].form = "inherit" THEN Attr(h, d, h[i].par)
                 ELSE IF h[i].form = "default" THEN Range(d) ELSE h[i].on
Do(s) ==
  LET i == Len(hist) + 1 IN
  /\ hist' = Append(hist, s)
  /\ deflist' = deflist                       \* nothing writes to the shared default list
  /\ ltab' = CASE IsYobj(s) ->                \* YAMLObjectMetaclass.__init__: for loader in cls.yaml_loader (a list) / the one class
                    Register(ltab, Attr(hist', deflist, i), i)
               [] s.op \in {"ctor", "multi"} -> Register(ltab, s.on, i)
               [] s.op \in {"modctor", "modmulti"} ->   \* __init__.py add_constructor: Loader is None -> the three classes, spelt out
                    Register(ltab, IF s.form = "default" THEN {"Loader", "FullLoader", "UnsafeLoader"} ELSE s.on, i)
               [] OTHER -> ltab               \* subctor: the user class gets its own copy of the inherited table; load: reads only
  /\ want' = Want(hist')
  /\ req' = Req(hist')

Init == /\ hist = <<>> /\ deflist = Default
        /\ ltab = [l \in Loaders |-> {}] /\ want = Want(<<>>) /\ req = Req(<<>>)
Next == Len(hist) < MaxSteps /\ \E s \in Steps(hist) : Do(s)
Spec == Init /\ [][Next]_vars

PreludeRefines == ltab = want
DefaultFrozen == deflist = Default
\* H does not depend on the order of definition: the demand for the tag of step i is the demand in the history that consists
\* of step i and the chain of classes it derives from alone
RECURSIVE Chain(_, _)
Chain(h, i) == IF h[i].op = "yobjsub" THEN Append(Chain(h, h[i].par), [h[i] EXCEPT !.par = Len(Chain(h, h[i].par))])
               ELSE <<h[i]>>
OrderFree == \A l \in Confined : \A i \in DOMAIN hist :
               LET c == Chain(hist, i) IN req[l][i] = Req(c)[l][Len(c)]
\* negative control (must be violated): some history makes a confined class free for some tag, i.e. opting in exists
NoOptIn == \A l \in Confined : \A i \in DOMAIN hist : ~req[l][i].free
=============================================================================
