SPECIFICATION Spec
INVARIANT Verdict
