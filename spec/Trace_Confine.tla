---------------------------- MODULE Trace_Confine ----------------------------
(***************************************************************************)
(* Judgement of observations of the real loaders against H of C01 / C04.   *)
(* One record per DISTINCT (requirement, observation) pair seen by the     *)
(* harness:  [c, mustErr, undisp, free, st, ex, ty, eff]; free: the        *)
(* application itself registered the tag on this class (ConstructPrelude:  *)
(* req.free), nothing is demanded; undisp: every                           *)
(* offending node is one the constructor model never dispatches on - the   *)
(* named case class of the known finding "structural-use".  The            *)
(* requirement is rebuilt                                                  *)
(* here from the class and the mustErr flag (computed by Construct.tla for *)
(* generated documents, by TagClass below for corpus documents).           *)
(***************************************************************************)
EXTENDS Naturals, Sequences, FiniteSets, TLC, Json, IOUtils, H_Confinement

Traces == JsonDeserialize(IOEnv.TRACE_FILE)
VARIABLE tid
Range(s) == {s[i] : i \in DOMAIN s}

Judge(t) ==
  LET r == [mustErr |-> t.mustErr, okTypes |-> OkTypes(t.c), okEff |-> OkEff(t.c), yamlOnly |-> YamlOnly(t.c), free |-> t.free]
      o == [st |-> t.st, ex |-> t.ex, ty |-> Range(t.ty), eff |-> Range(t.eff)]
  IN  IF Sat(o, r) THEN [ok |-> TRUE, why |-> "-"]
      ELSE IF t.undisp /\ Sat(o, [r EXCEPT !.mustErr = FALSE]) THEN [ok |-> FALSE, why |-> "not rejected (undispatched)"]
      ELSE [ok |-> FALSE, why |-> (CASE ~(o.eff \subseteq r.okEff) -> "effect"
                                     [] o.st = "ok" /\ ~(o.ty \subseteq r.okTypes) -> "type"
                                     [] o.st = "ok" /\ r.mustErr -> "not rejected"
                                     [] o.st = "crash" -> "non-YAML exception"
                                     [] OTHER -> "wrong error class")]

Init == tid \in 1 .. Len(Traces)
Next == FALSE /\ tid' = tid
Spec == Init /\ [][Next]_tid
Verdict == LET r == Judge(Traces[tid]) IN PrintT(<<"VERDICT", tid, r.ok, r.why, 0>>)
=============================================================================
