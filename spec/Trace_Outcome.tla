---------------------------- MODULE Trace_Outcome ----------------------------
(***************************************************************************)
(* H of C03 (H_YamlErrorOnly) as a judgement of recorded observations:     *)
(* one record per call of yaml.scan / yaml.parse / yaml.compose_all on one *)
(* input in one delivery form with one back-end.                           *)
(*                                                                         *)
(*   "Scanning, parsing or composing any input terminates and either       *)
(*    yields its result or raises an exception derived from YAMLError; it  *)
(*    never raises another exception type, never crashes the interpreter   *)
(*    and never hangs.  A marked error carries positions that lie inside   *)
(*    the input."                                                          *)
(*                                                                         *)
(* record:                                                                 *)
(*   outcome  "ok" | "yamlerror" | "exception" | "recursion" | "hang" |    *)
(*            "died"                                                       *)
(*            (hang = no result within the watchdog limit, twice;          *)
(*             died = the worker process was killed by a signal, twice;    *)
(*             recursion = RecursionError)                                 *)
(*   entry, backend, nest, reclimit   (outcome "recursion" only, else      *)
(*            "-", "-", 0, 0)  the entry point ("scan" | "parse" |         *)
(*            "compose_all"), the back-end ("py" | "c"), an upper bound of *)
(*            the nesting depth of the input (the number of its [ { - ? :  *)
(*            characters: every collection that contains a node is opened  *)
(*            by one) and the interpreter's recursion limit                *)
(*   lenc     length of the input in characters (-1: not decodable)        *)
(*   lenb     length of the input in bytes (= lenc for str input)          *)
(*   marks    << [i, l, c] >> marks carried by a marked YAML error         *)
(*   rpos     position carried by a ReaderError, -1 if none                *)
(*   runit    "b" when that position counts bytes (decode error), else "c" *)
(*   exact    TRUE when the marks count characters and line/column must    *)
(*            equal Pos(input, index) (pure-Python back-end); FALSE:       *)
(*            range only (LibYAML; the statement only says "inside")       *)
(*   breaks   indices at which a line starts (first is 0), ascending       *)
(*   boms     indices of zero-width U+FEFF characters                      *)
(* Pos is the one of Trace_Tokens / Trace_Events: lines are counted by     *)
(* breaks up to the index, columns are characters since the last break     *)
(* with U+FEFF as zero width.                                              *)
(*                                                                         *)
(*   "(Nesting deeper than the interpreter recursion limit is out of scope *)
(*    for the pure-Python composer.)"                                      *)
(* A RecursionError is a non-YAML exception like any other, except where   *)
(* this sentence applies: raised by compose of the pure-Python back-end on *)
(* an input that may be nested so deeply that the composer's recursion     *)
(* (two frames per level: compose_node, compose_sequence_node /            *)
(* compose_mapping_node) can reach the limit.  FramesPerLevel = 4 leaves a *)
(* margin of a factor two for the frames below the call, so H is weaker,   *)
(* never stronger, than the statement.  Scanner and parser are iterative:  *)
(* a RecursionError from scan or parse, from the LibYAML back-end, or on   *)
(* an input without that many collection indicators (a long run of tabs,   *)
(* spaces, line breaks, digits ...) is a violation.                        *)
(***************************************************************************)
EXTENDS Integers, Sequences, FiniteSets, TLC, Json, IOUtils

Traces == JsonDeserialize(IOEnv.TRACE_FILE)
VARIABLE tid

LineOf(t, pos) == Cardinality({j \in DOMAIN t.breaks : t.breaks[j] <= pos}) - 1
ColOf(t, pos)  == LET ls == t.breaks[LineOf(t, pos) + 1]
                  IN  (pos - ls) - Cardinality({j \in DOMAIN t.boms : ls <= t.boms[j] /\ t.boms[j] < pos})
Bound(t) == IF t.lenc > t.lenb THEN t.lenc ELSE t.lenb

MarkOk(t, m) == IF t.exact THEN 0 <= m.i /\ m.i <= t.lenc /\ m.l = LineOf(t, m.i) /\ m.c = ColOf(t, m.i)
                ELSE 0 <= m.i /\ m.i <= Bound(t) /\ 0 <= m.l /\ m.l <= Bound(t) /\ 0 <= m.c /\ m.c <= Bound(t)

FramesPerLevel == 4
NestingOutOfScope(t) == t.backend = "py" /\ t.entry = "compose_all" /\ FramesPerLevel * t.nest >= t.reclimit

Judge(t) ==
  IF t.outcome = "hang" THEN [ok |-> FALSE, why |-> "hang"]
  ELSE IF t.outcome = "recursion" THEN (IF NestingOutOfScope(t) THEN [ok |-> TRUE, why |-> "-"]
                                        ELSE [ok |-> FALSE, why |-> "RecursionError below the nesting limit"])
  ELSE IF t.outcome = "died" THEN [ok |-> FALSE, why |-> "interpreter crash"]
  ELSE IF t.outcome = "exception" THEN [ok |-> FALSE, why |-> "non-YAML exception"]
  ELSE IF t.outcome \notin {"ok", "yamlerror"} THEN [ok |-> FALSE, why |-> "unknown outcome"]
  ELSE IF t.outcome = "ok" /\ (t.marks # <<>> \/ t.rpos # -1) THEN [ok |-> FALSE, why |-> "malformed record"]
  ELSE IF \E j \in DOMAIN t.marks : ~MarkOk(t, t.marks[j]) THEN [ok |-> FALSE, why |-> "error mark"]
  ELSE IF t.rpos # -1 /\ ~(0 <= t.rpos /\ t.rpos <= (IF t.runit = "b" THEN t.lenb ELSE Bound(t)))
       THEN [ok |-> FALSE, why |-> "reader error position"]
  ELSE [ok |-> TRUE, why |-> "-"]

Init == tid \in 1 .. Len(Traces)
Next == FALSE /\ tid' = tid
Spec == Init /\ [][Next]_tid
Verdict == LET r == Judge(Traces[tid]) IN PrintT(<<"VERDICT", tid, r.ok, r.why, 0>>)
=============================================================================
