-------------------------------- MODULE Work --------------------------------
(***************************************************************************)
(* C20, load side.  L: a COST MODEL of the mechanisms of reader.py,        *)
(* scanner.py and the per-token work of parser/composer/constructor that   *)
(* could make loading superlinear.  Every primitive of the code that is    *)
(* not O(1) is charged with its length:                                    *)
(*                                                                         *)
(*   reader   update(): buffer[pointer:] copy = remaining length; every    *)
(*            refill `buffer += data` = new length; decode + printable     *)
(*            check = Block; prefix(l) slice = l; forward(l) loop = l      *)
(*   keys     stale_possible_simple_keys: list(table) + loop = 2*|table|;  *)
(*            next_possible_simple_key: loop = |table|                     *)
(*   queue    tokens.append = 1; tokens.insert(i, x) = 1 + len - i;        *)
(*            tokens.pop(0) = len                                          *)
(*   build    chunks.append = 1; the final ''.join(chunks) = sum of chunk  *)
(*            lengths, charged chunk by chunk                              *)
(*   parse    parser + composer + constructor: KParse per token taken      *)
(*            (none of them looks at more than the head of the queue);     *)
(*            composer anchors dict: 1 per anchor, 1 per alias (the        *)
(*            aliased node is returned, not copied and not walked)         *)
(*   call     one unit per call of peek / prefix / forward / update /      *)
(*            fetch_* / need_more_tokens / stale / save / remove ...       *)
(*            (this is what sys.setprofile can see)                        *)
(*                                                                         *)
(* The input is NOT fixed in Init: the next character class is chosen by   *)
(* the environment (action Choose) only when the scanner first peeks at    *)
(* it, and the scanner configuration is kept RELATIVE (token numbers       *)
(* relative to tokens_taken, key age = index - key.index saturated at      *)
(* MaxKey+1, "same line" as a flag, column saturated at MaxCol), so the    *)
(* configuration space is FINITE and TLC covers every input of every       *)
(* length over the alphabet (configuration Exact = FALSE), with flow depth *)
(* <= MaxFlow, block collections opened at columns < MaxCol and unbroken   *)
(* runs (plain / quoted / space / anchor-name runs) <= MaxRun.             *)
(*                                                                         *)
(* Linearity for ALL those inputs is the conjunction of                    *)
(*   StepCost : every action costs at most CStep[x] per mechanism x, CMax  *)
(*              in total (which holds because of the structural invariants *)
(*              QueueBound, KeysBound, BufferBound), and                   *)
(*   Progress : the number of actions is at most SPC per consumed          *)
(*              character + FuelCap  (variable fuel: SPC units are         *)
(*              deposited per character forwarded, every action spends 1,  *)
(*              the account is capped at FuelCap and never negative),      *)
(* hence  work <= CMax * (SPC * consumed + FuelCap).  With Exact = TRUE    *)
(* the raw counters are carried and TLC checks the literal statement       *)
(*   work[x] <= ALin[x] * consumed + BLin[x]   per mechanism and in total  *)
(* for every input of at most MaxLen characters.                           *)
(*                                                                         *)
(* Scaled constants: Block = 4 (4096 in reader.py), MaxKey = 4 (1024 in    *)
(* scanner.py).  Variant # "code" are deliberately superlinear designs     *)
(* used as negative controls (MC_Work_negctl.cfg: structural invariants,  *)
(* MC_Work_cost.cfg: cost invariants only; with Variant # "code" they MUST *)
(* fail - harness/props/c20.py runs them in every check as vacuity guard). *)
(*                                                                         *)
(* Alphabet (one symbol per class the cost depends on):                    *)
(*   w word character      s space            n line break                 *)
(*   h '#'                 [ ] ,  flow indicators ('{' '}' cost the same)   *)
(*   : '-'  indicators (need a following blank in block context)           *)
(*   q single quote        a '&' anchor indicator     r '*' alias indicator *)
(*   Q double quote        e backslash (an escape inside double quotes)    *)
(*   x the 'x' of a \xXX escape (a word character everywhere else)         *)
(*   k '?' key indicator (needs a following blank in block context)        *)
(*   t '!' tag indicator; inside a tag also the end of the handle          *)
(*   p '%': at column 0 a directive (names are word characters, so unknown *)
(*     directives only), inside a tag a URI escape (two hex digits follow) *)
(*   d '---', z '...' at column 0 (one symbol, charged 3); elsewhere word   *)
(*   b '|' or '>' block scalar indicator (block context)                    *)
(*   i an indentation digit in a block scalar header ('1'); c '+', and     *)
(*     '-' there, the chomping indicator                                   *)
(*   0 the NUL the reader appends at end of stream                         *)
(*                                                                         *)
(* Loops of the scanner and the action (pc value) that is ONE iteration of *)
(* each (design_parts/C20.md lists them with their character classes; the  *)
(* size-parameterised families of the binding are the CYCLES of this       *)
(* finite transition system, see WorkPump.tla):                            *)
(*   scan_to_next_token: spaces / comment / breaks     tonext, comment     *)
(*   fetch_more_tokens dispatch, unwind_indent         fetch               *)
(*   scan_plain run, scan_plain_spaces, its break loop plain, pspaces,     *)
(*                                                     pbreaks             *)
(*   scan_flow_scalar_non_spaces / _spaces / _breaks   quoted, qend,       *)
(*     and the escapes of a double-quoted scalar       qspaces, qbreaks,   *)
(*                                                     qesc, qhex          *)
(*   scan_anchor name                                  anchor              *)
(*   scan_block_scalar: indicators, ignored line (+    bhead, bignore,     *)
(*     comment), indentation detection, breaks, the    bcomment, bindent,  *)
(*     line loop, the line run                         bbreaks, bcheck,    *)
(*                                                     bline               *)
(*   scan_tag: the search for the handle, scan_tag_   tag0, tagrun        *)
(*     handle, scan_tag_uri, scan_uri_escapes (each character is charged   *)
(*     all three passes when it is first looked at)                        *)
(*   scan_directive: name, rest of the line            dirname, dirskip    *)
(*   check_token / get_token: need_more_tokens         idle                *)
(*                                                                         *)
(* Runs.  With str input (Stream = FALSE) an unbroken run may have ANY     *)
(* length: once a run counter has reached MaxRun a further character of    *)
(* the run is accounted as if it were forwarded at once (operator Absorb:  *)
(* its share of the later prefix / forward / join is charged now, the run  *)
(* counter stays), which is exact for everything the scanner looks at      *)
(* outside the run (key age, column, index).  Only with Stream = TRUE,     *)
(* where the buffer has to hold the whole run, runs longer than MaxRun are *)
(* outside the bound (pc = "out").                                         *)
(***************************************************************************)
EXTENDS Integers, Sequences, FiniteSets, TLC

CONSTANTS Block,     \* characters per stream read (reader.py: 4096)
          MaxKey,    \* simple-key length limit (scanner.py: 1024)
          MaxFlow,   \* bound: flow nesting depth
          MaxCol,    \* bound: columns are saturated here (block nesting depth <= MaxCol + 1)
          MaxRun,    \* bound: longest unbroken run the scanner peeks over before it forwards
          MaxLen,    \* Exact only: input length
          Stream,    \* BOOLEAN: the input is a stream read Block characters at a time; FALSE: a str (reader.py:72-75,
                     \* raw_buffer is None, the whole text is the buffer, update() returns at once)
          Exact,     \* BOOLEAN: carry work / consumed (bounded by MaxLen); FALSE: finite abstraction, any length
          Variant,   \* "code" | "nokeylimit" | "nobuftrim" | "concat" | "anchorlist" | "aliaswalk"
          Sym        \* alphabet the environment chooses from (without "0")

Mech == {"call", "reader", "keys", "queue", "build", "parse"}
Z == [x \in Mech |-> 0]
Total(f) == f["call"] + f["reader"] + f["keys"] + f["queue"] + f["build"] + f["parse"]

(* derived bounds - the constants of the linearity statement *)
KParse  == 3                                  \* parser / composer / constructor units per token
QMax    == MaxKey + MaxCol + 6                \* len(tokens)
KMax    == IF MaxFlow + 1 < MaxKey + 2 THEN MaxFlow + 1 ELSE MaxKey + 2    \* len(possible_simple_keys)
BufMax  == 2 * Block + MaxRun + 3             \* len(buffer): determine_encoding has one block in raw_buffer already
                                              \* when the first update() reads another
CStep == [x \in Mech |-> CASE x = "call"   -> 30 + 4 * MaxCol         \* cost of ONE action, per mechanism
                           [] x = "reader" -> 4 * BufMax + 2 * Block + 4 * MaxRun
                           [] x = "keys"   -> 9 * KMax + 2
                           [] x = "queue"  -> 2 * QMax + MaxCol + 4
                           [] x = "build"  -> 2 * (MaxRun + 2)
                           [] x = "parse"  -> KParse + 1]
CMax    == CStep["call"] + CStep["reader"] + CStep["keys"] + CStep["queue"] + CStep["build"] + CStep["parse"]
SPC     == 8                                  \* actions per consumed character
FuelCap == 8 * (QMax + MaxCol + 4)            \* pending obligations: queued tokens, open block collections
ALin == [x \in Mech |-> CASE x = "call"   -> 30
                          [] x = "reader" -> 6 + (2 * BufMax) \div Block + 2
                          [] x = "keys"   -> 12 * KMax + 6
                          [] x = "queue"  -> 4 * (QMax + 2)
                          [] x = "build"  -> 4
                          [] x = "parse"  -> 4 * KParse + 1]
BLin == [x \in Mech |-> CASE x = "call"   -> 60 + 10 * MaxCol
                          [] x = "reader" -> 4 * BufMax + 8
                          [] x = "keys"   -> 40 * KMax + 10
                          [] x = "queue"  -> (QMax + 2) * (MaxCol + 6)
                          [] x = "build"  -> 4
                          [] x = "parse"  -> KParse * (MaxCol + 6)]

VARIABLES m,         \* reader + scanner configuration; inside an action also c = its cost so far, fw = characters
                     \* it forwarded; m.la = characters already chosen by the environment and not yet forwarded
                     \* (the known part of buffer[pointer:]); m.ok = the last action cost at most CStep[x] for every mechanism x
          fuel,      \* Progress account
          work,      \* Exact: accumulated cost per mechanism
          consumed   \* Exact: reader index
vars == <<m, fuel, work, consumed>>

Min2(a, b) == IF a < b THEN a ELSE b
Last(s)  == s[Len(s)]
Front(s) == SubSeq(s, 1, Len(s) - 1)
Blank    == {"s", "n", "0"}
FlowInd  == {",", "[", "]"}
PlainStop == FlowInd \cup {"k"}              \* in flow context these end a plain run

NoKey == [on |-> FALSE, tn |-> 0, dist |-> 0, same |-> FALSE, req |-> FALSE, col |-> 0]
Levels == 0 .. MaxFlow

Terminal == {"done", "error", "out"}
Charge(r, x, k) == [r EXCEPT !.c[x] = @ + k]
Call(r)  == Charge(r, "call", 1)
Err(r)   == [r EXCEPT !.pc = "error"]
Out(r)   == [r EXCEPT !.pc = "out"]
Goto(r, p) == IF r.pc \in Terminal THEN r ELSE [r EXCEPT !.pc = p]
Ok(r)    == r.pc \notin Terminal
At(r, i) == r.la[i]                            \* i-th character from the pointer (1-based) seen from inside an action

(***************************************************************************)
(* reader.py                                                               *)
(***************************************************************************)
Blocks(avail, length) == IF avail >= length THEN 0 ELSE ((length - avail) + Block - 1) \div Block

\* update(length): self.buffer = self.buffer[self.pointer:]; pointer = 0; while len(buffer) < length: read, decode, +=
Update(r, length) ==
  IF r.eof THEN Call(r)                        \* raw_buffer is None: returns at once
  ELSE LET trim  == Variant # "nobuftrim"      \* the negative control keeps the consumed prefix
           keep  == IF trim THEN r.blen - r.ptr ELSE r.blen
           p2    == IF trim THEN 0 ELSE r.ptr
           pre   == IF r.pre THEN Block ELSE 0                         \* raw_buffer filled by determine_encoding
           k0    == Blocks(keep - p2 + pre, length)
           k     == IF r.pre /\ k0 = 0 THEN 1 ELSE k0                   \* the first update always reads
           copy  == (IF trim THEN keep ELSE 0)                         \* the slice
                    + k * (keep + pre) + Block * ((k * (k + 1)) \div 2) \* buffer += data, k times
                    + k * Block + pre                                   \* decode + check_printable of each block
       IN  Charge(Charge([r EXCEPT !.blen = keep + pre + k * Block, !.ptr = p2, !.pre = FALSE], "reader", copy),
                  "call", 1 + 3 * k)

Peek(r, i) ==                                  \* peek(i), i = 0 is the character under the pointer
  LET r1 == IF Stream /\ r.ptr + i >= r.blen THEN Update(r, i + 1) ELSE r
  IN  Call([r1 EXCEPT !.eof = @ \/ At(r, i + 1) = "0"])

Prefix(r, l) ==
  LET r1 == IF Stream /\ r.ptr + l >= r.blen THEN Update(r, l) ELSE r
  IN  Charge(Call(r1), "reader", l)

AdvKey(k, l, brk) == IF ~k.on THEN k
                     ELSE [k EXCEPT !.dist = Min2(MaxKey + 1, @ + l), !.same = @ /\ ~brk]

Forward(r, l) ==                               \* forward(l): l iterations; index, line, column move
  LET r1   == IF Stream /\ r.ptr + l + 1 >= r.blen THEN Update(r, l + 1) ELSE r
      syms == SubSeq(r.la, 1, l)
      brks == {i \in 1 .. l : syms[i] = "n"}
      brk  == brks # {}
      lastb == IF brk THEN CHOOSE i \in brks : \A j \in brks : j <= i ELSE 0
      ncol == IF brk THEN Min2(MaxCol, l - lastb) ELSE Min2(MaxCol, r.col + l)
  IN  Charge(Call([r1 EXCEPT !.ptr = IF Stream THEN @ + l ELSE 0, !.fw = @ + l, !.col = ncol, !.la = SubSeq(@, l + 1, Len(@)),
                             !.keys = [lv \in Levels |-> AdvKey(@[lv], l, brk)]]), "reader", l)

\* A run counter (rl / sl) is at MaxRun and the character at offset i (1-based) belongs to the run too.
Absorb(r, i) ==
  Charge(Charge([r EXCEPT !.la = SubSeq(@, 1, i - 1) \o SubSeq(@, i + 1, Len(@)), !.fw = @ + 1,
                         !.col = Min2(MaxCol, @ + 1),
                         !.keys = [lv \in Levels |-> AdvKey(@[lv], 1, FALSE)]], "reader", 2), "build", 1)
RunFull(r, i) == IF Stream THEN Out(r) ELSE Absorb(r, i)

(***************************************************************************)
(* scanner.py: simple keys, indentation, token queue                       *)
(***************************************************************************)
KeysOn(r) == {lv \in Levels : r.keys[lv].on}
IsStale(k) == k.on /\ (~k.same \/ (Variant # "nokeylimit" /\ k.dist > MaxKey))

StaleKeys(r) ==                                \* stale_possible_simple_keys
  LET n  == Cardinality(KeysOn(r))
      r1 == Charge(Call(r), "keys", 2 * n)
  IN  IF \E lv \in KeysOn(r) : IsStale(r.keys[lv]) /\ r.keys[lv].req THEN Err(r1)
      ELSE [r1 EXCEPT !.keys = [lv \in Levels |-> IF IsStale(@[lv]) THEN NoKey ELSE @[lv]]]

NextKeyIsHead(r) == \E lv \in KeysOn(r) : r.keys[lv].tn = 0       \* next_possible_simple_key() == tokens_taken

RemoveKey(r) ==                                \* remove_possible_simple_key
  IF ~Ok(r) THEN r
  ELSE IF r.keys[r.flow].on /\ r.keys[r.flow].req THEN Err(Call(r))
  ELSE Call([r EXCEPT !.keys[r.flow] = NoKey])

SaveKey(r) ==                                  \* save_possible_simple_key
  IF ~Ok(r) THEN r
  ELSE IF ~r.allow THEN Call(r)
  ELSE LET r1 == RemoveKey(r)
       IN  IF ~Ok(r1) THEN r1
           ELSE Charge([r1 EXCEPT !.keys[r.flow] = [on |-> TRUE, tn |-> r.qlen, dist |-> 0, same |-> TRUE,
                                                     req |-> (r.flow = 0 /\ r.indent = r.col),
                                                     col |-> IF r.flow = 0 THEN r.col ELSE 0]],   \* key.column is used in block context only
                       "call", 2)               \* + get_mark

AppendTok(r) == Charge([r EXCEPT !.qlen = @ + 1], "queue", 1)
InsertTok(r, pos) == Charge([r EXCEPT !.qlen = @ + 1], "queue", 1 + r.qlen - pos)

RECURSIVE Unwind(_, _)
Unwind(r, column) ==                           \* unwind_indent
  IF r.flow = 0 /\ r.indent > column
  THEN Unwind(Call(AppendTok([r EXCEPT !.indent = Last(r.indents), !.indents = Front(r.indents)])), column)
  ELSE r

AddIndent(r, column) ==                        \* add_indent + the token it makes the caller add (at = queue position or -1)
  IF r.indent < column THEN [r EXCEPT !.indents = Append(@, r.indent), !.indent = column] ELSE r
Added(r, column) == r.indent < column

\* Variant "aliaswalk" only: the size (in tokens) of the node that follows the last anchor - a scalar, or a flow collection
\* up to its closing bracket - is what a per-alias walk of the aliased subtree would cost.
Track(r) == IF Variant # "aliaswalk" \/ ~r.atrack THEN r
            ELSE IF r.flow <= r.aflow THEN [r EXCEPT !.atrack = FALSE, !.asz = r.acnt + 1, !.acnt = 0]
            ELSE [r EXCEPT !.acnt = @ + 1]
TokenDone(r) == Goto(AppendTok(Track(r)), "idle")     \* self.tokens.append(...); back in `while need_more_tokens()`

(***************************************************************************)
(* the parser side: check_token / peek_token / get_token                   *)
(***************************************************************************)
Checks == 3                                    \* need_more_tokens runs about three times per token taken
ParserPull(r) ==
  IF r.done /\ r.qlen = 0 THEN Goto(r, "done")
  ELSE IF ~r.done /\ r.qlen = 0 THEN Goto(Charge(r, "call", 2), "tonext")          \* need_more_tokens: not self.tokens
  ELSE LET r1 == IF r.done THEN Call(r) ELSE StaleKeys(Call(r))
       IN  IF ~Ok(r1) THEN r1
           ELSE LET n == Cardinality(KeysOn(r1))
                    r2 == IF r.done THEN r1 ELSE Charge(Call(r1), "keys", n)          \* next_possible_simple_key
                IN  IF ~r.done /\ NextKeyIsHead(r2) THEN Goto(Call(r2), "tonext")     \* fetch_more_tokens
                    ELSE \* the same test Checks times, then tokens.pop(0), then the parser's own work
                         LET kc == (Checks - 1) * (r2.c["keys"])
                         IN  Charge(Charge(Charge(
                               [r2 EXCEPT !.qlen = @ - 1,
                                          !.keys = [lv \in Levels |-> IF @[lv].on THEN [@[lv] EXCEPT !.tn = @ - 1] ELSE @[lv]]],
                               "keys", kc), "queue", r2.qlen), "parse", KParse)

(***************************************************************************)
(* scan_to_next_token                                                      *)
(***************************************************************************)
LineBreak(r) ==                                \* scan_line_break on a break: peek, prefix(2), forward
  Forward(Prefix(Peek(r, 0), 2), 1)

ToNext(r) ==
  LET c == At(r, 1) IN
  CASE c = "s" -> Forward(Peek(r, 0), 1)
    [] c = "h" -> Goto(Charge(Peek(r, 0), "call", 1), "comment")
    [] c = "n" -> LET r1 == LineBreak(Charge(Peek(r, 0), "call", 2))
                  IN  [r1 EXCEPT !.allow = @ \/ r.flow = 0]
    [] OTHER   -> Goto(Charge(Peek(r, 0), "call", 3), "fetch")

Comment(r) ==
  IF At(r, 1) \in {"n", "0"} THEN Goto(Peek(r, 0), "tonext") ELSE Forward(Peek(r, 0), 1)

(***************************************************************************)
(* fetch_more_tokens after scan_to_next_token: stale, unwind, dispatch     *)
(***************************************************************************)
StartScalar(r, p) == [Goto(r, p) EXCEPT !.rl = 0, !.sl = 0, !.vlen = 0]

FetchStreamEnd(r) ==
  LET r1 == RemoveKey(Unwind(r, -1))
  IN  IF ~Ok(r1) THEN r1
      ELSE TokenDone(Call([r1 EXCEPT !.allow = FALSE, !.keys = [lv \in Levels |-> NoKey], !.done = TRUE]))

FetchDocumentStart(r) ==                       \* '---': check_document_start = prefix(3) + peek(3); forward(3)
  LET r1 == RemoveKey(Unwind(Charge(Prefix(r, 1), "reader", 2), -1))
  IN  IF ~Ok(r1) THEN r1
      ELSE TokenDone(Charge(Forward([r1 EXCEPT !.allow = FALSE, !.nanch = 0, !.atrack = FALSE, !.asz = 0, !.acnt = 0], 1), "reader", 2))

FetchFlowStart(r) ==
  IF r.flow = MaxFlow THEN Out(r)
  ELSE LET r1 == SaveKey(r)
       IN  IF ~Ok(r1) THEN r1 ELSE TokenDone(Forward([r1 EXCEPT !.flow = @ + 1, !.allow = TRUE], 1))

FetchFlowEnd(r) ==
  IF r.flow = 0 THEN Err(r)                    \* the parser rejects the unmatched ']' as soon as it is taken
  ELSE LET r1 == RemoveKey(r)
       IN  IF ~Ok(r1) THEN r1 ELSE TokenDone(Forward([r1 EXCEPT !.flow = @ - 1, !.allow = FALSE], 1))

FetchFlowEntry(r) ==
  IF r.flow = 0 THEN Err(r)                    \* same: ',' in block context is a parser error
  ELSE LET r1 == RemoveKey([r EXCEPT !.allow = TRUE])
       IN  IF ~Ok(r1) THEN r1 ELSE TokenDone(Forward(r1, 1))

FetchBlockEntry(r) ==
  IF r.flow > 0 THEN Err(r)                    \* parser error
  ELSE IF ~r.allow THEN Err(r)                 \* "sequence entries are not allowed here"
  ELSE LET r1 == IF Added(r, r.col) THEN AppendTok(AddIndent(r, r.col)) ELSE r
           r2 == RemoveKey([r1 EXCEPT !.allow = TRUE])
       IN  IF ~Ok(r2) THEN r2 ELSE TokenDone(Forward(r2, 1))

FetchValue(r) ==
  LET k == r.keys[r.flow] IN
  IF k.on
  THEN LET r1 == InsertTok([r EXCEPT !.keys[r.flow] = NoKey], k.tn)                    \* KEY before the key's first token
           r2 == IF r.flow = 0 /\ Added(r1, k.col) THEN InsertTok(AddIndent(r1, k.col), k.tn) ELSE r1
       IN  TokenDone(Forward([r2 EXCEPT !.allow = FALSE], 1))
  ELSE IF r.flow = 0 /\ ~r.allow THEN Err(r)    \* "mapping values are not allowed here"
  ELSE LET r1 == IF r.flow = 0 /\ Added(r, r.col) THEN AppendTok(AddIndent(r, r.col)) ELSE r
           r2 == RemoveKey([r1 EXCEPT !.allow = (r.flow = 0)])
       IN  IF ~Ok(r2) THEN r2 ELSE TokenDone(Forward(r2, 1))

FetchKey(r) ==                                 \* fetch_key: '?'
  IF r.flow = 0 /\ ~r.allow THEN Err(r)        \* "mapping keys are not allowed here"
  ELSE LET r1 == IF r.flow = 0 /\ Added(r, r.col) THEN AppendTok(AddIndent(r, r.col)) ELSE r
           r2 == RemoveKey([r1 EXCEPT !.allow = (r.flow = 0)])
       IN  IF ~Ok(r2) THEN r2 ELSE TokenDone(Forward(r2, 1))

FetchAnchor(r) ==
  LET r1 == SaveKey(r) IN IF ~Ok(r1) THEN r1 ELSE StartScalar(Forward([r1 EXCEPT !.allow = FALSE, !.isal = FALSE], 1), "anchor")
FetchAlias(r) ==                               \* same scanner path: scan_anchor(AliasToken)
  LET r1 == SaveKey(r) IN IF ~Ok(r1) THEN r1 ELSE StartScalar(Forward([r1 EXCEPT !.allow = FALSE, !.isal = TRUE], 1), "anchor")
FetchQuoted(r, double) ==
  LET r1 == SaveKey(r) IN IF ~Ok(r1) THEN r1
                          ELSE StartScalar(Forward(Peek([r1 EXCEPT !.allow = FALSE, !.dq = double], 0), 1), "quoted")
FetchPlain(r) ==
  LET r1 == SaveKey(r) IN IF ~Ok(r1) THEN r1 ELSE StartScalar(Call([r1 EXCEPT !.allow = FALSE]), "plain")

FetchTag(r) ==                                 \* fetch_tag; scan_tag: get_mark, peek(1)
  LET r1 == SaveKey(r) IN IF ~Ok(r1) THEN r1
                          ELSE [Goto(Charge([r1 EXCEPT !.allow = FALSE], "call", 2), "tag0") EXCEPT !.rl = 0, !.sl = 0, !.th = 0]

FetchDirective(r) ==                           \* fetch_directive; scan_directive: get_mark, forward
  LET r1 == RemoveKey(Unwind(r, -1))
  IN  IF ~Ok(r1) THEN r1
      ELSE [Goto(Forward(Charge([r1 EXCEPT !.allow = FALSE], "call", 3), 1), "dirname") EXCEPT !.rl = 0]

MinIndent(r) == IF r.indent + 1 < 1 THEN 1 ELSE r.indent + 1
FetchBlock(r) ==                               \* fetch_block_scalar; scan_block_scalar: get_mark, forward
  IF r.flow > 0 THEN Err(r)                    \* '|' starts no token in flow context
  ELSE LET r1 == RemoveKey([r EXCEPT !.allow = TRUE])
       IN  IF ~Ok(r1) THEN r1
           ELSE [Goto(Forward(Charge(r1, "call", 2), 1), "bhead") EXCEPT !.bh = 0, !.bi = 0, !.rl = 0, !.sl = 0, !.vlen = 0]

Fetch(r0) ==
  LET r1 == StaleKeys(r0) IN
  IF ~Ok(r1) THEN r1
  ELSE LET r == Peek(Unwind(r1, r1.col), 0)
           c == At(r, 1)
           nb == IF c \in {":", "-", "k"} THEN At(r, 2) \in Blank ELSE FALSE
       IN  CASE c = "0" -> FetchStreamEnd(r)
             [] c \in {"d", "z"} /\ r.col = 0 -> FetchDocumentStart(r)          \* fetch_document_indicator for both
             [] c = "[" -> FetchFlowStart(Call(r))
             [] c = "]" -> FetchFlowEnd(Call(r))
             [] c = "," -> FetchFlowEntry(Call(r))
             [] c = "-" /\ nb -> FetchBlockEntry(Peek(r, 1))
             [] c = "k" /\ (r.flow > 0 \/ nb) -> FetchKey(IF r.flow > 0 THEN Call(r) ELSE Peek(r, 1))
             [] c = ":" /\ (r.flow > 0 \/ nb) -> FetchValue(IF r.flow > 0 THEN Call(r) ELSE Peek(r, 1))
             [] c = "p" -> IF r.col = 0 THEN FetchDirective(Call(r)) ELSE Err(r)     \* '%' starts no other token
             [] c = "t" -> FetchTag(Call(r))
             [] c = "b" -> FetchBlock(Call(r))
             [] c = "a" -> FetchAnchor(Call(r))
             [] c = "r" -> FetchAlias(Call(r))
             [] c \in {"q", "Q"} -> FetchQuoted(Call(r), c = "Q")
             [] OTHER   -> FetchPlain(IF c \in {":", "-", "k"} THEN Peek(Peek(r, 0), 1) ELSE Peek(r, 0))   \* check_plain

(***************************************************************************)
(* string building: chunks.append(...) and the final join                  *)
(***************************************************************************)
\* a chunk of l characters: one append, and l character copies in ''.join(chunks).
\* Variant "concat" re-joins what it has so far at every chunk (value = value + chunk).
Chunk(r, l) ==
  IF Variant = "concat" THEN Charge([r EXCEPT !.vlen = @ + l], "build", 1 + r.vlen + l)
  ELSE Charge(r, "build", 1 + l)

ScalarDone(r) == TokenDone(Charge(r, "call", 2))         \* join, ScalarToken(...), tokens.append

(***************************************************************************)
(* scan_plain, scan_plain_spaces                                           *)
(***************************************************************************)
PlainEnds(r, i) ==                             \* does the character at run offset i end the run?
  LET c == At(r, i) IN
  \/ c \in Blank
  \/ r.flow > 0 /\ c \in PlainStop
  \/ c = ":" /\ (At(r, i + 1) \in Blank \/ (r.flow > 0 /\ At(r, i + 1) \in FlowInd))

ScanPlain(r) ==
  LET i == r.rl + 1
      c == At(r, i)
      pk == IF c = ":" THEN Peek(Peek(r, i - 1), i) ELSE Peek(r, i - 1)
  IN  IF r.rl = 0 /\ c = "h" THEN ScalarDone(Peek(r, 0))                         \* a comment ends the scalar
      ELSE IF ~PlainEnds(r, i) THEN (IF r.rl = MaxRun THEN RunFull(pk, i) ELSE [pk EXCEPT !.rl = @ + 1, !.la[i] = "w"])
      ELSE IF r.rl = 0 THEN ScalarDone(pk)                                          \* length == 0: break
      ELSE \* chunks.extend(spaces); chunks.append(prefix(length)); forward(length); get_mark
           [Goto(Call(Forward(Chunk(Prefix(pk, r.rl), r.rl), r.rl)), "pspaces") EXCEPT !.rl = 0, !.sl = 0, !.allow = FALSE]

ScanPlainSpaces(r) ==
  LET c == At(r, r.sl + 1) IN
  IF c = "s" THEN (IF r.sl = MaxRun THEN RunFull(Peek(r, r.sl), r.sl + 1) ELSE [Peek(r, r.sl) EXCEPT !.sl = @ + 1])
  ELSE LET r1 == Peek(Forward(Prefix(Peek(r, r.sl), r.sl), r.sl), 0) IN
       IF c = "n"
       THEN \* scan_line_break, allow_simple_key = True, prefix(3) test for a document separator
            [Goto(Prefix(LineBreak(r1), 3), "pbreaks") EXCEPT !.allow = TRUE, !.sl = 0]
       ELSE IF r.sl > 0 /\ c # "h" THEN [Goto(Chunk(r1, r.sl), "plain") EXCEPT !.sl = 0]   \* spaces = [whitespaces]
       ELSE ScalarDone(r1)                                                             \* not spaces, or a comment

ScanPlainBreaks(r) ==                          \* the `while self.peek() in ' \r\n...'` loop of scan_plain_spaces
  LET c == At(r, 1) IN
  CASE c = "s" -> Forward(Peek(r, 0), 1)
    [] c = "n" -> Prefix(LineBreak(Chunk(Peek(r, 0), 1)), 3)
    [] OTHER   -> LET r1 == Chunk(Charge(Peek(r, 0), "call", 1), 1)                  \* ' ' or the breaks
                  IN  IF (c \in {"d", "z"} /\ r.col = 0) \/ c = "h" \/ c = "0" \/ (r.flow = 0 /\ r.col < r.indent + 1)
                      THEN ScalarDone(r1)
                      ELSE Goto(r1, "plain")

(***************************************************************************)
(* scan_flow_scalar (single-quoted)                                        *)
(***************************************************************************)
ScanQuoted(r) ==                               \* scan_flow_scalar_non_spaces: the length loop
  LET c == At(r, r.rl + 1) IN
  IF c \notin {"q", "Q", "e", "s", "n", "0"} THEN (IF r.rl = MaxRun THEN RunFull(Peek(r, r.rl), r.rl + 1)
                                          ELSE [Peek(r, r.rl) EXCEPT !.rl = @ + 1, !.la[r.rl + 1] = "w"])
  ELSE LET r1 == Peek(r, r.rl)
           r2 == IF r.rl > 0 THEN Forward(Chunk(Prefix(r1, r.rl), r.rl), r.rl) ELSE r1
       IN  [Goto(r2, "qend") EXCEPT !.rl = 0]

ScanQuotedEnd(r) ==
  LET c == At(r, 1) IN
  CASE c = "q" /\ ~r.dq -> IF At(r, 2) = "q" THEN Goto(Forward(Chunk(Peek(Peek(r, 0), 1), 1), 2), "quoted")      \* ''
                           ELSE ScalarDone(Forward(Peek(Peek(Peek(r, 0), 1), 0), 1))                              \* closing quote
    [] c = "Q" /\ r.dq  -> ScalarDone(Forward(Peek(Peek(Peek(r, 0), 0), 0), 1))                                  \* closing quote
    [] c = "e" /\ r.dq  -> Goto(Forward(Peek(Peek(r, 0), 0), 1), "qesc")                                         \* an escape
    [] c \in {"q", "Q", "e"} -> Goto(Forward(Chunk(Peek(r, 0), 1), 1), "quoted")        \* the other quote / a backslash: one character
    [] c = "0" -> Err(Peek(r, 0))                                                    \* unexpected end of stream
    [] OTHER   -> [Goto(Charge(Peek(r, 0), "call", 2), "qspaces") EXCEPT !.sl = 0]

ScanQuotedSpaces(r) ==
  LET c == At(r, r.sl + 1) IN
  IF c = "s" THEN (IF r.sl = MaxRun THEN RunFull(Peek(r, r.sl), r.sl + 1) ELSE [Peek(r, r.sl) EXCEPT !.sl = @ + 1])
  ELSE LET r1 == Peek(Forward(Prefix(Peek(r, r.sl), r.sl), r.sl), 0) IN
       CASE c = "0" -> Err(r1)
         [] c = "n" -> [Goto(Chunk(LineBreak(r1), 1), "qbreaks") EXCEPT !.sl = 0]
         [] OTHER   -> [Goto(Chunk(r1, r.sl), "quoted") EXCEPT !.sl = 0]

ScanQuotedEsc(r) ==                            \* after the backslash of a double-quoted scalar
  LET c == At(r, 1) IN
  CASE c = "x" -> Goto(Forward(Peek(r, 0), 1), "qhex")                               \* ESCAPE_CODES: digits follow
    [] c = "n" -> [Goto(Chunk(LineBreak(Peek(r, 0)), 1), "qbreaks") EXCEPT !.sl = 0]  \* escaped line break
    [] c \in {"w", "s", "e", "Q"} -> Goto(Forward(Chunk(Peek(r, 0), 1), 1), "quoted")    \* ESCAPE_REPLACEMENTS
    [] OTHER   -> Err(Peek(r, 0))                                                    \* unknown escape character

ScanQuotedHex(r) ==                            \* \xXX: peek(k) for each digit, prefix, forward
  IF At(r, 1) = "w" /\ At(r, 2) = "w" THEN Goto(Forward(Chunk(Prefix(Peek(Peek(r, 0), 1), 2), 1), 2), "quoted")
  ELSE Err(Peek(r, 0))

ScanQuotedBreaks(r) ==                         \* scan_flow_scalar_breaks
  LET c == At(r, 1)
      r1 == Peek(Prefix(r, 3), 0) IN
  CASE c \in {"d", "z"} /\ r.col = 0 -> Err(r1)                                      \* document separator
    [] c = "s" -> Forward(r1, 1)
    [] c = "n" -> Chunk(LineBreak(r1), 1)
    [] OTHER   -> Goto(r1, "quoted")

(***************************************************************************)
(* scan_anchor, and the composer's anchors table                           *)
(***************************************************************************)
ScanAnchor(r) ==
  LET c == At(r, r.rl + 1) IN
  IF c = "w" THEN (IF r.rl = MaxRun THEN RunFull(Peek(r, r.rl), r.rl + 1) ELSE [Peek(r, r.rl) EXCEPT !.rl = @ + 1])
  ELSE IF r.rl = 0 \/ c \notin (Blank \cup {":", ",", "]", "k"}) THEN Err(Peek(r, r.rl))
  ELSE LET r1 == Peek(Forward(Prefix(Peek(r, r.rl), r.rl), r.rl), 0)
           \* composer: `anchor in self.anchors`, self.anchors[anchor] = node - a dict; the variant scans a list
           look == IF Variant = "anchorlist" THEN 1 + r.nanch ELSE 1
           \* composer, alias: `self.anchors[anchor]`, one dict lookup, the node is shared, never walked; the variant
           \* walks the aliased subtree for every alias (a size / expansion guard without a memo)
           walk == IF Variant = "aliaswalk" THEN 1 + r.asz ELSE 1
       IN  IF r.isal THEN TokenDone(Charge([r1 EXCEPT !.rl = 0], "parse", walk))
           ELSE LET r2 == TokenDone(Charge([r1 EXCEPT !.rl = 0, !.nanch = IF Variant = "anchorlist" THEN @ + 1 ELSE @],
                                           "parse", look))
                IN  IF Variant = "aliaswalk" THEN [r2 EXCEPT !.atrack = TRUE, !.aflow = r2.flow, !.acnt = 0] ELSE r2

(***************************************************************************)
(* scan_tag (handle search, scan_tag_handle, scan_tag_uri, scan_uri_       *)
(* escapes).  The code passes over the characters of a tag up to three     *)
(* times before it forwards; here a character is charged all passes and    *)
(* its share of prefix / forward / join when it is first looked at and is  *)
(* accounted as forwarded at once (exact outside the tag, like Absorb).    *)
(*   th: 0 only handle characters so far, 1 no handle possible any more,   *)
(*       2 handle complete and suffix empty, 3 suffix not empty            *)
(*   sl: hex digits still owed to a '%' escape                             *)
(***************************************************************************)
TagChar(r) == IF Stream /\ r.rl = MaxRun THEN Out(r)
              ELSE [Forward(Charge(Charge(Charge(Peek(r, 0), "call", 2), "reader", 1), "build", 1), 1) EXCEPT !.rl = IF Stream THEN @ + 1 ELSE 0]
UriPunct == {":", ",", "k", "[", "]", "a", "r", "q"}

ScanTag0(r) ==                                 \* '!' and its successor
  IF At(r, 2) \in Blank THEN TokenDone(Charge(Forward(Peek(r, 1), 1), "call", 3))                   \* the tag '!'
  ELSE Goto(Forward(Peek(r, 1), 1), "tagrun")

ScanTagRun(r) ==
  LET c == At(r, 1) IN
  IF r.sl > 0 THEN (IF c = "w" THEN [TagChar(r) EXCEPT !.sl = @ - 1] ELSE Err(Peek(r, 0)))         \* "expected URI escape sequence"
  ELSE CASE c \in {"w", "-"} -> [TagChar(r) EXCEPT !.th = IF @ = 2 THEN 3 ELSE @]
         [] c = "t" -> IF r.th = 0 THEN [Charge(TagChar(r), "call", 3) EXCEPT !.th = 2]                 \* end of the handle
                       ELSE IF r.th = 1 THEN Err(Peek(r, 0))                                            \* scan_tag_handle: "expected '!'"
                       ELSE [TagChar(r) EXCEPT !.th = 3]                                                \* a URI character of the suffix
         [] c = "p" -> [Charge(TagChar(r), "call", 8) EXCEPT !.sl = 2, !.th = IF @ < 2 THEN 1 ELSE 3]    \* scan_uri_escapes
         [] c \in UriPunct -> [TagChar(r) EXCEPT !.th = IF @ < 2 THEN 1 ELSE 3]
         [] c \in Blank -> IF r.th = 2 THEN Err(Peek(r, 0))                                             \* "expected URI"
                           ELSE [TokenDone(Charge(Peek(r, 0), "call", 4)) EXCEPT !.rl = 0]
         [] OTHER -> Err(Peek(r, 0))                                                                   \* "expected ' '"

(***************************************************************************)
(* scan_directive (unknown names): name, the rest of the line, line break  *)
(***************************************************************************)
ScanDirName(r) ==
  LET c == At(r, r.rl + 1) IN
  IF c = "w" THEN (IF r.rl = MaxRun THEN RunFull(Peek(r, r.rl), r.rl + 1) ELSE [Peek(r, r.rl) EXCEPT !.rl = @ + 1])
  ELSE IF r.rl = 0 \/ c \notin Blank THEN Err(Peek(r, r.rl))                        \* "expected alphabetic or numeric character"
  ELSE [Goto(Charge(Peek(Forward(Prefix(Peek(r, r.rl), r.rl), r.rl), 0), "call", 2), "dirskip") EXCEPT !.rl = 0]

ScanDirSkip(r) ==                              \* `while self.peek() not in breaks: self.forward()`, ignored line, line break
  LET c == At(r, 1) IN
  CASE c = "n" -> TokenDone(LineBreak(Charge(Peek(r, 0), "call", 5)))
    [] c = "0" -> TokenDone(Charge(Peek(r, 0), "call", 5))
    [] OTHER   -> Forward(Peek(r, 0), 1)

(***************************************************************************)
(* scan_block_scalar                                                       *)
(*   bh: header indicators seen (1 = chomping, 2 = indentation digit),     *)
(*   bi: the scalar's indentation (0 = to be detected), sl = max_indent of *)
(*   scan_block_scalar_indentation, rl = the run inside one line           *)
(***************************************************************************)
BlockHead(r) ==                                \* scan_block_scalar_indicators, one indicator per action
  LET c  == At(r, 1)
      r1 == Peek(r, 0) IN
  CASE c \in {"-", "c"} /\ r.bh \in {0, 2} -> [Forward(r1, 1) EXCEPT !.bh = r.bh + 1]
    [] c = "i" /\ r.bh \in {0, 1} -> [Forward(r1, 1) EXCEPT !.bh = r.bh + 2, !.bi = MinIndent(r)]      \* increment 1
    [] c \in Blank -> Goto(r1, "bignore")
    [] OTHER -> Err(r1)                         \* "expected chomping or indentation indicators"

AfterHeader(r) == IF r.bi > 0 THEN Goto(r, "bbreaks") ELSE [Goto(r, "bindent") EXCEPT !.sl = 0]

BlockIgnore(r) ==                              \* scan_block_scalar_ignored_line
  LET c == At(r, 1) IN
  CASE c = "s" -> Forward(Peek(r, 0), 1)
    [] c = "h" -> Goto(Charge(Peek(r, 0), "call", 1), "bcomment")
    [] c = "n" -> AfterHeader(LineBreak(Charge(Peek(r, 0), "call", 3)))
    [] c = "0" -> AfterHeader(Charge(Peek(r, 0), "call", 4))
    [] OTHER   -> Err(Peek(r, 0))               \* "expected a comment or a line break"

BlockComment(r) ==
  IF At(r, 1) \in {"n", "0"} THEN Goto(Peek(r, 0), "bignore") ELSE Forward(Peek(r, 0), 1)

BlockIndent(r) ==                              \* scan_block_scalar_indentation: one character per iteration
  LET c == At(r, 1) IN
  CASE c = "s" -> IF r.col + 1 >= MaxCol THEN Out(r)               \* bound: leading blank lines shorter than MaxCol
                  ELSE LET r1 == Forward(Peek(Peek(r, 0), 0), 1) IN [r1 EXCEPT !.sl = IF r1.col > @ THEN r1.col ELSE @]
    [] c = "n" -> Chunk(LineBreak(Charge(Peek(Peek(r, 0), 0), "call", 1)), 1)
    [] OTHER   -> [Goto(Peek(r, 0), "bcheck") EXCEPT !.bi = IF MinIndent(r) > r.sl THEN MinIndent(r) ELSE r.sl, !.sl = 0]

BlockBreaks(r) ==                              \* scan_block_scalar_breaks(indent)
  LET c == At(r, 1) IN
  CASE c = "s" /\ r.col < r.bi -> Forward(Peek(r, 0), 1)
    [] c = "n" -> Chunk(LineBreak(Charge(Peek(Peek(r, 0), 0), "call", 1)), 1)
    [] OTHER   -> Goto(Peek(Peek(r, 0), 0), "bcheck")

BlockCheck(r) ==                               \* `while self.column == indent and self.peek() != NUL`, folding peeks
  IF r.col = r.bi /\ At(r, 1) # "0"
  THEN [Goto(Chunk(Charge(Peek(Peek(Peek(r, 0), 0), 0), "call", 2), 1), "bline") EXCEPT !.rl = 0]
  ELSE ScalarDone(Charge(Peek(r, 0), "build", 2))                  \* chomping: line_break, breaks

BlockLine(r) ==                                \* the length loop of one line, prefix, forward, scan_line_break
  LET c == At(r, r.rl + 1) IN
  IF c \notin {"n", "0"} THEN (IF r.rl = MaxRun THEN RunFull(Peek(r, r.rl), r.rl + 1)
                                ELSE [Peek(r, r.rl) EXCEPT !.rl = @ + 1, !.la[r.rl + 1] = "w"])
  ELSE LET r1 == Forward(Chunk(Prefix(Peek(r, r.rl), r.rl), r.rl), r.rl)
           r2 == IF c = "n" THEN LineBreak(r1) ELSE Peek(r1, 0)
       IN  [Goto(Charge(r2, "call", 1), "bbreaks") EXCEPT !.rl = 0]

(***************************************************************************)
(* the machine                                                             *)
(***************************************************************************)
la == m.la
Want ==                                        \* how many characters from the pointer the next action looks at
  CASE m.pc \in {"tonext", "comment", "pbreaks", "qbreaks", "bhead", "bignore", "bcomment", "bindent", "bbreaks", "bcheck", "qesc", "tagrun", "dirskip"} -> 1
    [] m.pc = "fetch"   -> IF Len(la) >= 1 /\ la[1] \in {":", "-", "k"} THEN 2 ELSE 1
    [] m.pc \in {"qhex", "tag0"} -> 2
    [] m.pc = "plain"   -> IF Len(la) >= m.rl + 1 /\ la[m.rl + 1] = ":" THEN m.rl + 2 ELSE m.rl + 1
    [] m.pc \in {"pspaces", "qspaces"} -> m.sl + 1
    [] m.pc \in {"quoted", "anchor", "bline", "dirname"} -> m.rl + 1
    [] m.pc = "qend"    -> IF Len(la) >= 1 /\ la[1] = "q" /\ ~m.dq THEN 2 ELSE 1
    [] OTHER -> 0

\* Characters that the waiting action treats alike AND forwards without looking at them again are one class:
\* inside a comment everything but a break, inside quotes everything but quote / space / break, inside a plain run
\* everything that cannot end it (the flow indicators can, in flow context; ':' can, depending on its successor).
Classes ==
  CASE m.pc \in {"comment", "bcomment", "bline", "dirskip"} -> {"w", "n"}
    [] m.pc = "dirname" -> {"w", "s", "n", ":"}
    [] m.pc \in {"tag0", "tagrun"} -> Sym \ {"d", "z", "i", "c", "x"}
    [] m.pc = "bhead"   -> {"-", "c", "i", "s", "h", "n", "w"}
    [] m.pc = "bignore" -> {"s", "h", "n", "w"}
    [] m.pc \in {"quoted", "qspaces"} -> {"w", "q", "Q", "e", "s", "n"}
    [] m.pc = "qesc" -> {"w", "s", "e", "Q", "x", "n", "q"}
    [] m.pc = "qhex" -> {"w", "s"}
    [] m.pc = "plain" /\ Len(la) = m.rl ->
         {"w", "s", "n", ":"} \cup (IF m.flow > 0 THEN PlainStop ELSE {}) \cup (IF m.rl = 0 THEN {"h"} ELSE {})
    [] OTHER -> Sym \ {"i", "c", "x"}         \* a digit / '+' / 'x' is a word character everywhere else

Choose ==                                      \* the environment fixes one more character, only when it is looked at
  /\ m.pc \notin Terminal /\ Want > Len(la) /\ (IF la = <<>> THEN TRUE ELSE Last(la) # "0")
  /\ \E c \in (Classes \cap Sym) \cup {"0"} :
       /\ (Exact /\ consumed + Len(la) >= MaxLen) => c = "0"
       /\ m' = [m EXCEPT !.la = Append(@, c)]
  /\ UNCHANGED <<fuel, work, consumed>>

Commit(r) ==
  /\ m' = [r EXCEPT !.c = Z, !.fw = 0, !.ok = \A x \in Mech : r.c[x] <= CStep[x]]
  /\ fuel' = Min2(FuelCap, fuel + SPC * r.fw) - 1
  /\ IF Exact THEN /\ work' = [x \in Mech |-> work[x] + r.c[x]]
                   /\ consumed' = consumed + r.fw
     ELSE UNCHANGED <<work, consumed>>

Fresh == m
Ready(p) == m.pc = p /\ Want <= Len(la)

APull        == Ready("idle")    /\ Commit(ParserPull(Fresh))
AToNext      == Ready("tonext")  /\ Commit(ToNext(Fresh))
AComment     == Ready("comment") /\ Commit(Comment(Fresh))
AFetch       == Ready("fetch")   /\ Commit(Fetch(Fresh))
APlain       == Ready("plain")   /\ Commit(ScanPlain(Fresh))
APlainSpaces == Ready("pspaces") /\ Commit(ScanPlainSpaces(Fresh))
APlainBreaks == Ready("pbreaks") /\ Commit(ScanPlainBreaks(Fresh))
AQuoted      == Ready("quoted")  /\ Commit(ScanQuoted(Fresh))
AQuotedEnd   == Ready("qend")    /\ Commit(ScanQuotedEnd(Fresh))
AQuotedSpaces == Ready("qspaces") /\ Commit(ScanQuotedSpaces(Fresh))
AQuotedBreaks == Ready("qbreaks") /\ Commit(ScanQuotedBreaks(Fresh))
AAnchor      == Ready("anchor")  /\ Commit(ScanAnchor(Fresh))
ATag0        == Ready("tag0")    /\ Commit(ScanTag0(Fresh))
ATagRun      == Ready("tagrun")  /\ Commit(ScanTagRun(Fresh))
ADirName     == Ready("dirname") /\ Commit(ScanDirName(Fresh))
ADirSkip     == Ready("dirskip") /\ Commit(ScanDirSkip(Fresh))
AQuotedEsc   == Ready("qesc")    /\ Commit(ScanQuotedEsc(Fresh))
AQuotedHex   == Ready("qhex")    /\ Commit(ScanQuotedHex(Fresh))
ABlockHead   == Ready("bhead")   /\ Commit(BlockHead(Fresh))
ABlockIgnore == Ready("bignore") /\ Commit(BlockIgnore(Fresh))
ABlockComment == Ready("bcomment") /\ Commit(BlockComment(Fresh))
ABlockIndent == Ready("bindent") /\ Commit(BlockIndent(Fresh))
ABlockBreaks == Ready("bbreaks") /\ Commit(BlockBreaks(Fresh))
ABlockCheck  == Ready("bcheck")  /\ Commit(BlockCheck(Fresh))
ABlockLine   == Ready("bline")   /\ Commit(BlockLine(Fresh))

Init ==
  /\ m = [pc |-> "idle", blen |-> 0, ptr |-> 0, eof |-> ~Stream, pre |-> Stream, col |-> 0,
          qlen |-> 1,                           \* STREAM-START is queued by Scanner.__init__
          done |-> FALSE, flow |-> 0, indent |-> -1, indents |-> <<>>, allow |-> TRUE,
          keys |-> [lv \in Levels |-> NoKey], rl |-> 0, sl |-> 0, vlen |-> 0, nanch |-> 0, c |-> Z, fw |-> 0,
          isal |-> FALSE, atrack |-> FALSE, aflow |-> 0, acnt |-> 0, asz |-> 0, bh |-> 0, bi |-> 0, dq |-> FALSE, th |-> 0,
          la |-> <<>>, ok |-> TRUE]
  /\ fuel = FuelCap /\ work = Z /\ consumed = 0

Next == \/ Choose \/ APull \/ AToNext \/ AComment \/ AFetch \/ APlain \/ APlainSpaces \/ APlainBreaks
        \/ AQuoted \/ AQuotedEnd \/ AQuotedSpaces \/ AQuotedBreaks \/ AAnchor
        \/ AQuotedEsc \/ AQuotedHex \/ ATag0 \/ ATagRun \/ ADirName \/ ADirSkip
        \/ ABlockHead \/ ABlockIgnore \/ ABlockComment \/ ABlockIndent \/ ABlockBreaks \/ ABlockCheck \/ ABlockLine
Spec == Init /\ [][Next]_vars

(***************************************************************************)
(* invariants: structure                                                   *)
(***************************************************************************)
QueueBound  == m.qlen <= QMax                                        \* len(self.tokens) <= f(MaxKey, depth)
KeysBound   == Cardinality(KeysOn(m)) <= KMax /\ \A lv \in KeysOn(m) : lv <= m.flow
BufferBound == m.blen <= BufMax /\ m.ptr <= m.blen                   \* len(self.buffer) <= Block + lookahead
LookBound   == Len(la) <= MaxRun + 2
AliasBounded == m.asz <= 10 /\ m.acnt <= 10                          \* CONSTRAINT of the "aliaswalk" negative control only
IndentBound == Len(m.indents) <= MaxCol + 1
(* invariants: cost *)
StepCost  == m.ok                                                    \* every action is O(1) in the input length
Progress  == fuel >= 0                                               \* #actions <= SPC * consumed + FuelCap
(* the literal statement, Exact configurations *)
LinearPerMech == Exact => \A x \in Mech : work[x] <= ALin[x] * consumed + BLin[x]
ATot == ALin["call"] + ALin["reader"] + ALin["keys"] + ALin["queue"] + ALin["build"] + ALin["parse"]
BTot == BLin["call"] + BLin["reader"] + BLin["keys"] + BLin["queue"] + BLin["build"] + BLin["parse"]
LinearWork == Exact => Total(work) <= ATot * consumed + BTot
=============================================================================
