---------------------------- MODULE H_CallIndep ----------------------------
(***************************************************************************)
(* Property C11 as a specification (H layer), written from the statement:  *)
(*                                                                         *)
(*   "The result of any load, dump, scan, parse, compose, emit or          *)
(*    serialize call is the same whatever calls preceded it in the process,*)
(*    including calls that failed half-way, and no such call changes       *)
(*    library-global state.  Within one stream, each document is           *)
(*    interpreted independently [...] so loading a stream gives the list   *)
(*    of what each document gives on its own."                             *)
(*                                                                         *)
(* Only API-observable values occur here.  A *result* is a record          *)
(*    [units |-> sequence of delivered values, end |-> how the call ended] *)
(* where a unit is whatever the operation delivers per document (an object,*)
(* a node graph, the events / tokens of the document, the text written for *)
(* the document) and `end` is "return" or the class of the exception.      *)
(* The module is used twice: by Api.tla with abstract units (design check  *)
(* L => H) and by Trace_Calls.tla with digests of real observations.       *)
(***************************************************************************)
EXTENDS Naturals, Sequences

\* --- calls stand alone ---------------------------------------------------
\* the result of a call in a history is the result of the same call in a fresh process
SameAsFresh(res, fresh) == res = fresh
\* no call changes library-global state: the state after the call is the import-time state
GlobalsUnchanged(g, g0) == g = g0

\* --- documents stand alone -----------------------------------------------
\* parts[i] is what document i gives on its own.  A stream gives, in order, what each document gives; it ends
\* the way the first document that fails on its own ends (what that document delivered before failing included).
Failed(r) == r.end # "return"
FirstFailure(parts) == IF \E j \in DOMAIN parts : Failed(parts[j])
                       THEN CHOOSE j \in DOMAIN parts : Failed(parts[j]) /\ \A i \in 1 .. j - 1 : ~Failed(parts[i])
                       ELSE 0
RECURSIVE ConcatUnits(_, _)
ConcatUnits(parts, n) == IF n = 0 THEN <<>> ELSE ConcatUnits(parts, n - 1) \o parts[n].units
StreamExpect(parts) ==
  LET j == FirstFailure(parts)
  IN  IF j = 0 THEN [units |-> ConcatUnits(parts, Len(parts)), end |-> "return"]
      ELSE [units |-> ConcatUnits(parts, j), end |-> parts[j].end]
StreamRule(whole, parts) == whole = StreamExpect(parts)

=============================================================================
