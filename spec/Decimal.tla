------------------------------ MODULE Decimal ------------------------------
(***************************************************************************)
(* Exact arithmetic on naturals and decimal fractions of unbounded size,   *)
(* carried as sequences of digits, because TLC integers are 32-bit.        *)
(*                                                                         *)
(*   Big  : a natural number, big-endian sequence of digits 0..9,          *)
(*          canonical = no leading zero, zero is <<0>>                     *)
(*   Dec  : [m |-> Big, e |-> Int]   the rational  m * 10^e                *)
(*   SDec : [s |-> "+" | "-", m, e]  signed; also the two infinities       *)
(*          [s |-> .., inf |-> TRUE]                                       *)
(* Used by TypeRepo (H), Resolver (L) and Trace_Types (judgement).         *)
(***************************************************************************)
EXTENDS Naturals, Integers, Sequences

Max(a, b) == IF a >= b THEN a ELSE b
Min(a, b) == IF a <= b THEN a ELSE b

RECURSIVE StripLead(_)
StripLead(a) == IF Len(a) > 1 /\ a[1] = 0 THEN StripLead(Tail(a)) ELSE a
Norm(a) == IF a = <<>> THEN <<0>> ELSE StripLead(a)
IsZero(a) == Norm(a) = <<0>>

RECURSIVE DigitsOf(_)
DigitsOf(n) == IF n < 10 THEN <<n>> ELSE Append(DigitsOf(n \div 10), n % 10)

\* the value of a short digit sequence as a TLC integer, saturating at 10^8 (used for exponents, calendar fields)
SAT == 100000000
RECURSIVE NatOfR(_, _, _)
NatOfR(a, i, acc) == IF i > Len(a) THEN acc
                     ELSE IF acc >= SAT \div 10 THEN SAT
                     ELSE NatOfR(a, i + 1, acc * 10 + a[i])
NatOf(a) == NatOfR(a, 1, 0)

RECURSIVE AddR(_, _, _, _)
AddR(a, b, k, carry) ==
  IF k >= Len(a) /\ k >= Len(b) THEN (IF carry = 0 THEN <<>> ELSE <<carry>>)
  ELSE LET da == IF k < Len(a) THEN a[Len(a) - k] ELSE 0
           db == IF k < Len(b) THEN b[Len(b) - k] ELSE 0
           t  == da + db + carry
       IN  Append(AddR(a, b, k + 1, t \div 10), t % 10)
Add(a, b) == Norm(AddR(a, b, 0, 0))

\* a * k for a small natural k (k < 10^6)
RECURSIVE MulR(_, _, _, _)
MulR(a, k, i, carry) ==
  IF i >= Len(a) THEN DigitsOf(carry)
  ELSE LET t == a[Len(a) - i] * k + carry IN Append(MulR(a, k, i + 1, t \div 10), t % 10)
MulSmall(a, k) == Norm(MulR(a, k, 0, 0))

\* a * 10^n
RECURSIVE Zeros(_)
Zeros(n) == IF n <= 0 THEN <<>> ELSE Append(Zeros(n - 1), 0)
Shift(a, n) == IF IsZero(a) THEN <<0>> ELSE Norm(a) \o Zeros(n)

RECURSIVE MulH(_, _, _, _)
MulH(a, b, i, acc) == IF i > Len(b) THEN acc
                      ELSE MulH(a, b, i + 1, Add(Shift(acc, 1), MulSmall(a, b[i])))
Mul(a, b) == MulH(a, b, 1, <<0>>)

\* Horner evaluation of a sequence of small digit values in a small base (2, 8, 10, 16)
RECURSIVE HornerR(_, _, _, _)
HornerR(ds, base, i, acc) == IF i > Len(ds) THEN acc
                             ELSE HornerR(ds, base, i + 1, Add(MulSmall(acc, base), DigitsOf(ds[i])))
Horner(ds, base) == HornerR(ds, base, 1, <<0>>)

\* comparison of canonical naturals: -1, 0, 1
RECURSIVE LexCmp(_, _, _)
LexCmp(a, b, i) == IF i > Len(a) THEN 0
                   ELSE IF a[i] < b[i] THEN -1 ELSE IF a[i] > b[i] THEN 1 ELSE LexCmp(a, b, i + 1)
Cmp(a0, b0) == LET a == Norm(a0) b == Norm(b0) IN
               IF Len(a) < Len(b) THEN -1 ELSE IF Len(a) > Len(b) THEN 1 ELSE LexCmp(a, b, 1)

(***************************************************************************)
(* decimals                                                                *)
(***************************************************************************)
RECURSIVE TrailZeros(_)
TrailZeros(a) == IF Len(a) > 1 /\ a[Len(a)] = 0 THEN 1 + TrailZeros(SubSeq(a, 1, Len(a) - 1)) ELSE 0
DecNorm(d) == LET m == Norm(d.m) IN
              IF m = <<0>> THEN [m |-> <<0>>, e |-> 0]
              ELSE LET z == TrailZeros(m) IN [m |-> SubSeq(m, 1, Len(m) - z), e |-> d.e + z]
\* position of the leading digit: value in [10^(A-1), 10^A)
Adj(d) == Len(d.m) + d.e
DecCmp(x0, y0) ==
  LET x == DecNorm(x0) y == DecNorm(y0) IN
  IF x.m = <<0>> THEN (IF y.m = <<0>> THEN 0 ELSE -1)
  ELSE IF y.m = <<0>> THEN 1
  ELSE IF Adj(x) < Adj(y) THEN -1 ELSE IF Adj(x) > Adj(y) THEN 1
  ELSE LET e == Min(x.e, y.e) IN Cmp(x.m \o Zeros(x.e - e), y.m \o Zeros(y.e - e))
DecAdd(x0, y0) ==
  LET x == DecNorm(x0) y == DecNorm(y0) IN
  IF x.m = <<0>> THEN y ELSE IF y.m = <<0>> THEN x
  ELSE LET e == Min(x.e, y.e) IN DecNorm([m |-> Add(x.m \o Zeros(x.e - e), y.m \o Zeros(y.e - e)), e |-> e])
DecMulBig(x, b) == DecNorm([m |-> Mul(x.m, b), e |-> x.e])
DecEq(x, y) == DecNorm(x) = DecNorm(y)

\* signed decimals with infinities;  x <= y
SIsInf(x) == "inf" \in DOMAIN x
SMag(x) == [m |-> x.m, e |-> x.e]
SIsZero(x) == ~SIsInf(x) /\ IsZero(x.m)
SLe(x, y) ==
  IF SIsInf(x) THEN x.s = "-" \/ (SIsInf(y) /\ y.s = "+")
  ELSE IF SIsInf(y) THEN y.s = "+"
  ELSE IF SIsZero(x) THEN (SIsZero(y) \/ y.s = "+")
  ELSE IF SIsZero(y) THEN x.s = "-"
  ELSE IF x.s = "-" /\ y.s = "+" THEN TRUE
  ELSE IF x.s = "+" /\ y.s = "-" THEN FALSE
  ELSE IF x.s = "+" THEN DecCmp(SMag(x), SMag(y)) <= 0
  ELSE DecCmp(SMag(x), SMag(y)) >= 0
=============================================================================
