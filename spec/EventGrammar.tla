---------------------------- MODULE EventGrammar ----------------------------
(***************************************************************************)
(* H for C09 (events): the documented event grammar (emitter.py:2-7,       *)
(* events.py) as a push-down monitor, and the mark rules of the property.  *)
(*                                                                         *)
(*   stream   ::= STREAM-START document* STREAM-END                        *)
(*   document ::= DOCUMENT-START node DOCUMENT-END                         *)
(*   node     ::= SCALAR | ALIAS | SEQUENCE-START node* SEQUENCE-END       *)
(*              | MAPPING-START (node node)* MAPPING-END                   *)
(*                                                                         *)
(* A monitor state is a stack of frames: "S" in the stream, "D0"/"D1"      *)
(* document before/after its root node, "Q" sequence, "M0"/"M1" mapping    *)
(* expecting a key / a value; <<"REJECT">> is the sink, <<"END">> the      *)
(* accepting state after STREAM-END.                                       *)
(***************************************************************************)
EXTENDS Naturals, Sequences

LOCAL Last(s) == s[Len(s)]
LOCAL Front(s) == SubSeq(s, 1, Len(s) - 1)
Reject == <<"REJECT">>
MonInit == <<>>

\* a node is placed in the innermost frame
LOCAL NodeHere(g) ==
  IF g = <<>> THEN Reject
  ELSE LET t == Last(g) IN
       CASE t = "D0" -> Append(Front(g), "D1")
         [] t = "Q"  -> g
         [] t = "M0" -> Append(Front(g), "M1")
         [] t = "M1" -> Append(Front(g), "M0")
         [] OTHER    -> Reject

MonStep(g, k) ==
  IF g = Reject \/ g = <<"END">> THEN Reject
  ELSE CASE k = "StreamStart"   -> IF g = <<>> THEN <<"S">> ELSE Reject
         [] k = "StreamEnd"     -> IF g = <<"S">> THEN <<"END">> ELSE Reject
         [] k = "DocumentStart" -> IF g # <<>> /\ Last(g) = "S" THEN Append(g, "D0") ELSE Reject
         [] k = "DocumentEnd"   -> IF g # <<>> /\ Last(g) = "D1" THEN Front(g) ELSE Reject
         [] k \in {"Scalar", "Alias"} -> NodeHere(g)
         [] k = "SequenceStart" -> IF NodeHere(g) = Reject THEN Reject ELSE Append(NodeHere(g), "Q")
         [] k = "MappingStart"  -> IF NodeHere(g) = Reject THEN Reject ELSE Append(NodeHere(g), "M0")
         [] k = "SequenceEnd"   -> IF g # <<>> /\ Last(g) = "Q" THEN Front(g) ELSE Reject
         [] k = "MappingEnd"    -> IF g # <<>> /\ Last(g) = "M0" THEN Front(g) ELSE Reject
         [] OTHER -> Reject

\* marks of one event, given the start mark of the previous event and the length of the input
MarksOk(s, e, prevStart, len) == 0 <= s /\ s <= e /\ e <= len /\ prevStart <= s
=============================================================================
