SPECIFICATION Spec
CONSTANTS
  MaxRun = 2
  W = 3
  MaxTot = 24
  Variant = "reslice"
INVARIANT StepCost
INVARIANT RunBound
