--------------------------- MODULE DeliveryIndep ---------------------------
(***************************************************************************)
(* H of C07: "the result does not depend on how the input is delivered".   *)
(*                                                                         *)
(* Written from the property statement, not from reader.py.  A document is *)
(* a sequence of abstract characters (one symbol per class of characters   *)
(* that the statement, YAML's line structure or an encoding form can tell  *)
(* apart).  A delivery form fixes how the document reaches the library:    *)
(* as characters or as code units (bytes) of an encoding, with or without  *)
(* a byte order mark, in one piece or through a stream.  The module says   *)
(*   - what the code units of a document are in each form      (Encode)    *)
(*   - what the consumer of the reader must be given           (Ideal)     *)
(*   - what index / line / column are after i characters       (Pos)       *)
(*   - which unit is the first offending one and what error                *)
(*     (class, position in units of the form) it deserves      (Expected-  *)
(*     Error)                                                              *)
(* Nothing here mentions buffers, refills, schedules or decoders: the      *)
(* values are functions of (document, form) alone, which IS the property.  *)
(*                                                                         *)
(* Interpretive decisions (DESIGN.md 5.0, C07): documents do not begin     *)
(* with U+FEFF; the byte order mark of a form is a zero-width character in *)
(* front of the document (it advances index, not column); non-printable    *)
(* characters are located in characters, undecodable units in code units.  *)
(***************************************************************************)
EXTENDS Naturals, Sequences, FiniteSets

NUL == "NUL"

\* --- characters -----------------------------------------------------------
\* A    1 unit in UTF-8 (ASCII)           B2, B3, B4   2-, 3-, 4-unit characters (B4: surrogate pair in UTF-16)
\* CR LF NEL LS   the YAML 1.1 line breaks (NEL 2 units, LS / PS 3 units in UTF-8)
\* BOM  U+FEFF inside the document        NP1 NP2 NP3  characters outside the printable set (1, 2, 3 UTF-8 units)
GoodChars    == {"A", "B2", "B3", "B4", "CR", "LF", "NEL", "LS", "BOM"}
NonPrintable == {"NP1", "NP2", "NP3"}
\* --- things that are not characters: exist in byte forms only ------------------
\* INV  a unit that can start nothing (0xFF; a lone low surrogate)
\* TR1  the first unit of a longer sequence, not continued (a lone high surrogate in UTF-16)
\* TR2  the first two units of a longer sequence, not continued (UTF-8 only)
\* ODD  a single trailing byte of a two-byte UTF-16 code unit (UTF-16 only, last symbol only)
Undecodable  == {"INV", "TR1", "TR2", "ODD"}
Symbols      == GoodChars \cup NonPrintable \cup Undecodable
LineBreaks   == {"LF", "NEL", "LS"}          \* CR is a break unless an LF follows

\* --- delivery forms ----------------------------------------------------------
Forms == {"str", "b8", "b8bom", "b16le", "b16be", "text", "s8", "s8bom", "s16le", "s16be"}
EncOf(f) == CASE f \in {"str", "text"} -> "none"
              [] f \in {"b8", "b8bom", "s8", "s8bom"} -> "utf-8"
              [] f \in {"b16le", "s16le"} -> "utf-16-le"
              [] OTHER -> "utf-16-be"
HasBom(f)   == f \in {"b8bom", "s8bom", "b16le", "b16be", "s16le", "s16be"}
IsStream(f) == f \in {"text", "s8", "s8bom", "s16le", "s16be"}
Is16(e)     == e \in {"utf-16-le", "utf-16-be"}

\* units present for a symbol / units of the complete sequence its first unit announces (0: announces nothing)
Present(s, e) ==
  IF e = "none" THEN 1
  ELSE IF Is16(e) THEN (CASE s = "B4" -> 4 [] s = "ODD" -> 1 [] OTHER -> 2)
  ELSE CASE s \in {"A", "CR", "LF", "NP1", "INV", "TR1"} -> 1
         [] s \in {"B2", "NEL", "NP2", "TR2"} -> 2
         [] s \in {"B3", "LS", "BOM", "NP3"} -> 3
         [] OTHER -> 4
Full(s, e) ==
  CASE s = "INV" -> 0
    [] s = "TR1" -> IF Is16(e) THEN 4 ELSE 2
    [] s = "TR2" -> 3
    [] s = "ODD" -> 2
    [] OTHER -> Present(s, e)
SymOk(s, f) ==
  LET e == EncOf(f) IN
  /\ s \in Symbols
  /\ (e = "none") => s \notin Undecodable
  /\ Is16(e) => s # "TR2"
  /\ (e = "utf-8") => s # "ODD"

\* a code unit: <<symbol, k-th unit, units of the complete sequence, encoding>>
EncodeSym(s, e) == [k \in 1 .. Present(s, e) |-> <<s, k, Full(s, e), e>>]
RECURSIVE EncodeSeq(_, _)
EncodeSeq(d, e) == IF d = <<>> THEN <<>> ELSE EncodeSym(Head(d), e) \o EncodeSeq(Tail(d), e)
BomUnits(f) == IF HasBom(f) THEN EncodeSym("BOM", EncOf(f)) ELSE <<>>
BomChars(f) == IF HasBom(f) THEN <<"BOM">> ELSE <<>>
Encode(d, f) == BomUnits(f) \o EncodeSeq(d, EncOf(f))

\* a well-formed document of form f (what the quantifier of the property ranges over)
DocOk(d, f) ==
  /\ \A i \in DOMAIN d : SymOk(d[i], f)
  /\ (d # <<>>) => d[1] # "BOM"                                        \* 5.0: not beginning with U+FEFF
  /\ \A i \in DOMAIN d : (d[i] = "ODD") => i = Len(d)                   \* a stray byte can only be the last one
  /\ \A i \in DOMAIN d : (i > 1 /\ d[i - 1] = "TR1" /\ Is16(EncOf(f))) => d[i] # "INV"   \* high+low = a character

\* --- what the consumer must see ---------------------------------------------
IsBad(s) == s \in NonPrintable \cup Undecodable
FirstBad(d) == IF \E i \in DOMAIN d : IsBad(d[i]) THEN CHOOSE i \in DOMAIN d : IsBad(d[i]) /\ \A j \in 1 .. i - 1 : ~IsBad(d[j])
               ELSE 0
GoodPrefix(d) == IF FirstBad(d) = 0 THEN d ELSE SubSeq(d, 1, FirstBad(d) - 1)
\* the characters of the stream, in order; `closed`: the end of the document is known
Ideal(d, f, closed) == BomChars(f) \o GoodPrefix(d) \o (IF closed /\ FirstBad(d) = 0 THEN <<NUL>> ELSE <<>>)

\* --- index / line / column by counting breaks --------------------------------------
IsBreakAt(t, j) == t[j] \in LineBreaks \/ (t[j] = "CR" /\ (j = Len(t) \/ t[j + 1] # "LF"))
LineAt(t, i)    == Cardinality({j \in 1 .. i : IsBreakAt(t, j)})
LastBreak(t, i) == LET bs == {j \in 1 .. i : IsBreakAt(t, j)} IN IF bs = {} THEN 0 ELSE CHOOSE j \in bs : \A k \in bs : k <= j
ColAt(t, i)     == Cardinality({j \in LastBreak(t, i) + 1 .. i : t[j] # "BOM"})
Pos(t, i)       == [line |-> LineAt(t, i), column |-> ColAt(t, i)]
\* whether Pos(t, i) is determined by the characters t (a CR needs its successor)
PosDefined(t, i) == i <= Len(t) /\ (i > 0 /\ t[i] = "CR" => i < Len(t))

\* --- the error a defective document deserves ----------------------------------------
\* class and position of the FIRST offending unit; characters for non-printables, code units for undecodable input,
\* both counted from the start of the stream (a byte order mark included).  An undecodable sequence may be located at
\* any of its units, from its first one up to the unit after it that shows it cannot be completed (span): CPython names
\* the first unit, LibYAML the "invalid trailing octet" (and it takes 0xC0 for the start of a sequence where CPython
\* calls it an invalid start byte); the statement only says "the right offset".
OffenceAt(d, f, i) ==
  IF d[i] \in NonPrintable THEN [kind |-> "unprintable", pos |-> Len(BomChars(f)) + i - 1, span |-> 0]
  ELSE [kind |-> "undecodable", pos |-> Len(Encode(SubSeq(d, 1, i - 1), f)), span |-> Present(d[i], EncOf(f))]
ExpectedError(d, f) == OffenceAt(d, f, FirstBad(d))
\* every offending unit of the document with the error it would deserve if it were the first (used by the weak clause:
\* "what is reported is an offending unit at its right offset")
Offences(d, f) == {OffenceAt(d, f, i) : i \in {j \in DOMAIN d : IsBad(d[j])}}
\* does a reported error [kind, pos] name the offence o ?
Names(e, o) == e.kind = o.kind /\ o.pos <= e.pos /\ e.pos <= o.pos + o.span
=============================================================================
