---------------------------- MODULE H_Confinement ----------------------------
(***************************************************************************)
(* H of C01 and C04, written from the property statements alone.           *)
(*                                                                         *)
(* An outcome of loading one document with one loader class is             *)
(*   [st |-> "ok" | "err" | "crash",   err = a YAMLError was raised,       *)
(*                                     crash = any other exception         *)
(*    ex |-> exception class name, ty |-> set of type labels reachable in  *)
(*    the returned object graph, eff |-> set of effect labels observed     *)
(*    while loading]                                                       *)
(* A requirement is what the statements demand of a class on a document:   *)
(*   mustErr  some tag in the document must be rejected                    *)
(*   okTypes  types the result may be made of                              *)
(*   okEff    effects that may occur                                       *)
(*   yamlOnly failures must be YAML errors                                 *)
(***************************************************************************)
EXTENDS Naturals, Sequences, FiniteSets

\* C01: "None, bool, int, float, str, bytes, date, datetime, list, dict, set and 2-tuples inside omap/pairs lists"
Plain == {"None", "bool", "int", "float", "str", "bytes", "date", "list", "dict", "set", "pair"}
\* C01 for the two Base loaders (they ignore tags and build str / list / dict only); C04: "beyond plain data it can only
\* build tuples and complex numbers and return existing attributes of modules that are already imported"
OkTypes(c) == CASE c = "Base" -> {"str", "list", "dict"}
                [] c = "Safe" -> Plain
                [] c = "Full" -> Plain \cup {"tuple", "complex", "attr"}
                [] OTHER -> {}
\* effect labels: "import" (a module import was attempted), "call" (something named by the document was called or
\* instantiated, or had its state set), "getattr" / "modgetattr" (an attribute of an imported module was looked up),
\* "objgetattr" (an attribute of an object that the document selected was looked up - not called: the statement of C04
\* forbids calling, instantiating and mutating the object, it is silent about looking at it), "audit:<event>" (any other
\* interpreter audit event).  Calling a method of a selected object is "call".
OkEff(c) == IF c = "Full" THEN {"getattr", "modgetattr", "objgetattr"} ELSE {}
\* C01 "either raises a YAML error or returns ..."; C04 says nothing about the class of other failures
YamlOnly(c) == c \in {"Base", "Safe"}

\* does an outcome [st, ex, ty, eff] satisfy a requirement ?
Sat(o, r) ==
  \/ r.free
  \/ /\ o.eff \subseteq r.okEff
     /\ (o.st = "ok") => (o.ty \subseteq r.okTypes /\ ~r.mustErr)
     /\ (o.st # "ok" /\ r.yamlOnly) => (o.st = "err")
     /\ (o.st # "ok" /\ r.mustErr) => (o.st = "err" /\ o.ex = "ConstructorError")

=============================================================================
