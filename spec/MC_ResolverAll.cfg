SPECIFICATION Spec
INVARIANT LRefinesH
INVARIANT Unambiguous
INVARIANT IndexSound
INVARIANT IndexSoundAll
INVARIANT QuotedIsStr
