SPECIFICATION Spec
CONSTANTS
  Indents = {100, 0, 1, 2, 3, 4, 5, 6, 7, 8, 9, 10}
  Widths = {100}
  LineBreaks = {"N"}
  Encodings = {"N"}
  Streams = {"none"}
  ExplStart = {FALSE}
  ExplEnd = {FALSE}
  Versions = {"N"}
  TagSets = {"N"}
  TagSets2 = {"same"}
  Canon = {FALSE}
  Unicode = {FALSE}
  Apis = {"dump"}
  ScalarKinds = {"w"}
  CollKinds = {"BS", "FS", "BM", "FM"}
  LongClasses = {}
  LongLens = {}
  LongStyles = {"P"}
  FixD12 = FALSE
  Anchors = FALSE
  ExplicitTags = FALSE
  TagIds = {}
  InnerAnchors = FALSE
  Share = FALSE
  NodeBudget = FALSE
  MaxEvents = 6
  MaxDepth = 3
  MaxDocs = 1
INVARIANT NoCrash
INVARIANT Normalised
INVARIANT HB
INVARIANT HC
INVARIANT HD
INVARIANT HE
INVARIANT HF
INVARIANT HG
INVARIANT HA
INVARIANT HT
INVARIANT HR
INVARIANT EntriesConsistent
INVARIANT Complete
