SPECIFICATION SpecMacro
CONSTANTS
  LoadOps = {"load", "load_all", "compose", "compose_all", "parse", "scan"}
  GenOps = {"load_all", "compose_all", "parse", "scan"}
  DumpOps = {"dump", "dump_all", "serialize", "serialize_all", "emit"}
  Classes = {"user"}
  Backends = {"py", "c"}
  IOs = {"file"}
  Impls = {TRUE}
  Docs = {"plain", "comperr", "ctorerr", "tagdir", "usetag", "anchors", "usealias", "rec", "ugen"}
  Vals = {"shared2", "reprerr", "tagged", "usesve", "urepr"}
  MaxHist = 3
  MaxStream = 1
  MaxSingle = 1
  Faults = TRUE
  Mutation = "none"
  KeepHist = FALSE
  MaxGens = 1
  Persistent = FALSE
INVARIANT H_Globals
INVARIANT H_CallerObjects
INVARIANT H_CallIndep
INVARIANT H_Documents
INVARIANT H_FaultTransparency
INVARIANT Lifetime
INVARIANT PerDocumentReset
INVARIANT L_QuietUnwinding
PROPERTY GlobalsFrame
