------------------------------ MODULE H_Reduce ------------------------------
(***************************************************************************)
(* C17, property level (H).  Written from the property statement only:     *)
(*                                                                         *)
(*   "dumping with the full dumper and loading with the unsafe loader      *)
(*    rebuilds a graph equal to what pickle protocol 2 rebuilds,           *)
(*    preserving all sharing, and preserving cycles that run only through  *)
(*    lists, dicts and plain instance dictionaries (a cycle through        *)
(*    constructor arguments or __setstate__ state is rejected with a       *)
(*    constructor error rather than mis-built); the full loader accepts    *)
(*    exactly the tuple / complex / name subset of those documents."        *)
(*                                                                         *)
(* Object graphs are heaps:  Seq of [lab, dig, kids], a kid (edge) is      *)
(*   [c, k, r, d, dk, soft]   c  edge class  "t" tuple item / constructor  *)
(*                               argument, "i" list item, "v" dict value,  *)
(*                               "a" entry of the instance dictionary,     *)
(*                               "s" value of a slot (where an attribute   *)
(*                               lives is observable: obj.name through the *)
(*                               slot descriptor vs vars(obj)[name], and   *)
(*                               pickle rebuilds each in its place)        *)
(*                            k  attribute name / key digest ("" for       *)
(*                               positional edges; position = index)       *)
(*                            r  target node (0: the edge ends in a leaf)  *)
(*                            d  digest of the leaf ("" for a node)        *)
(*                            dk abstract kind of the leaf (used only when *)
(*                               a real heap is compared with the L model) *)
(*                            soft  TRUE iff the edge is a list item, a    *)
(*                               dict value or an entry of a plain         *)
(*                               instance dictionary                       *)
(* Kids are in a canonical order (positional edges in order, dict values   *)
(* by key, slot values by name, dictionary entries by name), so a heap is  *)
(* a deterministic rooted graph.                                           *)
(* Identity = node index; nothing else of a node is observable.            *)
(***************************************************************************)
EXTENDS Naturals, Sequences, FiniteSets, TLC

Succ(h, i) == {h[i].kids[j].r : j \in DOMAIN h[i].kids} \ {0}

RECURSIVE ReachFrom(_, _, _)
ReachFrom(h, frontier, seen) ==
  IF frontier = {} THEN seen
  ELSE LET nxt == (UNION {Succ(h, i) : i \in frontier}) \ seen IN ReachFrom(h, nxt, seen \cup nxt)
\* nodes reachable from i by one or more edges (i itself only when it lies on a cycle)
Reach(h, i) == ReachFrom(h, {i}, {})
NodesFrom(h, root) == IF root.r = 0 THEN {} ELSE {root.r} \cup Reach(h, root.r)

\* edge j of node i closes a cycle
OnCycle(h, i, j) == LET c == h[i].kids[j].r IN c # 0 /\ (c = i \/ i \in Reach(h, c))
AnyCycle(h)  == \E i \in DOMAIN h : \E j \in DOMAIN h[i].kids : OnCycle(h, i, j)
\* a cycle that does not run only through lists, dicts and plain instance dictionaries:
\* some edge that is not soft lies on a cycle
HardCycle(h) == \E i \in DOMAIN h : \E j \in DOMAIN h[i].kids : ~h[i].kids[j].soft /\ OnCycle(h, i, j)

(***************************************************************************)
(* Graph equality = isomorphism of rooted, edge-ordered, labelled graphs.  *)
(* Declarative form (used in the bounded design check):                    *)
(***************************************************************************)
LeafEq(x, y, abs) == IF abs THEN x.dk = y.dk ELSE x.d = y.d
KidShape(x, y, abs) == /\ x.c = y.c /\ x.k = y.k /\ (x.r = 0) = (y.r = 0)
                       /\ (x.r = 0 => LeafEq(x, y, abs))
NodeShape(x, y, abs) == /\ x.lab = y.lab /\ (abs \/ x.dig = y.dig)
                        /\ Len(x.kids) = Len(y.kids)
                        /\ \A j \in DOMAIN x.kids : KidShape(x.kids[j], y.kids[j], abs)

Iso(A, ra, B, rb, abs) ==
  IF ra.r = 0 \/ rb.r = 0 THEN ra.r = rb.r /\ LeafEq(ra, rb, abs)
  ELSE LET SA == NodesFrom(A, ra) SB == NodesFrom(B, rb) IN
       /\ Cardinality(SA) = Cardinality(SB)
       /\ \E f \in [SA -> SB] :
            /\ f[ra.r] = rb.r
            /\ \A a1, a2 \in SA : f[a1] = f[a2] => a1 = a2
            /\ \A a \in SA : /\ NodeShape(A[a], B[f[a]], abs)
                             /\ \A j \in DOMAIN A[a].kids :
                                   A[a].kids[j].r # 0 => f[A[a].kids[j].r] = B[f[a]].kids[j].r

(***************************************************************************)
(* The same relation, decided by walking both graphs in parallel (used by  *)
(* the trace specification on heaps of any size; Reduce.tla checks on the  *)
(* whole bounded space that it agrees with Iso).                           *)
(***************************************************************************)
RECURSIVE Walk(_, _, _, _, _)
Walk(A, B, todo, f, abs) ==
  IF todo = <<>> THEN [ok |-> TRUE, at |-> 0]
  ELSE LET a == todo[1][1] b == todo[1][2] IN
       IF <<a, b>> \in f THEN Walk(A, B, Tail(todo), f, abs)
       ELSE IF \E p \in f : p[1] = a \/ p[2] = b THEN [ok |-> FALSE, at |-> a]        \* sharing differs
       ELSE IF ~NodeShape(A[a], B[b], abs) THEN [ok |-> FALSE, at |-> a]
       ELSE LET js == SelectSeq([j \in DOMAIN A[a].kids |-> j], LAMBDA j : A[a].kids[j].r # 0)
                more == [x \in DOMAIN js |-> <<A[a].kids[js[x]].r, B[b].kids[js[x]].r>>]
            IN  Walk(A, B, Tail(todo) \o more, f \cup {<<a, b>>}, abs)

WalkIso(A, ra, B, rb, abs) ==
  IF ra.r = 0 \/ rb.r = 0 THEN [ok |-> ra.r = rb.r /\ LeafEq(ra, rb, abs), at |-> 0]
  ELSE Walk(A, B, << <<ra.r, rb.r>> >>, {}, abs)

(***************************************************************************)
(* Verdict on one unsafe load.                                             *)
(*   ref, rroot : what pickle protocol 2 rebuilt (with the soft flags)     *)
(*   out        : "ok" | "ConstructorError" | anything else (other error)  *)
(*   B, rb      : what the unsafe loader built (when out = "ok")           *)
(* Reading of the error clause (no stronger than the statement): a graph   *)
(* with a cycle through constructor arguments / __setstate__ state / any   *)
(* other non-soft edge may be rejected with ConstructorError, or built -   *)
(* but then correctly; every other graph must be built correctly.          *)
(***************************************************************************)
OK == [ok |-> TRUE, why |-> "-", at |-> 0]
No(why, at) == [ok |-> FALSE, why |-> why, at |-> at]

UnsafeVerdict(ref, rroot, out, B, rb) ==
  IF out = "ok" THEN LET w == WalkIso(ref, rroot, B, rb, FALSE) IN IF w.ok THEN OK ELSE No("mis-built", w.at)
  ELSE IF out = "ConstructorError" THEN
       IF HardCycle(ref) THEN OK
       ELSE IF AnyCycle(ref) THEN No("cycle through lists, dicts and plain instance dictionaries only is rejected", 0)
       ELSE No("acyclic graph is rejected", 0)
  ELSE No("failed with something that is not a constructor error", 0)

(***************************************************************************)
(* Verdict on one full load: accepted iff the document uses, besides plain *)
(* data, only python/tuple, python/complex and python/name.                *)
(*   tags : set of tag kinds of the document                               *)
(***************************************************************************)
FullTags == {"safe", "tuple", "complex", "name"}
FullVerdict(tags, accepted) ==
  IF tags \subseteq FullTags THEN (IF accepted THEN OK ELSE No("full loader rejects a tuple/complex/name document", 0))
  ELSE (IF accepted THEN No("full loader accepts a document outside the tuple/complex/name subset", 0) ELSE OK)
=============================================================================
