SPECIFICATION Spec
CONSTANTS
  MaxObjs = 2
  Shapes = {"list", "P", "GS", "R2"}
  Leaves = {"i"}
  KidsRoot = 2
  KidsRest = 2
  Schemes = {"ord"}
  Homes = {"own"}
  CodeFixes = {}
INVARIANT RepairedRefinesH
INVARIANT AsIsExplained
INVARIANT WalkIsIso
INVARIANT RefIsWhole
