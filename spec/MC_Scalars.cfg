SPECIFICATION Spec
CONSTANTS
  Fix = {}
  Alpha = {97, 32, 10}
  MaxLen = 6
  Kinds = {"item"}
  Bests = {2}
  Widths = {5}
  Depths = {1}
  Unis = {FALSE}
  LBs = {"n"}
  Reqs = {"none", "single", "double", "literal", "folded"}
  IndMax = 0
INVARIANT NoCrash
INVARIANT RoundTripOrDiagnosed
INVARIANT OpenEndedRule
