----------------------------- MODULE WorkWrite ------------------------------
(***************************************************************************)
(* C20, dump side, the scalar WRITERS of emitter.py: write_plain,          *)
(* write_single_quoted, write_double_quoted, write_folded, write_literal.  *)
(* Each of them is one loop  `while end <= len(text)`  that looks at ONE   *)
(* character per iteration (ch = text[end], None at the end), keeps the    *)
(* mode flags spaces / breaks and the start of the pending run, and at a   *)
(* run boundary writes  text[start:end]  (a slice: charged with its        *)
(* length), calls write_indent / write_line_break, or writes an escape.    *)
(*                                                                         *)
(* L: one action = one iteration; the environment chooses the class of     *)
(* the character when the loop reads it (lazy input, any text of any       *)
(* length).  The configuration is finite: mode, pending run length         *)
(* saturated at MaxRun (a character that joins a full run is charged its   *)
(* share of the later slice at once), column saturated just above the      *)
(* scaled best_width W, the flags the split rules look at.                 *)
(*   StepCost : every iteration costs at most CIter calls and CCopy        *)
(*              character copies                                           *)
(* and an iteration consumes exactly one character, hence                  *)
(*   work <= (CIter + CCopy) * (len(text) + 2).                            *)
(* Variant "reslice" (negative control) writes text[0:end] at every run    *)
(* boundary - the pending-run bookkeeping lost - and must be rejected.     *)
(*                                                                         *)
(* Character classes (what the loops distinguish):                         *)
(*   w ordinary     s space     n line break                               *)
(*   q single quote (doubled by write_single_quoted)                       *)
(*   e a character write_double_quoted escapes (special, '"', '\',         *)
(*     a break, non-ASCII without allow_unicode)                           *)
(*   0 the end of the text (ch is None)                                    *)
(* Styles: P plain, S single-quoted, D double-quoted, F folded, L literal. *)
(*                                                                         *)
(* Like WorkPump.tla the module exports its transition graph (PSpec): the  *)
(* cycles of the graph are the dump-side cycle families of the binding -   *)
(* for every style, mode and character class the shortest text u v^n w     *)
(* that goes round the loop through that branch.                           *)
(***************************************************************************)
EXTENDS Integers, Sequences, TLC, TLCExt
CONSTANTS MaxRun,     \* pending run length is saturated here
          W,          \* scaled best_width (80 in emitter.py)
          MaxTot,     \* Variant # "code" only: bound of the text length
          Variant     \* "code" | "reslice"

VARIABLES w           \* writer configuration; w.c / w.cp = calls / character copies of the last iteration
vars == <<w>>

Styles == {"P", "S", "D", "F", "L"}
Min2(a, b) == IF a < b THEN a ELSE b
CIter == 16           \* calls of one iteration (len x 2, slice, len, write, write_indent, write_line_break x 2, ...)
CCopy == MaxRun + 4   \* character copies of one iteration

Classes(st) == CASE st = "D" -> {"w", "s", "e", "0"}
                 [] st = "S" -> {"w", "s", "n", "q", "0"}
                 [] OTHER    -> {"w", "s", "n", "0"}

Cost(r, calls, copies) == [r EXCEPT !.c = @ + calls, !.cp = @ + copies]

\* data = text[start:end]; self.column += len(data); self.stream.write(data)
WriteRun(r) ==
  LET len == IF Variant = "reslice" THEN r.tot ELSE r.rl IN
  Cost([r EXCEPT !.col = Min2(W + 1, @ + r.rl), !.rl = 0, !.st0 = FALSE], 3, len)
WriteIndent(r) == Cost([r EXCEPT !.col = 0], 4, 2)               \* write_line_break + the indentation
LineBreaks(r)  == Cost([r EXCEPT !.col = 0, !.rl = 0, !.st0 = FALSE], 1 + 2 * (r.rl + 1), r.rl)    \* slice, one call pair per break
Join(r) == IF r.rl = MaxRun THEN Cost(r, 0, 1) ELSE [r EXCEPT !.rl = @ + 1]     \* the character joins the pending run
Flags(r, ch) == [r EXCEPT !.mode = CASE ch = "s" -> "spaces" [] ch = "n" -> "breaks" [] OTHER -> "run",
                          !.tot = IF Variant = "code" THEN 0 ELSE @ + 1]

\* spaces mode at a non-space: one space and column > best_width (and split ...) -> write_indent, else write the spaces
FlushSpaces(r, ch, maysplit) ==
  IF r.rl = 1 /\ r.col > W /\ maysplit THEN [WriteIndent(r) EXCEPT !.rl = 0, !.st0 = FALSE] ELSE WriteRun(r)

Plain(r, ch) ==
  LET r1 == CASE r.mode = "spaces" /\ ch # "s" -> FlushSpaces(r, ch, TRUE)
              [] r.mode = "breaks" /\ ch # "n" -> WriteIndent(LineBreaks(r))
              [] r.mode = "run" /\ ch \in {"s", "n", "0"} -> WriteRun(r)
              [] OTHER -> r
  IN  Flags(Join(r1), ch)

Single(r, ch) ==
  LET r1 == CASE r.mode = "spaces" /\ ch # "s" -> FlushSpaces(r, ch, ~r.st0 /\ ch # "0")
              [] r.mode = "breaks" /\ ch # "n" -> WriteIndent(LineBreaks(r))
              [] r.mode = "run" /\ ch \in {"s", "n", "q", "0"} -> (IF r.rl > 0 THEN WriteRun(r) ELSE r)
              [] OTHER -> r
      r2 == IF ch = "q" THEN Cost([r1 EXCEPT !.col = Min2(W + 1, @ + 2), !.st0 = FALSE], 1, 2) ELSE Join(r1)     \* ''; start = end + 1
  IN  Flags(r2, ch)

Double(r, ch) ==
  LET r1 == IF ch \in {"e", "0"} THEN (IF r.rl > 0 THEN WriteRun(r) ELSE r) ELSE r
      r2 == IF ch = "e" THEN Cost([r1 EXCEPT !.col = Min2(W + 1, @ + 2), !.st0 = FALSE], 3, 4) ELSE r1          \* the escape; start = end + 1
      \* split: a space (or a run that does not start with one) beyond best_width: text[start:end] + '\', write_indent
      r3 == IF ch = "s" /\ ~r.st0 /\ Min2(W + 1, r2.col + r2.rl) > W
            THEN Cost(WriteIndent(WriteRun(r2)), 3, 1) ELSE r2
  IN  Flags(IF ch = "e" THEN r3 ELSE Join(r3), ch)

Folded(r, ch) ==
  LET r1 == CASE r.mode = "breaks" /\ ch # "n" ->
                   [(IF ch # "0" THEN WriteIndent(LineBreaks(r)) ELSE LineBreaks(r)) EXCEPT !.lead = (ch = "s")]
              [] r.mode = "spaces" /\ ch # "s" -> FlushSpaces(r, ch, ~r.lead)
              [] r.mode = "run" /\ ch \in {"s", "n", "0"} -> (IF ch = "0" THEN Cost(WriteRun(r), 2, 1) ELSE WriteRun(r))
              [] OTHER -> r
  IN  Flags(Join(r1), ch)

Literal(r, ch) ==
  LET r1 == CASE r.mode = "breaks" /\ ch # "n" -> (IF ch # "0" THEN WriteIndent(LineBreaks(r)) ELSE LineBreaks(r))
              [] r.mode # "breaks" /\ ch \in {"n", "0"} -> (IF ch = "0" THEN Cost(WriteRun(r), 2, 1) ELSE WriteRun(r))
              [] OTHER -> r
  IN  [Flags(Join(r1), ch) EXCEPT !.mode = IF ch = "n" THEN "breaks" ELSE "run"]

Fresh == [w EXCEPT !.c = 2, !.cp = 0]          \* `while end <= len(text)`, `if end < len(text)`

Begin(st) ==                                   \* analyze_scalar has chosen the style; write_indicator, (block styles) hints, line break
  /\ w.pc = "start"
  /\ w' = [w EXCEPT !.pc = "loop", !.st = st, !.mode = IF st \in {"F", "L"} THEN "breaks" ELSE "run", !.c = 6, !.cp = 2]

Step(ch) ==
  /\ w.pc = "loop"
  /\ (Variant # "code") => w.tot < MaxTot
  /\ ch \in Classes(w.st)
  /\ LET r == CASE w.st = "P" -> Plain(Fresh, ch)
                [] w.st = "S" -> Single(Fresh, ch)
                [] w.st = "D" -> Double(Fresh, ch)
                [] w.st = "F" -> Folded(Fresh, ch)
                [] OTHER      -> Literal(Fresh, ch)
     IN  w' = IF ch = "0" THEN [r EXCEPT !.pc = "done", !.mode = "run", !.rl = 0] ELSE r

AllClasses == {"w", "s", "n", "q", "e", "0"}
Init == w = [pc |-> "start", st |-> "P", mode |-> "run", rl |-> 0, col |-> 0, st0 |-> TRUE, lead |-> TRUE, tot |-> 0,
             c |-> 0, cp |-> 0]
Next == (\E st \in Styles : Begin(st)) \/ (\E ch \in AllClasses : Step(ch))
Spec == Init /\ [][Next]_vars

StepCost  == w.c <= CIter /\ w.cp <= CCopy
RunBound  == w.rl <= MaxRun /\ w.col <= W + 1

(* the transition graph, for the cycle families (same line format as WorkPump.tla) *)
Conf(x) == [x EXCEPT !.c = 0, !.cp = 0]
Id(x) == <<TLCFP(Conf(x)), TLCFP(<<Conf(x), 1>>)>>
Loop(x) == IF x.pc = "loop" THEN x.st \o "_" \o x.mode ELSE x.pc
\* (the field that is the flow level in WorkPump.tla says here whether the column is beyond best_width: the split rules)
Edge(ch) == PrintT(ToString(<<"E", Id(w), Id(w'), Loop(w), Loop(w'), ch, <<>>, w.rl, 0, IF w.col > W THEN 1 ELSE 0, 0, FALSE>>))
PInit == Init /\ PrintT(ToString(<<"I", Id(w)>>))
PNext == (\E st \in Styles : Begin(st) /\ Edge(st)) \/ (\E ch \in AllClasses : Step(ch) /\ Edge(ch))
PSpec == PInit /\ [][PNext]_vars
=============================================================================
