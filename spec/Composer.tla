------------------------------ MODULE Composer ------------------------------
(***************************************************************************)
(* C13: anchors, aliases and object identity.                              *)
(*                                                                         *)
(* A behaviour builds an event stream one event at a time (lazy input      *)
(* choice) and feeds it to                                                 *)
(*   L : the composer of composer.py - the `anchors` table (registered     *)
(*       BEFORE the children of a collection are composed, cleared at the  *)
(*       end of every document), duplicate / undefined checks, node heap;  *)
(*       node identity = index of the event that created the node          *)
(*   H : the rule of the property, written on the event list alone: an     *)
(*       alias denotes the node whose anchor of that name was defined      *)
(*       earlier in the same document (DefIndex), it is an error if there  *)
(*       is none, and a second definition in one document is an error.     *)
(* TLC checks that L attaches exactly the node H names (AliasIsIdentity),  *)
(* that the two error conditions coincide (ErrorsAgree) and that anchors   *)
(* never leak into the next document (NoLeak).  Complete streams are       *)
(* printed, loaded by the real loaders and the identity partition of the   *)
(* resulting node / object graphs is compared with the heap of the state.  *)
(***************************************************************************)
EXTENDS Naturals, Sequences, FiniteSets, TLC

CONSTANTS MaxEvents, MaxDocs, Anchors, MapKinds, SeqKinds, ScalarAnchors

VARIABLES evs,      \* the events so far
          heap,     \* heap[i] = node created by event i ([kind |-> "-"] for alias / end events)
          stack,    \* open collections (event indices)
          anchors,  \* L: anchor name -> node id (0 = undefined)
          roots,    \* roots of the documents completed so far
          docstart, \* index of the first event of the current document
          outcome   \* "run", "undefined_alias", "duplicate_anchor", "unhashable_key", "unconstructable", "deep_soft"
vars == <<evs, heap, stack, anchors, roots, docstart, outcome>>

None == "-"
Ev(k, a, t) == [k |-> k, a |-> a, t |-> t]
NodeEv(e) == e.k \in {"S", "Q", "M"}
Last(s) == s[Len(s)]
Front(s) == SubSeq(s, 1, Len(s) - 1)
IsColl(n) == n.kind \in {"seq", "map", "set", "omap", "pairs"}
Unhashable(n) == n.kind \in {"seq", "map", "set", "omap", "pairs"}   \* list, dict, set: not hashable; "obj" and "app" are

(***************************************************************************)
(* H on the event list                                                     *)
(***************************************************************************)
\* the definition an alias at position i refers to: the node event carrying that anchor earlier in the document
Defs(es, ds, i, name) == {j \in ds .. i - 1 : NodeEv(es[j]) /\ es[j].a = name}
HasDef(es, ds, i, name) == Defs(es, ds, i, name) # {}
DefIndex(es, ds, i, name) == CHOOSE j \in Defs(es, ds, i, name) : \A x \in Defs(es, ds, i, name) : x <= j

(***************************************************************************)
(* L : composer.py                                                         *)
(***************************************************************************)
Attach(h, st, child) == IF st = <<>> THEN h ELSE [h EXCEPT ![Last(st)].c = Append(@, child)]

\* a key of a mapping / member of a set that is a list, dict or set cannot be hashed (constructor.py:141-143)
RECURSIVE Reach(_, _, _)
Reach(h, todo, seen) == IF todo = {} THEN seen
                        ELSE LET n == CHOOSE x \in todo : TRUE
                                 cs == {h[n].c[j] : j \in DOMAIN h[n].c}
                             IN  Reach(h, (todo \cup cs) \ (seen \cup {n}), seen \cup {n})
KeysOf(n) == {n.c[j] : j \in {x \in DOMAIN n.c : x % 2 = 1}}
\* the element mappings of an !!omap / !!pairs list are taken apart into (key, value) tuples, not built as dicts: their
\* keys need not be hashable - unless the same mapping node is also used as an ordinary node somewhere
BuiltAsNode(h, r, n) == n = r \/ \E p \in Reach(h, {r}, {}) : h[p].kind \notin {"omap", "pairs"} /\ \E j \in DOMAIN h[p].c : h[p].c[j] = n
BadKey(h, r) == \E n \in Reach(h, {r}, {}) : h[n].kind \in {"map", "set", "obj", "sobj"} /\ BuiltAsNode(h, r, n)
                                              /\ \E k \in KeysOf(h[n]) : Unhashable(h[k])

\* Deep construction (constructor.py:61-100): the arguments of a python/object/apply node ("app") are built with
\* deep=True: inside that region a two-phase collection is completed BEFORE it is registered, so an alias inside the
\* region to an enclosing node of the region finds it "in progress".  When the target is the apply node itself the
\* self-reference runs through constructor arguments and cannot be built (hard: ConstructorError is the required
\* outcome); when it is an enclosing plain collection inside the region the statement would have it built, the
\* implementation rejects it (soft: either outcome is accepted; recorded as a limit in DESIGN.md).
\* The state mapping of an object whose class defines __setstate__ ("sobj": python/object:, constructor.py
\* construct_python_object / set_python_instance_state, and YAMLObject classes) is built with deep=True as well - but AFTER
\* the instance exists and has been registered (the constructor yields the bare instance first), so a reference from inside
\* the state to the object itself is an ordinary buildable self-reference: "none".
DeepRegion(h, st) == LET apps == {j \in DOMAIN st : h[st[j]].kind \in {"app", "sobj"}} IN
                     IF apps = {} THEN {} ELSE {st[j] : j \in {x \in DOMAIN st : x >= (CHOOSE m \in apps : \A y \in apps : m <= y)}}
DeepMark(h, st, t) == IF t \notin DeepRegion(h, st) \/ h[t].kind = "sobj" THEN "none" ELSE IF h[t].kind = "app" THEN "hard" ELSE "soft"
\* !!omap / !!pairs: every element must be a mapping with exactly one pair (constructor.py:352-394); the list itself is a
\* two-phase object, so an alias inside an element may refer back to it
BadPairs(h, r) == \E n \in Reach(h, {r}, {}) : h[n].kind \in {"omap", "pairs"} /\
                    \E j \in DOMAIN h[n].c : ~(h[h[n].c[j]].kind = "map" /\ Len(h[h[n].c[j]].c) = 2)
DocMarks(h) == {h[j].d : j \in {x \in DOMAIN h : x >= docstart}}

DocDone(h, r) ==    \* compose_document(): anchors cleared; construct_document(): may fail
  /\ anchors' = [a \in Anchors |-> 0]
  /\ roots' = Append(roots, r)
  /\ docstart' = Len(evs) + 2
  /\ outcome' = IF BadKey(h, r) \/ BadPairs(h, r) THEN "unhashable_key"       \* both: ConstructorError
                ELSE IF "hard" \in DocMarks(h) THEN "unconstructable"
                ELSE IF "soft" \in DocMarks(h) THEN "deep_soft" ELSE "run"

\* room for this event and for the end events of every open collection
CanStart == outcome = "run" /\ Len(evs) + 1 + Len(stack) <= MaxEvents /\ (stack # <<>> \/ Len(roots) < MaxDocs)

Scalar(a) ==
  /\ CanStart
  /\ LET i == Len(evs) + 1 IN
     /\ evs' = Append(evs, Ev("S", a, "str"))
     /\ IF a # None /\ anchors[a] # 0
        THEN /\ outcome' = "duplicate_anchor"
             /\ heap' = Append(heap, [kind |-> "-", c |-> <<>>, d |-> "none"])
             /\ UNCHANGED <<stack, anchors, roots, docstart>>
        ELSE LET h1 == Attach(Append(heap, [kind |-> "s", c |-> <<>>, d |-> "none"]), stack, i) IN
             /\ heap' = h1
             /\ UNCHANGED stack
             /\ IF stack = <<>> THEN DocDone(h1, i)
                ELSE /\ anchors' = IF a = None THEN anchors ELSE [anchors EXCEPT ![a] = i]
                     /\ UNCHANGED <<roots, docstart, outcome>>

Alias(a) ==
  /\ CanStart
  /\ evs' = Append(evs, Ev("A", a, "-"))
  /\ IF anchors[a] = 0
     THEN /\ outcome' = "undefined_alias"
          /\ heap' = Append(heap, [kind |-> "-", c |-> <<>>, d |-> "none"])
          /\ UNCHANGED <<stack, anchors, roots, docstart>>
     ELSE /\ heap' = Attach(Append(heap, [kind |-> "-", c |-> <<>>, d |-> DeepMark(heap, stack, anchors[a])]), stack, anchors[a])
          /\ UNCHANGED <<stack, anchors, roots, docstart, outcome>>

Start(k, a, kind) ==
  /\ CanStart
  /\ Len(evs) + 2 + Len(stack) <= MaxEvents   \* room for the matching end
  /\ LET i == Len(evs) + 1 IN
     /\ evs' = Append(evs, Ev(k, a, kind))
     /\ IF a # None /\ anchors[a] # 0
        THEN /\ outcome' = "duplicate_anchor"
             /\ heap' = Append(heap, [kind |-> "-", c |-> <<>>, d |-> "none"])
             /\ UNCHANGED <<stack, anchors, roots, docstart>>
        ELSE /\ heap' = Attach(Append(heap, [kind |-> kind, c |-> <<>>, d |-> "none"]), stack, i)
             /\ anchors' = IF a = None THEN anchors ELSE [anchors EXCEPT ![a] = i]    \* before the children
             /\ stack' = Append(stack, i)
             /\ UNCHANGED <<roots, docstart, outcome>>

End ==
  /\ outcome = "run" /\ stack # <<>>
  /\ heap[Last(stack)].kind \in {"seq", "omap", "pairs", "app"} \/ Len(heap[Last(stack)].c) % 2 = 0
  /\ evs' = Append(evs, Ev("E", None, "-"))
  /\ heap' = Append(heap, [kind |-> "-", c |-> <<>>, d |-> "none"])
  /\ stack' = Front(stack)
  /\ IF Len(stack) = 1 THEN DocDone(heap', Last(stack))
     ELSE UNCHANGED <<anchors, roots, docstart, outcome>>

Init == /\ evs = <<>> /\ heap = <<>> /\ stack = <<>> /\ anchors = [a \in Anchors |-> 0]
        /\ roots = <<>> /\ docstart = 1 /\ outcome = "run"

Next == \/ \E a \in (IF ScalarAnchors THEN Anchors \cup {None} ELSE {None}) : Scalar(a)
        \/ \E a \in Anchors : Alias(a)
        \/ \E a \in Anchors \cup {None}, kind \in SeqKinds : Start("Q", a, kind)
        \/ \E a \in Anchors \cup {None}, kind \in MapKinds : Start("M", a, kind)
        \/ End

Spec == Init /\ [][Next]_vars

Complete == stack = <<>>          \* the stream read so far is a sequence of whole documents (or ended in an error)

(***************************************************************************)
(* properties (L refines H)                                                *)
(***************************************************************************)
\* the last event, if an alias, was attached to exactly the node H names, or rejected exactly when H has no definition
AliasIsIdentity ==
  evs # <<>> /\ Last(evs).k = "A" =>
    LET i == Len(evs)
        a == Last(evs).a
    IN  IF HasDef(evs, docstart, i, a)
        THEN outcome = "run" /\ stack # <<>> /\ Last(heap[Last(stack)].c) = DefIndex(evs, docstart, i, a)
        ELSE outcome = "undefined_alias"

\* a node event is rejected exactly when its anchor already has a definition in this document
ErrorsAgree ==
  evs # <<>> /\ NodeEv(Last(evs)) /\ Last(evs).a # None =>
    LET i == Len(evs)
    IN  (outcome = "duplicate_anchor") <=> (docstart <= i /\ HasDef(evs, docstart, i, Last(evs).a))

\* anchors never survive the end of a document
NoLeak == (stack = <<>> /\ outcome # "duplicate_anchor" /\ outcome # "undefined_alias") => \A a \in Anchors : anchors[a] = 0

\* every anchor entry points at a node event of the current document carrying that name
AnchorsSound == \A a \in Anchors : anchors[a] # 0 =>
                   /\ anchors[a] >= docstart /\ NodeEv(evs[anchors[a]]) /\ evs[anchors[a]].a = a
=============================================================================
