------------------------------ MODULE WorkEmit ------------------------------
(***************************************************************************)
(* C20, dump side.  L: cost model of what could make dumping superlinear:  *)
(*                                                                         *)
(*   representer  represented_objects / alias_key: dict keyed by id()      *)
(*   serializer   anchors: dict keyed by node; anchor_node visits a node    *)
(*                once plus one lookup per further reference;              *)
(*                serialize_node: one lookup per node                      *)
(*   emitter      emit(): events.append; while not need_more_events():     *)
(*                events.pop(0); state().  need_more_events looks at       *)
(*                events[0]; need_events(count) copies events[1:] and      *)
(*                walks it until the collection / document at the head is  *)
(*                closed; it asks for at most count = 1 / 2 / 3 further    *)
(*                events (emitter.py:120-144)                              *)
(*   writers      analyze_scalar and write_* walk the text once; a run is  *)
(*                sliced text[start:end] and written once                  *)
(*                                                                         *)
(* The producer (representer + serializer) is the environment: it chooses  *)
(* the next event lazily, any grammatical event stream of any length with  *)
(* nesting depth <= MaxDepth and scalar length <= MaxScalar.  The          *)
(* configuration space is finite, so TLC covers ALL such streams:          *)
(*   EventQueueBound : len(self.events) <= 4                               *)
(*   StepCost        : every action costs at most CMax                     *)
(*   Progress        : at most SPE actions per event + FuelCap             *)
(* hence work <= CMax * (SPE * events + FuelCap).                          *)
(*                                                                         *)
(* Variant "lookahead" is the negative control: need_events waits until    *)
(* the collection at the head of the queue is complete (as an emitter that *)
(* wants to know whether a flow collection fits on the line would);        *)
(* "anchorscan" keeps the serializer's anchors in a list.                  *)
(***************************************************************************)
EXTENDS Integers, Sequences, FiniteSets, TLC
CONSTANTS MaxDepth, MaxScalar, Variant, MaxEvents    \* MaxEvents bounds the stream only when Variant # "code"
VARIABLES q,        \* self.events: kinds of the queued events
          pd,       \* depth of open collections in what the producer has sent
          indoc,    \* producer: inside a document; root: the document has its root node
          root, ended, pc, last, fuel, sent, nn
vars == <<q, pd, indoc, root, ended, pc, last, fuel, sent, nn>>

Min2(a, b) == IF a < b THEN a ELSE b
KEmit   == 6                                 \* expect_* + process_anchor/tag + write_indicator/indent per event
QMaxE   == 4
CMax    == 3 * QMaxE + KEmit + 3 * MaxScalar + 8
SPE     == 3
FuelCap == 3 * (QMaxE + 2)
Starts == {"DS", "SS", "MS"}
Ends   == {"DE", "CE"}

\* need_events(count): level walk over events[1:]
RECURSIVE Walk(_, _, _)
Walk(s, level, n) ==                         \* -> <<closed?, elements visited>>
  IF s = <<>> THEN <<FALSE, n>>
  ELSE LET l2 == CASE Head(s) \in Starts -> level + 1
                   [] Head(s) \in Ends   -> level - 1
                   [] Head(s) = "STE"    -> -1
                   [] OTHER -> level
       IN  IF l2 < 0 THEN <<TRUE, n + 1>> ELSE Walk(Tail(s), l2, n + 1)

Count(k) == CASE k = "DS" -> 1 [] k = "SS" -> 2 [] k = "MS" -> 3 [] OTHER -> 0

NeedMore ==                                  \* -> <<need more events?, cost>>
  IF q = <<>> THEN <<TRUE, 1>>
  ELSE IF Head(q) \notin Starts THEN <<FALSE, 2>>
  ELSE LET w == Walk(Tail(q), 0, 0)
           cost == 3 + (Len(q) - 1) + w[2]              \* isinstance chain, the slice, the loop
       IN  IF w[1] THEN <<FALSE, cost>>
           ELSE IF Variant = "lookahead" THEN <<TRUE, cost>>
           ELSE <<Len(q) < Count(Head(q)) + 1, cost>>

\* the producer: representer / serializer work for the node behind the event, then emit(event)
TableCost == IF Variant = "anchorscan" THEN 3 + nn ELSE 3   \* represented_objects, anchors, serialized_nodes
Send(k, tc, len) ==
  /\ pc = "produce" /\ ~ended
  /\ (Variant # "code") => sent < MaxEvents
  /\ q' = Append(q, k)
  /\ last' = 1 + tc + len                    \* events.append; for a scalar the representer touches the text once
  /\ pc' = "drain"
  /\ fuel' = Min2(FuelCap, fuel + SPE) - 1
  /\ sent' = IF Variant = "code" THEN 0 ELSE sent + 1
  /\ nn' = IF Variant = "anchorscan" /\ tc > 0 THEN nn + 1 ELSE nn

NodeAllowed == indoc /\ (pd > 0 \/ ~root)
SendDocStart == ~indoc /\ Send("DS", 0, 0) /\ indoc' = TRUE /\ root' = FALSE /\ UNCHANGED <<pd, ended>>
SendDocEnd   == indoc /\ pd = 0 /\ root /\ Send("DE", 0, 0) /\ indoc' = FALSE /\ UNCHANGED <<pd, root, ended>>
SendStreamEnd == ~indoc /\ Send("STE", 0, 0) /\ ended' = TRUE /\ UNCHANGED <<pd, indoc, root>>
SendScalar   == NodeAllowed /\ \E l \in 1 .. MaxScalar : Send("SC" , TableCost, l) /\ root' = TRUE /\ UNCHANGED <<pd, indoc, ended>>
SendAlias    == NodeAllowed /\ Send("AL", 1, 0) /\ root' = TRUE /\ UNCHANGED <<pd, indoc, ended>>
SendStart    == NodeAllowed /\ pd < MaxDepth /\ \E k \in {"SS", "MS"} : Send(k, TableCost, 0)
                /\ pd' = pd + 1 /\ root' = TRUE /\ UNCHANGED <<indoc, ended>>
SendEnd      == indoc /\ pd > 0 /\ Send("CE", 0, 0) /\ pd' = pd - 1 /\ UNCHANGED <<indoc, root, ended>>

\* emit(): while not self.need_more_events(): self.event = self.events.pop(0); self.state()
Drain ==
  /\ pc = "drain"
  /\ LET nm == NeedMore IN
     IF nm[1] THEN /\ pc' = (IF ended /\ q = <<>> THEN "done" ELSE "produce") /\ last' = nm[2] /\ q' = q
     ELSE /\ q' = Tail(q)
          /\ last' = nm[2] + Len(q) + KEmit + (IF Head(q) = "SC" THEN 3 * MaxScalar ELSE 0)   \* pop(0); state(); analysis + writer
          /\ pc' = "drain"
  /\ fuel' = fuel - 1
  /\ UNCHANGED <<pd, indoc, root, ended, sent, nn>>

Init == q = <<>> /\ pd = 0 /\ indoc = FALSE /\ root = FALSE /\ ended = FALSE /\ pc = "produce" /\ last = 0
        /\ fuel = FuelCap /\ sent = 0 /\ nn = 0
Next == SendDocStart \/ SendDocEnd \/ SendStreamEnd \/ SendScalar \/ SendAlias \/ SendStart \/ SendEnd \/ Drain
Spec == Init /\ [][Next]_vars

EventQueueBound == Len(q) <= QMaxE
StepCost == last <= CMax
Progress == fuel >= 0
Drained  == (pc = "done") => q = <<>>       \* nothing is left behind at STREAM-END
=============================================================================
