------------------------------ MODULE EmitRead ------------------------------
(***************************************************************************)
(* Event-level reader model: what scanner.py + parser.py make of the text  *)
(* the emitter model wrote, as far as structure is concerned.  Input: the  *)
(* text (for line/column of every token) and the item list of Emitter.tla  *)
(* (indicators, document markers, directives, anchors, tags, scalars as    *)
(* abstract items - their values are the business of Scalars.tla).         *)
(*                                                                         *)
(* Part 1: the structural half of the scanner: indentation stack with      *)
(* BLOCK-SEQUENCE-START / BLOCK-MAPPING-START / BLOCK-END, flow level,     *)
(* simple keys (one line, KEY inserted retroactively at `:`, required keys)*)
(* column-0 rule for `---` `...` and directives.                           *)
(* Part 2: the LL(1) parser as recursive descent: implicit / explicit      *)
(* documents, directives, tag handles, empty scalars, indentless sequences.*)
(* Output: events in the record form of H_EventEq.tla.                     *)
(***************************************************************************)
EXTENDS Integers, Sequences, FiniteSets, TLC

LOCAL Last(s) == s[Len(s)]
LOCAL Front(s) == SubSeq(s, 1, Len(s) - 1)
InsertAt(s, i, x) == SubSeq(s, 1, i - 1) \o <<x>> \o SubSeq(s, i, Len(s))
Brk == {10, 133, 8232, 8233}

\* line and column of every offset 0 .. Len(text)   (reader.forward)
RECURSIVE LineColLoop(_, _, _, _, _)
LineColLoop(text, i, line, col, acc) ==
  IF i > Len(text) THEN acc
  ELSE LET ch == text[i]
           brk == ch \in Brk \/ (ch = 13 /\ (i = Len(text) \/ text[i + 1] # 10))
           l2 == IF brk THEN line + 1 ELSE line
           c2 == IF brk THEN 0 ELSE IF ch # 65279 THEN col + 1 ELSE col
       IN  LineColLoop(text, i + 1, l2, c2, Append(acc, <<l2, c2>>))
LineCol(text) == LineColLoop(text, 1, 0, 0, << <<0, 0>> >>)      \* LineCol(text)[off + 1] = <<line, col>> at offset off

(***************************************************************************)
(* Part 1: items -> tokens                                                 *)
(***************************************************************************)
Sc0 == [toks |-> <<>>, indent |-> -1, indents |-> <<>>, flow |-> 0, allow |-> TRUE, pk |-> {}, err |-> "-", endline |-> 0]
ScErr(sc, why) == IF sc.err = "-" THEN [sc EXCEPT !.err = why] ELSE sc
Emit(sc, tok) == [sc EXCEPT !.toks = Append(@, tok)]

RECURSIVE Unwind(_, _)
Unwind(sc, col) ==                               \* unwind_indent
  IF sc.flow > 0 \/ sc.indent <= col THEN sc
  ELSE Unwind(Emit([sc EXCEPT !.indent = Last(sc.indents), !.indents = Front(sc.indents)], [k |-> "BEND"]), col)
AddIndent(sc, col) == IF sc.indent < col THEN [sc EXCEPT !.indents = Append(@, sc.indent), !.indent = col] ELSE sc
Added(sc, col) == sc.indent < col

KeyAt(sc) == {p \in sc.pk : p.lvl = sc.flow}
RemoveKey(sc) ==                                 \* remove_possible_simple_key
  IF \E p \in KeyAt(sc) : p.req THEN ScErr(sc, "could not find expected ':'")
  ELSE [sc EXCEPT !.pk = @ \ KeyAt(sc)]
Stale(sc, line) ==                               \* stale_possible_simple_keys
  LET old == {p \in sc.pk : p.line # line}
  IN  IF \E p \in old : p.req THEN ScErr(sc, "could not find expected ':' (stale required key)")
      ELSE [sc EXCEPT !.pk = @ \ old]
SaveKey(sc, line, col) ==                        \* save_possible_simple_key
  IF ~sc.allow THEN sc
  ELSE LET s1 == RemoveKey(sc)
       IN  [s1 EXCEPT !.pk = @ \cup {[lvl |-> sc.flow, tok |-> Len(sc.toks) + 1, line |-> line, col |-> col,
                                      req |-> sc.flow = 0 /\ sc.indent = col]}]

ScanItem(sc0, it, lc) ==
  LET line == lc[it.off + 1][1]
      col == lc[it.off + 1][2]
      \* scan_to_next_token: a line break in the block context allows a simple key
      sa == IF sc0.flow = 0 /\ line > sc0.endline THEN [sc0 EXCEPT !.allow = TRUE] ELSE sc0
      sc == [Unwind(Stale(sa, line), col) EXCEPT !.endline = lc[it.end + 1][1]]
      t == it.t
  IN  IF sc.err # "-" THEN sc
      ELSE CASE t \in {"---", "...", "verdir", "tagdir"} ->
                  IF col # 0 THEN ScErr(sc, "document marker or directive not at column 0")
                  ELSE Emit([RemoveKey(Unwind(sc, -1)) EXCEPT !.allow = FALSE],
                            IF t = "---" THEN [k |-> "DS"] ELSE IF t = "..." THEN [k |-> "DE"]
                            ELSE IF t = "verdir" THEN [k |-> "DIR", ver |-> it.ver, h |-> ""] ELSE [k |-> "DIR", ver |-> "", h |-> it.h])
             [] t \in {"[", "{"} ->
                  Emit([SaveKey(sc, line, col) EXCEPT !.flow = @ + 1, !.allow = TRUE], [k |-> IF t = "[" THEN "FSS" ELSE "FMS"])
             [] t \in {"]", "}"} ->
                  Emit([RemoveKey(sc) EXCEPT !.flow = @ - 1, !.allow = FALSE], [k |-> IF t = "]" THEN "FSE" ELSE "FME"])
             [] t = "," -> Emit([RemoveKey(sc) EXCEPT !.allow = TRUE], [k |-> "FENTRY"])
             [] t = "-" ->
                  IF sc.flow = 0 /\ ~sc.allow THEN ScErr(sc, "sequence entries are not allowed here")
                  ELSE LET s1 == IF sc.flow = 0 /\ Added(sc, col) THEN Emit(AddIndent(sc, col), [k |-> "BSS"]) ELSE sc
                       IN  Emit([RemoveKey(s1) EXCEPT !.allow = TRUE], [k |-> "BENTRY"])
             [] t = "?" ->
                  IF sc.flow = 0 /\ ~sc.allow THEN ScErr(sc, "mapping keys are not allowed here")
                  ELSE LET s1 == IF sc.flow = 0 /\ Added(sc, col) THEN Emit(AddIndent(sc, col), [k |-> "BMS"]) ELSE sc
                       IN  Emit([RemoveKey(s1) EXCEPT !.allow = (sc.flow = 0)], [k |-> "KEY"])
             [] t = ":" ->
                  IF KeyAt(sc) # {}
                  THEN LET p == CHOOSE q \in KeyAt(sc) : TRUE
                           s1 == [sc EXCEPT !.pk = @ \ {p}, !.toks = InsertAt(@, p.tok, [k |-> "KEY"])]
                           s2 == IF sc.flow = 0 /\ Added(s1, p.col)
                                 THEN [AddIndent(s1, p.col) EXCEPT !.toks = InsertAt(s1.toks, p.tok, [k |-> "BMS"])] ELSE s1
                       IN  Emit([s2 EXCEPT !.allow = FALSE], [k |-> "VALUE"])
                  ELSE IF sc.flow = 0 /\ ~sc.allow THEN ScErr(sc, "mapping values are not allowed here")
                  ELSE LET s1 == IF sc.flow = 0 /\ Added(sc, col) THEN Emit(AddIndent(sc, col), [k |-> "BMS"]) ELSE sc
                       IN  Emit([RemoveKey(s1) EXCEPT !.allow = (sc.flow = 0)], [k |-> "VALUE"])
             [] t = "alias" -> Emit([SaveKey(sc, line, col) EXCEPT !.allow = FALSE], [k |-> "ALIAS", a |-> it.a])
             [] t = "anchor" -> Emit([SaveKey(sc, line, col) EXCEPT !.allow = FALSE], [k |-> "ANCHOR", a |-> it.a])
             [] t = "tag" -> Emit([SaveKey(sc, line, col) EXCEPT !.allow = FALSE], [k |-> "TAG", tag |-> it.tag, hd |-> it.hd, sfx |-> it.sfx])
             [] t = "scalar" ->
                  LET tok == [k |-> "SCALAR", v |-> it.v, plain |-> it.style = "plain"]
                  IN  IF it.style \in {"literal", "folded"} THEN Emit([RemoveKey(sc) EXCEPT !.allow = TRUE], tok)
                      ELSE Emit([SaveKey(sc, line, col) EXCEPT !.allow = (it.style = "plain" /\ it.ml)], tok)
             [] OTHER -> ScErr(sc, "unknown item")

RECURSIVE ScanItems(_, _, _, _)
ScanItems(sc, items, j, lc) == IF j > Len(items) \/ sc.err # "-" THEN sc ELSE ScanItems(ScanItem(sc, items[j], lc), items, j + 1, lc)
Tokens(text, items) ==
  LET sc == ScanItems(Sc0, items, 1, LineCol(text))
      fin == IF sc.err # "-" THEN sc ELSE Emit(RemoveKey(Unwind(sc, -1)), [k |-> "SE"])
  IN  [err |-> fin.err, toks |-> fin.toks]

(***************************************************************************)
(* Part 2: tokens -> events                                                *)
(***************************************************************************)
PErr(why, i) == [ok |-> FALSE, evs |-> <<>>, i |-> i, why |-> why]
POk(evs, i) == [ok |-> TRUE, evs |-> evs, i |-> i, why |-> "-"]
K(toks, i) == IF i <= Len(toks) THEN toks[i].k ELSE "SE"
Ev(k) == [k |-> k, a |-> <<>>, t |-> <<>>, v |-> <<>>, i |-> <<>>, p |-> 0, ver |-> <<>>, tags |-> <<>>]
EmptyScalar(a, t) == [Ev("Scalar") EXCEPT !.a = a, !.t = t, !.p = 1]

CONSTANTS AnchorText(_), ResolveTag(_, _, _, _), ScalarText(_)

RECURSIVE ParseNode(_, _, _, _, _), BlockSeq(_, _, _, _), IndentlessSeq(_, _, _, _), BlockMap(_, _, _, _),
          FlowSeq(_, _, _, _, _), FlowMap(_, _, _, _, _)

ParseNode(toks, i0, block, indentless, handles) ==
  IF K(toks, i0) = "ALIAS" THEN POk(<<[Ev("Alias") EXCEPT !.a = AnchorText(toks[i0].a)]>>, i0 + 1)
  ELSE LET k0 == K(toks, i0)
           k1 == K(toks, i0 + 1)
           hasA == k0 = "ANCHOR" \/ (k0 = "TAG" /\ k1 = "ANCHOR")
           hasT == k0 = "TAG" \/ (k0 = "ANCHOR" /\ k1 = "TAG")
           ia == IF k0 = "ANCHOR" THEN i0 ELSE i0 + 1
           itg == IF k0 = "TAG" THEN i0 ELSE i0 + 1
           i == i0 + (IF hasA THEN 1 ELSE 0) + (IF hasT THEN 1 ELSE 0)
           a == IF hasA THEN AnchorText(toks[ia].a) ELSE <<>>
           t == IF hasT THEN ResolveTag(toks[itg].hd, toks[itg].sfx, toks[itg].tag, handles) ELSE <<>>
           k == K(toks, i)
           Start(kind) == [Ev(kind) EXCEPT !.a = a, !.t = t]
           Wrap(kind, r) == IF r.ok THEN POk(<<Start(kind)>> \o r.evs, r.i) ELSE r
       IN  IF hasT /\ t = <<0>> THEN PErr("found undefined tag handle", itg)
           ELSE IF indentless /\ k = "BENTRY" THEN Wrap("SequenceStart", IndentlessSeq(toks, i, handles, <<>>))
           ELSE IF k = "SCALAR" THEN POk(<<[Start("Scalar") EXCEPT !.v = ScalarText(toks[i].v), !.p = IF toks[i].plain THEN 1 ELSE 0]>>, i + 1)
           ELSE IF k = "FSS" THEN Wrap("SequenceStart", FlowSeq(toks, i + 1, handles, TRUE, <<>>))
           ELSE IF k = "FMS" THEN Wrap("MappingStart", FlowMap(toks, i + 1, handles, TRUE, <<>>))
           ELSE IF block /\ k = "BSS" THEN Wrap("SequenceStart", BlockSeq(toks, i + 1, handles, <<>>))
           ELSE IF block /\ k = "BMS" THEN Wrap("MappingStart", BlockMap(toks, i + 1, handles, <<>>))
           ELSE IF hasA \/ hasT THEN POk(<<EmptyScalar(a, t)>>, i)
           ELSE PErr("expected the node content", i)

BlockSeq(toks, i, handles, acc) ==               \* parse_block_sequence_entry
  IF K(toks, i) = "BENTRY"
  THEN IF K(toks, i + 1) \in {"BENTRY", "BEND"} THEN BlockSeq(toks, i + 1, handles, Append(acc, EmptyScalar(<<>>, <<>>)))
       ELSE LET r == ParseNode(toks, i + 1, TRUE, FALSE, handles)
            IN  IF r.ok THEN BlockSeq(toks, r.i, handles, acc \o r.evs) ELSE r
  ELSE IF K(toks, i) = "BEND" THEN POk(Append(acc, Ev("SequenceEnd")), i + 1)
  ELSE PErr("expected <block end> in a block sequence", i)

IndentlessSeq(toks, i, handles, acc) ==          \* parse_indentless_sequence_entry
  IF K(toks, i) = "BENTRY"
  THEN IF K(toks, i + 1) \in {"BENTRY", "KEY", "VALUE", "BEND"} THEN IndentlessSeq(toks, i + 1, handles, Append(acc, EmptyScalar(<<>>, <<>>)))
       ELSE LET r == ParseNode(toks, i + 1, TRUE, FALSE, handles)
            IN  IF r.ok THEN IndentlessSeq(toks, r.i, handles, acc \o r.evs) ELSE r
  ELSE POk(Append(acc, Ev("SequenceEnd")), i)

BlockMap(toks, i, handles, acc) ==               \* parse_block_mapping_key + parse_block_mapping_value
  IF K(toks, i) = "BEND" THEN POk(Append(acc, Ev("MappingEnd")), i + 1)
  ELSE IF K(toks, i) \notin {"KEY", "VALUE"} THEN PErr("expected <block end> in a block mapping", i)
  ELSE LET kr == IF K(toks, i) = "KEY"
                 THEN IF K(toks, i + 1) \in {"KEY", "VALUE", "BEND"} THEN POk(<<EmptyScalar(<<>>, <<>>)>>, i + 1)
                      ELSE ParseNode(toks, i + 1, TRUE, TRUE, handles)
                 ELSE POk(<<EmptyScalar(<<>>, <<>>)>>, i)       \* a VALUE without KEY: cannot come from the scanner; kept total
       IN  IF ~kr.ok THEN kr
           ELSE LET vr == IF K(toks, kr.i) = "VALUE"
                          THEN IF K(toks, kr.i + 1) \in {"KEY", "VALUE", "BEND"} THEN POk(<<EmptyScalar(<<>>, <<>>)>>, kr.i + 1)
                               ELSE ParseNode(toks, kr.i + 1, TRUE, TRUE, handles)
                          ELSE POk(<<EmptyScalar(<<>>, <<>>)>>, kr.i)
                IN  IF ~vr.ok THEN vr ELSE BlockMap(toks, vr.i, handles, acc \o kr.evs \o vr.evs)

FlowSeq(toks, i0, handles, first, acc) ==        \* parse_flow_sequence_entry (single-pair mappings are never written)
  IF K(toks, i0) = "FSE" THEN POk(Append(acc, Ev("SequenceEnd")), i0 + 1)
  ELSE IF ~first /\ K(toks, i0) # "FENTRY" THEN PErr("expected ',' or ']'", i0)
  ELSE LET i == IF first THEN i0 ELSE i0 + 1
       IN  IF K(toks, i) = "KEY" THEN PErr("single-pair mapping in a flow sequence (not modelled)", i)
           ELSE IF K(toks, i) = "FSE" THEN POk(Append(acc, Ev("SequenceEnd")), i + 1)
           ELSE LET r == ParseNode(toks, i, FALSE, FALSE, handles)
                IN  IF r.ok THEN FlowSeq(toks, r.i, handles, FALSE, acc \o r.evs) ELSE r

FlowMap(toks, i0, handles, first, acc) ==        \* parse_flow_mapping_key / value / empty_value
  IF K(toks, i0) = "FME" THEN POk(Append(acc, Ev("MappingEnd")), i0 + 1)
  ELSE IF ~first /\ K(toks, i0) # "FENTRY" THEN PErr("expected ',' or '}'", i0)
  ELSE LET i == IF first THEN i0 ELSE i0 + 1
       IN  IF K(toks, i) = "FME" THEN POk(Append(acc, Ev("MappingEnd")), i + 1)
           ELSE IF K(toks, i) = "KEY"
           THEN LET kr == IF K(toks, i + 1) \in {"VALUE", "FENTRY", "FME"} THEN POk(<<EmptyScalar(<<>>, <<>>)>>, i + 1)
                          ELSE ParseNode(toks, i + 1, FALSE, FALSE, handles)
                IN  IF ~kr.ok THEN kr
                    ELSE LET vr == IF K(toks, kr.i) = "VALUE"
                                   THEN IF K(toks, kr.i + 1) \in {"FENTRY", "FME"} THEN POk(<<EmptyScalar(<<>>, <<>>)>>, kr.i + 1)
                                        ELSE ParseNode(toks, kr.i + 1, FALSE, FALSE, handles)
                                   ELSE POk(<<EmptyScalar(<<>>, <<>>)>>, kr.i)
                         IN  IF ~vr.ok THEN vr ELSE FlowMap(toks, vr.i, handles, FALSE, acc \o kr.evs \o vr.evs)
           ELSE LET kr == ParseNode(toks, i, FALSE, FALSE, handles)          \* key without `?`: value is empty
                IN  IF ~kr.ok THEN kr ELSE FlowMap(toks, kr.i, handles, FALSE, acc \o kr.evs \o <<EmptyScalar(<<>>, <<>>)>>)

\* process_directives: -> [ok, ver, handles, i]
RECURSIVE Directives(_, _, _, _)
Directives(toks, i, ver, handles) ==
  IF K(toks, i) # "DIR" THEN [ok |-> TRUE, ver |-> ver, handles |-> handles, i |-> i, why |-> "-"]
  ELSE LET d == toks[i]
       IN  IF d.ver # "" THEN IF ver # "" THEN [ok |-> FALSE, ver |-> ver, handles |-> handles, i |-> i, why |-> "found duplicate YAML directive"]
                              ELSE Directives(toks, i + 1, d.ver, handles)
           ELSE IF d.h \in handles THEN [ok |-> FALSE, ver |-> ver, handles |-> handles, i |-> i, why |-> "duplicate tag handle"]
           ELSE Directives(toks, i + 1, ver, handles \cup {d.h})

VerRec(v) == IF v = "1.1" THEN <<1, 1>> ELSE IF v = "1.2" THEN <<1, 2>> ELSE <<>>
RECURSIVE SkipDE(_, _)
SkipDE(toks, i) == IF K(toks, i) = "DE" THEN SkipDE(toks, i + 1) ELSE i
SetToSeq(s) == IF s = {} THEN <<>> ELSE LET RECURSIVE F(_) F(x) == IF x = {} THEN <<>> ELSE LET e == CHOOSE y \in x : TRUE IN <<e>> \o F(x \ {e}) IN F(s)

RECURSIVE Documents(_, _, _, _)
Documents(toks, i0, acc, implicitAllowed) ==
  LET DocEnd(r) ==                               \* parse_document_end, then the next document
        IF K(toks, r.i) = "DE" THEN Documents(toks, r.i + 1, acc \o r.evs \o <<Ev("DocumentEnd")>>, FALSE)
        ELSE Documents(toks, r.i, acc \o r.evs \o <<Ev("DocumentEnd")>>, FALSE)
  IN  IF implicitAllowed /\ K(toks, i0) \notin {"DIR", "DS", "SE"}
      THEN LET r == ParseNode(toks, i0, TRUE, FALSE, {})
           IN  IF ~r.ok THEN r ELSE DocEnd([r EXCEPT !.evs = <<Ev("DocumentStart")>> \o @])
      ELSE LET i == IF implicitAllowed THEN i0 ELSE SkipDE(toks, i0)
           IN  IF K(toks, i) = "SE" THEN POk(Append(acc, Ev("StreamEnd")), i + 1)
               ELSE LET d == Directives(toks, i, "", {})
                    IN  IF ~d.ok THEN PErr(d.why, d.i)
                        ELSE IF d.ver = "2.0" THEN PErr("found incompatible YAML document", d.i)
                        ELSE IF K(toks, d.i) # "DS" THEN PErr("expected '<document start>'", d.i)
                        ELSE LET ds == [Ev("DocumentStart") EXCEPT !.ver = VerRec(d.ver), !.tags = SetToSeq(d.handles)]
                                 r == IF K(toks, d.i + 1) \in {"DIR", "DS", "DE", "SE"} THEN POk(<<EmptyScalar(<<>>, <<>>)>>, d.i + 1)
                                      ELSE ParseNode(toks, d.i + 1, TRUE, FALSE, d.handles)
                             IN  IF ~r.ok THEN r ELSE DocEnd([r EXCEPT !.evs = <<ds>> \o @])

\* the whole reader: -> [ok, evs, why]
Read(text, items) ==
  LET tk == Tokens(text, items)
  IN  IF tk.err # "-" THEN [ok |-> FALSE, evs |-> <<>>, why |-> tk.err]
      ELSE LET r == Documents(tk.toks, 1, <<Ev("StreamStart")>>, TRUE)
           IN  [ok |-> r.ok, evs |-> r.evs, why |-> r.why]
=============================================================================
