------------------------------ MODULE TypeRepo ------------------------------
(***************************************************************************)
(* H of C08: the YAML 1.1 type repository for plain scalars, as PyYAML     *)
(* documents it: which type the text of an untagged plain scalar has, and  *)
(* which value the text denotes.                                           *)
(*                                                                         *)
(* Written from the type definitions (null, bool, int, float, timestamp,   *)
(* merge, value), one *lexical description* per type over a sequence of    *)
(* characters.  There is no first-character index here, no regular         *)
(* expression and no order among the types: Types(s) is the set of all     *)
(* types whose description fits, TypesDisjoint says it never has two       *)
(* members, and Classify(s) is its member (or "str").                      *)
(*                                                                         *)
(* A text is a sequence of characters: one-character strings for ASCII,    *)
(* atoms named by their code point ("u0662", "u00A0", "uFF11") for the     *)
(* rest.  The YAML 1.1 types are written in ASCII: a non-ASCII digit,      *)
(* letter or space that merely looks like (or is classified by Unicode     *)
(* like) a character of a type's description is not that character, so     *)
(* every text that contains one is a str.  Numbers never become            *)
(* TLC integers: int values are <<sign, Big>> with Big a decimal digit     *)
(* sequence (module Decimal), float values are signed decimals             *)
(* [s, m, e] = s m * 10^e (exactly the rational the text denotes;          *)
(* rounding to binary64 is judged in Trace_Types / by the harness with     *)
(* exact rationals), timestamps are calendar fields.                       *)
(*                                                                         *)
(* Value forms ( Value(s) ):                                               *)
(*   <<"null">>  <<"bool", TRUE|FALSE>>  <<"int", sign, Big>>              *)
(*   <<"float", "num", [s, m, e], sexa>>  <<"float", "inf", sign>>         *)
(*   <<"float", "nan">>                                                    *)
(*   <<"date", y, m, d>>                                                   *)
(*   <<"datetime", y, m, d, H, M, S, microseconds, tz>>                    *)
(*        microseconds = the first six digits of the fraction (Micro): a   *)
(*        fraction may have any number of digits, the constructed value    *)
(*        has microsecond resolution, digits beyond the sixth are dropped, *)
(*        never rounded (rounding could move the value past the instant    *)
(*        the text denotes, up to a second that does not exist)            *)
(*        tz = <<"none">> | <<"utc">> | <<"off", sign, hours, minutes>>    *)
(*        The zone is part of the value: y .. S are the *local* calendar   *)
(*        fields as written, tz the UTC offset as written ("Z" and "+00:00"*)
(*        are both a zero offset).  Two texts denote the same datetime     *)
(*        when fields and offset agree - the same instant under another    *)
(*        offset is another value.  The offset is sign * (hours * 60 +     *)
(*        minutes) whatever the spelling of the hour part: "+0:30", "+00:30"*)
(*        are thirty minutes, "-0", "-00:00", "+0" are zero; the minutes   *)
(*        count when the hours are zero and the hours when there are no    *)
(*        minutes (TimestampShape names the spellings).                    *)
(*   <<"merge">>  <<"value">>  <<"str">> (the text itself)                 *)
(*   <<"undefined", type, why>> : the lexical description of `type` fits   *)
(*        but the rules give the text no value (a base prefix without any  *)
(*        digit, the 13th month, hour 25, ...).  The property then only    *)
(*        demands that loading does not fail with a non-YAML exception.    *)
(***************************************************************************)
EXTENDS Naturals, Integers, Sequences, FiniteSets, Decimal

(***************************************************************************)
(* characters                                                              *)
(***************************************************************************)
Digit   == {"0", "1", "2", "3", "4", "5", "6", "7", "8", "9"}
Digit19 == Digit \ {"0"}
Digit05 == {"0", "1", "2", "3", "4", "5"}
Bin     == {"0", "1"}
Oct     == {"0", "1", "2", "3", "4", "5", "6", "7"}
Hex     == Digit \cup {"a", "b", "c", "d", "e", "f", "A", "B", "C", "D", "E", "F"}
U       == {"_"}
Blank   == {" ", "\t"}

HexSeq == <<"0", "1", "2", "3", "4", "5", "6", "7", "8", "9", "a", "b", "c", "d", "e", "f">>
HexUp  == <<"0", "1", "2", "3", "4", "5", "6", "7", "8", "9", "A", "B", "C", "D", "E", "F">>
DV == [c \in Hex |-> (CHOOSE i \in 1 .. 16 : HexSeq[i] = c \/ HexUp[i] = c) - 1]
Vals(s) == [i \in DOMAIN s |-> DV[s[i]]]

At(s, i) == IF i \in DOMAIN s THEN s[i] ELSE ""      \* "" : beyond the end
AllIn(s, S) == \A i \in DOMAIN s : s[i] \in S
NoU(s) == SelectSeq(s, LAMBDA c : c # "_")
From(s, i) == SubSeq(s, i, Len(s))
Sub(s, a, b) == SubSeq(s, Max(a, 1), Min(b, Len(s)))      \* total: the part of s inside a..b

SignOf(s) == IF At(s, 1) = "-" THEN "-" ELSE "+"
Body(s)   == IF At(s, 1) \in {"+", "-"} THEN Tail(s) ELSE s

\* the segments of s between occurrences of sep (always at least one segment)
RECURSIVE SplitR(_, _, _, _)
SplitR(s, sep, i, cur) == IF i > Len(s) THEN <<cur>>
                          ELSE IF s[i] = sep THEN <<cur>> \o SplitR(s, sep, i + 1, <<>>)
                          ELSE SplitR(s, sep, i + 1, Append(cur, s[i]))
Split(s, sep) == SplitR(s, sep, 1, <<>>)

\* length of the longest run of characters of S that starts at index i
RECURSIVE Run(_, _, _)
Run(s, i, S) == IF At(s, i) \in S THEN 1 + Run(s, i + 1, S) ELSE 0

(***************************************************************************)
(* null, bool, merge, value: word lists                                    *)
(***************************************************************************)
NullWords == { <<>>, <<"~">>, <<"n", "u", "l", "l">>, <<"N", "u", "l", "l">>, <<"N", "U", "L", "L">> }
TrueWords == { <<"y", "e", "s">>, <<"Y", "e", "s">>, <<"Y", "E", "S">>,
               <<"t", "r", "u", "e">>, <<"T", "r", "u", "e">>, <<"T", "R", "U", "E">>,
               <<"o", "n">>, <<"O", "n">>, <<"O", "N">> }
FalseWords == { <<"n", "o">>, <<"N", "o">>, <<"N", "O">>,
                <<"f", "a", "l", "s", "e">>, <<"F", "a", "l", "s", "e">>, <<"F", "A", "L", "S", "E">>,
                <<"o", "f", "f">>, <<"O", "f", "f">>, <<"O", "F", "F">> }
InfWords == { <<".", "i", "n", "f">>, <<".", "I", "n", "f">>, <<".", "I", "N", "F">> }
NanWords == { <<".", "n", "a", "n">>, <<".", "N", "a", "N">>, <<".", "N", "A", "N">> }

IsNull(s)  == s \in NullWords
IsBool(s)  == s \in TrueWords \cup FalseWords
IsMerge(s) == s = <<"<", "<">>
IsValue(s) == s = <<"=">>

(***************************************************************************)
(* int: optional sign, then one of five forms                              *)
(*   bin  0b [01_]+        oct  0 [0-7_]+        dec  0 | [1-9][0-9_]*      *)
(*   hex  0x [0-9a-fA-F_]+ sexa [1-9][0-9_]* ( : [0-5]?[0-9] )+            *)
(***************************************************************************)
Lead19(g)    == g # <<>> /\ g[1] \in Digit19 /\ AllIn(Tail(g), Digit \cup U)
Lead09(g)    == g # <<>> /\ g[1] \in Digit   /\ AllIn(Tail(g), Digit \cup U)
SexaGroup(g) == \/ Len(g) = 1 /\ g[1] \in Digit
                \/ Len(g) = 2 /\ g[1] \in Digit05 /\ g[2] \in Digit

IntForm(f, b) ==
  CASE f = "bin"  -> Len(b) >= 3 /\ b[1] = "0" /\ b[2] = "b" /\ AllIn(From(b, 3), Bin \cup U)
    [] f = "oct"  -> Len(b) >= 2 /\ b[1] = "0" /\ AllIn(Tail(b), Oct \cup U)
    [] f = "dec"  -> b = <<"0">> \/ Lead19(b)
    [] f = "hex"  -> Len(b) >= 3 /\ b[1] = "0" /\ b[2] = "x" /\ AllIn(From(b, 3), Hex \cup U)
    [] f = "sexa" -> LET g == Split(b, ":") IN
                     Len(g) >= 2 /\ Lead19(g[1]) /\ \A i \in 2 .. Len(g) : SexaGroup(g[i])
IntFormNames == {"bin", "oct", "dec", "hex", "sexa"}
IntForms(s) == {f \in IntFormNames : IntForm(f, Body(s))}
IsInt(s) == IntForms(s) # {}

\* base-60 positional value of groups that are themselves decimal numerals
RECURSIVE Sexa(_, _, _)
Sexa(g, i, acc) == IF i > Len(g) THEN acc
                   ELSE Sexa(g, i + 1, Add(MulSmall(acc, 60), Norm(Vals(NoU(g[i])))))

Signed(tag, sign, big) == <<tag, IF IsZero(big) THEN "+" ELSE sign, Norm(big)>>
IntValue(s) ==
  LET b == Body(s)
      f == CHOOSE f \in IntForms(s) : TRUE
      digits == IF f \in {"bin", "hex"} THEN NoU(From(b, 3)) ELSE NoU(b)
  IN  IF f = "sexa" THEN Signed("int", SignOf(s), Sexa(Split(b, ":"), 1, <<0>>))
      ELSE IF digits = <<>> THEN <<"undefined", "int", "no-digits">>
      ELSE Signed("int", SignOf(s), Horner(Vals(digits), CASE f = "bin" -> 2 [] f = "oct" -> 8 [] f = "dec" -> 10 [] f = "hex" -> 16))

(***************************************************************************)
(* float                                                                   *)
(*   dec   [-+]? [0-9][0-9_]* . [0-9_]* ( [eE] [-+] [0-9]+ )?              *)
(*   frac  . [0-9][0-9_]* ( [eE] [-+] [0-9]+ )?          (no sign)         *)
(*   sexa  [-+]? [0-9][0-9_]* ( : [0-5]?[0-9] )+ . [0-9_]*                 *)
(*   inf   [-+]? .inf | .Inf | .INF        nan  .nan | .NaN | .NAN         *)
(***************************************************************************)
IsExp(x) == Len(x) >= 3 /\ x[1] \in {"e", "E"} /\ x[2] \in {"+", "-"} /\ AllIn(From(x, 3), Digit)
\* all ways to cut b into  int . frac exp : <<d, x>> = index of the point, last index of frac
DecCuts(b, needInt) ==
  UNION { { <<d, x>> : x \in { x \in d .. Len(b) :
                /\ IF needInt THEN Lead09(SubSeq(b, 1, d - 1))
                              ELSE d = 1 /\ Lead09(SubSeq(b, 2, x))
                /\ AllIn(SubSeq(b, d + 1, x), Digit \cup U)
                /\ (x = Len(b) \/ IsExp(From(b, x + 1))) } }
          : d \in {d \in DOMAIN b : b[d] = "."} }
SexaFloatOk(b) ==
  LET d == Run(b, 1, Digit \cup U \cup {":"}) + 1        \* the first character that is none of these must be the point
      g == Split(SubSeq(b, 1, d - 1), ":")
  IN  At(b, d) = "." /\ AllIn(From(b, d + 1), Digit \cup U)
      /\ Len(g) >= 2 /\ Lead09(g[1]) /\ \A i \in 2 .. Len(g) : SexaGroup(g[i])

FloatForm(f, s) ==
  CASE f = "dec"  -> DecCuts(Body(s), TRUE) # {}
    [] f = "frac" -> DecCuts(s, FALSE) # {}
    [] f = "sexa" -> SexaFloatOk(Body(s))
    [] f = "inf"  -> Body(s) \in InfWords
    [] f = "nan"  -> s \in NanWords
FloatFormNames == {"dec", "frac", "sexa", "inf", "nan"}
FloatForms(s) == {f \in FloatFormNames : FloatForm(f, s)}
IsFloat(s) == FloatForms(s) # {}

ExpValue(x) == IF x = <<>> THEN 0
               ELSE IF x[2] = "-" THEN 0 - NatOf(Vals(From(x, 3))) ELSE NatOf(Vals(From(x, 3)))
SD(sign, m, e) == LET d == DecNorm([m |-> m, e |-> e]) IN [s |-> sign, m |-> d.m, e |-> d.e]
FloatValue(s) ==
  LET f == CHOOSE f \in FloatForms(s) : TRUE IN
  CASE f = "inf" -> <<"float", "inf", SignOf(s)>>
    [] f = "nan" -> <<"float", "nan">>
    [] f = "sexa" ->
         LET b == Body(s)
             d == Run(b, 1, Digit \cup U \cup {":"}) + 1
             int == Sexa(Split(SubSeq(b, 1, d - 1), ":"), 1, <<0>>)
             fr == Vals(NoU(From(b, d + 1)))
         IN  <<"float", "num", SD(SignOf(s), int \o fr, 0 - Len(fr)), TRUE>>
    [] OTHER ->
         LET b == IF f = "dec" THEN Body(s) ELSE s
             c == CHOOSE c \in DecCuts(b, f = "dec") : TRUE
             ip == Vals(NoU(SubSeq(b, 1, c[1] - 1)))
             fr == Vals(NoU(SubSeq(b, c[1] + 1, c[2])))
         IN  <<"float", "num", SD(IF f = "dec" THEN SignOf(s) ELSE "+", ip \o fr,
                                  ExpValue(From(b, c[2] + 1)) - Len(fr)), FALSE>>

(***************************************************************************)
(* timestamp                                                               *)
(*   date      dddd-dd-dd                                                  *)
(*   datetime  dddd - d d? - d d? (T | t | blanks) d d? : dd : dd          *)
(*             ( . d* )?  ( blanks? ( Z | [-+] d d? ( : dd )? ) )?         *)
(* Every component is delimited by a character that cannot be part of it,  *)
(* so the cut points are functions of the text (runs of digits / blanks).  *)
(***************************************************************************)
IsDate(s) == Len(s) = 10 /\ s[5] = "-" /\ s[8] = "-"
             /\ AllIn(<<s[1], s[2], s[3], s[4], s[6], s[7], s[9], s[10]>>, Digit)

DT(s) ==   \* the cut points of a date-time, ok = the text has the lexical structure
  LET ml == Run(s, 6, Digit)
      dl == Run(s, 7 + ml, Digit)
      p  == 7 + ml + dl                              \* separator
      sl == IF At(s, p) \in {"T", "t"} THEN 1 ELSE Run(s, p, Blank)
      q  == p + sl                                   \* hour
      hl == Run(s, q, Digit)
      r  == q + hl + 6                               \* after the seconds
      fl == IF At(s, r) = "." THEN 1 + Run(s, r + 1, Digit) ELSE 0
      u  == r + fl
      wl == Run(s, u, Blank)
      v  == u + wl                                   \* zone
      th == Run(s, v + 1, Digit)
      tzform == IF v = Len(s) + 1 THEN (IF wl = 0 THEN "none" ELSE "bad")
                ELSE IF At(s, v) = "Z" THEN (IF v = Len(s) THEN "utc" ELSE "bad")
                ELSE IF At(s, v) \in {"+", "-"} /\ th \in {1, 2}
                     THEN (IF v + th = Len(s) THEN "h"
                           ELSE IF At(s, v + th + 1) = ":" /\ Run(s, v + th + 2, Digit) = 2 /\ v + th + 3 = Len(s)
                                THEN "hm" ELSE "bad")
                ELSE "bad"
  IN [ ok |-> /\ Run(s, 1, Digit) = 4 /\ At(s, 5) = "-"
              /\ ml \in {1, 2} /\ At(s, 6 + ml) = "-" /\ dl \in {1, 2}
              /\ sl >= 1
              /\ hl \in {1, 2} /\ At(s, q + hl) = ":" /\ Run(s, q + hl + 1, Digit) = 2
              /\ At(s, q + hl + 3) = ":" /\ Run(s, q + hl + 4, Digit) = 2
              /\ tzform # "bad",
       y  |-> Sub(s, 1, 4), mo |-> Sub(s, 6, 5 + ml), d |-> Sub(s, 7 + ml, 6 + ml + dl),
       h  |-> Sub(s, q, q + hl - 1), mi |-> Sub(s, q + hl + 1, q + hl + 2),
       se |-> Sub(s, q + hl + 4, q + hl + 5),
       fr |-> IF fl = 0 THEN <<>> ELSE Sub(s, r + 1, r + fl - 1),
       tzform |-> tzform, tzsign |-> At(s, v),
       tzh |-> Sub(s, v + 1, v + th), tzm |-> IF tzform = "hm" THEN Sub(s, v + th + 2, v + th + 3) ELSE <<"0">>,
       sep |-> Sub(s, p, p + sl - 1), gap |-> wl, dot |-> fl > 0 ]
IsDateTime(s) == DT(s).ok
IsTimestamp(s) == IsDate(s) \/ IsDateTime(s)

\* The spelling classes of a timestamp text: everything the lexical description leaves open.  Not used by Value (which
\* must not depend on them beyond the digits' values); the enumeration is held to reach every class (harness: no vacuity).
\*   sep   "date" | "T" | "t" | "blank" (one space or tab) | "blanks" (several)
\*   dig   number of digits of <<month, day, hour>> (1 or 2 each; a date has 2, 2, 0)
\*   frac  <<>> (no fraction) | <<number of fraction digits>> (0 = a bare point, 7 = seven or more)
\*   gap   blanks before the zone: 0, 1, 2 (= two or more)
\*   zone  <<"none">> | <<"Z">> | <<sign, hour spelling, minute spelling>>
\*         hour spelling  "0" "00" "d" (1-9) "0d" (01-09) "dd" (10-99);  minute spelling  "absent" "00" "nonzero"
TimestampShape(s) ==
  IF IsDate(s) THEN [sep |-> "date", dig |-> <<2, 2, 0>>, frac |-> <<>>, gap |-> 0, zone |-> <<"none">>]
  ELSE LET t == DT(s) IN
       [sep  |-> IF t.sep \in {<<"T">>, <<"t">>} THEN t.sep[1] ELSE IF Len(t.sep) = 1 THEN "blank" ELSE "blanks",
        dig  |-> <<Len(t.mo), Len(t.d), Len(t.h)>>,
        frac |-> IF ~t.dot THEN <<>> ELSE <<Min(Len(t.fr), 7)>>,
        gap  |-> Min(t.gap, 2),
        zone |-> CASE t.tzform = "none" -> <<"none">> [] t.tzform = "utc" -> <<"Z">>
                   [] OTHER -> <<t.tzsign,
                                 IF t.tzh = <<"0">> THEN "0" ELSE IF t.tzh = <<"0", "0">> THEN "00"
                                 ELSE IF Len(t.tzh) = 1 THEN "d" ELSE IF t.tzh[1] = "0" THEN "0d" ELSE "dd",
                                 IF t.tzform = "h" THEN "absent" ELSE IF t.tzm = <<"0", "0">> THEN "00" ELSE "nonzero">>]

\* microseconds of a fraction (digit values): six digits, padded with zeros, the rest dropped
Micro(fr) == NatOf(IF Len(fr) >= 6 THEN SubSeq(fr, 1, 6) ELSE fr \o [i \in 1 .. 6 - Len(fr) |-> 0])

Leap(y) == (y % 4 = 0 /\ y % 100 # 0) \/ y % 400 = 0
DaysIn(y, m) == IF m = 2 THEN (IF Leap(y) THEN 29 ELSE 28) ELSE IF m \in {4, 6, 9, 11} THEN 30 ELSE 31
N(ds) == NatOf(Vals(ds))
DateWhy(y, m, d) ==        \* "" when the calendar has such a day
  IF y < 1 THEN "year" ELSE IF m < 1 \/ m > 12 THEN "month" ELSE IF d < 1 \/ d > DaysIn(y, m) THEN "day" ELSE ""

TimestampValue(s) ==
  IF IsDate(s)
  THEN LET y == N(SubSeq(s, 1, 4)) m == N(SubSeq(s, 6, 7)) d == N(SubSeq(s, 9, 10)) IN
       IF DateWhy(y, m, d) # "" THEN <<"undefined", "timestamp", DateWhy(y, m, d)>> ELSE <<"date", y, m, d>>
  ELSE LET t == DT(s)
           y == N(t.y) m == N(t.mo) d == N(t.d) h == N(t.h) mi == N(t.mi) se == N(t.se)
           zh == N(t.tzh) zm == N(t.tzm)
           why == IF DateWhy(y, m, d) # "" THEN DateWhy(y, m, d)
                  ELSE IF h > 23 THEN "hour" ELSE IF mi > 59 THEN "minute" ELSE IF se > 59 THEN "second"
                  ELSE IF t.tzform \in {"h", "hm"} /\ (zh > 23 \/ zm > 59) THEN "zone" ELSE ""
           tz == CASE t.tzform = "none" -> <<"none">> [] t.tzform = "utc" -> <<"utc">>
                   [] OTHER -> <<"off", t.tzsign, zh, zm>>
       IN  IF why # "" THEN <<"undefined", "timestamp", why>>
           ELSE <<"datetime", y, m, d, h, mi, se, Micro(Vals(t.fr)), tz>>

(***************************************************************************)
(* the repository                                                          *)
(***************************************************************************)
TypeNames == {"null", "bool", "int", "float", "timestamp", "merge", "value"}
Member(t, s) == CASE t = "null" -> IsNull(s) [] t = "bool" -> IsBool(s) [] t = "int" -> IsInt(s)
                  [] t = "float" -> IsFloat(s) [] t = "timestamp" -> IsTimestamp(s)
                  [] t = "merge" -> IsMerge(s) [] t = "value" -> IsValue(s)
Types(s) == {t \in TypeNames : Member(t, s)}

\* the repository is unambiguous (checked for every enumerated text): at most one type, one form, one cut
FormsAmbiguous(t, s) ==
  CASE t = "int" -> Cardinality(IntForms(s)) > 1
    [] t = "float" -> \/ Cardinality(FloatForms(s)) > 1
                      \/ Cardinality(DecCuts(Body(s), TRUE)) > 1 \/ Cardinality(DecCuts(s, FALSE)) > 1
    [] t = "timestamp" -> IsDate(s) /\ IsDateTime(s)
    [] OTHER -> FALSE
TypesDisjoint(s) == Cardinality(Types(s)) <= 1 /\ \A t \in Types(s) : ~FormsAmbiguous(t, s)

ClassOf(ts) == IF ts = {} THEN "str" ELSE CHOOSE t \in ts : TRUE
Classify(s) == ClassOf(Types(s))

ValueAs(t, s) ==
  CASE t = "null" -> <<"null">>
    [] t = "bool" -> <<"bool", s \in TrueWords>>
    [] t = "int" -> IntValue(s)
    [] t = "float" -> FloatValue(s)
    [] t = "timestamp" -> TimestampValue(s)
    [] t = "merge" -> <<"merge">>
    [] t = "value" -> <<"value">>
    [] t = "str" -> <<"str">>
Value(s) == ValueAs(Classify(s), s)
\* class and value together
Meaning(s) == LET ts == Types(s) t == ClassOf(ts) IN
              [cls |-> t, val |-> ValueAs(t, s), amb |-> Cardinality(ts) > 1 \/ FormsAmbiguous(t, s)]

\* quoted and block scalars are always strings
ClassifyStyled(s, plain) == IF plain THEN Classify(s) ELSE "str"
ValueStyled(s, plain)    == IF plain THEN Value(s) ELSE <<"str">>
=============================================================================
