------------------------------ MODULE LazyPipe ------------------------------
(***************************************************************************)
(* C18: streams are consumed incrementally, documents are delivered as     *)
(* they complete.  Pull model of  yaml.scan / parse / load_all  (compose_all *)
(* is load_all without constructor errors):                                *)
(*                                                                         *)
(*   API generator --pulls--> Parser --pulls--> Scanner --pulls--> Reader  *)
(*        --pulls--> stream.read(n)                                        *)
(*                                                                         *)
(* (The composite "LoadPipe" of DESIGN.md 3 for C18; the file name         *)
(* LoadPipe.tla is used by the scanner+parser composition of C03/C06.)     *)
(*                                                                         *)
(* Exactly one layer is active at a time (the one whose callee has what it *)
(* asked for); a layer that lacks input hands control down:                *)
(*   API     ApiStep / ApiNext / Abandon               (__init__.py:29-95) *)
(*   Parser  ParseDocStart0 / ParseDocStart / ParseContent / ParseDocEnd   *)
(*           one token of look-ahead, parser.py:139-205                    *)
(*   Scanner need_more_tokens (queue empty, or its head may still become a *)
(*           simple key: same line and <= MaxKey units, scanner.py:145-154,*)
(*           279-293), Skip (scan_to_next_token) and Fetch* per token      *)
(*   Reader  DetEnc (>= 2 units or EOF), Refill = one iteration of         *)
(*           update(): update_raw() then decode, an undecodable tail of    *)
(*           <= MaxTail units stays behind (reader.py:122-185; the unit-   *)
(*           level model of the same code is Reader.tla)                   *)
(*                                                                         *)
(* The stream is abstract and chosen lazily by the environment: how many   *)
(* units each read() returns (1..Block, 0 only at the end) is chosen when  *)
(* the reader reads; WHAT a unit is (blank/comment W, line break NL, a     *)
(* token that may start a simple key K, another token T, ':' V, the        *)
(* markers DS '---' and DE '...' of TermLen units at a line start, or a    *)
(* malformed token: B for the scanner, P for the parser, C for the         *)
(* composer, X for the constructor) is chosen when the scanner first looks *)
(* at it; that a decoded batch contains an offending unit (reader error)   *)
(* is chosen when it is decoded.  Documents: at most MaxDocs, each at most *)
(* MaxSize units, gaps after '...' at most MaxGap units.                   *)
(*                                                                         *)
(* H_Lazy (Lazy.tla; from the property statement, in units requested from  *)
(* the stream, no wall clock):                                             *)
(*  (1) when document k is delivered,  requested <= end_k + 2*Block, where *)
(*      end_k is the offset at which the token that terminates it starts;  *)
(*  (2) when an error is raised for document m, documents 1..m-1 have been *)
(*      delivered; a reader error is block-granular: at offset r it may    *)
(*      pre-empt only documents that end less than two blocks before r;    *)
(*  (3) abandoning the iteration disposes the loader, which never reads    *)
(*      again, and RELEASES it: nothing refers to the loader any more once *)
(*      the generator is gone (the cycle loader -> parser.state -> bound   *)
(*      method -> loader is broken by dispose()).                          *)
(* Variant selects the code as it is ("code") or a known-bad design used   *)
(* as negative control: "eager" (tokenise everything first), "depeek"      *)
(* (the parser looks past '...' before it ends the document), "greedy"     *)
(* (the reader keeps refilling while an undecoded tail remains), "shadow"  *)
(* (dispose() is called but does not clear the parser's self-references),   *)
(* "crjoin" (update_raw() reads on while the chunk ends with a CR), "early" *)
(* (the loader is built at call time, its disposal sits in a generator     *)
(* that a consumer who never asks for an item never starts), "window" (the  *)
(* scanner measures a scalar line by asking for prefix(length + step)      *)
(* windows, step doubling, instead of peek(length) unit by unit),          *)
(* "dirtable" (processing a directive stores bound methods of the loader   *)
(* on the loader, where dispose() does not look).                          *)
(*                                                                         *)
(* Token extents (Styles # {}).  A scalar is not one unit: it is an        *)
(* indicator followed by lines of up to MaxTok units, and the scanner      *)
(* finds out where a line ends by LOOKING: scan_plain,                     *)
(* scan_flow_scalar_non_spaces and scan_block_scalar all run               *)
(* "while peek(length) not in <terminators>: length += 1", i.e. they ask   *)
(* the reader for length + 1 units, never for more than one unit beyond    *)
(* what they have seen; then forward(length).  After a line break inside a *)
(* scalar the plain / quoted routines check for a document marker          *)
(* (prefix(3), peek(3): TermLen + 1 units), the block routine looks at the *)
(* indentation (one unit).  So the look-ahead of the scanner beyond the    *)
(* end of ANY token is a constant (<= TermLen + 1), whatever the length of *)
(* the token: that is why the bound (1) does not depend on the content of  *)
(* the document either.  ScalarStart / ScalarMeasure / ScalarEol /         *)
(* ScalarNext model this for the three scanning routines.                  *)
(*                                                                         *)
(* Directives (Directives = TRUE).  '%YAML' / '%TAG' lines (token D) may   *)
(* precede the '---' of an explicit document: at the start of the stream   *)
(* or after '...'.  The scanner fetches them at a line start; the parser   *)
(* consumes them in process_directives (parse_document_start), which       *)
(* stores DATA only (yaml_version, tag_handles): no new reference from the *)
(* loader to itself appears, so abandoning after a document that carried   *)
(* directives releases the loader like any other.                          *)
(***************************************************************************)
EXTENDS Naturals, Sequences, FiniteSets, TLC
HL == INSTANCE Lazy

CONSTANTS Block,      \* units per full read() (4096 / 16384 in the code)
          MaxKey,     \* simple-key limit (1024 in the code)
          TermLen,    \* units of '---' / '...'
          MaxTail,    \* longest undecodable tail the decoder can leave (0: one unit per character; 3: UTF-8)
          MaxDocs, MaxSize, MaxGap,
          Modes,      \* subset of {"scan", "parse", "load"}
          TrackBoundary, \* BOOLEAN: the environment also decides, when a read() returns, whether its last unit is a CR
          Styles,     \* scanning routines with token extents: subset of {"plain", "quoted", "block", "word"} ({}: one-unit tokens only)
          MaxTok,     \* longest scalar line, in units
          Directives, \* BOOLEAN: '%YAML' / '%TAG' lines may precede an explicit document
          Variant

(***************************************************************************)
(* Offsets are kept relative to the scanner position p (= reader index):   *)
(*   a    units decoded ahead of p           (len(buffer) - pointer)       *)
(*   t    units read but not decoded         (len(raw_buffer))             *)
(*   so that  requested = p + a + t;  ends[j] = p - end_k >= 0 for the     *)
(*   documents whose terminating token has been identified by the scanner  *)
(*   and that have not been delivered yet (oldest first).                  *)
(***************************************************************************)
VARIABLES mode,
          closed,               \* the stream has ended (read() returned nothing)
          a, t, eofd, need,     \* reader: see above; NUL appended; pending update(length) target
          rst,                  \* reader phase: "detenc" | "run"
          crs,                  \* offsets (from p) of units already committed to be a CR: the last unit of some read()
          bol,                  \* scanner is at the beginning of a line
          queue, key, sdone, swant,
          tk,                   \* the scalar being scanned: routine, units of the current line measured so far, phase
          gen, cur, dsize, gsize, ends, bad,      \* environment grammar: where we are in the stream, document bookkeeping
          pst, ev, pwant,       \* parser state, current event, an event is wanted
          api, delivered, raised, disposed,
          built,                \* the loader object exists (Loader(stream) has run)
          selfref,              \* the loader is reachable from itself: parser.state / parser.states hold its bound methods
          dirref,               \* ... through something stored on it while directives were processed (negative control only)
          hok                   \* H monitor
vars == <<mode, closed, a, t, eofd, need, rst, crs, bol, queue, key, sdone, swant, tk, gen, cur, dsize, gsize, ends,
          bad, pst, ev, pwant, api, delivered, raised, disposed, built, selfref, dirref, hok>>
rdr == <<closed, a, t, eofd, need, rst, crs>>
scn == <<bol, queue, key, sdone, swant, tk>>
env == <<gen, cur, dsize, gsize, bad>>
prs == <<pst, ev, pwant>>
top == <<api, delivered, raised, disposed, hok>>

Min(x, y) == IF x < y THEN x ELSE y
Cap == 3 * Block + 1                      \* distances saturate here (only the negative controls get that far)
NoKey == [on |-> FALSE, idx |-> 0, dist |-> 0, same |-> FALSE]
NoEv == [k |-> "none", t |-> "-"]
NoErr == [kind |-> "-", doc |-> 0, at |-> 0]
Tok(k, term) == [k |-> k, term |-> term]
Running == raised = NoErr /\ ~disposed
\* the lexeme being scanned: routine r, units of the current line measured so far, window step (negative control
\* "window" only), phase "measure" (looking for the end of the line) | "eol" (at the terminator) | "cont" (at the start of
\* the next line, inside the scalar)
NoTk == [r |-> "-", len |-> 0, step |-> 1, ph |-> "-"]

(***************************************************************************)
(* Reader                                                                  *)
(***************************************************************************)
\* the scanner may look at n units (or at NUL)
Avail(n) == a >= n \/ eofd
ReaderIdle == rst = "run" /\ need = 0
AtEnd == eofd /\ a = 0                     \* the scanner is at NUL

\* What sits at a block boundary is a dimension of the environment: with TrackBoundary it decides, when a read() returns,
\* whether the last unit handed out is a CR (the unit after which forward() must look one unit further); the scanner later
\* finds a line break there.  reader.py does not look at what it has read (Variant "code"); the negative control "crjoin"
\* reads on while a chunk ends with a CR ("keep CR LF in one chunk").
CrChoice == IF TrackBoundary THEN BOOLEAN ELSE {FALSE}
DetEnc ==                                   \* while not eof and len(raw_buffer) < 2: update_raw()
  /\ Running /\ built /\ rst = "detenc"
  /\ IF ~closed /\ t < 2
     THEN /\ \E k \in 0 .. Block : IF k = 0 THEN closed' = TRUE /\ UNCHANGED <<t, crs>>
                                    ELSE /\ t' = t + k /\ UNCHANGED closed
                                         /\ \E cr \in CrChoice : crs' = IF cr THEN crs \cup {a + t + k - 1} ELSE crs
          /\ UNCHANGED <<rst, need>>
     ELSE rst' = "run" /\ need' = 1 /\ UNCHANGED <<closed, t, crs>>          \* self.update(1)
  /\ UNCHANGED <<mode, built, selfref, dirref, a, eofd, scn, env, ends, prs, top>>

\* one iteration of "while len(buffer) < length": update_raw() unless eof, decode (final = eof), NUL at eof
Refill ==
  /\ Running /\ built /\ rst = "run" /\ need > 0
  /\ IF a >= need \/ eofd THEN need' = 0 /\ UNCHANGED <<closed, a, t, eofd, raised, crs>>
     ELSE \E k \in 0 .. Block, cr \in CrChoice :
          /\ closed => k = 0                                        \* "if not self.eof: self.update_raw()"
          /\ closed' = (closed \/ k = 0)                            \* an empty read: the end of the stream, and only then
          /\ cr => k > 0
          /\ crs' = IF cr THEN crs \cup {a + t + k - 1} ELSE crs
          /\ LET got == t + k IN                                    \* raw_buffer after update_raw()
             \/ /\ Variant = "crjoin" /\ cr                        \* negative control: read on, decode later
                /\ t' = got /\ UNCHANGED <<a, eofd, need, raised>>
             \/ /\ ~(Variant = "crjoin" /\ cr)
                /\ \E t2 \in 0 .. Min(MaxTail, got) :             \* the decoder leaves an incomplete sequence behind
                      /\ (closed' => t2 = 0)
                      /\ t' = t2 /\ a' = a + got - t2
                /\ eofd' = closed'
                /\ need' = IF closed' THEN 0                        \* break
                           ELSE IF Variant = "greedy" /\ t' > 0 THEN Min(need + 1, Cap)   \* negative control
                           ELSE need
                /\ UNCHANGED raised
             \/ /\ got > 0                                          \* the batch contains an offending unit: ReaderError
                /\ \E r \in a .. a + got - 1 : raised' = [kind |-> "reader", doc |-> 0, at |-> r]   \* r: offset from p
                /\ t' = got /\ UNCHANGED <<a, eofd, need>>
  /\ UNCHANGED <<mode, built, selfref, dirref, rst, scn, env, ends, prs, api, delivered, disposed, hok>>

\* peek / prefix / forward ask for n units: "if pointer+n >= len(buffer): update(n)"
Ask(n) == need' = n /\ UNCHANGED <<closed, a, t, eofd, rst, crs>>

(***************************************************************************)
(* Scanner                                                                 *)
(***************************************************************************)
KeyStale == key.on /\ (~key.same \/ key.dist > MaxKey)          \* another line, or more than MaxKey units away
NeedMore == /\ ~sdone
            /\ \/ queue = <<>>
               \/ Variant = "eager"
               \/ key.on /\ ~KeyStale /\ key.idx = 1            \* the next token to hand out may still become a key
ScanActive == Running /\ ReaderIdle /\ swant /\ tk = NoTk          \* between tokens (fetch_more_tokens dispatches)
TokActive(ph) == Running /\ ReaderIdle /\ swant /\ tk.ph = ph    \* inside a scanning routine

\* the scanner moves n units forward
Shift(n) == {c - n : c \in {x \in crs : x >= n}}
Advance(n) ==
  /\ a' = a - n /\ crs' = Shift(n)
  /\ ends' = [j \in DOMAIN ends |-> Min(ends[j] + n, Cap)]
  /\ UNCHANGED <<closed, t, eofd, need, rst>>
Moved(k, n, nl) == IF k.on THEN [k EXCEPT !.dist = Min(@ + n, MaxKey + 1), !.same = (@ /\ ~nl)] ELSE k

ScanStale ==                                \* stale_possible_simple_keys
  /\ ScanActive /\ KeyStale
  /\ key' = NoKey
  /\ UNCHANGED <<mode, built, selfref, dirref, rdr, bol, queue, sdone, swant, tk, env, ends, prs, top>>
ScanReady ==                                \* need_more_tokens() is false: back to whoever asked
  /\ ScanActive /\ ~KeyStale /\ ~NeedMore
  /\ swant' = FALSE
  /\ UNCHANGED <<mode, built, selfref, dirref, rdr, bol, queue, key, sdone, tk, env, ends, prs, top>>

\* the environment decides what the unit at p is; W / NL are consumed by scan_to_next_token (forward needs 2 units)
\* forward(n) refills so that one unit after the n consumed is buffered: after a CR it must see whether an LF follows
\* ('\r' and buffer[pointer] != '\n').  ONE unit, whatever it is: that is what keeps a CR at a block boundary harmless.
LookPast == 1
CanGrow == IF gen = "afterDE" THEN gsize < MaxGap ELSE dsize < MaxSize
Skip(u) ==
  /\ ScanActive /\ ~KeyStale /\ NeedMore /\ u \in {"W", "NL"}
  /\ IF ~Avail(1 + LookPast) THEN Ask(1 + LookPast) /\ UNCHANGED <<bol, key, dsize, gsize, ends>>
     ELSE /\ ~AtEnd /\ CanGrow /\ gen # "end"
          /\ (0 \in crs) => u = "NL"                             \* a unit announced as CR is a line break
          /\ Advance(1) /\ key' = Moved(key, 1, u = "NL") /\ bol' = (u = "NL")
          /\ IF gen = "afterDE" THEN gsize' = gsize + 1 /\ UNCHANGED dsize ELSE dsize' = dsize + 1 /\ UNCHANGED gsize
  /\ UNCHANGED <<mode, built, selfref, dirref, queue, sdone, swant, tk, gen, cur, bad, prs, top>>

Push(x) == queue' = Append(queue, x)
FetchEnd ==                                 \* NUL: STREAM-END; an open document ends here
  /\ ScanActive /\ ~KeyStale /\ NeedMore
  /\ IF ~Avail(1) THEN Ask(1) /\ UNCHANGED <<queue, key, sdone, gen, ends>>
     ELSE /\ AtEnd
          /\ Push(Tok("SE", gen = "body")) /\ sdone' = TRUE /\ key' = NoKey
          /\ ends' = IF gen = "body" THEN Append(ends, 0) ELSE ends
          /\ gen' = "end" /\ UNCHANGED rdr
  /\ UNCHANGED <<mode, built, selfref, dirref, bol, swant, tk, cur, dsize, gsize, bad, prs, top>>

FetchMarker(m) ==                           \* '---' or '...' at the beginning of a line (TermLen units + 1 of look-ahead)
  /\ ScanActive /\ ~KeyStale /\ NeedMore /\ bol /\ m \in {"DS", "DE"}
  /\ IF ~Avail(TermLen + 1) THEN Ask(TermLen + 1) /\ UNCHANGED <<bol, queue, key, gen, cur, dsize, gsize, ends>>
     ELSE /\ a >= TermLen /\ gen # "end" /\ \A j \in 0 .. TermLen - 1 : j \notin crs
          /\ (m = "DE") => gen = "body"                        \* '...' ends an open document
          /\ (m = "DS") => cur < MaxDocs                        \* '---' starts the next one
          /\ Push(Tok(m, gen = "body")) /\ key' = NoKey /\ bol' = FALSE
          /\ a' = a - TermLen /\ crs' = Shift(TermLen) /\ UNCHANGED <<closed, t, eofd, need, rst>>
          /\ ends' = LET moved == [j \in DOMAIN ends |-> Min(ends[j] + TermLen, Cap)]
                     IN  IF gen = "body" THEN Append(moved, TermLen) ELSE moved
          /\ IF m = "DE" THEN gen' = "afterDE" /\ gsize' = 0 /\ UNCHANGED <<cur, dsize>>
             ELSE gen' = "body" /\ cur' = cur + 1 /\ dsize' = 0 /\ UNCHANGED gsize
  /\ UNCHANGED <<mode, built, selfref, dirref, sdone, swant, tk, bad, prs, top>>

\* content tokens: K may start a simple key, T cannot, V is ':', B is lexically malformed,
\* P / C / X are tokens the parser / composer / constructor will reject
FetchTok(u) ==
  /\ ScanActive /\ ~KeyStale /\ NeedMore /\ u \in {"K", "T", "V", "B", "P", "C", "X"}
  /\ IF ~Avail(1 + LookPast) THEN Ask(1 + LookPast) /\ UNCHANGED <<bol, queue, key, gen, cur, dsize, raised, bad, ends>>
     ELSE /\ ~AtEnd /\ 0 \notin crs
          /\ gen \in {"start", "body"} \/ (gen = "afterDE" /\ u \in {"P", "B"})    \* content after '...' is malformed
          /\ (gen = "start") => cur < MaxDocs
          /\ dsize < MaxSize \/ gen = "afterDE"
          /\ (u \in {"B", "P", "C", "X"}) => ~bad
          /\ bad' = (bad \/ u \in {"B", "P", "C", "X"})
          /\ gen' = IF gen = "start" THEN "body" ELSE gen
          /\ cur' = IF gen = "start" THEN cur + 1 ELSE cur
          /\ IF u = "B" THEN /\ raised' = [kind |-> "scanner", doc |-> IF gen = "afterDE" THEN cur + 1 ELSE cur', at |-> 0]
                             /\ UNCHANGED <<bol, queue, key, dsize, ends, rdr>>
             ELSE /\ Advance(1) /\ bol' = FALSE /\ dsize' = dsize + 1 /\ UNCHANGED raised
                  /\ CASE u = "K" -> /\ key' = [on |-> TRUE, idx |-> Len(queue) + 1, dist |-> 1, same |-> TRUE]
                                     /\ Push(Tok("S", FALSE))
                       [] u = "V" -> /\ key' = NoKey                               \* KEY is inserted before the key token
                                     /\ queue' = IF key.on /\ key.idx >= 1 /\ key.idx <= Len(queue)
                                                 THEN SubSeq(queue, 1, key.idx - 1) \o <<Tok("KEY", FALSE)>>
                                                      \o SubSeq(queue, key.idx, Len(queue)) \o <<Tok("VALUE", FALSE)>>
                                                 ELSE Append(queue, Tok("VALUE", FALSE))
                       [] OTHER   -> key' = NoKey /\ Push(Tok(u, FALSE))
  /\ UNCHANGED <<mode, built, selfref, dirref, sdone, swant, tk, gsize, prs, api, delivered, disposed, hok>>

\* '%YAML' / '%TAG' at the beginning of a line, before the '---' of an explicit document: at the start of the stream,
\* after '...' or after another directive (one unit here; the rest of its line is blank / comment units)
FetchDirective ==
  /\ ScanActive /\ ~KeyStale /\ NeedMore /\ bol /\ Directives
  /\ IF ~Avail(1 + LookPast) THEN Ask(1 + LookPast) /\ UNCHANGED <<bol, queue, key, gen, dsize, gsize, ends>>
     ELSE /\ ~AtEnd /\ 0 \notin crs
          /\ gen \in {"start", "afterDE", "dirs"} /\ cur < MaxDocs /\ CanGrow
          /\ Advance(1) /\ Push(Tok("D", FALSE)) /\ key' = NoKey /\ bol' = FALSE /\ gen' = "dirs"
          /\ IF gen = "afterDE" THEN gsize' = gsize + 1 /\ UNCHANGED dsize ELSE dsize' = dsize + 1 /\ UNCHANGED gsize
  /\ UNCHANGED <<mode, built, selfref, dirref, sdone, swant, tk, cur, bad, prs, top>>

(***************************************************************************)
(* Token extents: lexemes of more than one unit.                           *)
(*   "plain"  scan_plain / scan_plain_spaces        (scanner.py:1279-1355) *)
(*   "quoted" scan_flow_scalar_non_spaces / _spaces / _breaks  (1190-1277) *)
(*   "block"  scan_block_scalar / _breaks                      (981-1137)  *)
(*   "word"   scan_anchor, scan_tag_uri, scan_tag_handle,                  *)
(*            scan_directive_name: one line, no continuation   (904-979)   *)
(* All of them find the end of a line with                                 *)
(*   "length = 0; while peek(length) not in <terminators>: length += 1"    *)
(* then prefix(length), forward(length): while the line is measured the    *)
(* scanner stays at its start and the reader holds length + 1 units - one  *)
(* beyond what has been looked at, never more.                             *)
(***************************************************************************)
CanKey(r) == CASE r = "block" -> {FALSE}                  \* fetch_block_scalar: remove_possible_simple_key
               [] r = "word" -> {TRUE}
               [] OTHER -> BOOLEAN                        \* allow_simple_key: after '- ' yes, after 'key: ' no
\* the routine is entered: the indicator ('|', '>', a quote, '&', '*', '!') is consumed; a plain scalar has none, its first
\* unit is content (the dispatcher has looked at it)
ScalarStart(r, can) ==
  /\ ScanActive /\ ~KeyStale /\ NeedMore /\ r \in Styles /\ can \in CanKey(r)
  /\ LET look == IF r = "plain" THEN 1 ELSE 1 + LookPast IN
     IF ~Avail(look) THEN Ask(look) /\ UNCHANGED <<bol, key, tk, gen, cur, dsize, ends>>
     ELSE /\ ~AtEnd /\ 0 \notin crs
          /\ gen \in {"start", "body"} /\ (gen = "start" => cur < MaxDocs) /\ dsize < MaxSize
          /\ gen' = "body" /\ bol' = FALSE /\ cur' = (IF gen = "start" THEN cur + 1 ELSE cur)
          /\ IF r = "plain"
             THEN /\ UNCHANGED <<rdr, ends, dsize>>
                  /\ key' = IF can THEN [on |-> TRUE, idx |-> Len(queue) + 1, dist |-> 0, same |-> TRUE] ELSE NoKey
                  /\ tk' = [r |-> r, len |-> 1, step |-> 1, ph |-> "measure"]
             ELSE /\ Advance(1) /\ dsize' = dsize + 1
                  /\ key' = IF can THEN [on |-> TRUE, idx |-> Len(queue) + 1, dist |-> 1, same |-> TRUE] ELSE NoKey
                  \* a block scalar header is followed by its line break (the header's own indicators / comment are
                  \* read unit by unit like any blank)
                  /\ tk' = [r |-> r, len |-> 0, step |-> 1, ph |-> IF r = "block" THEN "eol" ELSE "measure"]
  /\ UNCHANGED <<mode, built, selfref, dirref, queue, sdone, swant, gsize, bad, prs, top>>

\* one step of "while peek(length) not in terminators: length += 1", and at the terminator prefix(length), forward(length)
\* (forward needs length + 1 units: what peek(length) has already obtained).  Negative control "window": the line end is
\* searched in prefix(length + step), step doubling - prefix(n) makes the reader refill until n units are there.
ScalarMeasure ==
  /\ TokActive("measure")
  /\ LET n == tk.len
         w == IF Variant = "window" THEN tk.step ELSE 1
     IN  IF ~Avail(n + w) THEN Ask(n + w) /\ UNCHANGED <<key, tk, dsize, ends>>
         ELSE \/ /\ a >= n + w /\ n + w <= MaxTok /\ dsize + n + w <= MaxSize      \* content up to the end of the window
                 /\ \A j \in n .. n + w - 1 : j \notin crs
                 /\ tk' = [tk EXCEPT !.len = n + w, !.step = IF Variant = "window" THEN 2 * w ELSE 1]
                 /\ UNCHANGED <<rdr, key, dsize, ends>>
              \/ \E e \in n .. n + w - 1 :                                       \* the unit at e ends the line (or is NUL)
                 /\ e <= a /\ (e = a => eofd) /\ dsize + e <= MaxSize
                 /\ \A j \in n .. e - 1 : j \notin crs
                 /\ Advance(e) /\ key' = Moved(key, e, FALSE) /\ dsize' = dsize + e
                 /\ tk' = [tk EXCEPT !.len = 0, !.step = 1, !.ph = "eol"]
  /\ UNCHANGED <<mode, built, selfref, dirref, bol, queue, sdone, swant, gen, cur, gsize, bad, prs, top>>

EndTok(b) == /\ Push(Tok(IF key.on /\ key.idx = Len(queue) + 1 THEN "S" ELSE "T", FALSE)) /\ tk' = NoTk /\ bol' = b
\* a quoted scalar that meets a document marker or the end of the stream: ScannerError (at most one malformed document)
ScalarFail == /\ ~bad /\ bad' = TRUE /\ raised' = [kind |-> "scanner", doc |-> cur, at |-> 0]
              /\ UNCHANGED <<rdr, bol, queue, key, tk, dsize, ends>>
\* at the terminator of a line: the lexeme ends here ("inline": closing quote, ' #', ': ', a blank after an anchor or tag,
\* NUL) or a line break is consumed and the routine looks at the beginning of the next line
ScalarEol(c) ==
  /\ TokActive("eol") /\ c \in {"inline", "break"}
  /\ IF c = "inline"
     THEN IF tk.r = "quoted"
          THEN IF ~Avail(1 + LookPast) THEN Ask(1 + LookPast) /\ UNCHANGED <<bol, queue, key, tk, dsize, ends, bad, raised>>
               ELSE IF AtEnd THEN ScalarFail
               ELSE /\ 0 \notin crs /\ dsize < MaxSize                      \* the closing quote: forward()
                    /\ Advance(1) /\ key' = Moved(key, 1, FALSE) /\ dsize' = dsize + 1 /\ EndTok(FALSE)
                    /\ UNCHANGED <<bad, raised>>
          ELSE /\ (tk.r = "block") => AtEnd                                 \* a block scalar ends at a line start or at NUL
               /\ 0 \notin crs
               /\ EndTok(FALSE) /\ UNCHANGED <<rdr, key, dsize, ends, bad, raised>>
     ELSE /\ tk.r # "word"
          /\ IF ~Avail(1 + LookPast) THEN Ask(1 + LookPast) /\ UNCHANGED <<bol, queue, key, tk, dsize, ends>>
             ELSE /\ ~AtEnd /\ dsize < MaxSize
                  /\ Advance(1) /\ key' = Moved(key, 1, TRUE) /\ dsize' = dsize + 1
                  /\ tk' = [tk EXCEPT !.ph = "cont"] /\ UNCHANGED <<bol, queue>>
          /\ UNCHANGED <<bad, raised>>
  /\ UNCHANGED <<mode, built, selfref, dirref, sdone, swant, gen, cur, gsize, prs, api, delivered, disposed, hok>>

\* at the beginning of a line inside a scalar: scan_plain_spaces / scan_flow_scalar_breaks look for a document marker
\* (prefix(3), peek(3): TermLen + 1 units), scan_block_scalar_breaks looks at the indentation (one unit); then either
\* another line of the scalar follows or the lexeme ends here (a marker, less indentation)
ScalarNext(c) ==
  /\ TokActive("cont") /\ c \in {"more", "end"}
  /\ LET look == IF tk.r = "block" THEN 1 ELSE TermLen + 1 IN
     IF ~Avail(look) THEN Ask(look) /\ UNCHANGED <<bol, queue, key, tk, dsize, ends, bad, raised>>
     ELSE IF c = "more" THEN /\ ~AtEnd /\ dsize < MaxSize
                             /\ tk' = [tk EXCEPT !.ph = "measure", !.len = 0, !.step = 1]
                             /\ UNCHANGED <<rdr, bol, queue, key, dsize, ends, bad, raised>>
     ELSE IF tk.r = "quoted" THEN ScalarFail
     ELSE EndTok(TRUE) /\ UNCHANGED <<rdr, key, dsize, ends, bad, raised>>
  /\ UNCHANGED <<mode, built, selfref, dirref, sdone, swant, gen, cur, gsize, prs, api, delivered, disposed, hok>>

(***************************************************************************)
(* Parser (one token of look-ahead)                                        *)
(***************************************************************************)
ParseActive == Running /\ ReaderIdle /\ ~swant /\ pwant /\ ev = NoEv /\ mode # "scan"
HeadTok == queue[1]
\* check_token / peek_token: first make sure need_more_tokens() is false
Peeked == queue # <<>> /\ ~NeedMore /\ ~KeyStale
WantTok == swant' = TRUE /\ UNCHANGED <<bol, queue, key, sdone, tk>>
Take == /\ queue' = Tail(queue) /\ UNCHANGED <<bol, sdone, swant, tk>>
        /\ key' = IF key.on /\ key.idx > 1 THEN [key EXCEPT !.idx = @ - 1] ELSE NoKey
Keep == UNCHANGED scn

ParseDocStart0 ==                          \* parse_implicit_document_start
  /\ ParseActive /\ pst = "dstart0"
  /\ IF ~Peeked THEN WantTok /\ UNCHANGED <<pst, ev, raised>>
     ELSE /\ Keep /\ UNCHANGED raised
          /\ IF HeadTok.k \notin {"D", "DS", "DE", "SE"} THEN pst' = "content" /\ ev' = [k |-> "DocStart", t |-> "-"]
             ELSE pst' = "dstart" /\ UNCHANGED ev
  /\ UNCHANGED <<mode, built, selfref, dirref, rdr, env, ends, pwant, api, delivered, disposed, hok>>

ParseDocStart ==                           \* parse_document_start: skip '...', STREAM-END, or an explicit document
  /\ ParseActive /\ pst \in {"dstart", "dirs"}
  /\ IF ~Peeked THEN WantTok /\ UNCHANGED <<pst, ev, raised>>
     ELSE CASE HeadTok.k = "DE" /\ pst = "dstart" -> Take /\ UNCHANGED <<pst, ev, raised>>
            [] HeadTok.k = "SE" /\ pst = "dstart" -> Take /\ pst' = "done" /\ ev' = [k |-> "StreamEnd", t |-> "-"] /\ UNCHANGED raised
            \* process_directives: "while self.check_token(DirectiveToken): token = self.get_token() ..." stores the
            \* version and the tag handles (data); then '---' is required
            [] HeadTok.k = "D" -> Take /\ pst' = "dirs" /\ UNCHANGED <<ev, raised>>
            [] HeadTok.k = "DS" -> Take /\ pst' = "content" /\ ev' = [k |-> "DocStart", t |-> "-"] /\ UNCHANGED raised
            [] OTHER -> Keep /\ raised' = [kind |-> "parser", doc |-> delivered + 1, at |-> 0] /\ UNCHANGED <<pst, ev>>
  \* "self.state = None" at STREAM-END (states and marks are empty there): the parser lets go of the loader by itself
  /\ selfref' = (selfref /\ ~(Peeked /\ HeadTok.k = "SE" /\ pst = "dstart"))
  \* negative control "dirtable": a table of bound methods is stored on the loader when the first directive is processed
  /\ dirref' = (dirref \/ (Variant = "dirtable" /\ Peeked /\ HeadTok.k = "D"))
  /\ UNCHANGED <<mode, built, rdr, env, ends, pwant, api, delivered, disposed, hok>>

ParseContent ==                            \* the node events of the document, one per token here
  /\ ParseActive /\ pst = "content"
  /\ IF ~Peeked THEN WantTok /\ UNCHANGED <<pst, ev, raised>>
     ELSE IF HeadTok.k \in {"DS", "DE", "SE"} THEN Keep /\ pst' = "dend" /\ UNCHANGED <<ev, raised>>
     ELSE IF HeadTok.k = "P" THEN Keep /\ raised' = [kind |-> "parser", doc |-> delivered + 1, at |-> 0] /\ UNCHANGED <<pst, ev>>
     ELSE Take /\ ev' = [k |-> "Node", t |-> HeadTok.k] /\ UNCHANGED <<pst, raised>>
  /\ UNCHANGED <<mode, built, selfref, dirref, rdr, env, ends, pwant, api, delivered, disposed, hok>>

ParseDocEnd ==                             \* parse_document_end: an explicit '...' belongs to the document
  /\ ParseActive /\ pst \in {"dend", "dend2"}
  /\ IF ~Peeked THEN WantTok /\ UNCHANGED <<pst, ev>>
     ELSE IF pst = "dend" /\ HeadTok.k = "DE"
          THEN Take /\ (IF Variant = "depeek" THEN pst' = "dend2" /\ UNCHANGED ev     \* negative control: look past '...'
                        ELSE pst' = "dstart" /\ ev' = [k |-> "DocEnd", t |-> "-"])
     ELSE IF pst = "dend2" /\ HeadTok.k = "DE" THEN Take /\ UNCHANGED <<pst, ev>>
     ELSE Keep /\ pst' = "dstart" /\ ev' = [k |-> "DocEnd", t |-> "-"]
  /\ UNCHANGED <<mode, built, selfref, dirref, rdr, env, ends, pwant, raised, api, delivered, disposed, hok>>

(***************************************************************************)
(* API generators and H bookkeeping                                        *)
(***************************************************************************)
ApiActive == Running /\ ReaderIdle /\ ~swant /\ (mode = "scan" \/ ~pwant \/ ev # NoEv)
\* (1): the oldest undelivered document is delivered now:  requested = p + a + t,  end = p - ends[1]
Lazy == ends # <<>> /\ HL!Within(a + t + ends[1], Block)
Deliver == /\ delivered' = delivered + 1 /\ hok' = (hok /\ Lazy) /\ api' = "yielded"
           /\ ends' = IF ends = <<>> THEN ends ELSE Tail(ends)

ApiStep ==
  /\ ApiActive /\ api \in {"check", "get"}
  /\ IF mode = "scan"
     THEN \* while loader.check_token(): yield loader.get_token()
          IF ~Peeked THEN /\ (IF sdone /\ queue = <<>> THEN api' = "finished" /\ UNCHANGED swant ELSE swant' = TRUE /\ UNCHANGED api)
                          /\ UNCHANGED <<bol, queue, key, sdone, tk, prs, delivered, raised, hok, ends>>
          ELSE /\ Take /\ UNCHANGED <<prs, raised>>
               \* the token that terminates a document is yielded: the document has been delivered
               /\ IF HeadTok.term THEN Deliver ELSE api' = "yielded" /\ UNCHANGED <<delivered, hok, ends>>
     ELSE IF ev = NoEv THEN pwant' = TRUE /\ UNCHANGED <<scn, pst, ev, api, delivered, raised, hok, ends>>
     ELSE /\ UNCHANGED <<scn, pst>>
          /\ IF mode = "parse"
             THEN \* while loader.check_event(): yield loader.get_event()
                  /\ ev' = NoEv /\ pwant' = FALSE /\ UNCHANGED raised
                  /\ IF ev.k = "StreamEnd" THEN api' = "finished" /\ UNCHANGED <<delivered, hok, ends>>
                     ELSE IF ev.k = "DocEnd" THEN Deliver ELSE api' = "yielded" /\ UNCHANGED <<delivered, hok, ends>>
             ELSE \* load_all: while loader.check_data(): yield loader.get_data()
                  IF api = "check"
                  THEN /\ UNCHANGED <<delivered, raised, hok, ends>>
                       /\ IF ev.k = "StreamEnd" THEN api' = "finished" /\ ev' = NoEv /\ pwant' = FALSE
                          ELSE api' = "get" /\ UNCHANGED <<ev, pwant>>
                  ELSE /\ ev' = NoEv /\ pwant' = FALSE
                       /\ IF ev.k = "Node" /\ ev.t = "C"                        \* composer error while the events are pulled
                          THEN raised' = [kind |-> "composer", doc |-> delivered + 1, at |-> 0] /\ UNCHANGED <<api, delivered, hok, ends>>
                          ELSE IF ev.k = "Node" /\ ev.t = "X"                   \* the constructor fails on this document
                          THEN raised' = [kind |-> "constructor", doc |-> delivered + 1, at |-> 0] /\ UNCHANGED <<api, delivered, hok, ends>>
                          ELSE IF ev.k = "DocEnd" THEN Deliver /\ UNCHANGED raised
                          ELSE UNCHANGED <<api, delivered, raised, hok, ends>>
  /\ UNCHANGED <<mode, built, selfref, dirref, rdr, env, disposed>>

\* scan / parse / compose_all / load_all are generator functions: the call only creates the generator (api = "new"); the
\* loader is built - Parser.__init__ sets self.state = self.parse_stream_start, the first reads happen - when the first
\* item is asked for.  A generator that is closed or dropped before that has nothing to dispose of.  Negative control
\* "early": the loader is built by the call itself and the finally clause sits in a helper generator that a consumer who
\* never asks for an item never starts.
Start ==                                   \* the first next()
  /\ Running /\ api = "new" /\ (built => ReaderIdle)
  /\ api' = "check" /\ built' = TRUE /\ selfref' = TRUE
  /\ UNCHANGED <<mode, dirref, rdr, scn, env, ends, prs, delivered, raised, disposed, hok>>
AbandonNew ==                              \* close() / drop before the first next(): k = 0
  /\ Running /\ api = "new" /\ (built => ReaderIdle)
  /\ disposed' = TRUE                      \* the generator is gone; no finally clause has run
  /\ UNCHANGED <<mode, built, selfref, dirref, rdr, scn, env, ends, prs, api, delivered, raised, hok>>
ApiNext ==                                 \* the consumer asks for the next item ...
  /\ Running /\ api = "yielded" /\ api' = "check"
  /\ UNCHANGED <<mode, built, selfref, dirref, rdr, scn, env, ends, prs, delivered, raised, disposed, hok>>
\* loader.dispose() is Parser.dispose: "self.states = []; self.state = None" - it breaks the reference cycle
\* loader -> state -> bound method -> loader, so that dropping the generator frees the loader, its stream and buffers by
\* reference counting.  Negative control "shadow": dispose() is called but resolves to a method that leaves the
\* parser's state alone (another mixin defines dispose() earlier in the MRO).
Dispose == /\ disposed' = TRUE /\ selfref' = (Variant = "shadow" /\ selfref)
Abandon ==                                 \* ... or closes the generator (or it is exhausted): finally: loader.dispose()
  /\ Running /\ api \in {"yielded", "finished"}
  /\ Dispose
  /\ UNCHANGED <<mode, built, dirref, rdr, scn, env, ends, prs, api, delivered, raised, hok>>
Unwind ==                                  \* an error leaves the generator through the same finally clause
  /\ raised # NoErr /\ ~disposed
  /\ Dispose
  /\ UNCHANGED <<mode, built, dirref, rdr, scn, env, ends, prs, api, delivered, raised, hok>>

Init ==
  /\ mode \in Modes
  /\ closed = FALSE /\ a = 0 /\ t = 0 /\ eofd = FALSE /\ need = 0 /\ rst = "detenc" /\ crs = {}
  /\ bol = TRUE /\ queue = <<>> /\ key = NoKey /\ sdone = FALSE /\ swant = FALSE /\ tk = NoTk
  /\ gen = "start" /\ cur = 0 /\ dsize = 0 /\ gsize = 0 /\ ends = <<>> /\ bad = FALSE
  /\ pst = "dstart0" /\ ev = NoEv /\ pwant = FALSE
  /\ api = "new" /\ delivered = 0 /\ raised = NoErr /\ disposed = FALSE /\ hok = TRUE
  /\ built = (Variant = "early") /\ selfref = (Variant = "early") /\ dirref = FALSE

Next ==
  \/ DetEnc \/ Refill \/ ScanStale \/ ScanReady \/ FetchEnd
  \/ \E u \in {"W", "NL"} : Skip(u)
  \/ \E m \in {"DS", "DE"} : FetchMarker(m)
  \/ \E u \in {"K", "T", "V", "B", "P", "C", "X"} : FetchTok(u)
  \/ FetchDirective
  \/ \E r \in Styles, can \in BOOLEAN : ScalarStart(r, can)
  \/ ScalarMeasure
  \/ \E c \in {"inline", "break"} : ScalarEol(c)
  \/ \E c \in {"more", "end"} : ScalarNext(c)
  \/ ParseDocStart0 \/ ParseDocStart \/ ParseContent \/ ParseDocEnd
  \/ Start \/ AbandonNew \/ ApiStep \/ ApiNext \/ Abandon \/ Unwind
Spec == Init /\ [][Next]_vars

(***************************************************************************)
(* H_Lazy                                                                  *)
(***************************************************************************)
\* (1) every delivery happened within two blocks of the document's end
H_Bound == hok
\* (2) errors of the scanner, parser, composer, constructor: the documents before the malformed one have been delivered
H_Order == (raised.kind \in {"scanner", "parser", "composer", "constructor"}) => HL!OrderOk(raised.doc, delivered)
\* a reader error at offset r (from p) pre-empts only documents that end less than two blocks before it: every document
\* whose terminating token the scanner has identified and that is still undelivered ends within two blocks of r, and the
\* scanner itself is less than two blocks behind r (so that no unidentified document end lies further back)
\* - where "the scanner" is the last unit it has looked at: while it measures a line it stays at the start of the line and
\* the units it has passed over are content of the lexeme
Seen == IF tk.ph = "measure" THEN tk.len ELSE 0
H_ReaderOrder == (raised.kind = "reader") =>
                    /\ \A j \in DOMAIN ends : HL!MayPreempt(raised.at + ends[j], Block)
                    /\ raised.at <= Seen \/ HL!MayPreempt(raised.at - Seen, Block)
\* (3) a disposed loader never reads again: no reader action is enabled once it is disposed
H_Dispose == disposed => ~(ENABLED DetEnc \/ ENABLED Refill)
\* (3) released: once an abandoned (or exhausted) generator is gone nothing refers to the loader any more - it is freed
\* without the cycle collector.  What may still refer to it: the generator frame, the parser's state (bound methods), and
\* after a ConstructorError the two-phase generators left in constructor.state_generators (their frames hold the loader;
\* dispose() does not touch them - the statement speaks of abandoning, not of failing, so this is modelled, not judged).
Referrers == (IF disposed THEN {} ELSE {"generator frame"}) \cup (IF selfref THEN {"parser.state"} ELSE {})
             \cup (IF dirref THEN {"parser.directive_handlers"} ELSE {})
             \cup (IF raised.kind = "constructor" THEN {"constructor.state_generators"} ELSE {})
H_Release == (disposed /\ raised = NoErr) => HL!NothingLeft(Referrers)
\* beyond the statement (drift probe of the harness): the same holds after every error but a constructor error
\* nothing is requested from the stream before the first item is asked for (L fact; H only bounds it: k = 0)
H_CallBound == (api = "new") => HL!Within(a + t, Block)
L_NothingAtCall == (api = "new" /\ Variant # "early") => (a + t = 0 /\ ~closed)
L_ReleaseOnError == (disposed /\ raised.kind \notin {"-", "constructor"}) => HL!NothingLeft(Referrers)
TypeOK == /\ (a <= Seen + 2 * Block + MaxTail + TermLen + 1) \/ Variant \in {"greedy", "crjoin", "window"}
          /\ (t <= 2 * Block + 1) \/ Variant = "crjoin"
          /\ cur <= MaxDocs
          /\ (Len(queue) <= 4) \/ Variant = "eager"
=============================================================================
