SPECIFICATION Spec
CONSTANTS
  Fix = {}
  Variant = "python"
  Mode = "grammar"
  MaxEvents = 7
  MaxDocs = 2
  MaxNest = 9
  EmptyColls = FALSE
  CollsAt = "any"
  Canons = {FALSE}
  Bests = {2}
  Widths = {80}
  Unis = {FALSE}
  LBs = {"n"}
  Vs = {"word", "empty"}
  Ss = {"none"}
  SAs = {""}
  STs = {""}
  SIs = {"tf"}
  CAs = {""}
  CTs = {""}
  CIs = {TRUE}
  FSs = {FALSE, TRUE}
  AAs = {"a1"}
  DXs = {FALSE, TRUE}
  DVs = {""}
  DTs = {""}
  EXs = {FALSE, TRUE}
INVARIANT NoCrash
INVARIANT PreparedCleared
INVARIANT RejectsOnlyIllFormed
INVARIANT RoundTrip
INVARIANT DocBoundaries
