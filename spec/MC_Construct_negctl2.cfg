SPECIFICATION Spec
CONSTANTS
  MaxNodes = 1
  LeafBases = {"str", "int", "local", "py/name:", "py/object/apply:"}
  ParentBases = {"seq", "map"}
  Names = {"res", "unimp"}
  Vals = {"g", "b", "e"}
  MaxEntries = 1
  ExtraBase = {}
  ExtraSafe = {}
  ExtraFull = {}
  ExtraUnsafe = {}
  Kinds = {"s", "q", "m"}
  LeafKinds = {"s", "q", "m"}
  KeyFillers = {"k", "M", "V"}
  ValFillers = {"x"}
  MustChain = TRUE
  ConvFail = "err"
INVARIANT ConfinedStrict
