SPECIFICATION Spec
CONSTANTS
  MaxEvents = 6
  MaxDepth = 2
  NodeChecks = {"any", "q", "m"}
  IndexChecks = {"None", "True", "a", "0"}
  MaxPath = 2
  KindsReg = {"any", "s", "m"}
INVARIANT Agree
INVARIANT Balanced
