SPECIFICATION Spec
CONSTANTS
  Block = 4
  MaxKey = 4
  TermLen = 1
  MaxTail = 1
  MaxDocs = 2
  MaxSize = 6
  MaxGap = 6
  Modes = {"load"}
  TrackBoundary = FALSE
  Styles = {}
  MaxTok = 1
  Directives = FALSE
  Variant = "code"
INVARIANT TypeOK
INVARIANT H_Bound
INVARIANT H_Order
INVARIANT H_ReaderOrder
INVARIANT H_Dispose
INVARIANT H_Release
INVARIANT L_ReleaseOnError
INVARIANT H_CallBound
INVARIANT L_NothingAtCall
