--------------------------- MODULE Trace_Snippet ---------------------------
(***************************************************************************)
(* code -> spec for error.py: every record is one Mark of an error raised  *)
(* by the real readers (buffer window around the pointer abstracted to     *)
(* "w"/"b", pointer, max_length, indent) together with what get_snippet    *)
(* returned (head / tail flags, excerpt abstracted the same way, column of *)
(* the caret) and which parts MarkedYAMLError.__str__ printed.  TLC        *)
(* recomputes both with the operators of Snippet.tla and also evaluates    *)
(* the design properties on the record (the caret is under the character   *)
(* the mark points at).  Batch protocol as Trace_Tokens.                   *)
(***************************************************************************)
EXTENDS Integers, Sequences, FiniteSets, TLC, Json, IOUtils

Traces == JsonDeserialize(IOEnv.TRACE_FILE)
VARIABLE tid
buf == <<>>  ptr == 0  ml == 0  ind == 0  done == FALSE  res == <<>>      \* Snippet's variables are not used here
Sn == INSTANCE Snippet WITH MaxBuf <- 0, MaxLens <- {}, Indents <- {}

Judge(t) ==
  LET s == Sn!GetSnippet(t.buf, t.ptr, t.ml, t.ind)
      sh == Sn!Shown(t.has.context, t.has.contextMark, t.has.problem, t.has.problemMark, t.has.same, t.has.note)
  IN  IF s.head # t.head \/ s.tail # t.tail THEN [ok |-> FALSE, why |-> "head/tail", at |-> 0]
      ELSE IF s.text # t.text THEN [ok |-> FALSE, why |-> "excerpt", at |-> Len(s.text)]
      ELSE IF s.caret # t.caret THEN [ok |-> FALSE, why |-> "caret column", at |-> s.caret]
      ELSE IF t.ml >= 12 /\ t.ptr < Len(t.buf) /\ t.buf[t.ptr + 1] = "w"
              /\ ~(t.caret - s.lead + 1 \in DOMAIN t.text /\ t.caret - s.lead = t.ptr - s.start)
           THEN [ok |-> FALSE, why |-> "caret not under the marked character", at |-> s.caret]
      ELSE IF sh # t.shown THEN [ok |-> FALSE, why |-> "parts printed by __str__", at |-> 0]
      ELSE [ok |-> TRUE, why |-> "-", at |-> 0]

Init == tid \in 1 .. Len(Traces)
Next == FALSE /\ tid' = tid
Spec == Init /\ [][Next]_tid
Verdict == LET r == Judge(Traces[tid]) IN PrintT(<<"VERDICT", tid, r.ok, r.why, r.at>>)
=============================================================================
