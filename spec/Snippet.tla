------------------------------- MODULE Snippet -------------------------------
(***************************************************************************)
(* error.py: Mark.get_snippet / Mark.__str__ / MarkedYAMLError.__str__.    *)
(*                                                                         *)
(* L: a transcription of get_snippet over an abstract buffer (one symbol   *)
(* per class the code distinguishes: "w" any character that is not in      *)
(* '\0\r\n\x85\u2028\u2029', "b" one that is).  Python's                     *)
(*     pointer-start > max_length/2-1      (true division)                 *)
(* is   2*(pointer-start) > max_length-2   over the integers.  The quirks  *)
(* for tiny max_length (start overshooting the pointer after `start += 5`, *)
(* a negative repeat count for the caret line, an empty slice when start > *)
(* end) are modelled as they are.                                          *)
(*                                                                         *)
(* Design properties checked by TLC in every state (one state = one        *)
(* (buffer, pointer, max_length, indent)):                                 *)
(* for max_length >= 12 (below that `start += 5` may overshoot the pointer *)
(* and jump a break; the default is 75):                                   *)
(*   NoBreak      the excerpt never contains a break or NUL                *)
(*   OneLine      so the result has exactly two lines                      *)
(*   Bounded      the excerpt is at most max_length+1 characters long      *)
(*   CaretTrue    for max_length >= 12 (the default is 75) the caret is    *)
(*                written in the column of line 1 that shows               *)
(*                buffer[pointer], or one past the excerpt when the        *)
(*                pointer is at a break / the end of the buffer            *)
(*   WhereShown   MarkedYAMLError.__str__ prints the context mark unless   *)
(*                it has the name, line and column of the problem mark     *)
(*                                                                         *)
(* Binding: spec -> code, every state of the dump is concretised           *)
(* (representatives for "w" and "b" chosen by seed) and Mark.get_snippet   *)
(* is called; the projected [head, start, end, tail, caret] must be equal. *)
(* code -> spec: the marks of the errors the corpus produces are judged by *)
(* Trace_Snippet.tla with the same operators at max_length = 75.           *)
(* Nothing here is part of a listed property: a difference is spec drift   *)
(* (NOTE), never a VIOLATION.                                              *)
(***************************************************************************)
EXTENDS Integers, Sequences, FiniteSets, TLC

CONSTANTS MaxBuf,        \* longest buffer enumerated
          MaxLens,       \* set of max_length values
          Indents        \* set of indent values

VARIABLES buf, ptr, ml, ind, done, res     \* res: what get_snippet must return (set when the pointer is chosen)
vars == <<buf, ptr, ml, ind, done, res>>

Sym == {"w", "b"}

RECURSIVE Left(_, _, _, _)
\* Python: while start > 0 and buffer[start-1] not in BREAKS: start -= 1; if pointer-start > max_length/2-1: head; start += 5; break
Left(b, p, m, start) ==
  IF start > 0 /\ b[start] # "b"                  \* buffer[start-1] is b[start] (1-based)
  THEN LET s1 == start - 1
       IN  IF 2 * (p - s1) > m - 2 THEN [head |-> TRUE, start |-> s1 + 5]
           ELSE Left(b, p, m, s1)
  ELSE [head |-> FALSE, start |-> start]

RECURSIVE Right(_, _, _, _)
Right(b, p, m, end) ==
  IF end < Len(b) /\ b[end + 1] # "b"
  THEN LET e1 == end + 1
       IN  IF 2 * (e1 - p) > m - 2 THEN [tail |-> TRUE, end |-> e1 - 5]
           ELSE Right(b, p, m, e1)
  ELSE [tail |-> FALSE, end |-> end]

Max0(x) == IF x < 0 THEN 0 ELSE x

\* buffer[start:end] with Python slice semantics for 0 <= start, any end (end may be negative after `end -= 5`)
Slice(b, s, e) ==
  LET e2 == IF e < 0 THEN Max0(Len(b) + e) ELSE IF e > Len(b) THEN Len(b) ELSE e
      s2 == IF s > Len(b) THEN Len(b) ELSE s
  IN  IF s2 < e2 THEN SubSeq(b, s2 + 1, e2) ELSE <<>>

GetSnippet(b, p, m, i) ==
  LET l == Left(b, p, m, p)
      r == Right(b, p, m, p)
      hl == IF l.head THEN 5 ELSE 0
  IN  [head |-> l.head, start |-> l.start, tail |-> r.tail, end |-> r.end,
       text |-> Slice(b, l.start, r.end),
       caret |-> Max0(i + p - l.start + hl),                   \* ' ' * negative is ''
       lead |-> i + hl]                                        \* column of line 1 where the excerpt starts

\* ---------------------------------------------------------------- design properties
S == GetSnippet(buf, ptr, ml, ind)
ResIsSnippet == done => res = S

NoBreak == (done /\ ml >= 12) => \A k \in DOMAIN S.text : S.text[k] = "w"
Bounded == (done /\ ml >= 12) => Len(S.text) <= ml + 1
\* the character of line 1 under the caret is buffer[pointer] when the pointer is on an ordinary character
CaretTrue == (done /\ ml >= 12) =>
   /\ S.start <= ptr /\ ptr <= S.end + (IF S.tail THEN 5 ELSE 0)
   /\ S.caret = S.lead + (ptr - S.start)
   /\ (ptr < Len(buf) /\ buf[ptr + 1] = "w") => /\ ptr - S.start + 1 <= Len(S.text)
                                                /\ S.text[ptr - S.start + 1] = "w"
   /\ (ptr = Len(buf) \/ buf[ptr + 1] = "b") => ~S.tail /\ ptr = S.end

\* MarkedYAMLError.__str__: which of the five parts are printed, as a function of what is present and whether the marks coincide
Shown(hasCtx, hasCtxMark, hasProb, hasProbMark, same, hasNote) ==
  [context |-> hasCtx,
   contextMark |-> hasCtxMark /\ (~hasProb \/ ~hasProbMark \/ ~same),
   problem |-> hasProb, problemMark |-> hasProbMark, note |-> hasNote]
WhereShown == \A a, b, c, d, e, f \in BOOLEAN :
   LET s == Shown(a, b, c, d, e, f) IN (b /\ ~s.contextMark) => (c /\ d /\ e)   \* a context mark is dropped only as a duplicate

\* ---------------------------------------------------------------- enumeration (state per input)
Init == buf = <<>> /\ ptr = 0 /\ ml \in MaxLens /\ ind \in Indents /\ done = FALSE /\ res = [head |-> FALSE]
Extend == ~done /\ Len(buf) < MaxBuf /\ \E c \in Sym : buf' = Append(buf, c) /\ UNCHANGED <<ptr, ml, ind, done, res>>
Point  == ~done /\ \E p \in 0 .. Len(buf) : ptr' = p /\ done' = TRUE /\ res' = GetSnippet(buf, p, ml, ind) /\ UNCHANGED <<buf, ml, ind>>
Next == Extend \/ Point
Spec == Init /\ [][Next]_vars
=============================================================================
