SPECIFICATION Spec
CONSTANTS
  MaxBuf = 10
  MaxLens = {0, 1, 4, 9, 10, 11, 12, 13, 75}
  Indents = {0, 4}
INVARIANT NoBreak
INVARIANT Bounded
INVARIANT CaretTrue
INVARIANT WhereShown
INVARIANT ResIsSnippet
