---------------------------- MODULE Trace_Types ----------------------------
(***************************************************************************)
(* Judgement of observations of the real code against H of C08 (TypeRepo). *)
(* One relation serves both directions:                                    *)
(*                                                                         *)
(*     Denotes(text, plain, tag, ot, ov)                                   *)
(*        "a scalar written as `text` (plain or not, with or without an    *)
(*         explicit tag) denotes the Python value of type ot, digest ov"   *)
(*                                                                         *)
(*   load  : the loader was given `text`; (ot, ov) is what it built.       *)
(*   dump  : the dumper was given the value (ot, ov); `text`, `plain`,     *)
(*           `tag` are what it emitted (projected by re-parsing).          *)
(*                                                                         *)
(* record:  kind "load" | "dump";  text <<chars>>;  plain BOOLEAN;         *)
(*   tag   "" or the short name of an explicit tag ("int", "str", ...);    *)
(*   rb    (dump, tagged scalars only) the emitted document loads back to  *)
(*         an equal value of the same type;                                *)
(*   ot    "null" "bool" "int" "float" "date" "datetime" "str",            *)
(*         "error" (a YAML error) or "exception" (any other exception);    *)
(*   ov    digest:  int [s, m]   bool [b]   date [y, m, d]                 *)
(*         datetime [y, mo, d, h, mi, s, us, aware, off, offus]            *)
(*               off = utcoffset() in whole seconds, offus its microseconds *)
(*         float [k |-> "nan"] | [k |-> "inf", s] |                        *)
(*               [k |-> "num", neg, lo, hi, loin, hiin, wlo, whi]          *)
(*               lo..hi: the exact rounding interval of the binary64 value *)
(*               (signed decimals, or an infinity), loin/hiin whether the  *)
(*               end points round to it (ties to even); wlo..whi: the      *)
(*               same widened to one ulp per sexagesimal term.             *)
(*   emit records (see EmitDenotes) carry ntag, the short tag of the node,  *)
(*   and ctx, the situation (style, flow, pos) - H does not look at ctx:    *)
(*   the meaning of a written scalar does not depend on where it stands.   *)
(* One TLC run judges a whole batch: one initial state per trace.          *)
(***************************************************************************)
EXTENDS Naturals, Integers, Sequences, FiniteSets, TLC, Json, IOUtils, Decimal
H == INSTANCE TypeRepo

Traces == JsonDeserialize(IOEnv.TRACE_FILE)
VARIABLE tid

SLt(x, y) == SLe(x, y) /\ ~SLe(y, x)
Within(x, lo, hi, loin, hiin) == (IF loin THEN SLe(lo, x) ELSE SLt(lo, x)) /\ (IF hiin THEN SLe(x, hi) ELSE SLt(x, hi))

\* days since 0000-03-01 of the proleptic Gregorian calendar (small enough for TLC integers)
Days(y0, m, d) == LET y == IF m <= 2 THEN y0 - 1 ELSE y0
                      mp == IF m <= 2 THEN m + 9 ELSE m - 3
                  IN  365 * y + (y \div 4) - (y \div 100) + (y \div 400) + ((153 * mp + 2) \div 5) + d - 1
\* <<day, second of day>> of the UTC instant of a local time with an offset (seconds)
Instant(y, m, d, secs, off) == LET t == secs - off + 2 * 86400 IN <<Days(y, m, d) - 2 + (t \div 86400), t % 86400>>

OffSeconds(tz) == CASE tz[1] = "off" -> (IF tz[2] = "-" THEN 0 - 1 ELSE 1) * (tz[3] * 3600 + tz[4] * 60)
                    [] OTHER -> 0

\* A YAML 1.1 zone is  Z | [-+]hh?(:mm)? : hours and minutes.  The UTC offset of an aware datetime can be written in a
\* timestamp text exactly when it is a whole number of minutes (Python allows seconds and microseconds as well).
Expressible(ov) == ov.off % 60 = 0 /\ ov.offus = 0

\* does the value hv of the repository equal the Python value (ot, ov)?   "" = yes, else the reason
\* A datetime is the local calendar fields *and* the UTC offset the text gives: "21:59:43 +00:30" and "21:29:43Z" are
\* the same instant but not the same value (hour, minute, utcoffset() differ).  load: the constructed datetime has the
\* offset of the text.  dump: the text has the offset of the value wherever a timestamp can express it; for an offset
\* with seconds there is no such text, and the instant alone is held.
ValueIs(kind, hv, ot, ov) ==
  CASE hv[1] = "null" -> IF ot = "null" THEN "" ELSE "type"
    [] hv[1] = "bool" -> IF ot # "bool" THEN "type" ELSE IF ov.b = hv[2] THEN "" ELSE "value"
    [] hv[1] = "int"  -> IF ot # "int" THEN "type" ELSE IF ov.s = hv[2] /\ ov.m = hv[3] THEN "" ELSE "value"
    [] hv[1] = "float" ->
         IF ot # "float" THEN "type"
         ELSE IF hv[2] = "nan" THEN (IF ov.k = "nan" THEN "" ELSE "value")
         ELSE IF hv[2] = "inf" THEN (IF ov.k = "inf" /\ ov.s = hv[3] THEN "" ELSE "value")
         ELSE IF ov.k = "nan" THEN "value"
         ELSE IF ov.k = "inf" THEN (IF hv[3].s = ov.s /\ Within(hv[3], ov.lo, ov.hi, ov.loin, ov.hiin) THEN "" ELSE "value")
         ELSE IF (hv[3].s = "-") # ov.neg THEN "sign"
         ELSE IF hv[4] THEN (IF Within(hv[3], ov.wlo, ov.whi, TRUE, TRUE) THEN "" ELSE "value")
         ELSE IF Within(hv[3], ov.lo, ov.hi, ov.loin, ov.hiin) THEN "" ELSE "value"
    [] hv[1] = "date" -> IF ot # "date" THEN "type" ELSE IF <<ov.y, ov.m, ov.d>> = <<hv[2], hv[3], hv[4]>> THEN "" ELSE "value"
    [] hv[1] = "datetime" ->
         IF ot # "datetime" THEN "type"
         ELSE IF ov.aware # (hv[9][1] # "none") THEN "zone awareness"
         ELSE IF Instant(ov.y, ov.mo, ov.d, ov.h * 3600 + ov.mi * 60 + ov.s, ov.off)
                 # Instant(hv[2], hv[3], hv[4], hv[5] * 3600 + hv[6] * 60 + hv[7], OffSeconds(hv[9])) THEN "instant"
         ELSE IF ov.aware /\ (kind = "load" \/ Expressible(ov))
                 /\ (ov.off # OffSeconds(hv[9]) \/ ov.offus # 0) THEN "utc offset"
         ELSE IF ov.us = hv[8] THEN "" ELSE "microsecond"
    [] hv[1] = "str" -> IF ot = "str" THEN "" ELSE "type"          \* the harness compares the characters
    [] OTHER -> "type"

\* The statement speaks about untagged scalars.  A scalar the dumper wrote with an explicit tag is outside the
\* repository's rules; it is held to the read-back clause only: rb = loading the emitted document gave the value back.
\* kind "emit": a scalar NODE (ntag, text) - a number, bool, null, timestamp spelled by the rules of its type, or a str -
\* was serialized in some situation (style asked for, block / flow, position); text / plain / tag are what was written.
\* The written form reads back with the type of the node: an explicit tag says it, otherwise the repository's rules do.
EmitDenotes(t) ==
  LET cls == IF t.tag # "" THEN t.tag ELSE H!ClassifyStyled(t.text, t.plain)
  IN  IF cls = t.ntag THEN "" ELSE "reads back as another type"

Denotes(t) ==
  IF t.kind = "emit" THEN EmitDenotes(t)
  ELSE IF t.ot = "exception" THEN "non-YAML exception"
  ELSE IF t.tag # "" THEN (IF t.rb THEN "" ELSE "tagged, no read-back")
  ELSE LET cls == H!ClassifyStyled(t.text, t.plain)
           hv  == H!ValueAs(cls, t.text)
       IN  IF hv[1] \in {"undefined", "merge", "value"}
           THEN (IF t.kind = "load" THEN "" ELSE "dumped text has no value")     \* a YAML error or any value will do
           ELSE IF t.ot = "error" THEN "YAML error, text has a value"
           ELSE ValueIs(t.kind, hv, t.ot, t.ov)

Init == tid \in 1 .. Len(Traces)
Next == FALSE /\ tid' = tid
Spec == Init /\ [][Next]_tid
Verdict == LET why == Denotes(Traces[tid]) IN PrintT(<<"VERDICT", tid, why = "", why, 0>>)
=============================================================================
