---------------------------- MODULE Trace_Tokens ----------------------------
(***************************************************************************)
(* Judgement of token streams recorded from the real scanners (H of C09    *)
(* for tokens that merely scan): STREAM-START first, STREAM-END last and   *)
(* only there, block collection brackets nested (BLOCK-SEQUENCE-START /    *)
(* BLOCK-MAPPING-START ... BLOCK-END; all closed at STREAM-END unless the  *)
(* stream ends inside an unterminated flow collection, where the scanner   *)
(* ignores indentation, or contains a stray flow-collection end - such     *)
(* input scans but does not parse), marks in                               *)
(* range, start <= end, start marks never moving backwards, line/column =  *)
(* Pos(input, index), and the text between the marks of a single-line      *)
(* plain scalar, an anchor or an alias equal to the token's value.          *)
(* Same batch protocol and trace layout as Trace_Events.                    *)
(***************************************************************************)
EXTENDS Integers, Sequences, FiniteSets, TLC, Json, IOUtils

Traces == JsonDeserialize(IOEnv.TRACE_FILE)
VARIABLE tid

\* line l (0-based) is the one with breaks[l+1] <= pos < breaks[l+2]; breaks is strictly increasing and starts with 0, so this
\* l is unique and equals  Cardinality({j : breaks[j] <= pos}) - 1  (the count of line starts at or before pos) - checked, not counted
IsLineOf(t, pos, l) == /\ l >= 0 /\ l + 1 <= Len(t.breaks) /\ t.breaks[l + 1] <= pos
                       /\ (l + 2 <= Len(t.breaks) => pos < t.breaks[l + 2])
ColAt(t, pos, l)    == LET ls == t.breaks[l + 1]
                       IN  (pos - ls) - Cardinality({j \in DOMAIN t.boms : ls <= t.boms[j] /\ t.boms[j] < pos})
PosOk(t, i, l, c) == ~t.exact \/ (IsLineOf(t, i, l) /\ c = ColAt(t, i, l))

RECURSIVE Run(_, _, _, _, _)
\* depth = number of open block collections, -1 before STREAM-START, -2 after STREAM-END
Run(t, i, depth, prev, flow) ==
  IF i > Len(t.tokens) THEN [ok |-> TRUE, d |-> depth, at |-> 0, why |-> "-"]
  ELSE LET e == t.tokens[i]
           d2 == CASE e.k = "StreamStart" -> IF depth = -1 THEN 0 ELSE -9
                   [] e.k = "StreamEnd" -> IF depth = 0 \/ (depth > 0 /\ flow # 0) THEN -2 ELSE -9
                   [] e.k \in {"BlockSequenceStart", "BlockMappingStart"} -> IF depth >= 0 THEN depth + 1 ELSE -9
                   [] e.k = "BlockEnd" -> IF depth >= 1 THEN depth - 1 ELSE -9
                   [] OTHER -> IF depth >= 0 THEN depth ELSE -9
       IN  IF d2 = -9 THEN [ok |-> FALSE, d |-> d2, at |-> i, why |-> "token brackets"]
           ELSE IF ~(0 <= e.s /\ e.s <= e.e /\ e.e <= t.len) THEN [ok |-> FALSE, d |-> d2, at |-> i, why |-> "mark range"]
           ELSE IF ~(prev <= e.s) THEN [ok |-> FALSE, d |-> d2, at |-> i, why |-> "marks move backwards"]
           ELSE IF ~(PosOk(t, e.s, e.sl, e.sc) /\ PosOk(t, e.e, e.el, e.ec)) THEN [ok |-> FALSE, d |-> d2, at |-> i, why |-> "line/column"]
           ELSE IF e.chk /\ e.val # e.span THEN [ok |-> FALSE, d |-> d2, at |-> i, why |-> "text between marks"]
           ELSE Run(t, i + 1, d2, IF e.e > prev THEN e.e ELSE prev,     \* "marks never move backwards": no token starts before an earlier one ended
                    
                    CASE e.k \in {"FlowSequenceStart", "FlowMappingStart"} -> flow + 1
                      [] e.k \in {"FlowSequenceEnd", "FlowMappingEnd"} -> IF flow > 0 THEN flow - 1 ELSE 1000   \* stray close: flow context never ends
                      [] OTHER -> flow)

Judge(t) ==
  LET r == Run(t, 1, -1, 0, 0) IN
  IF ~r.ok THEN r
  ELSE IF t.outcome = "exception" THEN [ok |-> FALSE, d |-> r.d, at |-> Len(t.tokens), why |-> "non-YAML exception"]
  ELSE IF t.outcome = "ok" /\ r.d # -2 THEN [ok |-> FALSE, d |-> r.d, at |-> Len(t.tokens), why |-> "incomplete stream"]
  ELSE IF \E j \in DOMAIN t.errmarks : ~(0 <= t.errmarks[j].i /\ t.errmarks[j].i <= t.len
                                          /\ PosOk(t, t.errmarks[j].i, t.errmarks[j].l, t.errmarks[j].c))
       THEN [ok |-> FALSE, d |-> r.d, at |-> Len(t.tokens), why |-> "error mark"]
  ELSE r

Init == tid \in 1 .. Len(Traces)
Next == FALSE /\ tid' = tid
Spec == Init /\ [][Next]_tid
Verdict == LET r == Judge(Traces[tid]) IN PrintT(<<"VERDICT", tid, r.ok, r.why, r.at>>)
=============================================================================
