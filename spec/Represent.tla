------------------------------ MODULE Represent ------------------------------
(***************************************************************************)
(* C02 / C16 at the value level: Python value -> (Representer) node graph  *)
(* -> (Serializer) event stream -> [emitter, scanner, parser: the contract *)
(* of C05, see ViewTag] -> (Composer) node graph -> (Constructor) value.    *)
(*                                                                         *)
(* A state is one abstract Python value of the safe universe together with *)
(* the dump options that matter at this level.  The value is a heap of     *)
(* identity-bearing objects (list, dict, set, date, datetime) whose        *)
(* children are references (any sharing / self-reference pattern) or       *)
(* inline scalars (None, bool, int, float, str, bytes classes).  It is     *)
(* built one edge per step; the order of the steps is the insertion order  *)
(* of a dict and the iteration order of a set, so every permutation of     *)
(* insertion / iteration order is a state of its own.                      *)
(*                                                                         *)
(*   L : representer.py (represent_data with the id-keyed                  *)
(*       represented_objects, alias_key, ignore_aliases, object_keeper;    *)
(*       represent_sequence / represent_mapping with sort_keys, the        *)
(*       TypeError fallback and best_style), serializer.py (anchor_node    *)
(*       numbering in order of the SECOND visit, serialized_nodes,         *)
(*       implicit flags through the resolver), composer.py (anchors ->     *)
(*       node identity) and constructor.py (node -> object cache,          *)
(*       recursion guard, two-phase generator construction, FIFO           *)
(*       state_generators, set / timestamp / binary constructors).         *)
(*   H : H_RoundTrip!GraphIso (C02) and the determinism statements of C16  *)
(*       written as quantifications over all re-orderings of the value.    *)
(*                                                                         *)
(* Every state carries lres: the event stream L produces for it, so that   *)
(* the harness can replay the state through the real classes and compare   *)
(* (spec -> code), and the verdicts of the H statements on what L does.    *)
(***************************************************************************)
EXTENDS Naturals, Sequences, FiniteSets, TLC

CONSTANTS MaxObjs,      \* identity-bearing objects
          MaxKids,      \* items per list / entries per dict / members per set
          ValScalars,   \* inline scalar classes usable as values
          KeyScalars,   \* inline scalar classes usable as dict keys / set members
          CellTypes,    \* subset of {"list","dict","set","date","dtn","dta","dts"}
          DateRanks,    \* ranks (abstract values) of date / datetime objects (for datetimes: of the local time)
          TzShapes,     \* UTC offsets of aware datetimes: subset of {"utc","p00","pH0","p0M","pHM","nH0","n0M","nHM"}
                        \* (timezone.utc, +00:00, sign x {zero, non-zero} hours x {zero, non-zero} minutes)
          SortOpts,     \* subset of BOOLEAN            : sort_keys
          FlowOpts,     \* subset of {"T","F","N"}      : default_flow_style True / False / None
          StyleOpts,    \* subset of {"", "q"}          : default_style None / one of ' " | >
          D7Fixed       \* BOOLEAN: represent_datetime normalises a UTC offset that has seconds (fix proposal D7)

VARIABLES heap, root, stack, opts, lres, last
vars == <<heap, root, stack, opts, lres, last>>

RT == INSTANCE H_RoundTrip

(***************************************************************************)
(* The universe                                                            *)
(***************************************************************************)
IntClasses   == {"int_neg", "int_pos", "int_big"}
FloatClasses == {"fninf", "fnegzero", "float_frac", "float_pos", "fexp", "finf", "fnan"}
StrClasses   == {"s_empty", "s_float", "s_int", "s_ts", "s_merge", "s_value", "s_bool", "s_word", "s_null", "s_multi"}
BytesClasses == {"b_lo", "b_hi"}
AllScalars   == {"none", "true", "false"} \cup IntClasses \cup FloatClasses \cup StrClasses \cup BytesClasses
Containers   == {"list", "dict", "set"}
DateTypes    == {"date", "dtn", "dta", "dts"}     \* date, naive datetime, aware datetime, aware with seconds in the offset

ASSUME ValScalars \subseteq AllScalars /\ KeyScalars \subseteq AllScalars \ {"fnan"}
ASSUME CellTypes \subseteq Containers \cup DateTypes

S(s) == [id |-> 0, s |-> s]          \* inline scalar
N(i) == [id |-> i, s |-> "-"]        \* reference to heap[i]
Cell(t, r, z) == [t |-> t, r |-> r, z |-> z, c |-> <<>>]   \* z: the UTC offset of an aware datetime, "-" otherwise

OddPos(c) == {p \in DOMAIN c : p % 2 = 1}

\* Python facts about the classes (not about PyYAML): equality and order of keys.
\* -0.0 == 0 == False, so the classes fnegzero and false collide as keys.
EqClass(s) == IF s = "fnegzero" THEN "false" ELSE s
NumRank == [fninf |-> 0, int_neg |-> 1, false |-> 2, fnegzero |-> 2, float_frac |-> 3, true |-> 4, int_pos |-> 5,
            float_pos |-> 6, fexp |-> 7, int_big |-> 8, finf |-> 9]
StrRank == [s_empty |-> 0, s_multi |-> 1, s_float |-> 2, s_int |-> 3, s_ts |-> 4, s_merge |-> 5, s_value |-> 6,
            s_bool |-> 7, s_word |-> 8, s_null |-> 9]
BytesRank == [b_lo |-> 0, b_hi |-> 1]
TzClass(t) == IF t = "dts" THEN "dta" ELSE t       \* both are aware datetimes; they compare by instant

\* the kind of thing a key is, as far as `<` is concerned: `<` between different kinds raises TypeError
KeyGroup(h, v) ==
  IF v.id # 0 THEN TzClass(h[v.id].t)
  ELSE IF v.s = "none" THEN "NoneType"
  ELSE IF v.s \in DOMAIN NumRank THEN "num"
  ELSE IF v.s \in StrClasses THEN "str"
  ELSE IF v.s \in BytesClasses THEN "bytes"
  ELSE "nan"
KeyRank(h, v) ==
  IF v.id # 0 THEN h[v.id].r
  ELSE IF v.s \in DOMAIN NumRank THEN NumRank[v.s]
  ELSE IF v.s \in StrClasses THEN StrRank[v.s]
  ELSE IF v.s \in BytesClasses THEN BytesRank[v.s]
  ELSE 0
KeyId(h, v) == IF v.id # 0 THEN <<TzClass(h[v.id].t), h[v.id].r>> ELSE <<"s", EqClass(v.s)>>
Hashable(h, v) == v.id = 0 \/ h[v.id].t \in DateTypes
KeysOf(cell) == IF cell.t = "dict" THEN {cell.c[p] : p \in OddPos(cell.c)}
                ELSE IF cell.t = "set" THEN {cell.c[p] : p \in DOMAIN cell.c} ELSE {}

(***************************************************************************)
(* L.1  Representer (representer.py)                                       *)
(***************************************************************************)
NoOff == [s |-> "none", h |-> 0, m |-> 0]
NoText == [f |-> "-", of |-> "-", r |-> 0, z |-> NoOff]
\* what the SafeRepresenter.represent_* method writes for a scalar: a form and the value it encodes
ScalarForm(s) == CASE s = "none" -> "null"
                   [] s \in {"true", "false"} -> "bool"
                   [] s \in IntClasses -> "int"
                   [] s \in {"finf", "fninf"} -> "inf"
                   [] s = "fnan" -> "nan"
                   [] s \in FloatClasses -> "float"          \* repr(), with ".0" spliced in before an exponent
                   [] s \in StrClasses -> "str"
                   [] s \in BytesClasses -> "b64"
ScalarText(s) == [f |-> ScalarForm(s), of |-> s, r |-> 0, z |-> NoOff]
ScalarTag(s) == CASE s = "none" -> "null"
                  [] s \in {"true", "false"} -> "bool"
                  [] s \in IntClasses -> "int"
                  [] s \in FloatClasses -> "float"
                  [] s \in StrClasses -> "str"
                  [] s \in BytesClasses -> "binary"
\* isoformat() of the UTC offset: sign, hours (zero / non-zero), minutes (zero / non-zero); timezone.utc is +00:00
OffsetText(z) == CASE z \in {"utc", "p00"} -> [s |-> "+", h |-> 0, m |-> 0]
                   [] z = "pH0" -> [s |-> "+", h |-> 1, m |-> 0]
                   [] z = "p0M" -> [s |-> "+", h |-> 0, m |-> 1]
                   [] z = "pHM" -> [s |-> "+", h |-> 1, m |-> 1]
                   [] z = "nH0" -> [s |-> "-", h |-> 1, m |-> 0]
                   [] z = "n0M" -> [s |-> "-", h |-> 0, m |-> 1]
                   [] z = "nHM" -> [s |-> "-", h |-> 1, m |-> 1]
                   [] OTHER -> NoOff
\* represent_date / represent_datetime: isoformat(); an offset with seconds is written with its seconds - or, with
\* the repair D7, the same instant is written in UTC
DateText(cell) == [f |-> IF cell.t = "dts" /\ D7Fixed THEN "dta" ELSE cell.t, of |-> "-", r |-> cell.r,
                   z |-> IF cell.t = "dts" THEN (IF D7Fixed THEN OffsetText("utc") ELSE NoOff) ELSE OffsetText(cell.z)]

\* resolver.py: the tag a PLAIN scalar with this text resolves to (implicit = (True, False))
PlainTag(text) ==
  CASE text.f \in {"null"} -> "null"
    [] text.f = "bool" -> "bool"
    [] text.f = "int" -> "int"
    [] text.f \in {"float", "inf", "nan"} -> "float"
    [] text.f = "b64" -> "str"                      \* whatever base64 text looks like, it is not !!binary
    [] text.f \in {"date", "dtn", "dta"} -> "timestamp"
    [] text.f = "dts" -> "str"                      \* +HH:MM:SS is not a YAML timestamp
    [] text.f = "str" -> CASE text.of \in {"s_word", "s_multi"} -> "str"
                           [] text.of \in {"s_empty", "s_null"} -> "null"
                           [] text.of = "s_bool" -> "bool"
                           [] text.of = "s_int" -> "int"
                           [] text.of = "s_float" -> "float"
                           [] text.of = "s_ts" -> "timestamp"
                           [] text.of = "s_merge" -> "merge"
                           [] text.of = "s_value" -> "value"
    [] OTHER -> "?"

\* Representer state: nodes (node heap), rep (represented_objects: object id -> node id, 0 = absent),
\* keeper (object_keeper), akey (alias_key, 0 = None), last (the node just returned)
RInit(h) == [nodes |-> <<>>, rep |-> [i \in 1 .. Len(h) |-> 0], keeper |-> <<>>, akey |-> 0, last |-> 0]

\* ScalarNode(...) / SequenceNode(...) / MappingNode(...) followed by
\*   if self.alias_key is not None: self.represented_objects[self.alias_key] = node
NewNode(R, nd) ==
  LET n == Len(R.nodes) + 1 IN
  [R EXCEPT !.nodes = Append(@, nd), !.rep = IF R.akey # 0 THEN [@ EXCEPT ![R.akey] = n] ELSE @, !.last = n]

RepScalar(o, R, tag, text, style) ==
  NewNode(R, [k |-> "scalar", tag |-> tag, v |-> text, st |-> IF style = "" THEN o.dstyle ELSE style,
              fl |-> FALSE, c |-> <<>>])

PlainScalarNode(nd) == nd.k = "scalar" /\ nd.st = ""      \* isinstance(node_item, ScalarNode) and not node_item.style

\* `<` of Python on two keys: defined (no TypeError) iff same kind; None < None is a TypeError too
PyLtDefined(h, a, b) == KeyGroup(h, a) = KeyGroup(h, b) /\ KeyGroup(h, a) \notin {"NoneType", "nan"}
PyLt(h, a, b) == KeyRank(h, a) < KeyRank(h, b)

\* mapping = list(mapping.items()); if self.sort_keys: try: mapping = sorted(mapping) except TypeError: pass
\* (a comparison sort of >= 2 pairs with different keys compares keys of different kinds if there are any)
SortedPairs(h, c) ==
  LET ks == OddPos(c)
      pos(p) == Cardinality({q \in ks : PyLt(h, c[q], c[p])})
  IN  [x \in 1 .. Len(c) |-> LET p == CHOOSE p \in ks : pos(p) = (x - 1) \div 2
                             IN  IF x % 2 = 1 THEN c[p] ELSE c[p + 1]]
TrySorted(h, c) ==
  IF Len(c) <= 2 THEN c
  ELSE IF \E p, q \in OddPos(c) : p # q /\ ~PyLtDefined(h, c[p], c[q]) THEN c      \* TypeError: left as it is
  ELSE SortedPairs(h, c)
MapItems(h, o, c) == IF o.sort THEN TrySorted(h, c) ELSE c
\* represent_set: value = {}; for key in data: value[key] = None      (iteration order of the set)
SetAsDict(c) == [x \in 1 .. 2 * Len(c) |-> IF x % 2 = 1 THEN c[(x + 1) \div 2] ELSE S("none")]

RECURSIVE RepData(_, _, _, _), RepItems(_, _, _, _, _, _, _)

\* represent_sequence / represent_mapping: the node is registered BEFORE the children are represented
RepCollection(h, o, R, kind, tag, items) ==
  LET n  == Len(R.nodes) + 1
      R1 == NewNode(R, [k |-> kind, tag |-> tag, v |-> NoText, st |-> "", fl |-> FALSE, c |-> <<>>])
      x  == RepItems(h, o, R1, items, 1, <<>>, TRUE)
      fl == IF o.flow = "N" THEN x.best ELSE o.flow = "T"
  IN  [x.R EXCEPT !.nodes[n].c = x.acc, !.nodes[n].fl = fl, !.last = n]

RepItems(h, o, R, items, j, acc, best) ==
  IF j > Len(items) THEN [R |-> R, acc |-> acc, best |-> best]
  ELSE LET R1 == RepData(h, o, R, items[j])
       IN  RepItems(h, o, R1, items, j + 1, Append(acc, R1.last), best /\ PlainScalarNode(R1.nodes[R1.last]))

\* represent_data
RepData(h, o, R, v) ==
  IF v.id = 0                                            \* ignore_aliases(data): None, str, bytes, bool, int, float
                                                         \* (and the empty tuple, which the universe does not contain)
  THEN RepScalar(o, [R EXCEPT !.akey = 0], ScalarTag(v.s), ScalarText(v.s), IF v.s \in BytesClasses THEN "lit" ELSE "")
  ELSE LET i == v.id IN
       IF R.rep[i] # 0 THEN [R EXCEPT !.akey = i, !.last = R.rep[i]]        \* seen before: the same node again
       ELSE LET R1 == [R EXCEPT !.akey = i, !.keeper = Append(@, i)] IN
            CASE h[i].t = "list" -> RepCollection(h, o, R1, "seq", "seq", h[i].c)
              [] h[i].t = "dict" -> RepCollection(h, o, R1, "map", "map", MapItems(h, o, h[i].c))
              [] h[i].t = "set"  -> RepCollection(h, o, R1, "map", "set", MapItems(h, o, SetAsDict(h[i].c)))
              [] OTHER           -> RepScalar(o, R1, "timestamp", DateText(h[i]), "")

(***************************************************************************)
(* L.2  Serializer (serializer.py)                                         *)
(***************************************************************************)
\* A.seen: nodes in self.anchors; A.name[n]: 0 = None, k = ANCHOR_TEMPLATE % k; A.last: last_anchor_id
RECURSIVE AnchorNode(_, _, _), AnchorKids(_, _, _, _)
AnchorNode(nodes, A, n) ==
  IF n \in A.seen THEN (IF A.name[n] = 0 THEN [A EXCEPT !.last = @ + 1, !.name[n] = A.last + 1] ELSE A)
  ELSE AnchorKids(nodes, [A EXCEPT !.seen = @ \cup {n}], nodes[n].c, 1)
AnchorKids(nodes, A, c, j) == IF j > Len(c) THEN A ELSE AnchorKids(nodes, AnchorNode(nodes, A, c[j]), c, j + 1)

Ev(k, a, tag, i1, i2, v, st, fl) == [k |-> k, a |-> a, tag |-> tag, i1 |-> i1, i2 |-> i2, v |-> v, st |-> st, fl |-> fl]

RECURSIVE SerializeNode(_, _, _, _), SerializeKids(_, _, _, _, _)
SerializeNode(nodes, name, Z, n) ==
  IF n \in Z.done THEN [Z EXCEPT !.ev = Append(@, Ev("alias", name[n], "-", FALSE, FALSE, NoText, "", FALSE))]
  ELSE LET nd == nodes[n]
           Z1 == [Z EXCEPT !.done = @ \cup {n}]
       IN  IF nd.k = "scalar"
           THEN [Z1 EXCEPT !.ev = Append(@, Ev("scalar", name[n], nd.tag, nd.tag = PlainTag(nd.v), nd.tag = "str",
                                                 nd.v, nd.st, FALSE))]
           ELSE LET Z2 == [Z1 EXCEPT !.ev = Append(@, Ev(nd.k, name[n], nd.tag, nd.tag = nd.k, FALSE, NoText, "", nd.fl))]
                    Z3 == SerializeKids(nodes, name, Z2, nd.c, 1)
                IN  [Z3 EXCEPT !.ev = Append(@, Ev("end", 0, "-", FALSE, FALSE, NoText, "", FALSE))]
SerializeKids(nodes, name, Z, c, j) ==
  IF j > Len(c) THEN Z ELSE SerializeKids(nodes, name, SerializeNode(nodes, name, Z, c[j]), c, j + 1)

\* Dumper state that outlives a document: D.last (last_anchor_id).  represent() and serialize() reset the
\* per-document tables; the model keeps `last` explicit so that AnchorsOfDocumentAlone below says something.
DumpDoc(D, h, o, v) ==
  LET R  == RepData(h, o, RInit(h), v)
      A  == AnchorNode(R.nodes, [seen |-> {}, name |-> [n \in 1 .. Len(R.nodes) |-> 0], last |-> D.last], R.last)
      Z  == SerializeNode(R.nodes, A.name, [done |-> {}, ev |-> <<>>], R.last)
  IN  [ev |-> Z.ev, nodes |-> R.nodes, rep |-> R.rep, top |-> R.last, keeper |-> R.keeper,
       D |-> [last |-> 0]]                                \* self.last_anchor_id = 0
Fresh == [last |-> 0]
DumpEvents(h, o, v) == DumpDoc(Fresh, h, o, v).ev

(***************************************************************************)
(* The contract of emitter + scanner + parser (C05), as far as the value   *)
(* level needs it: events come back with the same kinds, anchors and       *)
(* scalar values; a tag comes back unless the emitter was allowed to omit  *)
(* it (emitter.py process_tag / choose_scalar_style): a scalar written     *)
(* plain may omit its tag iff implicit[0], written non-plain iff           *)
(* implicit[1]; plain is possible only when no style was requested,        *)
(* implicit[0] holds and the output is not canonical; a collection may     *)
(* omit it iff implicit; canonical output omits nothing.  An omitted tag   *)
(* is resolved by the loader: plain -> PlainTag, non-plain -> str,         *)
(* collections -> seq / map.                                               *)
(***************************************************************************)
ViewTag(e, canon, wantPlain) ==
  IF e.k = "scalar"
  THEN LET plain   == wantPlain /\ e.st = "" /\ e.i1 /\ ~canon
           omitted == ~canon /\ ((plain /\ e.i1) \/ (~plain /\ e.i2))
       IN  IF omitted THEN (IF plain THEN PlainTag(e.v) ELSE "str") ELSE e.tag
  ELSE IF ~canon /\ e.i1 THEN e.k ELSE e.tag

(***************************************************************************)
(* L.3  Composer (composer.py): anchors -> node identity                   *)
(***************************************************************************)
CInit(n) == [nodes |-> <<>>, stack |-> <<>>, anchors |-> [a \in 1 .. n |-> 0], top |-> 0, err |-> ""]
Attach(C, n) == IF C.stack = <<>> THEN [C EXCEPT !.top = n]
                ELSE [C EXCEPT !.nodes[C.stack[Len(C.stack)]].c = Append(@, n)]
RECURSIVE ComposeRun(_, _, _)
ComposeRun(evs, i, C) ==
  IF i > Len(evs) \/ C.err # "" THEN C
  ELSE LET e == evs[i] IN
    IF e.k = "alias"
    THEN IF e.a = 0 \/ C.anchors[e.a] = 0 THEN [C EXCEPT !.err = "undefined alias"]
         ELSE ComposeRun(evs, i + 1, Attach(C, C.anchors[e.a]))
    ELSE IF e.k = "end" THEN ComposeRun(evs, i + 1, [C EXCEPT !.stack = SubSeq(@, 1, Len(@) - 1)])
    ELSE IF e.a # 0 /\ C.anchors[e.a] # 0 THEN [C EXCEPT !.err = "duplicate anchor"]
    ELSE LET n  == Len(C.nodes) + 1
             nd == [k |-> e.k, tag |-> ViewTag(e, FALSE, TRUE), v |-> e.v, c |-> <<>>]
             C1 == Attach([C EXCEPT !.nodes = Append(@, nd)], n)
             C2 == IF e.a # 0 THEN [C1 EXCEPT !.anchors[e.a] = n] ELSE C1     \* registered before the children
         IN  ComposeRun(evs, i + 1, IF e.k = "scalar" THEN C2 ELSE [C2 EXCEPT !.stack = Append(@, n)])
Compose(evs) == ComposeRun(evs, 1, CInit(Len(evs)))

(***************************************************************************)
(* L.4  Constructor (constructor.py)                                       *)
(***************************************************************************)
Unset == [id |-> 0, s |-> "?unset"]
\* K.objs: the objects built (same shape as `heap`), K.cons: constructed_objects, K.rec: recursive_objects,
\* K.gens: state_generators (FIFO), K.err, K.last: value just returned
KInit(cn) == [objs |-> <<>>, cons |-> [n \in 1 .. Len(cn) |-> Unset], rec |-> {}, gens |-> <<>>, err |-> "", last |-> Unset]

\* construct_yaml_null/bool/int/float/str/binary/timestamp on the text the representer wrote
\* convert_yaml_timestamp: delta = timedelta(hours = tz_hour, minutes = tz_minute); if tz_sign == '-': delta = -delta
\* (the sign applies to the finished offset, also when the hours are zero; -00:00 and +00:00 are the same offset)
ParsedShape(o) ==
  CASE o.s = "none" -> "-"
    [] o.h = 0 /\ o.m = 0 -> "p00"
    [] o.s = "+" /\ o.h = 1 /\ o.m = 0 -> "pH0"
    [] o.s = "+" /\ o.h = 0 /\ o.m = 1 -> "p0M"
    [] o.s = "+" /\ o.h = 1 /\ o.m = 1 -> "pHM"
    [] o.s = "-" /\ o.h = 1 /\ o.m = 0 -> "nH0"
    [] o.s = "-" /\ o.h = 0 /\ o.m = 1 -> "n0M"
    [] o.s = "-" /\ o.h = 1 /\ o.m = 1 -> "nHM"
Inline(s) == [kind |-> "inline", s |-> s, t |-> "-", r |-> 0, z |-> "-"]
ScalarValue(tag, text) ==
  CASE tag = "null" -> Inline("none")
    [] tag = "bool" /\ text.f = "bool" -> Inline(text.of)
    [] tag = "int" /\ text.f = "int" -> Inline(text.of)
    [] tag = "float" /\ text.f \in {"float", "inf", "nan"} -> Inline(text.of)
    [] tag = "str" /\ text.f = "str" -> Inline(text.of)
    [] tag = "binary" /\ text.f = "b64" -> Inline(text.of)
    [] tag = "timestamp" /\ text.f \in {"date", "dtn", "dta"} ->
         [kind |-> "cell", s |-> "-", t |-> text.f, r |-> text.r, z |-> ParsedShape(text.z)]
    [] tag = "timestamp" /\ text.f = "dts" -> [kind |-> "crash", s |-> "-", t |-> "-", r |-> 0, z |-> "-"]  \* timestamp_regexp.match(...) is None
    [] OTHER -> Inline("?")      \* the tag was lost: some other value

ConstructObject(cn, K, n) ==
  IF K.err # "" THEN K
  ELSE IF K.cons[n] # Unset THEN [K EXCEPT !.last = K.cons[n]]                   \* node -> object cache: identity
  ELSE IF n \in K.rec THEN [K EXCEPT !.err = "unconstructable recursive node"]
  ELSE LET nd == cn[n] IN
    IF nd.k = "scalar"
    THEN LET x == ScalarValue(nd.tag, nd.v) IN
         IF x.kind = "crash" THEN [K EXCEPT !.err = "crash"]
         ELSE IF x.kind = "inline" THEN [K EXCEPT !.cons[n] = S(x.s), !.last = S(x.s)]
         ELSE LET j == Len(K.objs) + 1 IN [K EXCEPT !.objs = Append(@, Cell(x.t, x.r, x.z)), !.cons[n] = N(j), !.last = N(j)]
    ELSE \* data = [] / {} / set(); yield data; ... : first phase only, the generator is queued
         LET j == Len(K.objs) + 1
             t == IF nd.k = "seq" THEN "list" ELSE IF nd.tag = "set" THEN "set" ELSE "dict"
         IN  [K EXCEPT !.objs = Append(@, Cell(t, 0, "-")), !.cons[n] = N(j), !.last = N(j), !.gens = Append(@, n)]

\* mapping[key] = value on the children of a dict (flat k, v, k, v): an equal key keeps its place
DictPut(h, c, k, v) ==
  LET ps == {p \in OddPos(c) : KeyId(h, c[p]) = KeyId(h, k)} IN
  IF ps = {} THEN c \o <<k, v>> ELSE [c EXCEPT ![(CHOOSE p \in ps : TRUE) + 1] = v]
SetPut(h, c, k) == IF \E p \in DOMAIN c : KeyId(h, c[p]) = KeyId(h, k) THEN c ELSE Append(c, k)

RECURSIVE RunSeq(_, _, _, _, _), RunMap(_, _, _, _, _, _)
\* data.extend(self.construct_sequence(node))
RunSeq(cn, K, kids, j, acc) ==
  IF K.err # "" \/ j > Len(kids) THEN [K |-> K, acc |-> acc]
  ELSE LET K1 == ConstructObject(cn, K, kids[j]) IN RunSeq(cn, K1, kids, j + 1, Append(acc, K1.last))
\* value = self.construct_mapping(node); data.update(value)
RunMap(cn, K, kids, j, acc, isset) ==
  IF K.err # "" \/ j > Len(kids) THEN [K |-> K, acc |-> acc]
  ELSE LET K1 == ConstructObject(cn, K, kids[j]) IN
       IF K1.err # "" THEN [K |-> K1, acc |-> acc]
       ELSE IF ~Hashable(K1.objs, K1.last) THEN [K |-> [K1 EXCEPT !.err = "unhashable key"], acc |-> acc]
       ELSE LET K2 == ConstructObject(cn, K1, kids[j + 1]) IN
            RunMap(cn, K2, kids, j + 2,
                   IF isset THEN SetPut(K2.objs, acc, K1.last) ELSE DictPut(K2.objs, acc, K1.last, K2.last), isset)

RunGenerator(cn, K, n) ==
  LET nd == cn[n]
      me == K.cons[n].id
  IN  IF nd.k = "seq" THEN LET x == RunSeq(cn, K, nd.c, 1, <<>>) IN [x.K EXCEPT !.objs[me].c = @ \o x.acc]
      ELSE LET x == RunMap(cn, K, nd.c, 1, <<>>, nd.tag = "set") IN [x.K EXCEPT !.objs[me].c = x.acc]

\* construct_document: data = construct_object(node); then the queued generators, first in first out
RECURSIVE RunAll(_, _)
RunAll(cn, K) == IF K.err # "" \/ K.gens = <<>> THEN K
                 ELSE RunAll(cn, RunGenerator(cn, [K EXCEPT !.gens = Tail(@)], Head(K.gens)))
ConstructDocument(cn, top) ==
  LET K1 == ConstructObject(cn, KInit(cn), top)
      K2 == RunAll(cn, K1)
  IN  [objs |-> K2.objs, root |-> K1.last, err |-> K2.err]

Load(evs) ==
  LET C == Compose(evs) IN
  IF C.err # "" THEN [objs |-> <<>>, root |-> Unset, err |-> C.err]
  ELSE ConstructDocument(C.nodes, C.top)

(***************************************************************************)
(* Projection of a model value to the observable heaps of H_RoundTrip      *)
(***************************************************************************)
PyType(s) == CASE s = "none" -> "NoneType" [] s \in {"true", "false"} -> "bool" [] s \in IntClasses -> "int"
               [] s \in FloatClasses -> "float" [] s \in StrClasses -> "str" [] s \in BytesClasses -> "bytes" [] OTHER -> "?"
TypeLabel(t) == CASE t = "dtn" -> "datetime" [] t \in {"dta", "dts"} -> "datetime-aware" [] OTHER -> t
RankStr == <<"0", "1", "2", "3", "4", "5">>
GenV(v) == IF v.id = 0 THEN [id |-> 0, t |-> PyType(v.s), d |-> v.s] ELSE [id |-> v.id, t |-> "", d |-> ""]
\* the value of an aware datetime is its instant: here the local time (rank) together with the offset; timezone.utc and
\* +00:00 are the same offset; a dts object (offset with seconds) is identified by its UTC time
ZNorm(cell) == IF cell.t = "dts" \/ cell.z = "utc" THEN "p00" ELSE cell.z
Gen(h) == [i \in DOMAIN h |-> [t |-> TypeLabel(h[i].t), d |-> <<RankStr[h[i].r + 1], ZNorm(h[i])>>,
                               c |-> [j \in DOMAIN h[i].c |-> GenV(h[i].c[j])]]]

(***************************************************************************)
(* H: the statements of C02 and C16 about one value h, v dumped with       *)
(* options o (d = what L dumps for it, ld = what L loads from that)        *)
(***************************************************************************)
\* C02.  The value read back is isomorphic to the value dumped: type-strict, sharing and cycles kept, key order
\* kept when sort_keys is off; the document is not rejected.  "-" = holds, otherwise the reason.
RoundTripP(h, o, v, ld) ==
  IF ld.err # "" THEN ld.err ELSE RT!Judge(Gen(h), GenV(v), Gen(ld.objs), GenV(ld.root), ~o.sort)

\* the tag of every node survives whatever style the emitter picks
TagsSurviveP(evs) == \A x \in DOMAIN evs : evs[x].k \in {"scalar", "seq", "map"} =>
                       \A canon \in BOOLEAN, wantPlain \in BOOLEAN : ViewTag(evs[x], canon, wantPlain) = evs[x].tag

\* anchors: every alias follows its anchor, no anchor is defined twice (what C13 demands of a document), and
\* nothing is anchored that is not referred to
AnchorDefs(evs) == {x \in DOMAIN evs : evs[x].k # "alias" /\ evs[x].k # "end" /\ evs[x].a # 0}
AnchorsWellFormedP(evs) ==
  LET defs == AnchorDefs(evs) IN
  /\ \A x, y \in defs : x # y => evs[x].a # evs[y].a
  /\ \A x \in DOMAIN evs : evs[x].k = "alias" => \E y \in defs : y < x /\ evs[y].a = evs[x].a
  /\ \A y \in defs : \E x \in DOMAIN evs : evs[x].k = "alias" /\ evs[x].a = evs[y].a
\* only objects with observable identity are ever aliased (the ignore_aliases rule) ...
OnlyObjectsAliasedP(evs) == \A x \in AnchorDefs(evs) : evs[x].k # "scalar" \/ evs[x].tag = "timestamp"
\* ... and object_keeper holds every one of them while the document is written (ids are not reused)
KeeperHoldsAllP(h, d) == {d.keeper[x] : x \in DOMAIN d.keeper} = DOMAIN h

\* C16 ---------------------------------------------------------------------------------------------------------
\* "mutually comparable keys": every two keys of the mapping / set are ordered by Python's <
Comparable(h, cell) == \A a, b \in KeysOf(cell) : a = b \/ PyLtDefined(h, a, b)
SortApplies(h, o) == o.sort /\ \A i \in DOMAIN h : Comparable(h, h[i])

Perms(n) == {f \in [1 .. n -> 1 .. n] : \A a, b \in 1 .. n : a # b => f[a] # f[b]}
Reorder(cell, f) ==
  IF cell.t = "dict" THEN [cell EXCEPT !.c = [x \in 1 .. Len(cell.c) |-> cell.c[2 * f[(x + 1) \div 2] - (x % 2)]]]
  ELSE [cell EXCEPT !.c = [x \in 1 .. Len(cell.c) |-> cell.c[f[x]]]]
NEntries(cell) == IF cell.t = "dict" THEN Len(cell.c) \div 2 ELSE Len(cell.c)
\* all values with the same contents: entries of the cells of the given types in any order
RECURSIVE ReordersFrom(_, _, _)
ReordersFrom(h, i, types) ==
  IF i > Len(h) THEN {h}
  ELSE IF h[i].t \notin types \/ NEntries(h[i]) < 2 THEN ReordersFrom(h, i + 1, types)
  ELSE UNION {ReordersFrom([h EXCEPT ![i] = Reorder(h[i], f)], i + 1, types) : f \in Perms(NEntries(h[i]))}

\* with sort_keys on and comparable keys the events depend only on the contents: not on insertion order (dict)
\* nor on iteration order (set)
SortDeterminismP(h, o, v, evs) ==
  SortApplies(h, o) => \A h2 \in ReordersFrom(h, 1, {"dict", "set"}) : DumpEvents(h2, o, v) = evs

\* with sort_keys off the keys of the mapping written for a dict are its keys in insertion order
\* (the refinement mapping from objects to nodes is represented_objects)
KeyLabelOfNode(nd) == <<nd.tag, nd.v>>
KeyLabelOfValue(h, v) == IF v.id = 0 THEN <<ScalarTag(v.s), ScalarText(v.s)>> ELSE <<"timestamp", DateText(h[v.id])>>
InsertionOrderP(h, o, d) ==
  ~o.sort => \A i \in DOMAIN h : h[i].t = "dict" =>
      LET nd == d.nodes[d.rep[i]] IN
      /\ Len(nd.c) = Len(h[i].c)
      /\ \A p \in OddPos(h[i].c) : KeyLabelOfNode(d.nodes[nd.c[p]]) = KeyLabelOfValue(h, h[i].c[p])

\* dump(load(dump(x))) = dump(x): whatever order the re-loaded sets iterate in; applied unless a set of two or
\* more members is written unsorted (the order of such a set is not a function of its contents)
SetsSorted(h, o) == \A i \in DOMAIN h : h[i].t = "set" /\ Len(h[i].c) >= 2 => o.sort /\ Comparable(h, h[i])
FixedPointP(h, o, evs, ld) ==
  (SetsSorted(h, o) /\ ld.err = "") => \A h3 \in ReordersFrom(ld.objs, 1, {"set"}) : DumpEvents(h3, o, ld.root) = evs

\* anchor names are a function of the document alone: the same value dumped as the second document of a
\* stream gets the same events (names included) as when it is dumped alone
AnchorsOfDocumentAloneP(h, o, v, d) == DumpDoc(d.D, h, o, v).ev = d.ev

\* everything about one state, computed once: the events L writes (for the replay) and the verdicts of H on L
RunL(h, o, v) ==
  LET d  == DumpDoc(Fresh, h, o, v)
      ld == Load(d.ev)
  IN  [ev       |-> d.ev,
       rt       |-> RoundTripP(h, o, v, ld),
       tags     |-> TagsSurviveP(d.ev),
       anchors  |-> AnchorsWellFormedP(d.ev),
       aliased  |-> OnlyObjectsAliasedP(d.ev),
       keeper   |-> KeeperHoldsAllP(h, d),
       sortdet  |-> SortDeterminismP(h, o, v, d.ev),
       insorder |-> InsertionOrderP(h, o, d),
       fixpoint |-> FixedPointP(h, o, d.ev, ld),
       docalone |-> AnchorsOfDocumentAloneP(h, o, v, d)]

(***************************************************************************)
(* The value builder.  A value is built in depth-first order, one edge per *)
(* step: `stack` is the path of containers from the root to the container  *)
(* entered last; a step adds one child (list), entry (dict) or member      *)
(* (set) to a container on that path - containers below it are thereby     *)
(* finished - and the child is an inline scalar, a reference to ANY        *)
(* existing object (finished: sharing; on the path: a cycle) or a new      *)
(* object.  Objects are therefore numbered in order of first visit, every  *)
(* value has exactly one construction, and every state is a complete       *)
(* value.  The order of the steps is the insertion order of a dict and the *)
(* iteration order of a set.  `last` names the step (for the coverage      *)
(* count of the harness).                                                  *)
(***************************************************************************)
NewCells == {Cell(t, 0, "-") : t \in CellTypes \cap Containers}
            \cup {Cell(t, r, "-") : t \in CellTypes \cap (DateTypes \ {"dta"}), r \in DateRanks}
            \cup {Cell("dta", r, z) : r \in (IF "dta" \in CellTypes THEN DateRanks ELSE {}), z \in TzShapes}
\* what a new child can be: an inline scalar, an existing object, a new object
Choices(h, scalars, hashable) ==
  {[h |-> h, v |-> S(s), new |-> FALSE] : s \in scalars}
  \cup {[h |-> h, v |-> N(j), new |-> FALSE] : j \in {x \in 1 .. Len(h) : ~hashable \/ h[x].t \in DateTypes}}
  \cup (IF Len(h) < MaxObjs
        THEN {[h |-> Append(h, nc), v |-> N(Len(h) + 1), new |-> nc.t \in Containers] :
                 nc \in {x \in NewCells : ~hashable \/ x.t \in DateTypes}}
        ELSE {})

Opts == [sort : SortOpts, flow : FlowOpts, dstyle : StyleOpts]

Init == /\ opts \in Opts
        /\ \/ heap = <<>> /\ root \in {S(s) : s \in ValScalars} /\ stack = <<>>
           \/ \E nc \in NewCells : heap = <<nc>> /\ root = N(1) /\ stack = IF nc.t \in Containers THEN <<1>> ELSE <<>>
        /\ lres = RunL(heap, opts, root)
        /\ last = "init"

Finish(p, ch, what) == /\ stack' = IF ch.new THEN Append(SubSeq(stack, 1, p), ch.v.id) ELSE SubSeq(stack, 1, p)
                       /\ UNCHANGED <<root, opts>>
                       /\ lres' = RunL(heap', opts, root)
                       /\ last' = what

AddItem(p) == LET i == stack[p] IN
              /\ heap[i].t = "list" /\ Len(heap[i].c) < MaxKids
              /\ \E ch \in Choices(heap, ValScalars, FALSE) :
                   heap' = [ch.h EXCEPT ![i].c = Append(@, ch.v)] /\ Finish(p, ch, "item")
AddEntry(p) == LET i == stack[p] IN
               /\ heap[i].t = "dict" /\ Len(heap[i].c) < 2 * MaxKids
               /\ \E kc \in Choices(heap, KeyScalars, TRUE) :
                    /\ KeyId(kc.h, kc.v) \notin {KeyId(heap, k) : k \in KeysOf(heap[i])}
                    /\ \E vc \in Choices(kc.h, ValScalars, FALSE) :
                         heap' = [vc.h EXCEPT ![i].c = @ \o <<kc.v, vc.v>>] /\ Finish(p, vc, "entry")
AddMember(p) == LET i == stack[p] IN
                /\ heap[i].t = "set" /\ Len(heap[i].c) < MaxKids
                /\ \E kc \in Choices(heap, KeyScalars, TRUE) :
                     /\ KeyId(kc.h, kc.v) \notin {KeyId(heap, k) : k \in KeysOf(heap[i])}
                     /\ heap' = [kc.h EXCEPT ![i].c = Append(@, kc.v)] /\ Finish(p, kc, "member")

Next == \E p \in DOMAIN stack : AddItem(p) \/ AddEntry(p) \/ AddMember(p)

Spec == Init /\ [][Next]_vars

(***************************************************************************)
(* L => H, as invariants                                                   *)
(***************************************************************************)
HasSecOffset == \E i \in DOMAIN heap : heap[i].t = "dts"
\* C02 - except for the design defect the model exhibits: a datetime whose UTC offset has seconds is written in
\* a form the timestamp constructor does not read (D7); there L predicts the crash
RoundTrip == IF HasSecOffset /\ ~D7Fixed THEN lres.rt = "crash" ELSE lres.rt = "-"
TagsSurvive == lres.tags
AnchorsWellFormed == lres.anchors
OnlyObjectsAliased == lres.aliased
KeeperHoldsAll == lres.keeper
\* C16
SortDeterminism == lres.sortdet
InsertionOrder == lres.insorder
FixedPoint == lres.fixpoint
AnchorsOfDocumentAlone == lres.docalone
=============================================================================
