SPECIFICATION Spec
INVARIANT Verdict
