---------------------------- MODULE Trace_Calls ----------------------------
(***************************************************************************)
(* Judgement of observations of the real API (property C11) with the H     *)
(* operators of H_CallIndep.  One TLC run judges a batch of traces.        *)
(*                                                                         *)
(* trace kinds                                                             *)
(*  "hist"    one history run in ONE interpreter:                          *)
(*            g0     digest of all module/class-level state before         *)
(*            steps  << [res, fresh, g] >> : projected result of the step, *)
(*                   result of the same step in a fresh interpreter,       *)
(*                   digest of the global state after the step             *)
(*  "stream"  one multi-document argument:                                 *)
(*            whole  [units, end] what the stream gives                    *)
(*            parts  << [units, end] >> what each document gives alone     *)
(***************************************************************************)
EXTENDS Naturals, Sequences, TLC, Json, IOUtils
H == INSTANCE H_CallIndep

Traces == JsonDeserialize(IOEnv.TRACE_FILE)
VARIABLE tid

RECURSIVE JudgeHist(_, _)
JudgeHist(t, i) ==
  IF i > Len(t.steps) THEN [ok |-> TRUE, why |-> "-", at |-> 0]
  ELSE LET s == t.steps[i] IN
       IF ~H!SameAsFresh(s.res, s.fresh) THEN [ok |-> FALSE, why |-> "result differs from fresh", at |-> i]
       ELSE IF ~H!GlobalsUnchanged(s.g, t.g0) THEN [ok |-> FALSE, why |-> "globals changed", at |-> i]
       ELSE JudgeHist(t, i + 1)

JudgeStream(t) ==
  IF H!StreamRule(t.whole, t.parts) THEN [ok |-> TRUE, why |-> "-", at |-> 0]
  ELSE [ok |-> FALSE, why |-> "stream differs from documents alone",
        at |-> LET e == H!StreamExpect(t.parts)
                   n == IF Len(e.units) < Len(t.whole.units) THEN Len(e.units) ELSE Len(t.whole.units)
               IN  IF \E j \in 1 .. n : e.units[j] # t.whole.units[j]
                   THEN CHOOSE j \in 1 .. n : e.units[j] # t.whole.units[j] /\ \A k \in 1 .. j - 1 : e.units[k] = t.whole.units[k]
                   ELSE n + 1]

Judge(t) == IF t.kind = "hist" THEN JudgeHist(t, 1) ELSE JudgeStream(t)

Init == tid \in 1 .. Len(Traces)
Next == FALSE /\ tid' = tid
Spec == Init /\ [][Next]_tid
Verdict == LET r == Judge(Traces[tid]) IN PrintT(<<"VERDICT", tid, r.ok, r.why, r.at>>)
=============================================================================
