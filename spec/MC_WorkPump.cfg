SPECIFICATION PSpec
CONSTANTS
  Block = 4
  MaxKey = 4
  MaxFlow = 2
  MaxCol = 2
  MaxRun = 3
  MaxLen = 0
  Stream = TRUE
  Exact = FALSE
  Variant = "code"
  Sym = {"w", "s", "n", "h", "[", "]", ",", ":", "-", "q", "a", "d"}
INVARIANT QueueBound
INVARIANT KeysBound
INVARIANT BufferBound
INVARIANT LookBound
INVARIANT IndentBound
INVARIANT StepCost
INVARIANT Progress
INVARIANT LinearPerMech
INVARIANT LinearWork
