-------------------------- MODULE H_DocBoundaries --------------------------
(***************************************************************************)
(* H for C12, from the property statement.                                 *)
(*                                                                         *)
(* A document is a sequence of events (H_EventEq records) from its         *)
(* DocumentStart to its DocumentEnd.  For a list of n documents written by *)
(* one of emit / serialize_all / dump_all and read back:                   *)
(*   (1) exactly n documents come back,                                    *)
(*   (2) document j that comes back equals document j that went in         *)
(*       (equality of H_EventEq: structure, anchors, values, tags modulo   *)
(*       legitimate elision, directives),                                  *)
(*   (3) the text present once document j has been written is the same     *)
(*       whatever follows it: for two runs whose first j documents are the *)
(*       same, the texts observed after document j are identical, and each *)
(*       is a prefix of the final text of its run.                         *)
(***************************************************************************)
EXTENDS Naturals, Sequences, FiniteSets
H == INSTANCE H_EventEq

\* split an event stream into its documents (sequences of events DocumentStart .. DocumentEnd)
RECURSIVE Split(_, _, _, _)
Split(evs, j, cur, acc) ==
  IF j > Len(evs) THEN acc
  ELSE LET e == evs[j]
       IN  IF e.k = "DocumentStart" THEN Split(evs, j + 1, <<e>>, acc)
           ELSE IF e.k = "DocumentEnd" THEN Split(evs, j + 1, <<>>, Append(acc, Append(cur, e)))
           ELSE IF cur # <<>> THEN Split(evs, j + 1, Append(cur, e), acc)
           ELSE Split(evs, j + 1, cur, acc)
Docs(evs) == Split(evs, 1, <<>>, <<>>)

\* (1) and (2): -> [ok, why, at]  (at = number of the first document that differs)
RECURSIVE FirstBadDoc(_, _, _)
FirstBadDoc(din, dout, j) ==
  IF j > Len(din) THEN [ok |-> TRUE, why |-> "-", at |-> 0]
  ELSE LET r == H!FirstBad(din[j], dout[j], 1)
       IN  IF r.at # 0 THEN [ok |-> FALSE, why |-> r.why, at |-> j] ELSE FirstBadDoc(din, dout, j + 1)
SameDocuments(din, dout) ==
  IF Len(din) # Len(dout) THEN [ok |-> FALSE, why |-> "document count", at |-> 0]
  ELSE FirstBadDoc(din, dout, 1)

IsPrefix(a, b) == Len(a) <= Len(b) /\ SubSeq(b, 1, Len(a)) = a
\* (3) for one pair of runs that share their first j documents: texts after document j
PrefixIndependent(snapA, snapB, finalA, finalB) == snapA = snapB /\ IsPrefix(snapA, finalA) /\ IsPrefix(snapB, finalB)

\* the libyaml defect D6 as a shape: the documents that came back are the input documents without some documents whose
\* root is an empty scalar without anchor (for which an emitter may write nothing at all)
EmptyRootDoc(d) == Len(d) = 3 /\ LET e == H!Norm(d[2]) IN e.k = "Scalar" /\ e.v = <<>> /\ e.a = <<>>
\* "u" when some empty-root document of the input carries no tag at all, "t" when all of them carry a (possibly elidable) tag
EmptyRootKind(din) == IF \E j \in DOMAIN din : EmptyRootDoc(din[j]) /\ H!Norm(din[j][2]).t = <<>> THEN "u" ELSE "t"
\* onlyTagged: only empty-root documents that carry a tag may be dropped
RECURSIVE LostEmptyDocsK(_, _, _, _)
LostEmptyDocsK(din, dout, n, onlyTagged) ==
  IF din = <<>> THEN dout = <<>> /\ n > 0
  ELSE \/ dout # <<>> /\ H!FirstBad(Head(din), Head(dout), 1).at = 0 /\ LostEmptyDocsK(Tail(din), Tail(dout), n, onlyTagged)
       \/ EmptyRootDoc(Head(din)) /\ (onlyTagged => H!Norm(Head(din)[2]).t # <<>>) /\ LostEmptyDocsK(Tail(din), dout, n + 1, onlyTagged)
\* long lists: the same question answered in one pass (a document that can be matched is matched; complete when the documents that
\* may be dropped are exactly the empty-root ones - for onlyTagged the pass may answer FALSE where the search finds a way, which only
\* changes the name "t" / "u" given to the loss)
RECURSIVE LostEmptyDocsPass(_, _, _, _, _, _)
LostEmptyDocsPass(din, dout, i, o, n, onlyTagged) ==
  IF i > Len(din) THEN o > Len(dout) /\ n > 0
  ELSE IF o <= Len(dout) /\ H!FirstBad(din[i], dout[o], 1).at = 0 THEN LostEmptyDocsPass(din, dout, i + 1, o + 1, n, onlyTagged)
  ELSE IF EmptyRootDoc(din[i]) /\ (onlyTagged => H!Norm(din[i][2]).t # <<>>) THEN LostEmptyDocsPass(din, dout, i + 1, o, n + 1, onlyTagged)
  ELSE FALSE
LostEmptyDocsAny(din, dout, n, onlyTagged) ==
  IF Len(din) <= 8 THEN LostEmptyDocsK(din, dout, n, onlyTagged) ELSE LostEmptyDocsPass(din, dout, 1, 1, n, onlyTagged)
LostEmptyDocs(din, dout, n) == LostEmptyDocsAny(din, dout, n, FALSE)
\* "t" when the loss is explained by tagged empty roots alone, else "u"
LostKind(din, dout) == IF LostEmptyDocsAny(din, dout, 0, TRUE) THEN "t" ELSE "u"
=============================================================================
