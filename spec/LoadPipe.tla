------------------------------ MODULE LoadPipe ------------------------------
(***************************************************************************)
(* Scanner.tla composed with Parser.tla: characters -> tokens -> events.   *)
(* The scanner runs in enumeration mode (one step per input), then its     *)
(* delivered tokens are fed one by one to the push-down parser of          *)
(* Parser.tla (action Feed replaces the environment's Peek).               *)
(*                                                                         *)
(* Use 1 (C06): the domain of "the portable YAML 1.1 subset" is defined by *)
(* the specification: an input is in it iff this composition accepts it   *)
(* (verdict "accept") and Portable holds.  Inputs are either enumerated    *)
(* (all strings over Alphabet, as in Scanner.tla) or read from the JSON    *)
(* file named by the environment variable TRACE_FILE (FromFile = TRUE: a   *)
(* sequence of symbol sequences - real documents mapped to the abstract    *)
(* alphabet by the harness).                                               *)
(* Use 2 (C03): H_YamlErrorOnly / termination of scanning + parsing: the   *)
(* parser never reaches "crash" on a token stream the scanner produces.    *)
(*                                                                         *)
(* Token kinds of Parser.tla: a %TAG directive / tag with a named handle   *)
(* is DT1 / TAGH1 (all named handles are one handle, as in Parser.tla); a  *)
(* single %TAG for ! or !! in a document is DT1 too; reserved directives   *)
(* and several %TAG directives with a default handle have no kind in       *)
(* Parser.tla: "UNSUP", which no document of the domain contains.          *)
(***************************************************************************)
EXTENDS Scanner, Json, IOUtils

CONSTANT FromFile
VARIABLES st, states, marks, n, pk, blk, ind, pa, pt, ps, pe, ptm, tagok, tokend, dsm, ver, handles, ev, perr, pmon,
          lastStart, ptoks, pout, tid, cls
pvars == <<st, states, marks, n, pk, blk, ind, pa, pt, ps, pe, ptm, tagok, tokend, dsm, ver, handles, ev, perr, pmon,
           lastStart, ptoks, pout>>
P == INSTANCE Parser WITH MaxTokens <- 0, Tok <- {}, History <- FALSE, err <- perr, mon <- pmon, toks <- ptoks, out <- pout

Inputs == IF FromFile THEN JsonDeserialize(IOEnv.TRACE_FILE) ELSE <<>>

\* the number written in a %YAML directive is 1 (the parser accepts major version 1 only)
IsOne(a) == a # <<>> /\ inp[a[Len(a)]] = "1" /\ \A j \in 1 .. Len(a) - 1 : inp[a[j]] = "0"
\* the directives of one document form a block of consecutive DIRECTIVE tokens
RECURSIVE DirFrom(_), DirTo(_)
IsDir(j) == j \in DOMAIN out /\ out[j].k = "Directive"
DirFrom(j) == IF IsDir(j - 1) THEN DirFrom(j - 1) ELSE j
DirTo(j) == IF IsDir(j + 1) THEN DirTo(j + 1) ELSE j
TagDirsAround(j) == {i \in DirFrom(j) .. DirTo(j) : out[i].x = "TAG"}
Kind(j) == LET t == out[j] IN
  CASE t.k = "StreamStart" -> "SS" [] t.k = "StreamEnd" -> "SE"
    [] t.k = "DocumentStart" -> "DS" [] t.k = "DocumentEnd" -> "DE"
    [] t.k = "BlockSequenceStart" -> "BSS" [] t.k = "BlockMappingStart" -> "BMS" [] t.k = "BlockEnd" -> "BEND"
    [] t.k = "FlowSequenceStart" -> "FSS" [] t.k = "FlowMappingStart" -> "FMS"
    [] t.k = "FlowSequenceEnd" -> "FSE" [] t.k = "FlowMappingEnd" -> "FME"
    [] t.k = "BlockEntry" -> "BENTRY" [] t.k = "FlowEntry" -> "FENTRY" [] t.k = "Key" -> "KEY" [] t.k = "Value" -> "VALUE"
    [] t.k = "Alias" -> "ALIAS" [] t.k = "Anchor" -> "ANCHOR" [] t.k = "Scalar" -> "SCALAR"
    [] t.k = "Tag" -> IF t.x = "handle" /\ Len(t.a) > 2 THEN "TAGH1" ELSE "TAG"
    [] t.k = "Directive" ->
         IF t.x = "YAML" THEN (IF IsOne(t.a) THEN "DY1" ELSE "DY2")
         \* a %TAG directive is Parser.tla's DT1 when it names a handle, and also when it redefines ! or !! and is the only
         \* %TAG directive of its document (then no duplicate is possible and ! / !! are defined anyway)
         ELSE IF t.x = "TAG" /\ (Len(t.a) > 2 \/ Cardinality(TagDirsAround(j)) = 1) THEN "DT1" ELSE "UNSUP"

\* the scanner hands the next delivered token to the parser
Feed == /\ pc = "end" /\ res = "ok" /\ pk = "none" /\ st \notin {"done", "error", "crash"} /\ n < Len(out)
        /\ pk' = Kind(n + 1) /\ ev' = P!NoEv
        /\ UNCHANGED <<st, states, marks, n, blk, ind, pa, pt, ps, pe, ptm, tagok, tokend, dsm, ver, handles, perr, pmon,
                       lastStart, ptoks, pout, tid, cls>>
        /\ UNCHANGED vars

ParserStep ==
  /\ \/ P!AStreamStart \/ P!AImplicitDocumentStart \/ P!ADocumentStart \/ P!ADirectives \/ P!ADocumentEnd \/ P!ADocumentContent
     \/ P!AParseNode \/ P!AParseNodeA \/ P!AParseNodeT \/ P!AParseNodeC
     \/ P!ABlockSequenceFirstEntry \/ P!ABlockSequenceEntry \/ P!ABlockSequenceEntry2
     \/ P!AIndentlessSequenceEntry \/ P!AIndentlessSequenceEntry2
     \/ P!ABlockMappingFirstKey \/ P!ABlockMappingKey \/ P!ABlockMappingKey2 \/ P!ABlockMappingValue \/ P!ABlockMappingValue2
     \/ P!AFlowSequenceFirstEntry \/ P!AFlowSequenceEntryFirst \/ P!AFlowSequenceEntry \/ P!AFlowSequenceEntryB
     \/ P!AFlowSequenceEntryMappingKey \/ P!AFlowSequenceEntryMappingKey2 \/ P!AFlowSequenceEntryMappingValue
     \/ P!AFlowSequenceEntryMappingValue2 \/ P!AFlowSequenceEntryMappingEnd
     \/ P!AFlowMappingFirstKey \/ P!AFlowMappingKeyFirst \/ P!AFlowMappingKey \/ P!AFlowMappingKeyB \/ P!AFlowMappingKey2
     \/ P!AFlowMappingValue \/ P!AFlowMappingValue2 \/ P!AFlowMappingEmptyValue
  /\ pc = "end" /\ res = "ok"
  /\ UNCHANGED vars /\ UNCHANGED <<tid, cls>>

ScannerStep == (Extend \/ Run) /\ UNCHANGED pvars /\ UNCHANGED <<tid, cls>>

LInit == /\ IF FromFile THEN focus = "file" /\ tid \in 1 .. Len(Inputs) /\ inp = Inputs[tid]
                        ELSE focus \in Focuses /\ tid = 0 /\ inp = Prefix
         /\ pc = "grow" /\ rd = [p |-> 0, i |-> 0, l |-> 0, c |-> 0, wk |-> 0]
         /\ done = FALSE /\ flow = 0 /\ taken = 0 /\ indent = -1 /\ indents = <<>> /\ ask = TRUE /\ keys = <<>>
         /\ toks = <<MkTok("StreamStart", [i |-> 0, l |-> 0, c |-> 0], [i |-> 0, l |-> 0, c |-> 0], <<>>, <<>>, "")>>
         /\ out = <<>> /\ res = "run" /\ err = NoErr /\ mon = TG!TGInit /\ path = <<>>
         /\ P!Init /\ cls = <<>>
(***************************************************************************)
(* the portable subset, as far as it is a property of the characters and   *)
(* of the tags: no TAB, no non-printable character, U+FEFF only as the     *)
(* very first character, no escape that denotes a surrogate code point     *)
(* (D8: a lone surrogate is not a Unicode character, so such a document is *)
(* not YAML 1.1 at all), shorthand tags made of conventional characters    *)
(* (letters, digits, - _ . / : and %-escapes).                             *)
(***************************************************************************)
ConvTagCh == Alnum \cup {"-", "_", ".", "/", ":", "%", "P1", "P2a", "P2b"}
ItemsConv(v) == \A j \in DOMAIN v : v[j] > 20000 \/ (v[j] > 0 /\ v[j] < 10000 /\ inp[v[j]] \in ConvTagCh)
Portable ==
  /\ \A j \in 1 .. Len(inp) : inp[j] \notin {"tab", "np", "U4s", "U8s", "U8big", "U8huge", "DBIG"}
  /\ \A j \in 2 .. Len(inp) : inp[j] # "bom"
  /\ \A j \in DOMAIN out : (out[j].k = "Tag" /\ out[j].x = "handle") => ItemsConv(out[j].b)

Terminal == pc = "end" /\ (res # "ok" \/ st \in {"done", "error", "crash"})
VerdictOf == IF res # "ok" THEN "reject_scan" ELSE IF st = "done" THEN "accept" ELSE "reject_parse"
\* the last step of every behaviour: the input is classified (this is what the dump / the report carries)
Classify == /\ Terminal /\ cls = <<>> /\ cls' = <<VerdictOf, Portable>>
            /\ UNCHANGED vars /\ UNCHANGED pvars /\ UNCHANGED tid
\* FromFile: one line per input
Report == (FromFile /\ cls # <<>>) => PrintT(<<"DOMAIN", tid, VerdictOf, Portable>>)

LNext == ScannerStep \/ Feed \/ ParserStep \/ Classify
LSpec == LInit /\ [][LNext]_<<vars, pvars, tid, cls>>

\* the scanner's H, judged once per input (in the state the scan leaves behind), not again at every parser step
JustScanned == pc = "end" /\ st = "stream_start"
LP_TokenMarks == JustScanned => TokenMarksOk
LP_ErrorMarks == JustScanned => H_ErrorMarks
LP_TokenGrammar == JustScanned => H_TokenGrammar
\* H (C03) for the composition: neither stage ever fails with anything but a YAML error
H_PipeYamlErrorOnly == res # "crash" /\ st # "crash"
\* the parser's own H (C09) holds on every token stream the scanner can produce
H_PipeGrammatical == P!Grammatical /\ P!CompleteAtEnd
=============================================================================
