SPECIFICATION Spec
CONSTANTS
  MaxEvents = 9
  MaxDocs = 2
  Anchors = {"a", "b"}
  MapKinds = {"map"}
  SeqKinds = {"seq"}
  ScalarAnchors = TRUE
INVARIANT AliasIsIdentity
INVARIANT ErrorsAgree
INVARIANT NoLeak
INVARIANT AnchorsSound
