SPECIFICATION Spec
INVARIANT Verdict
