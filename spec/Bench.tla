---- MODULE Bench ----
EXTENDS Format
R0 == [st |-> "x", states |-> <<>>, q |-> <<>>, indents |-> <<>>, indent |-> -1, flow |-> 0,
                 root |-> FALSE, seqc |-> FALSE, mapc |-> FALSE, skey |-> FALSE,
                 line |-> 0, col |-> 0, ws |-> TRUE, indn |-> TRUE, open |-> FALSE,
                 bi |-> 2, bw |-> 80, canon |-> FALSE, au |-> FALSE,
                 enc |-> "N", bom |-> "none", cur |-> NewLine, lines |-> <<>>, entries |-> <<>>, marks |-> <<>>, ctoks |-> <<>>,
                 kcol |-> 0, kline |-> 0, skeys |-> <<>>, crash |-> FALSE, act |-> "-"]
T == Rep("a", 1023)
ASSUME PrintT(<<"t0", JavaTime>>)
ASSUME PrintT(Len(T)) /\ PrintT(<<"rep", JavaTime>>)
ASSUME PrintT(Analyze(T, FALSE).single) /\ PrintT(<<"analyze", JavaTime>>)
ASSUME PrintT(PutText(R0, T, 1, 1023).col) /\ PrintT(<<"puttext", JavaTime>>)
ASSUME PrintT(WritePlain(R0, T, FALSE, 80).col) /\ PrintT(<<"plain", JavaTime>>)
ASSUME PrintT(WrittenBound(T, 1, FALSE)) /\ PrintT(<<"bound", JavaTime>>)
ASSUME PrintT(WriteDouble(R0, T, FALSE, 80, FALSE).col) /\ PrintT(<<"double", JavaTime>>)
====
