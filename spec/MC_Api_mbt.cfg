SPECIFICATION SpecMacro
CONSTANTS
  LoadOps = {"load", "load_all"}
  GenOps = {"load_all"}
  DumpOps = {}
  Classes = {"safe"}
  Backends = {"py"}
  IOs = {"mem"}
  Impls = {TRUE}
  Docs = {"plain", "comperr", "ctorerr", "tagdir", "usetag", "anchors", "usealias", "rec"}
  Vals = {}
  MaxHist = 3
  MaxStream = 1
  MaxSingle = 1
  Faults = FALSE
  Mutation = "none"
  KeepHist = TRUE
  MaxGens = 1
  Persistent = FALSE
INVARIANT H_Globals
INVARIANT H_CallerObjects
INVARIANT H_CallIndep
INVARIANT H_Documents
INVARIANT H_FaultTransparency
INVARIANT Lifetime
INVARIANT PerDocumentReset
INVARIANT Case
