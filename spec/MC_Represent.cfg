SPECIFICATION Spec
CONSTANTS
  MaxObjs = 3
  MaxKids = 2
  ValScalars = {"s_word"}
  KeyScalars = {"s_word", "int_pos", "int_neg"}
  CellTypes = {"list", "dict", "set", "date"}
  DateRanks = {1}
  TzShapes = {"utc"}
  SortOpts = {TRUE, FALSE}
  FlowOpts = {"N"}
  StyleOpts = {""}
  D7Fixed = FALSE
INVARIANT RoundTrip
INVARIANT TagsSurvive
INVARIANT AnchorsWellFormed
INVARIANT OnlyObjectsAliased
INVARIANT KeeperHoldsAll
INVARIANT SortDeterminism
INVARIANT InsertionOrder
INVARIANT FixedPoint
INVARIANT AnchorsOfDocumentAlone
