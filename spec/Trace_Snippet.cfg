SPECIFICATION Spec
INVARIANT Verdict
