------------------------------ MODULE Registry ------------------------------
(***************************************************************************)
(* The class-level registries of PyYAML (yaml_constructors,                *)
(* yaml_multi_constructors, yaml_representers, yaml_multi_representers,    *)
(* yaml_implicit_resolvers, yaml_path_resolvers) as a state machine.       *)
(*                                                                         *)
(*  L layer  (implementation shaped): every class either owns a table      *)
(*           (a reference into a heap of dict objects - dict *identity* is *)
(*           modelled) or inherits the table of the first class of its MRO *)
(*           that owns one; add_* copies on first write                    *)
(*           (constructor.py:159-169, representer.py:65-75,                *)
(*           resolver.py:25-89) and then mutates the owned dict in place.  *)
(*  H layer  (property C10): the effective table of every class, updated   *)
(*           by the rule of the property statement alone: a registration   *)
(*           on c is seen by c and by those descendants of c that have not *)
(*           registered anything of that kind themselves - by nobody else. *)
(*                                                                         *)
(* TLC checks  L refines H  (Refines), the frame conditions (NoUpward,     *)
(* SafeUntouched) and, in the MBT configurations, carries the history so   *)
(* that every reachable state is one test case that is replayed into the   *)
(* live classes (harness/props/c10.py).                                    *)
(***************************************************************************)
EXTENDS Naturals, Sequences, FiniteSets, TLC

CONSTANTS Targets,     \* shipped loader/dumper classes operations may name
          Users,       \* names of user-defined subclasses
          OpKinds,     \* subset of {"ctor","mctor","repr","mrepr","impl","path","yobj","module"}
          MaxHist,     \* bound on the length of a history
          FreshVals    \* TRUE: step i of a history registers the i-th function/tag (F_i / G_i), a value no earlier step used;
                       \* FALSE: every step chooses freely among two values (so a value can be registered twice)

VARIABLES defined,     \* set of classes that exist
          ubase,       \* ubase[u] = base class of user class u (or "-")
          own,         \* L: own[c][k] = class c has the attribute in its own __dict__ (a dict object of its own)
          tbl,         \* L: tbl[c][k] = that dict object (meaningful when own[c][k]); the dict's identity is <<c, k>>
          eff,         \* H: eff[c][k] = effective table of class c
          reg,         \* H: reg[c][k] = c has registered something of kind k itself
          beh,         \* H: behaviour of every class predicted from eff (probe results)
          hist,        \* the history (sequence of operations) that led here
          last         \* the last operation (for the action properties)

vars == <<defined, ubase, own, tbl, eff, reg, beh, hist, last>>

AllKinds == {"ctor", "mctor", "repr", "mrepr", "impl", "path"}
Kinds == IF "yobj" \in OpKinds THEN (OpKinds \cap AllKinds) \cup {"ctor", "repr"} ELSE OpKinds \cap AllKinds   \* kinds carried in the state

CtorMixins == {"BaseConstructor", "SafeConstructor", "FullConstructor", "UnsafeConstructor", "Constructor"}
ReprMixins == {"BaseRepresenter", "SafeRepresenter", "Representer"}
ResMixins  == {"BaseResolver", "Resolver"}
Loaders == {"BaseLoader", "SafeLoader", "FullLoader", "Loader", "UnsafeLoader",
            "CBaseLoader", "CSafeLoader", "CFullLoader", "CUnsafeLoader", "CLoader"}
Dumpers == {"BaseDumper", "SafeDumper", "Dumper", "CBaseDumper", "CSafeDumper", "CDumper"}
Mixins  == CtorMixins \cup ReprMixins \cup ResMixins
Shipped == Mixins \cup Loaders \cup Dumpers

(* bases of the shipped classes, restricted to the classes that carry registries *)
SBases(c) ==
  CASE c = "BaseConstructor"   -> <<>>
    [] c = "SafeConstructor"   -> <<"BaseConstructor">>
    [] c = "FullConstructor"   -> <<"SafeConstructor">>
    [] c = "UnsafeConstructor" -> <<"FullConstructor">>
    [] c = "Constructor"       -> <<"UnsafeConstructor">>
    [] c = "BaseRepresenter"   -> <<>>
    [] c = "SafeRepresenter"   -> <<"BaseRepresenter">>
    [] c = "Representer"       -> <<"SafeRepresenter">>
    [] c = "BaseResolver"      -> <<>>
    [] c = "Resolver"          -> <<"BaseResolver">>
    [] c = "BaseLoader"        -> <<"BaseConstructor", "BaseResolver">>
    [] c = "SafeLoader"        -> <<"SafeConstructor", "Resolver">>
    [] c = "FullLoader"        -> <<"FullConstructor", "Resolver">>
    [] c = "Loader"            -> <<"Constructor", "Resolver">>
    [] c = "UnsafeLoader"      -> <<"Constructor", "Resolver">>
    [] c = "CBaseLoader"       -> <<"BaseConstructor", "BaseResolver">>
    [] c = "CSafeLoader"       -> <<"SafeConstructor", "Resolver">>
    [] c = "CFullLoader"       -> <<"FullConstructor", "Resolver">>
    [] c = "CUnsafeLoader"     -> <<"UnsafeConstructor", "Resolver">>
    [] c = "CLoader"           -> <<"Constructor", "Resolver">>
    [] c = "BaseDumper"        -> <<"BaseRepresenter", "BaseResolver">>
    [] c = "SafeDumper"        -> <<"SafeRepresenter", "Resolver">>
    [] c = "Dumper"            -> <<"Representer", "Resolver">>
    [] c = "CBaseDumper"       -> <<"BaseRepresenter", "BaseResolver">>
    [] c = "CSafeDumper"       -> <<"SafeRepresenter", "Resolver">>
    [] c = "CDumper"           -> <<"Representer", "Resolver">>

RECURSIVE Mro0(_)
Mro0(c) == LET bs == SBases(c)            \* the chains are disjoint, so C3 is plain concatenation here
           IN  <<c>> \o (IF Len(bs) = 0 THEN <<>>
                         ELSE IF Len(bs) = 1 THEN Mro0(bs[1])
                         ELSE Mro0(bs[1]) \o Mro0(bs[2]))
SMro == [c \in Shipped |-> Mro0(c)]       \* constant: evaluated once

Range(s) == {s[i] : i \in DOMAIN s}
HasKind0(c, k) ==
  CASE k \in {"ctor", "mctor"} -> "BaseConstructor" \in Range(SMro[c])
    [] k \in {"repr", "mrepr"} -> "BaseRepresenter" \in Range(SMro[c])
    [] OTHER -> "BaseResolver" \in Range(SMro[c])
Cls == {c \in Shipped : \E k \in Kinds : HasKind0(c, k)} \cup Users
SMroC == [c \in Shipped |-> SelectSeq(SMro[c], LAMBDA x : x \in Cls)]
NoUB == [u \in Users |-> "-"]

RECURSIVE Mro(_, _)
Mro(ub, c) == IF c \in Users THEN <<c>> \o (IF ub[c] = "-" THEN <<>> ELSE Mro(ub, ub[c])) ELSE SMroC[c]
RECURSIVE Root(_, _)
Root(ub, c) == IF c \in Users THEN (IF ub[c] = "-" THEN c ELSE Root(ub, ub[c])) ELSE c
IsLoader(ub, c) == Root(ub, c) \in Shipped /\ HasKind0(Root(ub, c), "ctor")
IsDumper(ub, c) == Root(ub, c) \in Shipped /\ HasKind0(Root(ub, c), "repr")
HasKind(ub, c, k) == Root(ub, c) \in Shipped /\ HasKind0(Root(ub, c), k)

(***************************************************************************)
(* Tables are Python dicts: a sequence of <<key, value>> pairs, insertion  *)
(* ordered, keys unique.  For kind "impl" a value is the list of tags      *)
(* registered under a first character.                                     *)
(***************************************************************************)
Has(t, k) == \E i \in DOMAIN t : t[i][1] = k
Idx(t, k) == CHOOSE i \in DOMAIN t : t[i][1] = k
Get(t, k) == t[Idx(t, k)][2]
Put(t, k, v) == IF Has(t, k) THEN [t EXCEPT ![Idx(t, k)] = <<k, v>>] ELSE Append(t, <<k, v>>)
AppendTo(t, k, v) == IF Has(t, k) THEN [t EXCEPT ![Idx(t, k)] = <<k, Append(t[Idx(t, k)][2], v)>>]
                     ELSE Append(t, <<k, <<v>> >>)
RECURSIVE AppendAll(_, _, _)
AppendAll(t, ks, v) == IF ks = <<>> THEN t ELSE AppendAll(AppendTo(t, Head(ks), v), Tail(ks), v)

\* what one registration does to a table value
Upd(t, k, key, val) == IF k = "impl" THEN AppendAll(t, key, val) ELSE Put(t, key, val)

(* import-time state: which class owns which table and the modelled entries.
   "E" is an entry that exists from import ("tag:yaml.org,2002:int" / int / first char "0" ...),
   ORIG the value it has in that chain.  Everything else in the real tables is frame. *)
Own0(c, k) ==
  CASE k = "ctor"  -> c \in {"BaseConstructor", "SafeConstructor", "FullConstructor"}
    [] k = "mctor" -> c \in {"BaseConstructor", "FullConstructor", "UnsafeConstructor"}
    [] k = "repr"  -> c \in {"BaseRepresenter", "SafeRepresenter", "Representer"}
    [] k = "mrepr" -> c \in {"BaseRepresenter", "Representer"}
    [] k = "impl"  -> c \in {"BaseResolver", "Resolver"}
    [] k = "path"  -> c \in {"BaseResolver"}
Tab0(c, k) ==
  CASE k = "ctor"  /\ c \in {"SafeConstructor", "FullConstructor"} -> << <<"E", "ORIG">> >>
    [] k = "mctor" /\ c \in {"FullConstructor", "UnsafeConstructor"} -> << <<"E", "ORIG">> >>
    [] k = "repr"  /\ c \in {"SafeRepresenter", "Representer"} -> << <<"E", "ORIG">> >>
    [] k = "mrepr" /\ c = "Representer" -> << <<"E", "ORIG">> >>
    [] k = "impl"  /\ c = "Resolver" -> << <<"E", <<"ORIG">> >> >>
    [] OTHER -> <<>>

(***************************************************************************)
(* L : lookup through the MRO, copy on first write                         *)
(***************************************************************************)
LOwner(ub, ow, c, k) == LET m == Mro(ub, c)
                            i == CHOOSE i \in DOMAIN m : ow[m[i]][k] /\ \A j \in 1 .. i - 1 : ~ow[m[j]][k]
                        IN  m[i]
LEffOf(ub, ow, tb, c, k) == tb[LOwner(ub, ow, c, k)][k]
LEff(c, k) == LEffOf(ubase, own, tbl, c, k)

\* LS = [own, tbl]; one add_* call on class c
LStep(ub, LS, c, k, key, val) ==
  IF ~LS.own[c][k]
    THEN LET cp == LEffOf(ub, LS.own, LS.tbl, c, k)       \* cls.yaml_X = cls.yaml_X.copy()
         IN  [own |-> [LS.own EXCEPT ![c][k] = TRUE], tbl |-> [LS.tbl EXCEPT ![c][k] = Upd(cp, k, key, val)]]
    ELSE [own |-> LS.own, tbl |-> [LS.tbl EXCEPT ![c][k] = Upd(@, k, key, val)]]

(***************************************************************************)
(* H : the rule of property C10                                            *)
(***************************************************************************)
Pos(s, x) == CHOOSE i \in DOMAIN s : s[i] = x
Sees(ub, rg, d, c, k) ==            \* does class d see a registration of kind k made on c ?
  \/ d = c
  \/ LET m == Mro(ub, d) IN
       /\ c \in Range(m)
       /\ \A j \in 1 .. Pos(m, c) - 1 : ~rg[m[j]][k]
\* HS = [eff, reg]
HStep(ub, df, HS, c, k, key, val) ==
  [eff |-> [d \in Cls |-> IF d \in df /\ HasKind(ub, d, k) /\ Sees(ub, HS.reg, d, c, k)
                          THEN [HS.eff[d] EXCEPT ![k] = Upd(@, k, key, val)] ELSE HS.eff[d]],
   reg |-> [HS.reg EXCEPT ![c][k] = TRUE]]

(***************************************************************************)
(* Behaviour predicted from the effective tables (dispatch rules of        *)
(* constructor.py:76-100, representer.py:44-60, resolver.py:143-165).      *)
(* "BASE" = no modelled entry applies: the class behaves as it did at      *)
(* import time.                                                            *)
(***************************************************************************)
ModelVal(v) == v \notin {"ORIG"}
PrefixOfTag(p, t) == (p = "P" /\ t \in {"T1", "T2"}) \/ (p = t /\ t \in {"T1"})
RECURSIVE FirstPrefix(_, _)
FirstPrefix(m, t) == IF m = <<>> THEN "BASE"
                     ELSE IF PrefixOfTag(m[1][1], t) THEN m[1][2] ELSE FirstPrefix(Tail(m), t)
Construct(e, t) == IF "ctor" \in Kinds /\ Has(e["ctor"], t) THEN Get(e["ctor"], t)
                   ELSE IF "mctor" \in Kinds THEN FirstPrefix(e["mctor"], t) ELSE "BASE"
\* instances of K1, of K2 (a subclass of K1) and of a YAMLObject class
TypeMro(t) == CASE t = "T2" -> <<"T2", "T1", "E">> [] OTHER -> <<t, "E">>     \* "E" of kind mrepr is `object`
RECURSIVE FirstMulti(_, _)
FirstMulti(m, tm) == IF tm = <<>> THEN "BASE"
                     ELSE IF Has(m, tm[1]) THEN (IF Get(m, tm[1]) = "ORIG" THEN "BASE" ELSE Get(m, tm[1]))
                     ELSE FirstMulti(m, Tail(tm))
Represent(e, t) == IF "repr" \in Kinds /\ Has(e["repr"], t) THEN Get(e["repr"], t)
                   ELSE IF "mrepr" \in Kinds THEN FirstMulti(e["mrepr"], TypeMro(t)) ELSE "BASE"
\* plain scalar whose first character is ch and which only the registered regexps match
ListOf(t, k) == IF Has(t, k) THEN SelectSeq(Get(t, k), LAMBDA x : x # "ORIG") ELSE <<>>
Resolve(e, ch) == LET l == ListOf(e["impl"], ch) \o ListOf(e["impl"], "NONE")
                  IN  IF l = <<>> THEN "BASE" ELSE l[1]
PathTag(e, q) == IF Has(e["path"], q) THEN Get(e["path"], q) ELSE "BASE"

Probes(ub, c, e) ==
  (IF IsLoader(ub, c) /\ Kinds \cap {"ctor", "mctor"} # {}
     THEN [p \in {"cT1", "cT2", "cY1"} |-> Construct(e, CASE p = "cT1" -> "T1" [] p = "cT2" -> "T2" [] OTHER -> "Y1")]
     ELSE <<>>) @@
  (IF IsDumper(ub, c) /\ Kinds \cap {"repr", "mrepr"} # {}
     THEN [p \in {"rT1", "rT2", "rY1"} |-> Represent(e, CASE p = "rT1" -> "T1" [] p = "rT2" -> "T2" [] OTHER -> "Y1")]
     ELSE <<>>) @@
  (IF "impl" \in Kinds THEN [p \in {"ia", "iE"} |-> Resolve(e, IF p = "ia" THEN "a" ELSE "E")] ELSE <<>>) @@
  (IF "path" \in Kinds /\ IsLoader(ub, c) THEN [p \in {"pQ1", "pQ2"} |-> PathTag(e, IF p = "pQ1" THEN "Q1" ELSE "Q2")] ELSE <<>>) @@
  \* a dumper: a str node at a place for which a path resolver applies no longer resolves to !!str, so its tag is written
  (IF "path" \in Kinds /\ IsDumper(ub, c)
     THEN [p \in {"dQ1", "dQ2"} |-> IF PathTag(e, IF p = "dQ1" THEN "Q1" ELSE "Q2") = "BASE" THEN "BASE" ELSE "EXPL"]
     ELSE <<>>)

\* H prediction of the observable behaviour of every class
BehOf(ub, df, ef) == [c \in df |-> Probes(ub, c, ef[c])]

(***************************************************************************)
(* operations                                                              *)
(***************************************************************************)
KeysOf(k) == CASE k = "impl" -> {<<"a">>, <<"E">>, <<"a", "E">>, <<"NONE">>}
               [] k = "path" -> {"Q1", "Q2"}
               [] k = "mctor" -> {"T1", "P", "E"}      \* P is a prefix of the tags T1 and T2, T1 of T1 only
               [] OTHER -> {"T1", "T2", "E"}
ValsOf(k) == IF k \in {"impl", "path"} THEN {"G1", "G2"} ELSE {"F1", "F2"}
(* The registries never inspect or compare the registered callables / tags (they are stored and handed back), so a
   history in which every step registers a value of its own is the most discriminating representative of all the
   histories that differ from it only in the choice of values: FreshVals = TRUE explores exactly these.  The
   assumption itself (values are opaque) is exercised by the FreshVals = FALSE configurations. *)
FN == <<"F1", "F2", "F3", "F4", "F5">>
GN == <<"G1", "G2", "G3", "G4", "G5">>
ASSUME MaxHist < Len(FN)
ValsAt(k, n) == IF FreshVals THEN {IF k \in {"impl", "path"} THEN GN[n] ELSE FN[n]} ELSE ValsOf(k)

\* a call sequence  <<[c, k, key, val], ...>>  applied to both layers
RECURSIVE LRun(_, _, _)
LRun(ub, LS, calls) == IF calls = <<>> THEN LS
                       ELSE LRun(ub, LStep(ub, LS, calls[1][1], calls[1][2], calls[1][3], calls[1][4]), Tail(calls))
RECURSIVE HRun(_, _, _, _)
HRun(ub, df, HS, calls) == IF calls = <<>> THEN HS
                           ELSE HRun(ub, df, HStep(ub, df, HS, calls[1][1], calls[1][2], calls[1][3], calls[1][4]), Tail(calls))

Do(op, calls) ==
  LET LS == LRun(ubase, [own |-> own, tbl |-> tbl], calls)
      HS == HRun(ubase, defined, [eff |-> eff, reg |-> reg], calls)
  IN  /\ Len(hist) < MaxHist
      /\ own' = LS.own /\ tbl' = LS.tbl /\ eff' = HS.eff /\ reg' = HS.reg
      /\ beh' = BehOf(ubase, defined, HS.eff)
      /\ hist' = Append(hist, op) /\ last' = [op |-> op, calls |-> calls]
      /\ UNCHANGED <<defined, ubase>>

TargetsNow == (Targets \cup Users) \cap defined

Add == \E k \in OpKinds \cap AllKinds, c \in TargetsNow :
         /\ HasKind(ubase, c, k)
         /\ Len(hist) < MaxHist
         /\ \E key \in KeysOf(k), val \in ValsAt(k, Len(hist) + 1) :
              Do(<<"add", k, c, key, val>>, << <<c, k, key, val>> >>)

\* yaml.add_*(..., Loader=L, Dumper=D)  (__init__.py:271-345): without Loader= the registration fans out to Loader,
\* FullLoader and UnsafeLoader, with Loader=L it goes to L alone; Dumper defaults to yaml.Dumper.  "-" = argument not given
\* (the representer helpers have no Loader argument, the constructor helpers no Dumper argument).
ModuleKey(k) == CASE k = "impl" -> <<"a">> [] k = "path" -> "Q1" [] k = "mctor" -> "P" [] OTHER -> "T1"
ModuleVal(k) == IF FreshVals THEN (IF k \in {"impl", "path"} THEN GN[Len(hist) + 1] ELSE FN[Len(hist) + 1])
                ELSE IF k \in {"impl", "path"} THEN "G1" ELSE "F1"
ModuleLoaders(k) == IF k \in {"repr", "mrepr"} THEN {"-"} ELSE {"-"} \cup {x \in TargetsNow : IsLoader(ubase, x)}
ModuleDumpers(k) == IF k \in {"ctor", "mctor"} THEN {"-"} ELSE {"-"} \cup {x \in TargetsNow : IsDumper(ubase, x)}
ModuleAdd == /\ "module" \in OpKinds
             /\ Len(hist) < MaxHist
             /\ \E k \in OpKinds \cap AllKinds : \E L \in ModuleLoaders(k), D \in ModuleDumpers(k) :
                  LET key == ModuleKey(k)
                      val == ModuleVal(k)
                      ls == IF k \in {"repr", "mrepr"} THEN <<>>
                            ELSE IF L = "-" THEN << <<"Loader", k, key, val>>, <<"FullLoader", k, key, val>>, <<"UnsafeLoader", k, key, val>> >>
                            ELSE << <<L, k, key, val>> >>
                      ds == IF k \in {"ctor", "mctor"} THEN <<>> ELSE << <<(IF D = "-" THEN "Dumper" ELSE D), k, key, val>> >>
                  IN  Do(<<"module", k, key, val, L, D>>, ls \o ds)

\* class Y(yaml.YAMLObject): yaml_tag = ...; yaml_loader = ...; yaml_dumper = ...   (__init__.py:347-361)
YLoaderChoices == { <<"Loader", "FullLoader", "UnsafeLoader">> } \cup { <<c>> : c \in {x \in TargetsNow : IsLoader(ubase, x)} }
YObj == /\ "yobj" \in OpKinds
        /\ Len(hist) < MaxHist
        /\ \E tag \in {y \in {"Y1", "Y2"} : ~\E i \in DOMAIN hist : hist[i][1] = "yobj" /\ hist[i][2] = y},   \* a class name is defined once
              lds \in YLoaderChoices, d \in {x \in TargetsNow \cup {"Dumper"} : IsDumper(ubase, x)} :
             Do(<<"yobj", tag, lds, d>>,
                [i \in 1 .. Len(lds) |-> <<lds[i], "ctor", tag, "FY">>] \o << <<d, "repr", tag, "FY">> >>)

\* a subclass of an existing YAMLObject class that declares no yaml_tag of its own registers NOTHING, whatever
\* yaml_loader / yaml_dumper it overrides (YAMLObjectMetaclass.__init__: 'yaml_tag' in kwds)
YSub == /\ "yobj" \in OpKinds
        /\ \E tag \in {y \in {"Y1", "Y2"} : (\E i \in DOMAIN hist : hist[i][1] = "yobj" /\ hist[i][2] = y)
                                            /\ ~\E i \in DOMAIN hist : hist[i][1] = "ysub" /\ hist[i][2] = y},
              lds \in YLoaderChoices, d \in {x \in TargetsNow \cup {"Dumper"} : IsDumper(ubase, x)} :
             Do(<<"ysub", tag, lds, d>>, <<>>)

\* a user class derives from a shipped loader/dumper or from a user class (a bare mixin is not a loader or dumper)
DefineSub == \E u \in Users \ defined, b \in TargetsNow \ Mixins :
               /\ Len(hist) < MaxHist
               /\ defined' = defined \cup {u}
               /\ ubase' = [ubase EXCEPT ![u] = b]
               /\ eff' = [eff EXCEPT ![u] = eff[b]]           \* H: a new subclass behaves as its base
               /\ beh' = BehOf(ubase', defined', eff')
               /\ hist' = Append(hist, <<"sub", u, b>>) /\ last' = [op |-> <<"sub", u, b>>, calls |-> <<>>]
               /\ UNCHANGED <<own, tbl, reg>>

Init == /\ defined = Cls \ Users
        /\ ubase = [u \in Users |-> "-"]
        /\ own = [c \in Cls |-> [k \in Kinds |-> c \in Shipped /\ Own0(c, k)]]
        /\ tbl = [c \in Cls |-> [k \in Kinds |-> IF c \in Shipped /\ Own0(c, k) THEN Tab0(c, k) ELSE <<>>]]
        /\ reg = [c \in Cls |-> [k \in Kinds |-> c \in Shipped /\ Own0(c, k)]]
        /\ eff = [c \in Cls |-> [k \in Kinds |->
                   IF c \in Shipped /\ HasKind([u \in Users |-> "-"], c, k)
                   THEN LET m == Mro([u \in Users |-> "-"], c)
                            i == CHOOSE i \in DOMAIN m : Own0(m[i], k) /\ \A j \in 1 .. i - 1 : ~Own0(m[j], k)
                        IN  Tab0(m[i], k)
                   ELSE <<>>]]
        /\ beh = BehOf(NoUB, Cls \ Users, eff)
        /\ hist = <<>> /\ last = [op |-> <<"init">>, calls |-> <<>>]

Next == Add \/ ModuleAdd \/ YObj \/ YSub \/ DefineSub

Spec == Init /\ [][Next]_vars

(***************************************************************************)
(* properties                                                              *)
(***************************************************************************)
\* L refines H : the implementation-shaped lookup yields exactly the tables the rule predicts
Refines == \A c \in defined, k \in Kinds :
             HasKind(ubase, c, k) => /\ eff[c][k] = LEff(c, k)
                                     /\ reg[c][k] = own[c][k]

Ancestors(ub, d) == Range(Mro(ub, d))
TouchedBy(calls) == {calls[i][1] : i \in DOMAIN calls}
KindsOfCalls(calls) == {calls[i][2] : i \in DOMAIN calls}

\* a registration never changes a class that is not the target or one of its descendants
NoUpward == [][\A d \in defined, k \in Kinds :
                 (HasKind(ubase, d, k) /\ last'.calls # <<>>
                    /\ ~\E i \in DOMAIN last'.calls : last'.calls[i][2] = k /\ last'.calls[i][1] \in Ancestors(ubase, d))
                 => LEffOf(ubase', own', tbl', d, k) = LEff(d, k)]_vars

SafeClasses == {"SafeLoader", "CSafeLoader", "SafeDumper", "CSafeDumper", "SafeConstructor", "SafeRepresenter",
                "BaseLoader", "CBaseLoader", "BaseDumper", "CBaseDumper"}
\* a registration on a base of a safe class (BaseConstructor, BaseRepresenter, Resolver, BaseResolver) names that
\* safe class's own lattice: by the rule it takes effect for the safe class as long as that has registered nothing itself
SafeLattice == UNION {Range(SMroC[s]) : s \in SafeClasses \cap Cls}
\* the shipped safe tables change only when a class of the safe lattice is the explicit target
SafeUntouched == [][(TouchedBy(last'.calls) \cap SafeLattice = {})
                     => \A s \in SafeClasses \cap Cls, k \in Kinds :
                          HasKind(ubase, s, k) => LEffOf(ubase', own', tbl', s, k) = LEff(s, k)]_vars

=============================================================================
