SPECIFICATION Spec
INVARIANT PositionIndependent
