-------------------------- MODULE Trace_EmitParse --------------------------
(***************************************************************************)
(* Judgement of observations  emit(events_in, options) ; parse(text)       *)
(* recorded from the real emitters and parsers, by H_EventEq.  One TLC run *)
(* judges a batch: one initial state per observation.                      *)
(*   wf       1 when events_in is well-formed (grammar checked here too)   *)
(*   outcome  "ok" | "EmitterError" | "ParseError" | "exception"           *)
(*   ein, eout  event records (H_EventEq)                                  *)
(* Verdict line: <<"VERDICT", tid, ok, why, at>>; for a changed scalar     *)
(* value `why` carries the shape of the change.                            *)
(***************************************************************************)
EXTENDS Naturals, Sequences, FiniteSets, TLC, Json, IOUtils
H == INSTANCE H_EventEq
G == INSTANCE EventGrammar
HD == INSTANCE H_DocBoundaries

Traces == JsonDeserialize(IOEnv.TRACE_FILE)
VARIABLE tid

RECURSIVE Gram(_, _, _)
Gram(ev, j, g) == IF j > Len(ev) THEN g ELSE Gram(ev, j + 1, G!MonStep(g, ev[j].k))
Grammatical(ev) == Gram(ev, 1, G!MonInit) = <<"END">>

Judge(t) ==
  LET wf == t.wf = 1 /\ Grammatical(t.ein)
  IN  IF t.outcome = "exception" THEN [ok |-> FALSE, why |-> "non-emitter exception", at |-> 0]
      ELSE IF ~wf THEN [ok |-> t.outcome \in {"ok", "EmitterError", "ParseError"}, why |-> "-", at |-> 0]
      ELSE IF t.outcome = "EmitterError" THEN [ok |-> FALSE, why |-> "well-formed stream rejected", at |-> 0]
      ELSE IF t.outcome = "ParseError" THEN [ok |-> FALSE, why |-> "emitted text does not parse", at |-> 0]
      ELSE LET r == H!FirstBad(t.ein, t.eout, 1)
           IN  IF r.at = 0 THEN [ok |-> TRUE, why |-> "-", at |-> 0]
               ELSE IF HD!LostEmptyDocs(HD!Docs(t.ein), HD!Docs(t.eout), 0)
               THEN [ok |-> FALSE, why |-> r.why \o ":empty-root-lost:" \o HD!LostKind(HD!Docs(t.ein), HD!Docs(t.eout)), at |-> r.at]
               ELSE IF r.why = "scalar value"
               THEN [ok |-> FALSE, why |-> "value:" \o H!DiffClass(H!Norm(t.ein[r.at]).v, H!Norm(t.eout[r.at]).v), at |-> r.at]
               ELSE IF r.why = "tag" /\ (LET ds == {j \in 1 .. r.at : t.ein[j].k = "DocumentStart"}
                                          IN  ds # {} /\ H!RedefinesDefault(t.ein[CHOOSE j \in ds : \A i \in ds : i <= j]))
               THEN [ok |-> FALSE, why |-> "tag:default-handle-redefined", at |-> r.at]
               ELSE [ok |-> FALSE, why |-> r.why, at |-> r.at]

Init == tid \in 1 .. Len(Traces)
Next == FALSE /\ tid' = tid
Spec == Init /\ [][Next]_tid
Verdict == LET r == Judge(Traces[tid]) IN PrintT(<<"VERDICT", tid, r.ok, r.why, r.at>>)
=============================================================================
