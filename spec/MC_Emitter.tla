----------------------------- MODULE MC_Emitter -----------------------------
(***************************************************************************)
(* Bounded design check and test generation for Emitter.tla (+ Scalars,    *)
(* EmitRead).  The environment feeds events only when the machine asks for *)
(* more (need_more_events), so the graph is the machine's, one action per  *)
(* state method.  Mode "grammar": every event sequence the event grammar   *)
(* (EventGrammar.tla) admits, with attribute classes good and bad; mode    *)
(* "any": arbitrary event sequences.                                       *)
(*                                                                         *)
(* H: at the end of a well-formed stream the reader model returns the      *)
(* input (H_EventEq), documents keep their boundaries (H_DocBoundaries),   *)
(* and every outcome other than success is an emitter error and occurs     *)
(* only for an ill-formed stream.                                          *)
(***************************************************************************)
EXTENDS Emitter
G == INSTANCE EventGrammar
H == INSTANCE H_EventEq
HD == INSTANCE H_DocBoundaries
R == INSTANCE EmitRead

CONSTANTS Mode, MaxEvents, MaxDocs, EmptyColls,   \* EmptyColls: collections stay empty (document-level configurations)
          CollsAt,               \* "any" | "key": collections only as the document root or as mapping keys (complex-key configurations)
          MaxNest,     \* MaxNest: collections nested at most this deep (grammar mode)
          Canons, Bests, Widths, Unis, LBs,   \* option product: canonical, indent, width, allow_unicode, line_break ("n","r","rn")
          Vs, Ss, SAs, STs, SIs,        \* scalar events: value classes, style requests, anchors, tags, implicit pairs
          CAs, CTs, CIs, FSs,           \* collection starts: anchors, tags, implicit flags, flow_style values
          AAs,                          \* alias anchors
          DXs, DVs, DTs,                \* document start: explicit, version, tags classes
          EXs                           \* document end: explicit

LBseq(n) == CASE n = "r" -> <<13>> [] n = "rn" -> <<13, 10>> [] OTHER -> <<10>>
\* best_indent / best_width as Emitter.__init__ derives them (emitter.py:85-90)
Opts == {[canonical |-> c, best |-> b, width |-> IF w > 2 * b THEN w ELSE 80, uni |-> u, lb |-> LBseq(l)] :
           c \in Canons, b \in Bests, w \in Widths, u \in Unis, l \in LBs}
Impl(n) == CASE n = "tf" -> <<TRUE, FALSE>> [] n = "ft" -> <<FALSE, TRUE>> [] n = "tt" -> <<TRUE, TRUE>> [] OTHER -> <<FALSE, FALSE>>
VARIABLES m, hist, g, pred
vars == <<m, hist, g, pred>>
NoPred == [ok |-> FALSE, evs |-> <<>>, why |-> "-"]

E0 == [k |-> "-", a |-> "", t |-> "", i |-> <<>>, v |-> "", s |-> "none", fs |-> FALSE, x |-> FALSE, ver |-> "", tg |-> ""]
Alphabet ==
  {[E0 EXCEPT !.k = "StreamStart"], [E0 EXCEPT !.k = "StreamEnd"], [E0 EXCEPT !.k = "SequenceEnd"], [E0 EXCEPT !.k = "MappingEnd"]}
  \cup {[E0 EXCEPT !.k = "DocumentStart", !.x = x, !.ver = v, !.tg = t] : x \in DXs, v \in DVs, t \in DTs}
  \cup {[E0 EXCEPT !.k = "DocumentEnd", !.x = x] : x \in EXs}
  \cup {[E0 EXCEPT !.k = "Alias", !.a = a] : a \in AAs}
  \cup {[E0 EXCEPT !.k = "Scalar", !.a = a, !.t = t, !.i = Impl(i), !.v = v, !.s = s] : a \in SAs, t \in STs, i \in SIs, v \in Vs, s \in Ss}
  \cup {[E0 EXCEPT !.k = kk, !.a = a, !.t = t, !.i = <<i>>, !.fs = f] : kk \in {"SequenceStart", "MappingStart"}, a \in CAs, t \in CTs, i \in CIs, f \in FSs}

\* events still needed to complete a stream whose grammar monitor is in state gg
RECURSIVE MinRemaining(_)
MinRemaining(gg) == IF gg = <<>> \/ gg = <<"END">> \/ gg = G!Reject THEN 0
                    ELSE (IF gg[Len(gg)] \in {"D0", "M1"} THEN 2 ELSE 1) + MinRemaining(SubSeq(gg, 1, Len(gg) - 1))
NDocs(h) == Cardinality({j \in DOMAIN h : h[j].k = "DocumentStart"})

Init == \E o \in Opts : m = M0(o) /\ hist = <<>> /\ g = G!MonInit /\ pred = NoPred
Feed == /\ Running(m) /\ NeedMoreEvents(m.events) /\ Len(hist) < MaxEvents
        /\ \E e \in Alphabet :
             /\ Mode = "grammar" => (G!MonStep(g, e.k) # G!Reject /\ Len(hist) + 1 + MinRemaining(G!MonStep(g, e.k)) <= MaxEvents)
             /\ e.k = "DocumentStart" => NDocs(hist) < MaxDocs
             /\ (Mode = "grammar" /\ e.k \in {"SequenceStart", "MappingStart"}) => Len(g) - 2 < MaxNest
             /\ (CollsAt = "key" /\ e.k \in {"SequenceStart", "MappingStart"}) => (g # <<>> /\ g[Len(g)] \in {"D0", "M0"})
             /\ (EmptyColls /\ g # <<>> /\ g[Len(g)] \in {"Q", "M0"}) => e.k \in {"SequenceEnd", "MappingEnd"}
             /\ m' = [m EXCEPT !.events = Append(@, e), !.trail = {}]
             /\ hist' = Append(hist, e)
             /\ g' = G!MonStep(g, e.k)
             /\ pred' = pred
\* pred: what the reader model makes of the complete text (computed once, when StreamEnd has been processed)
At(s) == /\ CanStep(m) /\ m.st = s
         /\ LET mm == Step(m)
            IN  m' = mm /\ pred' = IF mm.outcome = "done" /\ mm.events = <<>> THEN R!Read(mm.w.out, mm.items) ELSE pred
         /\ UNCHANGED <<hist, g>>
A_ExpectStreamStart == At("stream_start")
A_ExpectNothing == At("nothing")
A_ExpectFirstDocumentStart == At("first_document_start")
A_ExpectDocumentStart == At("document_start")
A_ExpectDocumentEnd == At("document_end")
A_ExpectDocumentRoot == At("document_root")
A_ExpectFirstFlowSequenceItem == At("first_flow_sequence_item")
A_ExpectFlowSequenceItem == At("flow_sequence_item")
A_ExpectFirstFlowMappingKey == At("first_flow_mapping_key")
A_ExpectFlowMappingKey == At("flow_mapping_key")
A_ExpectFlowMappingSimpleValue == At("flow_mapping_simple_value")
A_ExpectFlowMappingValue == At("flow_mapping_value")
A_ExpectFirstBlockSequenceItem == At("first_block_sequence_item")
A_ExpectBlockSequenceItem == At("block_sequence_item")
A_ExpectFirstBlockMappingKey == At("first_block_mapping_key")
A_ExpectBlockMappingKey == At("block_mapping_key")
A_ExpectBlockMappingSimpleValue == At("block_mapping_simple_value")
A_ExpectBlockMappingValue == At("block_mapping_value")
Next == Feed
        \/ A_ExpectStreamStart
        \/ A_ExpectNothing
        \/ A_ExpectFirstDocumentStart
        \/ A_ExpectDocumentStart
        \/ A_ExpectDocumentEnd
        \/ A_ExpectDocumentRoot
        \/ A_ExpectFirstFlowSequenceItem
        \/ A_ExpectFlowSequenceItem
        \/ A_ExpectFirstFlowMappingKey
        \/ A_ExpectFlowMappingKey
        \/ A_ExpectFlowMappingSimpleValue
        \/ A_ExpectFlowMappingValue
        \/ A_ExpectFirstBlockSequenceItem
        \/ A_ExpectBlockSequenceItem
        \/ A_ExpectFirstBlockMappingKey
        \/ A_ExpectBlockMappingKey
        \/ A_ExpectBlockMappingSimpleValue
        \/ A_ExpectBlockMappingValue
Spec == Init /\ [][Next]_vars

(***************************************************************************)
(* well-formedness of the input (attribute rules; the grammar is g)        *)
(***************************************************************************)
BadAttr(e) ==
  \/ e.a \in {"bad", "empty"}
  \/ e.k = "Alias" /\ e.a = ""
  \/ e.t = "empty"
  \/ e.k = "Scalar" /\ e.t = "" /\ ~e.i[1] /\ ~e.i[2]
  \/ e.k \in {"SequenceStart", "MappingStart"} /\ e.t = "" /\ ~e.i[1]
  \/ e.k = "DocumentStart" /\ (e.ver = "2.0" \/ e.tg \in {"badh", "nop"})
AttrOk(h) == \A j \in DOMAIN h : ~BadAttr(h[j])
Complete == g = <<"END">>
b2i(b) == IF b THEN 1 ELSE 0
Proj(e) == [k |-> e.k, a |-> AnchorText(e.a), t |-> TagValue(e.t),
            v |-> IF e.k = "Scalar" THEN ScalarText(e.v) ELSE <<>>,
            i |-> [j \in DOMAIN e.i |-> b2i(e.i[j])], p |-> 0,
            ver |-> R!VerRec(e.ver), tags |-> IF e.tg = "" THEN <<>> ELSE <<e.tg>>]
Ein == [j \in DOMAIN hist |-> Proj(hist[j])]
Final == m.outcome = "done" /\ m.events = <<>>
ReadBack == pred
Diagnosed == m.diag # {}

(***************************************************************************)
(* invariants                                                              *)
(***************************************************************************)
\* "rejects ill-formed event streams only with an emitter error": no outcome but success or EmitterError
NoCrash == m.outcome = "Crash" => Diagnosed
\* the per-event caches prepared_anchor / prepared_tag are empty whenever a state method has returned
PreparedCleared == Running(m) => (m.ptag = "" /\ m.panchor = "")
\* a well-formed stream (prefix) is never rejected
RejectsOnlyIllFormed == m.outcome = "EmitterError" => (~AttrOk(hist) \/ g = G!Reject)
\* L => H_EventEq
RoundTrip == (Final /\ Complete /\ AttrOk(hist)) =>
               (Diagnosed \/ (ReadBack.ok /\ H!StreamEq(Ein, ReadBack.evs)))
\* L => H_DocBoundaries: n documents in, n out, pairwise equal; the text after each DocumentEnd read on its own gives the
\* documents written so far
ReadPrefix(j) == R!Read(SubSeq(m.w.out, 1, m.snaps[j]), SelectSeq(m.items, LAMBDA it : it.end <= m.snaps[j]))
DocBoundaries == (Final /\ Complete /\ AttrOk(hist)) =>
                   (Diagnosed \/ /\ ReadBack.ok /\ HD!SameDocuments(HD!Docs(Ein), HD!Docs(ReadBack.evs)).ok
                                 /\ \A j \in DOMAIN m.snaps :
                                      LET r == ReadPrefix(j)
                                      IN  r.ok /\ HD!SameDocuments(SubSeq(HD!Docs(Ein), 1, j), HD!Docs(r.evs)).ok)
\* what the replay needs of a state: is it a test case, and what does the model predict
TestCase == ~Running(m) \/ Final \/ (NeedMoreEvents(m.events) /\ Len(hist) = MaxEvents)
=============================================================================
