SPECIFICATION Spec
CONSTANTS
  Focuses = {"dstruct", "dindic"}
  Thorough = FALSE
  MaxKey = 1024
  FixD1 = FALSE
  FixD10 = FALSE
  Fine = TRUE
INVARIANT H_YamlErrorOnly
INVARIANT H_Terminates
INVARIANT H_TokenMarks
INVARIANT H_ErrorMarks
INVARIANT H_TokenGrammar
INVARIANT H_Monotone
INVARIANT L_Sane
