SPECIFICATION Spec
CONSTANTS
  Alphabet = {"w", "sp", "lf", "-", "?", ":", ",", "[", "]", "{", "}", "#"}
  PrefixName = "none"
  MaxLen = 4
  MaxKey = 1024
  Fine = TRUE
INVARIANT H_YamlErrorOnly
INVARIANT H_Terminates
INVARIANT H_TokenMarks
INVARIANT H_ErrorMarks
INVARIANT H_TokenGrammar
INVARIANT H_Monotone
INVARIANT L_Sane
