---------------------------- MODULE TokenGrammar ----------------------------
(***************************************************************************)
(* H for tokens that merely scan (C09 wording, reused by C03): the         *)
(* scan-level grammar as a monitor that is stepped with one token kind at  *)
(* a time.  Same judgement as the Run operator of Trace_Tokens.tla, in a   *)
(* form that can run alongside the Scanner specification.                  *)
(*                                                                         *)
(*   STREAM-START first, STREAM-END last and only there; block collection  *)
(*   brackets nested (BLOCK-SEQUENCE-START / BLOCK-MAPPING-START ...       *)
(*   BLOCK-END), all closed at STREAM-END unless the stream ends inside an *)
(*   unterminated flow collection (where indentation is ignored) or after  *)
(*   a stray flow-collection end.                                          *)
(*                                                                         *)
(* Monitor state: [d, f]; d = number of open block collections, -1 before  *)
(* STREAM-START, -2 after STREAM-END, -9 rejected; f = flow depth (1000    *)
(* after a stray close: the flow context never ends).                      *)
(***************************************************************************)
EXTENDS Integers

TGInit == [d |-> -1, f |-> 0]
TGRejected(m) == m.d = -9
TGComplete(m) == m.d = -2

TGStep(m, k) ==
  LET d == m.d
      d2 == CASE k = "StreamStart" -> IF d = -1 THEN 0 ELSE -9
              [] k = "StreamEnd" -> IF d = 0 \/ (d > 0 /\ m.f # 0) THEN -2 ELSE -9
              [] k \in {"BlockSequenceStart", "BlockMappingStart"} -> IF d >= 0 THEN d + 1 ELSE -9
              [] k = "BlockEnd" -> IF d >= 1 THEN d - 1 ELSE -9
              [] OTHER -> IF d >= 0 THEN d ELSE -9
      f2 == CASE k \in {"FlowSequenceStart", "FlowMappingStart"} -> m.f + 1
              [] k \in {"FlowSequenceEnd", "FlowMappingEnd"} -> IF m.f > 0 THEN m.f - 1 ELSE 1000
              [] OTHER -> m.f
  IN  IF d = -9 THEN m ELSE [d |-> d2, f |-> f2]
=============================================================================
