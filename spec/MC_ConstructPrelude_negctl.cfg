SPECIFICATION Spec
CONSTANTS
  MaxSteps = 1
  Ops = {"yobj", "ctor"}
  Singles = {"SafeLoader", "CFullLoader", "UnsafeLoader"}
  Lists = {{"SafeLoader", "CSafeLoader"}}
  SubBases = {"SafeLoader"}
INVARIANT NoOptIn
