------------------------------ MODULE WorkPump ------------------------------
(***************************************************************************)
(* C20, spec -> code: the transition graph of Work.tla, exported edge by   *)
(* edge, from which harness/c20_util.py derives the size-parameterised     *)
(* families of the binding.                                                *)
(*                                                                         *)
(* With str input the configuration space of Work.tla is finite although   *)
(* the input is unbounded, so every way in which an input can "grow by     *)
(* repetition" is a CYCLE of this graph: an input  u v^n w  where u leads  *)
(* from Init to a configuration x, v leads from x back to x, and w leads   *)
(* from x to the end of the stream.  One iteration of every scanner loop   *)
(* is one action of Work.tla, and the character class that selects the     *)
(* branch taken in that iteration is the symbol the environment chooses    *)
(* (action Choose) when the loop first looks at it.  The family list is    *)
(* therefore: for every Choose edge signature                              *)
(*     (loop = pc, chosen class, look-ahead already chosen, run started,   *)
(*      flow context, block-scalar indentation known)                      *)
(* that lies on a cycle, the shortest cycle through such an edge, with the *)
(* shortest u and w.  The harness concretises u, v, w, runs the real       *)
(* scanner on u v^n w, u v^2n w, u v^4n w and lets Trace_Work.tla judge    *)
(* the counted work.  TLC checks the same invariants as for Work.tla on    *)
(* the way (the graph is that of the model-checked configuration).         *)
(*                                                                         *)
(* An edge line is                                                         *)
(*  <<"E", id(m), id(m'), m.pc, m'.pc, chosen, m.la, m.rl, m.sl, m.flow,   *)
(*    m.bi, m.keys[m.flow].on>>                                            *)
(* id = two 32-bit fingerprints of the scanner configuration m (the ghost  *)
(* accounts fuel / work / consumed are not part of a configuration).       *)
(***************************************************************************)
EXTENDS Work, TLCExt

Id(x) == <<TLCFP(x), TLCFP(<<x, 1>>)>>
Chosen == IF Len(m'.la) > Len(m.la) THEN Last(m'.la) ELSE ""        \* only Choose lengthens the look-ahead

PInit == Init /\ PrintT(ToString(<<"I", Id(m)>>))
PNext == Next /\ PrintT(ToString(<<"E", Id(m), Id(m'), m.pc, m'.pc, Chosen, m.la, m.rl, m.sl, m.flow, m.bi, m.keys[m.flow].on>>))
PSpec == PInit /\ [][PNext]_vars
=============================================================================
