SPECIFICATION TSpec
CONSTANTS
  MaxObjs = 1
  Shapes = {}
  Leaves = {}
  KidsRoot = 0
  KidsRest = 0
  Schemes = {"ord"}
  Homes = {"own"}
  CodeFixes = {}
INVARIANT Verdict
