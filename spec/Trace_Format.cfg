SPECIFICATION Spec
INVARIANT Verdict
