-------------------------------- MODULE Lazy --------------------------------
(***************************************************************************)
(* H of C18, written from the property statement in units requested from   *)
(* the caller's stream (no wall clock):                                    *)
(*  "the k-th document is delivered after at most a fixed number of        *)
(*   characters beyond its end have been requested from the stream (two    *)
(*   refill blocks), independent of how much follows; documents that       *)
(*   precede a malformed one are delivered before the error is raised,     *)
(*   and abandoning the iteration releases the loader."                    *)
(* A document ends where the token that terminates it starts ('---' of the *)
(* next document, '...', or the end of the stream).  Reader errors are     *)
(* block-granular (DESIGN.md 5.0): an offending unit is reported when the  *)
(* block that contains it is decoded, so it may pre-empt a document that   *)
(* ends less than two blocks before it, and no other.                      *)
(* Used by LoadPipe.tla (design check) and Trace_Lazy.tla (observations of *)
(* the real code).                                                         *)
(***************************************************************************)
EXTENDS Naturals
\* (1) over = requested - end_k at the moment document k is delivered (0 if the request has not even reached its end)
Within(over, block) == over <= 2 * block
\* when the stream is a real file object and consumption is observed from outside (position of the file descriptor), the
\* file object's own read-ahead (measured without the library) is not charged to the library
Charged(pos, slack) == IF pos > slack THEN pos - slack ELSE 0
\* (2) an error that belongs to document m is raised when `delivered` documents have been handed out
OrderOk(m, delivered) == delivered + 1 >= m
\* (2, reader errors) dist = offset of the offending unit - end_k for an undelivered document k
MayPreempt(dist, block) == dist <= 2 * block
\* (3) after the consumer abandons the iteration: the loader was disposed and nothing is read any more
Released(disposals, readsAfter) == disposals >= 1 /\ readsAfter = 0
\* ... of every loader that was built: an iterator dropped before its first item was asked for may not have built one
ReleasedAll(built, disposals, readsAfter) == readsAfter = 0 /\ (built > 0 => disposals >= 1)
\* (3) "releases the loader": what still refers to / survives of the loader once the generator has been dropped, with the
\* cyclic garbage collector out of the picture (a loader kept alive by a reference cycle with its stream and buffers is
\* not released, it is merely collectable some day): nothing
NothingLeft(S) == S = {}
=============================================================================
