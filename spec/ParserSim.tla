----------------------------- MODULE ParserSim -----------------------------
(***************************************************************************)
(* Parser.tla as a generator of document structures for C06 (corpus c):    *)
(* random walks (TLC -simulate) of the history-carrying configuration; a   *)
(* walk that ends in st = "done" is a token sequence the parser accepts,   *)
(* and its event list is a document structure, reported on one line.       *)
(***************************************************************************)
EXTENDS Parser
Emitted == st = "done" => PrintT(<<"EVENTS", [i \in DOMAIN out |-> out[i][1]]>>)
=============================================================================
