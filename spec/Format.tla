------------------------------- MODULE Format -------------------------------
(***************************************************************************)
(* L model for C15: the option normalisation and the layout machinery of   *)
(* emitter.py (__init__ 83-93, increase_indent 146-154, the expect_* state *)
(* machine 160-418, check_simple_key, process_anchor/tag,                  *)
(* choose_scalar_style, the writers 788-1137) and the stream / encoding    *)
(* rule of yaml.dump_all / serialize_all / emit (__init__.py 157-246) and  *)
(* of CEmitter (_yaml.pyx 905-942, 1149-1166, 1385-1395).                  *)
(*                                                                         *)
(* The emitter is driven exactly like the real one: the environment feeds  *)
(* one event at a time (action Feed, lazily chosen, always grammatical);   *)
(* the event is appended to the queue em.q; while need_more_events() is    *)
(* false one expect_* method runs per step (one named action each).        *)
(* Every character the real emitter would hand to stream.write() goes      *)
(* through Put / PutRaw / LineBreak below, which maintain the OBSERVATION   *)
(* the H clauses speak about: per-line records (leading spaces, character  *)
(* classes, the break that ends the line), the positions of block          *)
(* collection entries, the document markers, and - in canonical mode - the *)
(* token classes.  H_Format / Canonical judge that observation in every    *)
(* state (L => H).                                                         *)
(*                                                                         *)
(* Scalars are abstract: a scalar kind stands for a short text over the    *)
(* character classes the writers distinguish                                *)
(*   "a" ASCII word char, "s" space, "n" LF, "N" NEL, "L" LS / PS,         *)
(*   "u" printable non-ASCII up to U+00FF, "v" other printable BMP,        *)
(*   "U" astral, "x" a character that must be escaped, "q" a double quote, *)
(*   "i" a leading indicator character                                     *)
(* and the five writers are transcribed over those classes.                *)
(* None is -1 for the integer options and "N" for the others.              *)
(***************************************************************************)
EXTENDS Integers, Sequences, FiniteSets, TLC
H == INSTANCE H_Format
C == INSTANCE Canonical
G == INSTANCE EventGrammar

CONSTANTS Indents, Widths, LineBreaks, Encodings, Streams, ExplStart, ExplEnd, Versions, TagSets, Canon, Unicode, Apis,
          TagSets2,       \* the tags of the documents AFTER the first: "same" (dump_all / serialize_all pass one tags option to every
                          \* DocumentStartEvent) or another tag set (a caller of emit() gives every DocumentStartEvent its own)
          ScalarKinds,    \* subset of the kinds of Text below
          CollKinds,      \* subset of {"BS", "FS", "BM", "FM"}: block / flow sequence / mapping
          LongClasses,    \* long lexemes: character classes ("a", "v", "U", "x", "q") ...
          LongLens,       \* ... their lengths (around the emitter's 128 and the scanner's 1024) ...
          LongStyles,     \* ... and the styles requested for them ("P" none, "S" single-quoted, "D" double-quoted)
          FixD12,         \* BOOLEAN: check_simple_key also bounds the WRITTEN length of the key (fix_proposals/D12.diff)
          Anchors,        \* BOOLEAN: the first node of a document may carry an anchor, later nodes may be aliases
          ExplicitTags,   \* BOOLEAN: nodes may carry a tag that is not implicit (tag:yaml.org,2002:foo)
          TagIds,         \* further explicit tags, named "p" \o "rel": related to the prefix p \in "1" ('!'), "2" ('tag:yaml.org,2002:'),
                          \* "X", "Y", "U" (the prefixes the tags option can declare) as rel \in "e" proper extension (p + 'foo'),
                          \* "q" EQUAL to it, "p" proper prefix of it (p without its last character); <<"-", "u">> unrelated
          InnerAnchors,   \* BOOLEAN: with Anchors, EVERY new collection may carry an anchor (and be aliased later in its document)
          Share,          \* BOOLEAN: the documents of one dump_all / serialize_all call may SHARE objects - a collection that was
                          \* written in an earlier document occurs (the same object, not an equal one) in a later document
          NodeBudget,     \* BOOLEAN: MaxEvents bounds the number of NODES of the stream (the other events are forced or close something)
          MaxEvents, MaxDepth, MaxDocs

VARIABLES opt,            \* the options as the caller passed them
          em,             \* the emitter (one record: control state, writer state, observation)
          gen,            \* the environment: grammar monitor of the events fed so far + budget
          evs             \* the events fed so far (each complete state is a test case)
vars == <<opt, em, gen, evs>>

Last(s) == s[Len(s)]
Front(s) == SubSeq(s, 1, Len(s) - 1)
Brk == {"n", "N", "L"}

(***************************************************************************)
(* options: what the caller passes -> what the emitter uses                *)
(***************************************************************************)
BestIndent(o) == IF 1 < o.indent /\ o.indent < 10 THEN o.indent ELSE 2          \* if indent and 1 < indent < 10
BestWidth(o)  == IF o.width > BestIndent(o) * 2 THEN o.width ELSE 80            \* if width and width > best_indent*2
BestBreak(o)  == IF o.lb \in {"CR", "LF", "CRLF"} THEN o.lb ELSE "LF"           \* if line_break in ['\r','\n','\r\n']
TagSeq(name)  == CASE name = "N"  -> <<>>
                   [] name = "T1" -> << <<"!x!", "tag:x.org,2002:">> >>
                   [] name = "T2" -> << <<"!x!", "tag:x.org,2002:">>, <<"!y!", "!local-">> >>     \* sorted(tags.keys())
                   [] name = "TU" -> << <<"!u!", "tag:U.org,2002:">> >>                          \* prefix with a non-ASCII character
                   [] name = "R1" -> << <<"!", "tag:x.org,2002:">> >>                            \* REDEFINES the primary handle
                   [] name = "R2" -> << <<"!!", "tag:x.org,2002:">> >>                           \* REDEFINES the secondary handle
\* where the output goes: yaml.dump_all / serialize_all make a StringIO or (encoding given) a BytesIO; emit() always a StringIO
Sink(o) == IF o.stream # "none" THEN o.stream ELSE IF o.api = "emit" \/ o.enc = "N" THEN "text" ELSE "binary"
\* expect_stream_start: "if self.event.encoding and not hasattr(self.stream, 'encoding')"; CEmitter: dump_unicode
EmitterEncoding(o) == IF o.enc # "N" /\ Sink(o) = "binary" THEN o.enc ELSE "N"
\* the option record in the vocabulary of H
HOpt(o) == [indent |-> o.indent, width |-> o.width, lb |-> o.lb, enc |-> o.enc, stream |-> o.stream, es |-> o.es, ee |-> o.ee,
            ver |-> o.ver, tags |-> IF o.tags2 = "same" THEN TagSeq(o.tags) ELSE <<>>,      \* no ONE tags option was given
            canon |-> o.canon, au |-> o.au]

(***************************************************************************)
(* the LibYAML binding (CEmitter.__init__ / open / serialize in _yaml.pyx):*)
(* what PyYAML's code hands over to libyaml for an option record.  libyaml *)
(* itself is an environment (held to H only, through its observed output); *)
(* what must hold of the binding is that nothing H speaks about is lost or *)
(* altered on the way (BindingFaithful, checked for every option record).  *)
(* "unset" = the setter is not called.                                     *)
(***************************************************************************)
CPass(o) ==
  [canonical |-> o.canon,                                                  \* if canonical: yaml_emitter_set_canonical(1)
   indent    |-> IF o.indent # -1 THEN o.indent ELSE "unset",              \* if indent is not None
   width     |-> IF o.width # -1 THEN o.width ELSE "unset",                \* if width is not None
   unicode   |-> o.au,                                                     \* if allow_unicode
   break     |-> IF o.lb \in {"CR", "LF", "CRLF"} THEN o.lb ELSE "unset",   \* only the three known values are passed
   startImplicit |-> ~o.es, endImplicit |-> ~o.ee,                         \* document_start_implicit / document_end_implicit
   version   |-> o.ver, tags |-> TagSeq(o.tags),                           \* every document start event gets use_version / use_tags
   \* open(): the stream encoding is the requested UTF-16 flavour only when bytes are written (dump_unicode = 0)
   encoding  |-> IF Sink(o) = "binary" /\ o.enc \in {"utf-16-le", "utf-16-be"} THEN o.enc ELSE "utf-8",
   \* output_handler: bytes as they come, or decoded to str when the stream has an .encoding / no encoding was requested
   chunks    |-> IF Sink(o) = "binary" /\ o.enc # "N" THEN "bytes" ELSE "str"]
BindingFaithful(o) ==
  LET c == CPass(o)  h == HOpt(o) IN
  /\ c.canonical = h.canon /\ c.unicode = h.au
  /\ (h.lb \in {"CR", "LF", "CRLF"} => c.break = h.lb)
  /\ (2 <= h.indent /\ h.indent <= 9 => c.indent = h.indent)               \* a requested indent in 2..9 arrives as it is
  /\ (h.es => ~c.startImplicit) /\ (h.ee => ~c.endImplicit)
  /\ c.version = h.ver /\ c.tags = h.tags
  /\ (h.stream = "none" => (c.chunks = "bytes") = (h.enc # "N"))            \* clause d: result type
  /\ (h.stream = "none" /\ h.enc \in {"utf-16-le", "utf-16-be"} => c.encoding = h.enc)
  /\ (c.chunks = "bytes" => c.encoding = (IF h.enc \in {"utf-16-le", "utf-16-be"} THEN h.enc ELSE "utf-8"))

(***************************************************************************)
(* scalar kinds                                                            *)
(***************************************************************************)
Rep(c, n) == [i \in 1 .. n |-> c] \o <<>>                \* (forces a tuple: Len and indexing in the writer loops stay O(1))
Words == <<"a","a","a","a","s","a","a","a","a","s","a","a","a","a","s","a","a","a","a","s","a","a","a","a","s","a","a","a","a">>
Text(k) == CASE k = "w" -> <<"a">>                         \* a word
             [] k = "e" -> <<>>                            \* the empty string ('' in every style but plain)
             [] k = "z" -> <<>>                            \* empty, untagged, plain-implicit (events only): writes nothing
             [] k = "p" -> Words                           \* six words: folds when the width is small
             [] k = "m" -> <<"a", "n", "a">>               \* two lines
             [] k = "u" -> <<"u">>                         \* non-ASCII
             [] k = "n" -> <<"a", "N", "a">>               \* NEL / LS / PS inside
             [] k = "c" -> <<"x">>                         \* control character
             [] k = "s" -> <<"s", "a">>                    \* leading space
             [] k = "i" -> <<"i", "a">>                    \* leading indicator
             [] k = "k" -> Rep("a", 130)                   \* too long for a simple key
             [] k = "b" -> <<"a", "n", "a", "n">>          \* literal style requested
             [] k = "f" -> Words \o <<"n">>                \* folded style requested
             [] k = "g" -> <<"a", "n", "n">>               \* literal style requested, keep (+) chomping
             [] k = "h" -> <<"a", "n", "a">>               \* literal style requested, strip (-) chomping: no final break
             [] k = "l" -> <<"a", "L", "a">>               \* LS / PS inside
StyleReq(k) == CASE k \in {"b", "g", "h"} -> "|" [] k = "f" -> ">" [] OTHER -> ""
\* a long lexeme (macro-symbol): n characters of one class, with a requested style
IsLong(ev) == ev.n > 0
TextOf(ev) == IF IsLong(ev) THEN Rep(ev.s, ev.n) ELSE Text(ev.s)
\* what analyze_scalar finds out about a text of n >= 2 equal characters does not depend on n
AnalysisText(ev) == IF IsLong(ev) THEN Rep(ev.s, 2) ELSE Text(ev.s)
StyleOf(ev) == IF IsLong(ev) THEN (CASE ev.y = "S" -> "'" [] ev.y = "D" -> "\"" [] OTHER -> "") ELSE StyleReq(ev.s)
\* implicit = (plain resolves to the tag, non-plain resolves to the tag) as the Serializer computes them for str values
Imp0(ev) == ~ev.t /\ ev.s # "e"
Imp1(ev) == ~ev.t /\ ev.s # "z"
\* tags and tag prefixes: the fixed strings the classes stand for, and their lengths (TLC cannot take a string apart)
NoTag == <<"-", "-">>
\* a configuration file names the tag classes by two letters ("2q"); here they are pairs
AllTagIds == {<<p, r>> : p \in {"1", "2", "X", "Y", "U", "-"}, r \in {"e", "q", "p", "u"}}
TagOfName(x) == CHOOSE id \in AllTagIds : id[1] \o id[2] = x
PrefixStr(p) == CASE p = "1" -> "!" [] p = "2" -> "tag:yaml.org,2002:" [] p = "X" -> "tag:x.org,2002:" [] p = "Y" -> "!local-" [] p = "U" -> "tag:U.org,2002:"
PrefixLen(p) == CASE p = "1" -> 1 [] p = "2" -> 18 [] p = "X" -> 15 [] p = "Y" -> 7 [] p = "U" -> 15
PreStr(p)    == CASE p = "2" -> "tag:yaml.org,2002" [] p = "X" -> "tag:x.org,2002" [] p = "Y" -> "!local" [] p = "U" -> "tag:U.org,2002"
\* the handle a prefix is abbreviated with ("self.tag_prefixes[prefix] = handle"; the tags option may give "!" or "!!" to its prefix)
HandleOf(p, o)  == CASE p = "1" -> "!" [] p = "2" -> "!!" [] p = "Y" -> "!y!" [] p = "U" -> "!u!"
                     [] p = "X" -> (CASE o.tags = "R1" -> "!" [] o.tags = "R2" -> "!!" [] OTHER -> "!x!")
HandleLen(p, o) == IF p = "1" THEN 1 ELSE IF p = "2" THEN 2 ELSE IF p = "X" /\ o.tags = "R1" THEN 1 ELSE IF p = "X" /\ o.tags = "R2" THEN 2 ELSE 3
Rank(p)      == CASE p = "1" -> 1 [] p = "Y" -> 2 [] p = "X" -> 3 [] p = "2" -> 4 [] p = "U" -> 5       \* sorted(self.tag_prefixes.keys())
\* the prefixes in force in a document: the two defaults and what the tags option declares; a default whose handle the tags
\* option gives to another prefix is retired ("del self.tag_prefixes[default]": '!!str' would be read back with the new prefix)
InForce(o) == CASE o.tags = "R1" -> {"2", "X"} [] o.tags = "R2" -> {"1", "X"}
                [] OTHER -> {"1", "2"} \cup (CASE o.tags = "T1" -> {"X"} [] o.tags = "T2" -> {"X", "Y"} [] o.tags = "TU" -> {"U"} [] OTHER -> {})
AnchorLen == 6                                             \* "&id001"

Analyze(t, au) ==
  LET n == Len(t)
      lineBreaks == \E i \in 1 .. n : t[i] \in Brk
      special == \E i \in 1 .. n : t[i] \in {"x", "N"} \/ (t[i] \in {"u", "v", "U", "L"} /\ ~au)      \* NEL is always special
      leadS == n > 0 /\ t[1] = "s"          leadB == n > 0 /\ t[1] \in Brk
      trailS == n > 0 /\ t[n] = "s"         trailB == n > 0 /\ t[n] \in Brk
      breakSpace == \E i \in 1 .. n - 1 : t[i] \in Brk /\ t[i + 1] = "s"
      spaceBreak == \E i \in 1 .. n - 1 : t[i] = "s" /\ t[i + 1] \in Brk
      indic == n > 0 /\ t[1] \in {"i", "q"}
      ws == leadS \/ leadB \/ trailS \/ trailB
      dq == spaceBreak \/ special
  IN  IF n = 0 THEN [empty |-> TRUE, multiline |-> FALSE, flowPlain |-> FALSE, blockPlain |-> TRUE, single |-> TRUE, block |-> FALSE]
      ELSE [empty |-> FALSE, multiline |-> lineBreaks,
            flowPlain |-> ~(ws \/ breakSpace \/ dq \/ lineBreaks \/ indic),
            blockPlain |-> ~(ws \/ breakSpace \/ dq \/ lineBreaks \/ indic),
            single |-> ~(breakSpace \/ dq),
            block |-> ~(trailS \/ dq)]

(***************************************************************************)
(* the observation: what reaches stream.write()                            *)
(***************************************************************************)
NewLine == [ind |-> 0, started |-> FALSE, cls |-> <<>>]
AddCls(cs, c) == IF \E i \in DOMAIN cs : cs[i] = c THEN cs ELSE Append(cs, c)
ClassOf(c) == CASE c \in {"a", "i", "s", "q"} -> "ascii" [] c \in {"u", "v", "U"} -> "uni" [] c = "x" -> "ctrl" [] OTHER -> "brk?"

\* n characters of one class, "sp" = spaces; leading spaces are the line's indentation; col says whether self.column moves
PutC(r, n, cls, col) ==
  IF n = 0 THEN r
  ELSE [r EXCEPT !.col = IF col THEN @ + n ELSE @,
                 !.cur = IF cls = "sp" /\ ~@.started THEN [@ EXCEPT !.ind = @ + n]
                         ELSE [@ EXCEPT !.started = TRUE, !.cls = AddCls(@, IF cls = "sp" THEN "ascii" ELSE cls)]]
Put(r, n, cls) == PutC(r, n, cls, TRUE)

RECURSIVE PutTextC(_, _, _, _, _)
\* text[a..b], one run of equal characters at a time
PutTextC(r, t, a, b, col) ==
  IF a > b THEN r
  ELSE LET S == {j \in a + 1 .. b : t[j] # t[a]}
           j == IF S = {} THEN b + 1 ELSE CHOOSE j \in S : \A k \in S : j <= k
       IN  PutTextC(PutC(r, j - a, IF t[a] = "s" THEN "sp" ELSE ClassOf(t[a]), col), t, j, b, col)
PutText(r, t, a, b) == PutTextC(r, t, a, b, TRUE)

\* write_line_break(data): kind "BEST" = best_line_break, "NEL" = the NEL / LS / PS character of the scalar itself
LineBreak(r, kind) ==
  [r EXCEPT !.lines = Append(@, [ind |-> r.cur.ind, brk |-> kind, cls |-> r.cur.cls]), !.cur = NewLine,
            !.ws = TRUE, !.indn = TRUE, !.line = @ + 1, !.col = 0]

WriteIndent(r) ==
  LET indent == IF r.indent = -1 THEN 0 ELSE r.indent                                \* self.indent or 0
      r1 == IF ~r.indn \/ r.col > indent \/ (r.col = indent /\ ~r.ws) THEN LineBreak(r, "BEST") ELSE r
  IN  IF r1.col < indent THEN Put([r1 EXCEPT !.ws = TRUE], indent - r1.col, "sp") ELSE r1

\* write_indicator(indicator, need_whitespace, whitespace, indention); n = len(indicator)
Indicator(r, n, need, wsp, ind) ==
  LET r1 == IF r.ws \/ ~need THEN r ELSE Put(r, 1, "sp")
  IN  [Put(r1, n, "ascii") EXCEPT !.ws = wsp, !.indn = r.indn /\ ind, !.open = FALSE]

Tok(r, c, a, b) == IF r.canon THEN [r EXCEPT !.ctoks = Append(@, [c |-> c, a |-> a, b |-> b])] ELSE r
Mark(r, k, a, b) == [r EXCEPT !.marks = Append(@, [k |-> k, a |-> a, b |-> b])]
\* the first content of a document
Content(r) == IF r.marks # <<>> /\ Last(r.marks).k = "X" THEN r ELSE Mark(r, "X", "", "")
\* a block collection entry begins at the current position (always directly after write_indent, so no space is inserted)
Entry(r, k) == [r EXCEPT !.entries = Append(@, [k |-> k, line |-> Len(r.lines) + 1, ind |-> r.cur.ind, col |-> r.col, first |-> ~r.cur.started])]

(***************************************************************************)
(* the scalar writers                                                      *)
(***************************************************************************)
Ch(t, e) == IF e <= Len(t) THEN t[e] ELSE "END"

RECURSIVE Breaks(_, _, _, _)                  \* for br in text[start:end]: write_line_break() / write_line_break(br)
Breaks(r, t, a, b) == IF a > b THEN r ELSE Breaks(LineBreak(r, IF t[a] = "n" THEN "BEST" ELSE "NEL"), t, a + 1, b)

\* The writers look at every character, but a character that is neither a space nor a break (nor, in double quotes, an
\* escaped one) only moves `end`: the transcriptions below jump over such runs (Skip) so that a long lexeme costs one step,
\* not one recursion level per character.
Skip(t, e, stops) == LET S == {j \in e + 1 .. Len(t) : t[j] \in stops} IN IF S = {} THEN Len(t) + 1 ELSE CHOOSE j \in S : \A k \in S : j <= k
Stops == {"s"} \cup Brk

RECURSIVE PlainLoop(_, _, _, _, _, _, _, _)
PlainLoop(r, t, split, bw, s, e, spaces, breaks) ==
  IF e > Len(t) + 1 THEN r
  ELSE LET ch == Ch(t, e)
           sp2 == IF ch = "END" THEN spaces ELSE ch = "s"
           br2 == IF ch = "END" THEN breaks ELSE ch \in Brk
       IN
       IF spaces THEN
         IF ch # "s"
         THEN IF s + 1 = e /\ r.col > bw /\ split
              THEN PlainLoop([WriteIndent(r) EXCEPT !.ws = FALSE, !.indn = FALSE], t, split, bw, e, e + 1, sp2, br2)
              ELSE PlainLoop(PutText(r, t, s, e - 1), t, split, bw, e, e + 1, sp2, br2)
         ELSE PlainLoop(r, t, split, bw, s, e + 1, sp2, br2)
       ELSE IF breaks THEN
         IF ch = "END" THEN [r EXCEPT !.crash = TRUE]                \* "None not in '...'" : TypeError (never reached: plain is never multi-line)
         ELSE IF ch \notin Brk
         THEN LET r1 == IF t[s] = "n" THEN LineBreak(r, "BEST") ELSE r
                  r2 == WriteIndent(Breaks(r1, t, s, e - 1))
              IN  PlainLoop([r2 EXCEPT !.ws = FALSE, !.indn = FALSE], t, split, bw, e, e + 1, sp2, br2)
         ELSE PlainLoop(r, t, split, bw, s, e + 1, sp2, br2)
       ELSE IF ch = "END" \/ ch = "s" \/ ch \in Brk
            THEN PlainLoop(PutText(r, t, s, e - 1), t, split, bw, e, e + 1, sp2, br2)
            ELSE PlainLoop(r, t, split, bw, s, Skip(t, e, Stops), FALSE, FALSE)

WritePlain(r, t, split, bw) ==
  LET r0 == IF r.root THEN [r EXCEPT !.open = TRUE] ELSE r IN
  IF t = <<>> THEN r0
  ELSE LET r1 == IF ~r0.ws THEN Put(r0, 1, "sp") ELSE r0
       IN  PlainLoop([r1 EXCEPT !.ws = FALSE, !.indn = FALSE], t, split, bw, 1, 1, FALSE, FALSE)

RECURSIVE SingleLoop(_, _, _, _, _, _, _, _)
SingleLoop(r, t, split, bw, s, e, spaces, breaks) ==
  IF e > Len(t) + 1 THEN r
  ELSE LET ch == Ch(t, e)
           sp2 == IF ch = "END" THEN spaces ELSE ch = "s"
           br2 == IF ch = "END" THEN breaks ELSE ch \in Brk
       IN
       IF spaces THEN
         IF ch # "s"
         THEN IF s + 1 = e /\ r.col > bw /\ split /\ s # 1 /\ e # Len(t) + 1
              THEN SingleLoop(WriteIndent(r), t, split, bw, e, e + 1, sp2, br2)
              ELSE SingleLoop(PutText(r, t, s, e - 1), t, split, bw, e, e + 1, sp2, br2)
         ELSE SingleLoop(r, t, split, bw, s, e + 1, sp2, br2)
       ELSE IF breaks THEN
         IF ch \notin Brk
         THEN LET r1 == IF t[s] = "n" THEN LineBreak(r, "BEST") ELSE r
              IN  SingleLoop(WriteIndent(Breaks(r1, t, s, e - 1)), t, split, bw, e, e + 1, sp2, br2)
         ELSE SingleLoop(r, t, split, bw, s, e + 1, sp2, br2)
       ELSE IF ch = "END" \/ ch = "s" \/ ch \in Brk
            THEN SingleLoop(IF s < e THEN PutText(r, t, s, e - 1) ELSE r, t, split, bw, e, e + 1, sp2, br2)
            ELSE SingleLoop(r, t, split, bw, s, Skip(t, e, Stops), FALSE, FALSE)
WriteSingle(r, t, split, bw) ==
  Indicator(SingleLoop(Indicator(r, 1, TRUE, FALSE, FALSE), t, split, bw, 1, 1, FALSE, FALSE), 1, FALSE, FALSE, FALSE)

\* does write_double_quoted escape the class?  (astral characters even under allow_unicode)
Escaped(c, au) == c \in {"n", "N", "L", "x", "q", "U"} \/ (c \in {"u", "v"} /\ ~au)
\* length of the escape sequence of a character class: \n \N \L \a \" ; \xE9 ; \u0436 ; \U0001F600
EscLen(c) == CASE c = "u" -> 4 [] c = "v" -> 6 [] c = "U" -> 10 [] OTHER -> 2
RECURSIVE DoubleLoop(_, _, _, _, _, _, _)
DoubleLoop(r, t, split, bw, au, s, e) ==
  IF e > Len(t) + 1 THEN r
  ELSE LET ch == Ch(t, e)
           esc == ch = "END" \/ Escaped(ch, au)
           \* flush + escape
           r1 == IF esc THEN (IF s < e THEN PutText(r, t, s, e - 1) ELSE r) ELSE r
           s1 == IF esc THEN (IF s < e THEN e ELSE s) ELSE s
           r2 == IF esc /\ ch # "END" THEN Put(r1, EscLen(ch), "ascii") ELSE r1
           s2 == IF esc /\ ch # "END" THEN e + 1 ELSE s1
           fold == 1 < e /\ e < Len(t) /\ (ch = "s" \/ (s2 >= e /\ Ch(t, s2) # "s")) /\ r2.col + (e - s2) > bw /\ split
           r3 == IF fold THEN Put(IF s2 < e THEN PutText(r2, t, s2, e - 1) ELSE r2, 1, "ascii") ELSE r2      \* text[start:end] + '\'
           s3 == IF fold /\ s2 < e THEN e ELSE s2
           r4 == IF fold THEN [WriteIndent(r3) EXCEPT !.ws = FALSE, !.indn = FALSE] ELSE r3
           r5 == IF fold /\ Ch(t, s3) = "s" THEN Put(r4, 1, "ascii") ELSE r4                                   \* '\' protecting a leading space
           \* fast paths (same result as the steps above, taken one by one):
           \* (1) a character that is written as it is, is not a space and does not directly follow an escape only moves `end`
           plain == ch # "END" /\ ~esc /\ ch # "s" /\ e > s
           next == LET S == {j \in e + 1 .. Len(t) : t[j] = "s" \/ Escaped(t[j], au)} IN IF S = {} THEN Len(t) + 1 ELSE CHOOSE j \in S : \A k \in S : j <= k
           \* (2) a run of equal escaped characters with nothing pending: as many of them as fit before a fold can become due
           \*     (the fold test after an escape is column - 1 > best_width) are written in one step
           same == LET S == {j \in e + 1 .. Len(t) : t[j] # ch} IN (IF S = {} THEN Len(t) + 1 ELSE CHOOSE j \in S : \A k \in S : j <= k) - e
           fit == IF ~split THEN same ELSE IF bw + 1 < r.col THEN 0 ELSE (bw + 1 - r.col) \div EscLen(ch)
           batch == IF ch # "END" /\ esc /\ s >= e THEN (IF same < fit THEN same ELSE fit) ELSE 0
       IN  IF plain THEN DoubleLoop(r, t, split, bw, au, s, next)
           ELSE IF batch >= 2 THEN DoubleLoop(Put(r, batch * EscLen(ch), "ascii"), t, split, bw, au, e + batch, e + batch)
           ELSE DoubleLoop(r5, t, split, bw, au, s3, e + 1)
WriteDouble(r, t, split, bw, au) ==
  Indicator(DoubleLoop(Indicator(r, 1, TRUE, FALSE, FALSE), t, split, bw, au, 1, 1), 1, FALSE, FALSE, FALSE)

\* determine_block_hints: <<length of the hints, keep>>
Hints(t, bi) ==
  LET n == Len(t)
      lead == IF n > 0 /\ (t[1] = "s" \/ t[1] \in Brk) THEN 1 ELSE 0
      tail == IF n = 0 THEN "" ELSE IF t[n] \notin Brk THEN "-" ELSE IF n = 1 \/ t[n - 1] \in Brk THEN "+" ELSE ""
  IN  [len |-> lead + (IF tail = "" THEN 0 ELSE 1), keep |-> tail = "+"]

RECURSIVE LiteralLoop(_, _, _, _, _)
LiteralLoop(r, t, s, e, breaks) ==
  IF e > Len(t) + 1 THEN r
  ELSE LET ch == Ch(t, e)
           br2 == IF ch = "END" THEN breaks ELSE ch \in Brk
       IN
       IF breaks THEN
         IF ch \notin Brk
         THEN LET r1 == Breaks(r, t, s, e - 1) IN LiteralLoop(IF ch # "END" THEN WriteIndent(r1) ELSE r1, t, e, e + 1, br2)
         ELSE LiteralLoop(r, t, s, e + 1, br2)
       ELSE IF ch = "END" \/ ch \in Brk
            THEN LET r1 == PutTextC(r, t, s, e - 1, FALSE)                     \* the column is not advanced here
                 IN  LiteralLoop(IF ch = "END" THEN LineBreak(r1, "BEST") ELSE r1, t, e, e + 1, br2)
            ELSE LiteralLoop(r, t, s, Skip(t, e, Brk), FALSE)
WriteLiteral(r, t, bi) ==
  LET h == Hints(t, bi)
      r1 == Indicator(r, 1 + h.len, TRUE, FALSE, FALSE)
      r2 == LineBreak(IF h.keep THEN [r1 EXCEPT !.open = TRUE] ELSE r1, "BEST")
  IN  LiteralLoop(r2, t, 1, 1, TRUE)

RECURSIVE FoldedLoop(_, _, _, _, _, _, _, _)
FoldedLoop(r, t, bw, s, e, lead, spaces, breaks) ==
  IF e > Len(t) + 1 THEN r
  ELSE LET ch == Ch(t, e)
           sp2 == IF ch = "END" THEN spaces ELSE ch = "s"
           br2 == IF ch = "END" THEN breaks ELSE ch \in Brk
       IN
       IF breaks THEN
         IF ch \notin Brk
         THEN LET r1 == IF ~lead /\ ch # "END" /\ ch # "s" /\ t[s] = "n" THEN LineBreak(r, "BEST") ELSE r
                  r2 == Breaks(r1, t, s, e - 1)
              IN  FoldedLoop(IF ch # "END" THEN WriteIndent(r2) ELSE r2, t, bw, e, e + 1, ch = "s", sp2, br2)
         ELSE FoldedLoop(r, t, bw, s, e + 1, lead, sp2, br2)
       ELSE IF spaces THEN
         IF ch # "s"
         THEN FoldedLoop(IF s + 1 = e /\ r.col > bw /\ ~lead THEN WriteIndent(r) ELSE PutText(r, t, s, e - 1), t, bw, e, e + 1, lead, sp2, br2)
         ELSE FoldedLoop(r, t, bw, s, e + 1, lead, sp2, br2)
       ELSE IF ch = "END" \/ ch = "s" \/ ch \in Brk
            THEN LET r1 == PutText(r, t, s, e - 1)
                 IN  FoldedLoop(IF ch = "END" THEN LineBreak(r1, "BEST") ELSE r1, t, bw, e, e + 1, lead, sp2, br2)
            ELSE FoldedLoop(r, t, bw, s, Skip(t, e, Stops), lead, FALSE, FALSE)
WriteFolded(r, t, bi, bw) ==
  LET h == Hints(t, bi)
      r1 == Indicator(r, 1 + h.len, TRUE, FALSE, FALSE)
      r2 == LineBreak(IF h.keep THEN [r1 EXCEPT !.open = TRUE] ELSE r1, "BEST")
  IN  FoldedLoop(r2, t, bw, 1, 1, TRUE, FALSE, TRUE)

(***************************************************************************)
(* the emitter: events, queue, contexts                                    *)
(***************************************************************************)
\* o: the IDENTITY of the object a collection event stands for (= the index in evs of the event that first wrote it; in a
\* candidate 0 = a new object) and, for an alias, of the object it refers to
NoEv == [k |-> "-", f |-> FALSE, s |-> "-", a |-> FALSE, t |-> FALSE, g |-> NoTag, n |-> 0, y |-> "P", o |-> 0]
Event(k) == [NoEv EXCEPT !.k = k]
IsColl(ev) == ev.k \in {"SequenceStart", "MappingStart"}
IsCollEnd(ev) == ev.k \in {"SequenceEnd", "MappingEnd"}

\* need_events(count): scan self.events[1:]
RECURSIVE Closed(_, _, _)
Closed(q, i, level) ==
  IF i > Len(q) THEN FALSE
  ELSE LET l2 == IF q[i].k = "DocumentStart" \/ IsColl(q[i]) THEN level + 1
                 ELSE IF q[i].k = "DocumentEnd" \/ IsCollEnd(q[i]) THEN level - 1
                 ELSE IF q[i].k = "StreamEnd" THEN -1 ELSE level
       IN  l2 < 0 \/ Closed(q, i + 1, l2)
NeedEvents(q, count) == ~Closed(q, 2, 0) /\ Len(q) < count + 1
NeedMore(q) ==
  IF q = <<>> THEN TRUE
  ELSE CASE q[1].k = "DocumentStart" -> NeedEvents(q, 1)
         [] q[1].k = "SequenceStart" -> NeedEvents(q, 2)
         [] q[1].k = "MappingStart"  -> NeedEvents(q, 3)
         [] OTHER -> FALSE

Ev(r)  == r.q[1]                                              \* self.event
Nxt(r) == IF Len(r.q) >= 2 THEN r.q[2] ELSE NoEv              \* self.events[0]
Goto(r, s) == [r EXCEPT !.st = s]
PushState(r, s) == [r EXCEPT !.states = Append(@, s)]
PopState(r) == IF r.states = <<>> THEN [r EXCEPT !.crash = TRUE] ELSE [r EXCEPT !.st = Last(r.states), !.states = Front(r.states)]
IncreaseIndent(r, flow, indentless) ==
  [r EXCEPT !.indents = Append(@, r.indent),
            !.indent = IF r.indent = -1 THEN (IF flow THEN r.bi ELSE 0) ELSE IF ~indentless THEN r.indent + r.bi ELSE r.indent]
PopIndent(r) == IF r.indents = <<>> THEN [r EXCEPT !.crash = TRUE] ELSE [r EXCEPT !.indent = Last(r.indents), !.indents = Front(r.indents)]

CheckEmptySequence(ev, nx) == ev.k = "SequenceStart" /\ nx.k = "SequenceEnd"
CheckEmptyMapping(ev, nx)  == ev.k = "MappingStart" /\ nx.k = "MappingEnd"
HasTag(ev) == ~(ev.k = "Scalar" /\ ev.s = "z")                \* every other node event carries a tag, as the Serializer's do
CheckEmptyDocument(nx)     == nx.k = "Scalar" /\ ~nx.a /\ (~HasTag(nx) \/ Imp0(nx)) /\ TextOf(nx) = <<>>
TagName(ev) == IF ev.t THEN "foo" ELSE IF ev.k = "Scalar" THEN "str" ELSE IF ev.k = "SequenceStart" THEN "seq" ELSE "map"
\* the tag of a node event as <<p, rel>> (an implicit tag is a proper extension of the secondary prefix) and as a string
TagId(ev) == IF ev.g # NoTag THEN ev.g ELSE <<"2", "e">>
FullTag(ev) == LET id == TagId(ev) IN
  CASE id[2] = "e" -> PrefixStr(id[1]) \o TagName(ev) [] id[2] = "q" -> PrefixStr(id[1]) [] id[2] = "p" -> PreStr(id[1]) [] OTHER -> "x-private:tag"
FullLen(ev) == LET id == TagId(ev) IN
  CASE id[2] = "e" -> PrefixLen(id[1]) + 3 [] id[2] = "q" -> PrefixLen(id[1]) [] id[2] = "p" -> PrefixLen(id[1]) - 1 [] OTHER -> 13
\* prepare_tag: "tag.startswith(prefix) and (prefix == '!' or len(prefix) < len(tag))", the last prefix in sorted order wins
Matches(P, id) == IF P = "1" THEN id[1] \in {"1", "Y"} ELSE P = id[1] /\ id[2] = "e"
PrepareTag(ev, o) ==
  LET id == TagId(ev)
      ms == {P \in InForce(o) : Matches(P, id)}
      P == CHOOSE x \in ms : \A y \in ms : Rank(y) <= Rank(x)
  IN  IF id = <<"1", "q">> THEN [h |-> "", sfx |-> "!", len |-> 1]                                   \* if tag == '!': return tag
      ELSE IF ms = {} THEN [h |-> "", sfx |-> FullTag(ev), len |-> 3 + FullLen(ev) + (IF id[1] = "U" THEN 5 ELSE 0)]   \* !<...>, non-ASCII %-escaped
      ELSE IF P = id[1] THEN [h |-> HandleOf(P, o), sfx |-> TagName(ev), len |-> HandleLen(P, o) + 3]
      ELSE \* the primary handle '!' and a tag that begins with '!': '!local-foo', '!local-', '!local'
           [h |-> "!", sfx |-> CASE id[2] = "e" -> "local-" \o TagName(ev) [] id[2] = "q" -> "local-" [] OTHER -> "local", len |-> FullLen(ev)]
\* the simple-key limit of the library's reader: a key whose ':' comes more than 1024 characters after its start (or on
\* another line) is not a simple key (scanner.py stale_possible_simple_keys)
ReaderLimit == 1024
\* an upper bound of what a scalar occupies when written in any flow style: quotes + the longest form of every character
RECURSIVE WrittenBound(_, _, _)
WrittenBound(t, i, au) == IF i > Len(t) THEN 2 ELSE (IF Escaped(t[i], au) THEN EscLen(t[i]) ELSE 1) + WrittenBound(t, i + 1, au)
WrittenBoundOf(ev, au) == IF IsLong(ev) THEN 2 + ev.n * (IF Escaped(ev.s, au) THEN EscLen(ev.s) ELSE 1) ELSE WrittenBound(Text(ev.s), 1, au)
CheckSimpleKey(r, ev, nx) ==
  LET len == (IF ev.a \/ ev.k = "Alias" THEN AnchorLen - 1 ELSE 0)
             + (IF ev.k # "Alias" /\ HasTag(ev) THEN PrepareTag(ev, [tags |-> r.dtags]).len ELSE 0)
             + (IF ev.k = "Scalar" THEN Len(TextOf(ev)) ELSE 0)
      an == Analyze(AnalysisText(ev), r.au)
      written == IF ev.k = "Scalar" THEN len - Len(TextOf(ev)) + WrittenBoundOf(ev, r.au) ELSE len
  IN  len < 128 /\ (FixD12 => written <= 1000) /\ (ev.k = "Alias" \/ (ev.k = "Scalar" /\ ~an.empty /\ ~an.multiline)
                    \/ CheckEmptySequence(ev, nx) \/ CheckEmptyMapping(ev, nx))

ChooseScalarStyle(r, ev) ==
  LET an == Analyze(AnalysisText(ev), r.au)  req == StyleOf(ev) IN
  IF r.canon \/ req = "\"" THEN "\""
  ELSE IF req = "" /\ Imp0(ev) /\ ~(r.skey /\ (an.empty \/ an.multiline))
          /\ ((r.flow > 0 /\ an.flowPlain) \/ (r.flow = 0 /\ an.blockPlain)) THEN ""
  ELSE IF req \in {"|", ">"} /\ r.flow = 0 /\ ~r.skey /\ an.block THEN req
  ELSE IF req \in {"", "'"} /\ an.single /\ ~(r.skey /\ an.multiline) THEN "'"
  ELSE "\""

\* anchors are named after the object (the Serializer's names id001, id002, ... have the same length up to id999).
\* r.anchs: the anchors written in the document that is being written; r.badref: an alias was written whose anchor is not
\* among them, or an anchor twice - what the composition stage of the library's reader rejects
AnchorName(ev) == ToString(ev.o)
ProcessAnchor(r, ev) ==
  IF ev.k = "Alias"
  THEN [Tok(Indicator(r, AnchorLen, TRUE, FALSE, FALSE), "ALIAS", AnchorName(ev), "") EXCEPT !.badref = @ \/ ev.o \notin r.anchs]
  ELSE IF ev.a
  THEN [Tok(Indicator(r, AnchorLen, TRUE, FALSE, FALSE), "ANCHOR", AnchorName(ev), "")
          EXCEPT !.badref = @ \/ ev.o \in r.anchs, !.anchs = @ \cup {ev.o}]
  ELSE r
ProcessTag(r, ev) ==
  LET style == ChooseScalarStyle(r, ev)
      elide == IF ev.k = "Scalar"
               THEN (~r.canon \/ ~HasTag(ev)) /\ ((style = "" /\ Imp0(ev)) \/ (style # "" /\ Imp1(ev)))
               ELSE (~r.canon \/ ~HasTag(ev)) /\ ~ev.t
  IN  IF elide THEN r
      ELSE IF HasTag(ev)
      THEN LET pt == PrepareTag(ev, [tags |-> r.dtags]) IN
           \* a handle with nothing after it is not a tag the library's reader accepts ("expected URI")
           [Tok(Indicator(r, pt.len, TRUE, FALSE, FALSE), "TAG", pt.h, pt.sfx) EXCEPT !.badtag = @ \/ (pt.h # "" /\ pt.sfx = "")]
      ELSE Tok(Indicator(r, 1, TRUE, FALSE, FALSE), "TAG", "!", "")                                    \* tag = '!'

ProcessScalar(r, ev) ==
  LET style == ChooseScalarStyle(r, ev)
      t == TextOf(ev)
      split == ~r.skey
      r1 == Tok(r, "SCALAR", IF IsLong(ev) THEN <<ev.s, ev.n>> ELSE ev.s, "")
  IN  CASE style = "\"" -> WriteDouble(r1, t, split, r.bw, r.au)
        [] style = "'"  -> WriteSingle(r1, t, split, r.bw)
        [] style = ">"  -> WriteFolded(r1, t, r.bi, r.bw)
        [] style = "|"  -> WriteLiteral(r1, t, r.bi)
        [] OTHER        -> WritePlain(r1, t, split, r.bw)

\* expect_node(root, sequence, mapping, simple_key) on self.event = ev, self.events[0] = nx
ExpectNode(r0, ev, nx, root, seq, map, skey) ==
  LET r == [r0 EXCEPT !.root = root, !.seqc = seq, !.mapc = map, !.skey = skey] IN
  IF ev.k = "Alias" THEN PopState(ProcessAnchor(r, ev))                                                  \* expect_alias
  ELSE LET r1 == ProcessTag(ProcessAnchor(r, ev), ev) IN
       IF ev.k = "Scalar"                                                                                \* expect_scalar
       THEN PopState(PopIndent(ProcessScalar(IncreaseIndent(r1, TRUE, FALSE), ev)))
       ELSE IF ev.k = "SequenceStart"
       THEN IF r1.flow > 0 \/ r1.canon \/ ev.f \/ CheckEmptySequence(ev, nx)
            THEN Goto(IncreaseIndent([Tok(Indicator(r1, 1, TRUE, TRUE, FALSE), "LSQ", "", "") EXCEPT !.flow = @ + 1], TRUE, FALSE),
                      "first_flow_sequence_item")
            ELSE Goto(IncreaseIndent(r1, FALSE, r1.mapc /\ ~r1.indn), "first_block_sequence_item")
       ELSE IF r1.flow > 0 \/ r1.canon \/ ev.f \/ CheckEmptyMapping(ev, nx)
            THEN Goto(IncreaseIndent([Tok(Indicator(r1, 1, TRUE, TRUE, FALSE), "LBR", "", "") EXCEPT !.flow = @ + 1], TRUE, FALSE),
                      "first_flow_mapping_key")
            ELSE Goto(IncreaseIndent(r1, FALSE, FALSE), "first_block_mapping_key")

\* a simple key begins here (after the space write_indicator / write_plain would insert) ... and its ':' comes here
KeyStart(r) == [r EXCEPT !.kcol = r.col + (IF r.ws THEN 0 ELSE 1), !.kline = r.line]
KeyEnd(r) == [r EXCEPT !.skeys = Append(@, [len |-> r.col - r.kcol, same |-> r.line = r.kline])]

(***************************************************************************)
(* the methods (each works on self.event = Ev(r), which Apply then pops)   *)
(***************************************************************************)
StreamStart(r) ==                               \* expect_stream_start + write_stream_start: BOM for utf-16
  LET enc == EmitterEncoding(opt) IN
  Goto([r EXCEPT !.enc = enc, !.bom = CASE enc = "utf-16-le" -> "le" [] enc = "utf-16-be" -> "be" [] OTHER -> "none"],
       "first_document_start")

RECURSIVE TagDirectives(_, _, _)
TagDirectives(r, tags, i) ==
  IF i > Len(tags) THEN r
  ELSE TagDirectives(LineBreak(Mark(Tok(PutC(r, 8 + Len(tags[i][1]), "ascii", FALSE), "TAGDIR", tags[i][1], tags[i][2]),
                                    "TAG", tags[i][1], tags[i][2]), "BEST"), tags, i + 1)

DocumentStart(r, first) ==
  LET ev == Ev(r)  nx == Nxt(r)
      dtags == IF first \/ opt.tags2 = "same" THEN opt.tags ELSE opt.tags2        \* self.event.tags of THIS document
      tags == TagSeq(dtags) IN
  IF ev.k = "DocumentStart"
  THEN LET r1 == IF (opt.ver # "N" \/ tags # <<>>) /\ r.open
                 THEN WriteIndent(Mark(Indicator(r, 3, TRUE, FALSE, FALSE), "DE", "", "")) ELSE r
           r2 == IF opt.ver # "N"                                                       \* write_version_directive
                 THEN LineBreak(Mark(Tok(PutC(r1, 9, "ascii", FALSE), "YAML", opt.ver, ""), "YAML", opt.ver, ""), "BEST") ELSE r1
           r3 == TagDirectives(r2, tags, 1)
           implicit == first /\ ~opt.es /\ ~r.canon /\ opt.ver = "N" /\ tags = <<>> /\ ~CheckEmptyDocument(nx)
           r4 == IF implicit THEN r3
                 ELSE LET r5 == Tok(Mark(Indicator(WriteIndent(r3), 3, TRUE, FALSE, FALSE), "DS", "", ""), "DS", "", "")
                      IN  IF r.canon THEN WriteIndent(r5) ELSE r5
       \* self.tag_prefixes = DEFAULT_TAG_PREFIXES.copy() + this document's tags: the prefixes in force are per document
       IN  Goto([r4 EXCEPT !.anchs = {}, !.dtags = dtags], "document_root")                               \* anchors are per document
  ELSE LET r1 == IF r.open THEN WriteIndent(Mark(Indicator(r, 3, TRUE, FALSE, FALSE), "DE", "", "")) ELSE r     \* StreamEndEvent
       IN  Goto(r1, "nothing")

DocumentRoot(r) == ExpectNode(Content(PushState(r, "document_end")), Ev(r), Nxt(r), TRUE, FALSE, FALSE, FALSE)

DocumentEnd(r) ==
  LET r1 == WriteIndent(r)
      r2 == IF opt.ee THEN WriteIndent(Tok(Mark(Indicator(r1, 3, TRUE, FALSE, FALSE), "DE", "", ""), "DE", "", "")) ELSE r1
  IN  Goto(r2, "document_start")

FlowSequenceItem(r, first) ==
  LET ev == Ev(r) IN
  IF ev.k = "SequenceEnd"
  THEN LET r1 == [PopIndent(r) EXCEPT !.flow = @ - 1]
           r2 == IF ~first /\ r.canon THEN WriteIndent(Tok(Indicator(r1, 1, FALSE, FALSE, FALSE), "COMMA", "", "")) ELSE r1
       IN  PopState(Tok(Indicator(r2, 1, FALSE, FALSE, FALSE), "RSQ", "", ""))
  ELSE LET r1 == IF first THEN r ELSE Tok(Indicator(r, 1, FALSE, FALSE, FALSE), "COMMA", "", "")
           r2 == IF r.canon \/ r1.col > r.bw THEN WriteIndent(r1) ELSE r1
       IN  ExpectNode(PushState(r2, "flow_sequence_item"), ev, Nxt(r), FALSE, TRUE, FALSE, FALSE)

FlowMappingKey(r, first) ==
  LET ev == Ev(r) IN
  IF ev.k = "MappingEnd"
  THEN LET r1 == [PopIndent(r) EXCEPT !.flow = @ - 1]
           r2 == IF ~first /\ r.canon THEN WriteIndent(Tok(Indicator(r1, 1, FALSE, FALSE, FALSE), "COMMA", "", "")) ELSE r1
       IN  PopState(Tok(Indicator(r2, 1, FALSE, FALSE, FALSE), "RBR", "", ""))
  ELSE LET r1 == IF first THEN r ELSE Tok(Indicator(r, 1, FALSE, FALSE, FALSE), "COMMA", "", "")
           r2 == IF r.canon \/ r1.col > r.bw THEN WriteIndent(r1) ELSE r1
       IN  IF ~r.canon /\ CheckSimpleKey(r2, ev, Nxt(r))
           THEN ExpectNode(PushState(KeyStart(r2), "flow_mapping_simple_value"), ev, Nxt(r), FALSE, FALSE, TRUE, TRUE)
           ELSE ExpectNode(PushState(Tok(Indicator(r2, 1, TRUE, FALSE, FALSE), "QM", "", ""), "flow_mapping_value"),
                           ev, Nxt(r), FALSE, FALSE, TRUE, FALSE)

FlowMappingSimpleValue(r) ==
  ExpectNode(PushState(Indicator(KeyEnd(r), 1, FALSE, FALSE, FALSE), "flow_mapping_key"), Ev(r), Nxt(r), FALSE, FALSE, TRUE, FALSE)
FlowMappingValue(r) ==
  LET r1 == IF r.canon \/ r.col > r.bw THEN WriteIndent(r) ELSE r
  IN  ExpectNode(PushState(Tok(Indicator(r1, 1, TRUE, FALSE, FALSE), "COLON", "", ""), "flow_mapping_key"),
                 Ev(r), Nxt(r), FALSE, FALSE, TRUE, FALSE)

BlockSequenceItem(r, first) ==
  IF ~first /\ Ev(r).k = "SequenceEnd" THEN PopState(PopIndent(r))
  ELSE LET r1 == Entry(WriteIndent(r), "-")
       IN  ExpectNode(PushState(Indicator(r1, 1, TRUE, FALSE, TRUE), "block_sequence_item"), Ev(r), Nxt(r), FALSE, TRUE, FALSE, FALSE)

BlockMappingKey(r, first) ==
  IF ~first /\ Ev(r).k = "MappingEnd" THEN PopState(PopIndent(r))
  ELSE LET r1 == WriteIndent(r) IN
       IF CheckSimpleKey(r1, Ev(r), Nxt(r))
       THEN ExpectNode(PushState(KeyStart(Entry(r1, "key")), "block_mapping_simple_value"), Ev(r), Nxt(r), FALSE, FALSE, TRUE, TRUE)
       ELSE ExpectNode(PushState(Indicator(Entry(r1, "?"), 1, TRUE, FALSE, TRUE), "block_mapping_value"),
                       Ev(r), Nxt(r), FALSE, FALSE, TRUE, FALSE)

BlockMappingSimpleValue(r) ==
  ExpectNode(PushState(Indicator(KeyEnd(r), 1, FALSE, FALSE, FALSE), "block_mapping_key"), Ev(r), Nxt(r), FALSE, FALSE, TRUE, FALSE)
BlockMappingValue(r) ==
  ExpectNode(PushState(Indicator(WriteIndent(r), 1, TRUE, FALSE, TRUE), "block_mapping_key"), Ev(r), Nxt(r), FALSE, FALSE, TRUE, FALSE)

(***************************************************************************)
(* the environment: a grammatical event stream, chosen one event at a time *)
(***************************************************************************)

(***************************************************************************)
(* The documents of one dump_all / serialize_all call may share objects.  What the Representer and the Serializer make of  *)
(* an object is decided per DOCUMENT:                                                                                      *)
(*   BaseRepresenter.represent():  ... self.serialize(node); self.represented_objects = {}; self.object_keeper = []      *)
(*   Serializer.serialize():       ... DocumentEndEvent; self.serialized_nodes = {}; self.anchors = {}; last_anchor_id = 0 *)
(*   Serializer.serialize_node():  if node in self.serialized_nodes: AliasEvent(self.anchors[node])                        *)
(*                                 else: serialized_nodes[node] = True; <the node's events, anchor = self.anchors[node]>   *)
(* gen.ser   = the objects in serialized_nodes (written in the current document),                                           *)
(* gen.anchd = those of them whose anchors[node] is not None (anchor_node met them twice in this document).                *)
(* An object of an earlier document that occurs in the current one is therefore WRITTEN AGAIN (the events of its subtree,  *)
(* one Feed step each, forced: gen.copy); an object already written in the current document is an ALIAS, which the         *)
(* Serializer can only produce when the object carries an anchor.                                                           *)
(***************************************************************************)
Top(g) == Last(g.mon)
RECURSIVE EndIdx(_, _, _)
EndIdx(s, i, lv) == IF IsColl(s[i]) THEN EndIdx(s, i + 1, lv + 1)
                    ELSE IF IsCollEnd(s[i]) THEN (IF lv = 1 THEN i ELSE EndIdx(s, i + 1, lv - 1))
                    ELSE EndIdx(s, i + 1, lv)
EndOf(s, x) == EndIdx(s, x + 1, 1)                          \* the event that closes the collection opened by s[x]
Subtree(s, x) == SubSeq(s, x, EndOf(s, x))
ObjsIn(s, x) == {s[i].o : i \in {j \in x .. EndOf(s, x) : IsColl(s[j])}}
AliasesIn(s, x) == {s[i].o : i \in {j \in x .. EndOf(s, x) : s[j].k = "Alias"}}
\* the objects of earlier documents that can occur here: nothing of them has been written in this document yet (otherwise
\* the Serializer would write an alias in the middle of them) and their aliases refer to objects inside them
Shareable(g) == IF ~Share THEN {}
                ELSE {x \in DOMAIN evs : /\ IsColl(evs[x]) /\ evs[x].o = x /\ x \notin g.ser
                                         /\ ObjsIn(evs, x) \cap g.ser = {}
                                         /\ AliasesIn(evs, x) \subseteq ObjsIn(evs, x)}
\* the first event of an object that is written again; it carries an anchor when it refers to itself, and may when Anchors
Again(g) == UNION {{[evs[x] EXCEPT !.a = a] : a \in (IF x \in AliasesIn(evs, x) THEN {TRUE} ELSE IF Anchors THEN BOOLEAN ELSE {FALSE})}
                   : x \in Shareable(g)}
NodeEvents(g) ==
  LET first == Top(g) = "D0"                           \* the root node: may carry the document's anchor
      as == IF Anchors /\ (first \/ InnerAnchors) THEN BOOLEAN ELSE {FALSE}
      gs == {NoTag} \cup (IF ExplicitTags THEN {<<"2", "e">>} ELSE {}) \cup {TagOfName(x) : x \in TagIds}
  IN  {[k |-> "Scalar", f |-> FALSE, s |-> s, a |-> FALSE, t |-> tg # NoTag, g |-> tg, n |-> 0, y |-> "P", o |-> 0] : s \in ScalarKinds \ {"z"}, tg \in gs}
      \cup {[k |-> "Scalar", f |-> FALSE, s |-> "z", a |-> FALSE, t |-> FALSE, g |-> NoTag, n |-> 0, y |-> "P", o |-> 0] : s \in ScalarKinds \cap {"z"}}
      \cup {[k |-> "Scalar", f |-> FALSE, s |-> c, a |-> FALSE, t |-> tg # NoTag, g |-> tg, n |-> n, y |-> y, o |-> 0] : c \in LongClasses, n \in LongLens, y \in LongStyles, tg \in gs}
      \cup {[Event("Alias") EXCEPT !.o = x] : x \in g.anchd}
      \cup (IF Len(g.mon) - 2 >= MaxDepth THEN {}
            ELSE Again(g) \cup
                 {[k |-> IF c \in {"BS", "FS"} THEN "SequenceStart" ELSE "MappingStart", f |-> c \in {"FS", "FM"}, s |-> "-", a |-> a, t |-> tg # NoTag, g |-> tg, n |-> 0, y |-> "P", o |-> 0]
                  : c \in CollKinds, a \in as, tg \in gs})
Closing(g) == CASE Top(g) = "S"  -> {Event("StreamEnd")}
                [] Top(g) = "D0" -> {[Event("Scalar") EXCEPT !.s = "w"]}
                [] Top(g) = "D1" -> {Event("DocumentEnd")}
                [] Top(g) = "Q"  -> {Event("SequenceEnd")}
                [] Top(g) = "M0" -> {Event("MappingEnd")}
                [] Top(g) = "M1" -> {[Event("Scalar") EXCEPT !.s = "w"]}
Candidates(g) ==
  IF g.mon = <<"END">> THEN {}
  ELSE IF g.copy # <<>> THEN {Head(g.copy)}
  ELSE IF g.n >= MaxEvents THEN Closing(g)
  ELSE CASE Top(g) = "S"  -> (IF g.docs < MaxDocs THEN {Event("DocumentStart")} ELSE {}) \cup (IF g.docs > 0 THEN {Event("StreamEnd")} ELSE {})
         [] Top(g) = "D0" -> NodeEvents(g)
         [] Top(g) = "D1" -> {Event("DocumentEnd")}
         [] Top(g) = "Q"  -> NodeEvents(g) \cup {Event("SequenceEnd")}
         [] Top(g) = "M0" -> NodeEvents(g) \cup {Event("MappingEnd")}
         [] Top(g) = "M1" -> NodeEvents(g)

Feed ==
  /\ em.st # "stream_start" /\ NeedMore(em.q) /\ ~em.crash
  /\ \E c \in Candidates(gen) :
       LET e == IF IsColl(c) /\ c.o = 0 THEN [c EXCEPT !.o = Len(evs) + 1] ELSE c          \* a new object
           again == gen.copy = <<>> /\ IsColl(c) /\ c.o # 0                                \* an object of an earlier document
           rest == IF gen.copy # <<>> THEN Tail(gen.copy) ELSE IF again THEN Tail(Subtree(evs, c.o)) ELSE <<>>
           endDoc == e.k = "DocumentEnd"
       IN
       /\ em' = [em EXCEPT !.q = Append(@, e), !.act = "Feed"]
       /\ gen' = [mon |-> G!MonStep(gen.mon, e.k),
                  \* an object written again is ONE choice; NodeBudget: only nodes count (scalar, alias, collection, object again)
                  n |-> IF gen.copy # <<>> \/ (NodeBudget /\ (IsCollEnd(e) \/ e.k \in {"DocumentStart", "DocumentEnd", "StreamEnd"}))
                        THEN gen.n ELSE gen.n + 1,
                  docs |-> IF e.k = "DocumentStart" THEN gen.docs + 1 ELSE gen.docs,
                  ser |-> IF endDoc THEN {} ELSE IF IsColl(e) THEN gen.ser \cup {e.o} ELSE gen.ser,
                  anchd |-> IF endDoc THEN {} ELSE IF IsColl(e) /\ e.a THEN gen.anchd \cup {e.o} ELSE gen.anchd,
                  copy |-> rest]
       /\ evs' = Append(evs, e)
  /\ UNCHANGED opt

Apply(r, a) == em' = [r EXCEPT !.q = Tail(r.q), !.act = a] /\ UNCHANGED <<opt, gen, evs>>
Ready(s) == em.st = s /\ ~NeedMore(em.q) /\ ~em.crash

AStreamStart == em.st = "stream_start" /\ em' = [StreamStart(em) EXCEPT !.act = "StreamStart"] /\ UNCHANGED <<opt, gen, evs>>     \* the StreamStartEvent is implicit
AFirstDocumentStart == Ready("first_document_start") /\ Apply(DocumentStart(em, TRUE), "FirstDocumentStart")
ADocumentStart == Ready("document_start") /\ Apply(DocumentStart(em, FALSE), "DocumentStart")
ADocumentRoot == Ready("document_root") /\ Apply(DocumentRoot(em), "DocumentRoot")
ADocumentEnd == Ready("document_end") /\ Apply(DocumentEnd(em), "DocumentEnd")
AFirstFlowSequenceItem == Ready("first_flow_sequence_item") /\ Apply(FlowSequenceItem(em, TRUE), "FirstFlowSequenceItem")
AFlowSequenceItem == Ready("flow_sequence_item") /\ Apply(FlowSequenceItem(em, FALSE), "FlowSequenceItem")
AFirstFlowMappingKey == Ready("first_flow_mapping_key") /\ Apply(FlowMappingKey(em, TRUE), "FirstFlowMappingKey")
AFlowMappingKey == Ready("flow_mapping_key") /\ Apply(FlowMappingKey(em, FALSE), "FlowMappingKey")
AFlowMappingSimpleValue == Ready("flow_mapping_simple_value") /\ Apply(FlowMappingSimpleValue(em), "FlowMappingSimpleValue")
AFlowMappingValue == Ready("flow_mapping_value") /\ Apply(FlowMappingValue(em), "FlowMappingValue")
AFirstBlockSequenceItem == Ready("first_block_sequence_item") /\ Apply(BlockSequenceItem(em, TRUE), "FirstBlockSequenceItem")
ABlockSequenceItem == Ready("block_sequence_item") /\ Apply(BlockSequenceItem(em, FALSE), "BlockSequenceItem")
AFirstBlockMappingKey == Ready("first_block_mapping_key") /\ Apply(BlockMappingKey(em, TRUE), "FirstBlockMappingKey")
ABlockMappingKey == Ready("block_mapping_key") /\ Apply(BlockMappingKey(em, FALSE), "BlockMappingKey")
ABlockMappingSimpleValue == Ready("block_mapping_simple_value") /\ Apply(BlockMappingSimpleValue(em), "BlockMappingSimpleValue")
ABlockMappingValue == Ready("block_mapping_value") /\ Apply(BlockMappingValue(em), "BlockMappingValue")

\* a configuration file cannot say -1: None is written 100 there
Dec(S) == {IF x = 100 THEN -1 ELSE x : x \in S}
Options ==
  {o \in [indent : Dec(Indents), width : Dec(Widths), lb : LineBreaks, enc : Encodings, stream : Streams, es : ExplStart, ee : ExplEnd,
          ver : Versions, tags : TagSets, tags2 : TagSets2, canon : Canon, au : Unicode, api : Apis] :
     /\ o.stream = "binary" => o.enc # "N"                       \* str chunks into a bytes stream: the caller's error
     /\ (o.api = "emit" /\ o.stream # "binary") => o.enc = "N"   \* emit() has no encoding option
     /\ o.tags2 # "same" => (o.api = "emit" /\ o.tags2 # o.tags)  \* only emit() takes the tags per document
  }

Init == /\ opt \in Options
        /\ em = [st |-> "stream_start", states |-> <<>>, q |-> <<>>, indents |-> <<>>, indent |-> -1, flow |-> 0,
                 root |-> FALSE, seqc |-> FALSE, mapc |-> FALSE, skey |-> FALSE,
                 line |-> 0, col |-> 0, ws |-> TRUE, indn |-> TRUE, open |-> FALSE,
                 bi |-> BestIndent(opt), bw |-> BestWidth(opt), canon |-> opt.canon, au |-> opt.au,
                 enc |-> "N", bom |-> "none", cur |-> NewLine, lines |-> <<>>, entries |-> <<>>, marks |-> <<>>, ctoks |-> <<>>,
                 kcol |-> 0, kline |-> 0, skeys |-> <<>>, badtag |-> FALSE, dtags |-> "N", anchs |-> {}, badref |-> FALSE, crash |-> FALSE, act |-> "-"]
        /\ gen = [mon |-> <<"S">>, n |-> 0, docs |-> 0, ser |-> {}, anchd |-> {}, copy |-> <<>>]
        /\ evs = <<>>

Next == \/ Feed \/ AStreamStart \/ AFirstDocumentStart \/ ADocumentStart \/ ADocumentRoot \/ ADocumentEnd
        \/ AFirstFlowSequenceItem \/ AFlowSequenceItem \/ AFirstFlowMappingKey \/ AFlowMappingKey
        \/ AFlowMappingSimpleValue \/ AFlowMappingValue
        \/ AFirstBlockSequenceItem \/ ABlockSequenceItem \/ AFirstBlockMappingKey \/ ABlockMappingKey
        \/ ABlockMappingSimpleValue \/ ABlockMappingValue
Spec == Init /\ [][Next]_vars

(***************************************************************************)
(* L => H.  Clauses b, c, f speak about single lines / entries, and what    *)
(* has been written is never taken back, so judging the finished stream    *)
(* judges every prefix; every unfinished state extends to a finished one.  *)
(***************************************************************************)
Done == em.st = "nothing"
\* the text written so far, as H sees it: best_line_break rendered, the unfinished last line included
Rendered(r) ==
  LET ls == [i \in DOMAIN r.lines |-> [r.lines[i] EXCEPT !.brk = IF @ = "BEST" THEN BestBreak(opt) ELSE @]]
  IN  IF r.cur.started \/ r.cur.ind > 0 THEN Append(ls, [ind |-> r.cur.ind, brk |-> "EOF", cls |-> r.cur.cls]) ELSE ls
Obs == [outcome |-> IF em.crash THEN "exception" ELSE "ok",
        rtype |-> IF em.enc = "N" THEN "str" ELSE "bytes", decodes |-> TRUE, bom |-> em.bom,
        lines |-> Rendered(em), entries |-> em.entries, marks |-> em.marks, ndocs |-> gen.docs, reread |-> <<>>,
        refs |-> <<>>, recompose |-> <<>>]
HO == HOpt(opt)

NoCrash == ~em.crash
\* the Python emitter's normalisation and the LibYAML hand-over agree with what the statement calls the effective values
Normalised == /\ BestIndent(opt) = H!EffIndent(HO)
              /\ (opt.lb \in {"CR", "LF", "CRLF"} => BestBreak(opt) = opt.lb)
              /\ BestWidth(opt) > 2 * BestIndent(opt)
              /\ (opt.api # "emit" => BindingFaithful(opt))
HB == Done => H!ClauseB(HO, Obs)
HC == Done => H!ClauseC(HO, Obs)
HD == em.st # "stream_start" => H!ClauseD(HO, Obs)
HE == Done => H!ClauseE(HO, Obs)
HF == Done => H!ClauseF(HO, Obs)
\* canonical output: the independent recogniser accepts the tokens and they denote the events that were fed
Wanted ==
  LET s == SelectSeq(evs, LAMBDA e : e.k # "StreamEnd")
  IN  [i \in DOMAIN s |->
        LET e == s[i] IN
        [k |-> e.k, a |-> IF e.a \/ e.k = "Alias" THEN AnchorName(e) ELSE "",
         t |-> IF e.k \in {"Scalar", "SequenceStart", "MappingStart"} /\ HasTag(e) THEN FullTag(e) ELSE "",
         v |-> IF e.k = "Scalar" THEN (IF IsLong(e) THEN <<e.s, e.n>> ELSE e.s) ELSE ""]]
HG == (Done /\ opt.canon) => C!Denotes(em.ctoks, Wanted)
\* L's own bookkeeping is consistent with what it wrote: an entry that is first on its line sits at the line's indentation
EntriesConsistent == Done => \A i \in DOMAIN em.entries : LET e == em.entries[i] IN
                        e.line \in DOMAIN Rendered(em) /\ Rendered(em)[e.line].ind = e.ind /\ (e.first => e.col = e.ind)
\* the part of clause (a) that the layout decides: every key L wrote as a simple key is one the library's reader can still
\* recognise as a simple key.  NOT an invariant of the code without the D12 repair (a key of 103..122 astral characters
\* written as \UXXXXXXXX escapes is a counterexample): the harness takes em.skeys from the dump, replays every state and lets
\* the real readers decide; with FixD12 it is checked as an invariant.
KeysReadable == \A i \in DOMAIN em.skeys : em.skeys[i].same /\ em.skeys[i].len <= ReaderLimit
HA == FixD12 => KeysReadable
\* ... and every tag L writes is one the reader can read: never a handle with an empty suffix
HT == ~em.badtag
\* ... and every alias L writes has its anchor earlier in the SAME document, no anchor twice in a document (what the
\* composition stage of the reader demands).  It holds because serialized_nodes / anchors are emptied with every document:
\* without the reset of gen.ser an object of an earlier document would be written as a bare alias.
HR == ~em.badref
Complete == Done => (em.states = <<>> /\ em.indents = <<>> /\ em.indent = -1 /\ em.flow = 0 /\ gen.mon = <<"END">>)
=============================================================================
