------------------------------- MODULE Reduce -------------------------------
(***************************************************************************)
(* C17: Python objects survive dump / unsafe load as they survive pickle   *)
(* protocol 2.                                                             *)
(*                                                                         *)
(* A state is an abstract object graph g (objects of a class family with   *)
(* one class per reduction shape, built one object per step in canonical   *)
(* breadth-first numbering, cycles and sharing included).  For every       *)
(* complete graph                                                          *)
(*   H : PickleRebuild(g) - the declarative semantics of pickle protocol 2 *)
(*       on the reduce values - and the verdict operators of H_Reduce      *)
(*   L : Represent(g) - representer.py: represent_data alias bookkeeping,  *)
(*       ignore_aliases, the case analysis of represent_object - followed  *)
(*       by Construct - constructor.py: construct_object with the          *)
(*       node->object cache, the recursive_objects guard, two-phase        *)
(*       (generator) constructors, deep_construct, python/object,          *)
(*       /new, /apply, set_python_instance_state, generators drained at    *)
(*       the end of the document.                                          *)
(* TLC checks L => H on every graph of the bounded space.  The code has    *)
(* eight places where it deviates from the statement (section DEVIATIONS);  *)
(* L models each as it is, with a named switch that models the repair, so  *)
(* that TLC can check (a) the repaired design refines H everywhere and     *)
(* (b) every deviation of the design as it is is explained by these        *)
(* switches and by nothing else.                                           *)
(***************************************************************************)
EXTENDS Naturals, Sequences, FiniteSets, TLC

CONSTANTS MaxObjs,      \* objects per graph
          Shapes,       \* subset of AllShapes
          Leaves,       \* leaf kinds used for kids
          KidsRoot,     \* max number of kids of object 1
          KidsRest,     \* max number of kids of the other objects
          Schemes,      \* attribute naming schemes used (subset of AllSchemes)
          Homes,        \* where the protocol methods of an object's class are defined (subset of {"own", "inh"})
          CodeFixes     \* which deviations are repaired in the tree the model describes ({} = pinned tree)

H == INSTANCE H_Reduce

AllShapes == {"list", "dict", "tuple", "set", "P", "PA", "S", "SD", "GS", "GT", "GV", "GC", "GL", "NA", "NT", "R2", "R3", "RL", "RD",
              "CR", "ML", "MD", "MS", "OD", "MO", "XS", "E0", "DS", "SB", "E0T", "PT", "ST", "DST"}
AllFixes  == {"deepreg", "slotsnone", "falsystate", "nonestate", "emptytuple", "latefill", "scalarsub", "stateorder"}
\* Attribute names are part of the state.  The naming scheme of an object gives the name of its first attribute (the others
\* are b, c, ...): an ordinary name, 'extend' (the method construct_python_object_apply calls), a __dunder__ name, an
\* underscore-private name, names of other container methods.
AllSchemes == {"ord", "ext", "dun", "prv", "app", "upd"}
\* WHERE the protocol methods are defined is part of the shape: h = "own" - on the class itself, h = "inh" - every one of
\* them (__setstate__, __getstate__, __reduce__, __getnewargs__, __setattr__, __slots__, extend / __setitem__) on a base
\* class, the object's class being an empty subclass.  Both protocols find them through the MRO - pickle with getattr,
\* the code with hasattr(data, '__reduce_ex__'), hasattr(instance, '__setstate__'), hasattr(instance, '__dict__'),
\* instance.extend - so nothing below depends on h: ReduceOf, HasSetstate, HasDict are functions of the shape alone.
\* That is a statement about the code which the replay of both homes checks.  (Two classes do change with their home:
\* an empty subclass of a __slots__-only class gains a __dict__, and copyreg.dispatch_table is keyed by the exact class;
\* both protocols agree there and the rebuilt graph is the same.)
Twinned == AllShapes \ {"list", "dict", "tuple", "set", "OD"}
FirstName(n) == CASE n = "ext" -> "extend" [] n = "dun" -> "__tag__" [] n = "prv" -> "_p" [] n = "app" -> "append"
                  [] n = "upd" -> "update" [] OTHER -> "a"

Range(s) == {s[i] : i \in DOMAIN s}
Min(a, b) == IF a < b THEN a ELSE b

(***************************************************************************)
(* Values.  A kid of an abstract object is [r, l]: a reference to object r *)
(* (r > 0) or a leaf of kind l.  Reduce values and constructed values are  *)
(* views [t, r, l, e]: an atom (reference or leaf) or a transient          *)
(* list / tuple / dict with its elements.                                  *)
(***************************************************************************)
Lf(l) == [r |-> 0, l |-> l]
Rf(i) == [r |-> i, l |-> ""]
NoRV  == [r |-> 0, l |-> "?"]
At(v)  == [t |-> "atom",  r |-> v.r, l |-> v.l, e |-> <<>>]
VL(es) == [t |-> "list",  r |-> 0, l |-> "", e |-> es]
VT(es) == [t |-> "tuple", r |-> 0, l |-> "", e |-> es]
VD(ps) == [t |-> "dict",  r |-> 0, l |-> "", e |-> ps]          \* ps : Seq of <<key, view>>
VNone  == At(Lf("z"))
IsNoneV(v) == v.t = "atom" /\ v.r = 0 /\ v.l = "z"
RVof(v) == [r |-> v.r, l |-> v.l]

\* leaf kinds: i int, i0 the int 0, s str, s0 the empty str, z None, c complex, n class by name, f function by name,
\* m module, e enum member, b bytes; k0.. dict keys; n0.. the length marker GT.__setstate__ leaves behind
FalsyLeaves == {"i0", "s0", "z"}
ANames == <<"a", "b", "c", "d", "e", "f", "g", "h">>
Keys   == <<"k0", "k1", "k2", "k3", "k4", "k5", "k6", "k7">>
DNames == <<"d_k0", "d_k1", "d_k2", "d_k3", "d_k4", "d_k5", "d_k6", "d_k7">>
INames == <<"i0", "i1", "i2", "i3", "i4", "i5", "i6", "i7">>
PNames == <<"p0", "p1", "p2", "p3", "p4", "p5", "p6", "p7">>
LenLeaf == <<"n0", "n1", "n2", "n3", "n4", "n5", "n6", "n7", "n8">>
\* Python's sorted() order of all attribute names of the family
AttrOrder == <<"__tag__", "_p", "a", "append", "b", "c", "d", "d_k0", "d_k1", "d_k2", "d_k3", "d_k4", "d_k5", "d_k6", "d_k7", "e",
               "extend", "f", "g", "h",
               "i0", "i1", "i2", "i3", "i4", "i5", "i6", "i7", "items", "n", "p0", "p1", "p2", "p3", "p4", "p5", "p6", "p7", "update", "v",
               "x0", "x1", "x2", "x3", "x4", "x5", "x6", "x7">>
XNames == <<"x0", "x1", "x2", "x3", "x4", "x5", "x6", "x7">>
\* Python's sorted() order of every dict key that occurs (keys of dicts of the graph, and of the transient dicts the loader builds)
KeyOrder == <<"__tag__", "_p", "a", "append", "args", "b", "c", "d", "dictitems", "e", "extend", "f", "g", "h", "items",
              "k0", "k1", "k2", "k3", "k4", "k5", "k6", "k7", "listitems", "p0", "p1", "p2", "p3", "p4", "p5", "p6", "p7", "state", "update">>
LeafOrder == <<"b", "c", "e", "f", "i", "i0", "m", "n", "s", "s0", "z">>
KeyIndex(k) == CHOOSE j \in DOMAIN Keys : Keys[j] = k

NameAt(o, j) == IF j = 1 THEN FirstName(o.n) ELSE ANames[j]
AttrsU(o) == [j \in DOMAIN o.a |-> <<NameAt(o, j), At(o.a[j])>>]                  \* in the order of the section
SortPairs(ps) == LET present == SelectSeq(AttrOrder, LAMBDA nm : \E j \in DOMAIN ps : ps[j][1] = nm)
                 IN  [x \in DOMAIN present |-> ps[CHOOSE j \in DOMAIN ps : ps[j][1] = present[x]]]
Attrs(o) == SortPairs(AttrsU(o))                                                  \* sorted by name (sort_keys)
Keyed(vs) == [j \in DOMAIN vs |-> <<Keys[j], At(vs[j])>>]
\* an OrderedDict is filled in descending key order, so that its order differs from the sorted order and is observable
KeyedDesc(vs) == [j \in DOMAIN vs |-> <<Keys[Len(vs) + 1 - j], At(vs[j])>>]
Atoms(vs) == [j \in DOMAIN vs |-> At(vs[j])]
Pad2(vs)  == [j \in 1 .. 2 |-> IF j <= Len(vs) THEN vs[j] ELSE Lf("z")]
DictOrNone(o) == IF o.a = <<>> THEN VNone ELSE VD(Attrs(o))

(***************************************************************************)
(* The layout of a class is part of its shape: whether its instances have  *)
(* an instance dictionary, which names are slots (declared anywhere along  *)
(* the MRO), and whether it defines __setstate__.  The classes that use    *)
(* the default reduction cover the product                                 *)
(*                 no __setstate__           __setstate__ (state as given) *)
(*   no dict, no slots     E0                     E0T                      *)
(*   dict only             P (PA)                 PT                       *)
(*   slots only            S                      ST                       *)
(*   dict and slots        SD ('__dict__' is a slot; first attribute in a  *)
(*                         slot, the others in the dictionary),            *)
(*                         DS (slots declared by a subclass of a class     *)
(*                         without slots), SB (subclass without slots of a *)
(*                         class with slots)      DST ('__dict__' a slot)  *)
(* For DS, SB, DST the section p holds the dictionary entries p0, p1, ...  *)
(* and the section a the slot values (named like the attributes of S), so  *)
(* that both parts of the state can be empty or not independently.         *)
(* Where a value lives is observable (attribute access through the slot    *)
(* descriptor vs vars(obj)), hence part of the heap: edge class "s" = slot *)
(* value, "a" = entry of the instance dictionary.                          *)
(***************************************************************************)
LayoutShapes == {"E0", "DS", "SB", "E0T", "PT", "ST", "DST"}
StateT       == {"E0T", "PT", "ST", "DST"}                \* __setstate__ defined, default __getstate__
HasSetstate(lab) == lab \in {"GS", "GT", "GV", "GC", "GL"} \cup StateT
HasDict(lab)     == lab \in {"P", "PA", "SD", "GS", "GT", "GV", "GC", "GL", "NA", "R2", "R3", "RL", "RD", "CR", "CRi", "ML", "MD", "MS", "OD", "MO", "XS",
                             "DS", "SB", "PT", "DST"}
SpecialNames == {"extend", "__tag__", "_p", "append", "update"}
SlotNames(lab) == CASE lab \in {"S", "DS", "SB"} -> Range(ANames) \cup SpecialNames
                    [] lab \in {"ST", "DST"}     -> Range(ANames) \cup SpecialNames \cup {"n"}
                    [] lab = "SD"                -> {"a"} \cup SpecialNames
                    [] OTHER                     -> {}

(***************************************************************************)
(* The class family: what each class's reduction returns (the interface    *)
(* between the classes and both protocols).                                *)
(*   new   function is copyreg.__newobj__ (args[0] = cls stripped)         *)
(*   fn    class / function named by the tag                               *)
(*   args, state (VNone = None), li = listitems, di = dictitems (<<>> =    *)
(*   None or exhausted iterator)                                           *)
(***************************************************************************)
Rd(new, fn, args, state, li, di) == [new |-> new, fn |-> fn, args |-> args, state |-> state, li |-> li, di |-> di]

\* object.__getstate__ (Python >= 3.11): the instance dictionary, None when it is empty or absent; with slots that are
\* set the 2-tuple (that, {slot: value})
DefaultState(dpairs, spairs) ==
  LET d == IF dpairs = <<>> THEN VNone ELSE VD(dpairs)
  IN  IF spairs = <<>> THEN d ELSE VT(<<d, VD(spairs)>>)
\* dictionary entries / slot values of an object of a layout shape (both in sorted order)
DPairs(o) == IF o.s = "PT" THEN Attrs(o) ELSE [j \in DOMAIN o.p |-> <<PNames[j], At(o.p[j])>>]
SPairs(o) == IF o.s \in {"PT", "E0", "E0T"} THEN <<>> ELSE Attrs(o)

ReduceOf(o) ==
  CASE o.s = "P"  -> Rd(TRUE, "P", <<>>, DictOrNone(o), <<>>, <<>>)
    [] o.s = "PA" -> Rd(TRUE, "PA", <<>>, DictOrNone(o), <<>>, <<>>)            \* like P; its __setattr__ must not run
    [] o.s = "GL" -> Rd(TRUE, "GL", <<>>, VD(<< <<"items", At(o.p[1])>> >>), <<>>, <<>>)  \* state holds a list of the graph
    [] o.s = "S"  -> Rd(TRUE, "S", <<>>, IF o.a = <<>> THEN VNone ELSE VT(<<VNone, VD(Attrs(o))>>), <<>>, <<>>)
    [] o.s = "SD" -> Rd(TRUE, "SD", <<>>,
                        IF o.a = <<>> THEN VNone
                        ELSE VT(<<IF Len(o.a) = 1 THEN VNone ELSE VD(SortPairs(Tail(AttrsU(o)))), VD(<<AttrsU(o)[1]>>)>>),
                        <<>>, <<>>)
    [] o.s \in LayoutShapes -> Rd(TRUE, o.s, <<>>, DefaultState(DPairs(o), SPairs(o)), <<>>, <<>>)
    [] o.s = "GS" -> Rd(TRUE, "GS", <<>>, VD(Attrs(o)), <<>>, <<>>)
    [] o.s = "GT" -> Rd(TRUE, "GT", <<>>, VL(Atoms(o.p)), <<>>, <<>>)
    [] o.s = "GV" -> Rd(TRUE, "GV", <<>>, At(o.p[1]), <<>>, <<>>)
    [] o.s = "GC" -> Rd(TRUE, "GC", <<>>, VD(<< <<"items", VL(Atoms(o.p))>> >>), <<>>, <<>>)
    [] o.s = "NA" -> Rd(TRUE, "NA", Atoms(o.p), DictOrNone(o), <<>>, <<>>)
    [] o.s = "NT" -> Rd(TRUE, "NT", Atoms(Pad2(o.p)), VNone, <<>>, <<>>)
    [] o.s = "R2" -> Rd(FALSE, "make_r2", Atoms(o.p), VNone, <<>>, <<>>)
    \* copyreg.dispatch_table is keyed by the exact class: an empty subclass of CR is not in it and reduces by default
    [] o.s = "CR" /\ o.h = "inh" -> Rd(TRUE, "CRi", <<>>, IF o.p = <<>> THEN VNone ELSE VD([j \in DOMAIN o.p |-> <<PNames[j], At(o.p[j])>>]), <<>>, <<>>)
    [] o.s = "CR" -> Rd(FALSE, "make_cr", Atoms(o.p), VNone, <<>>, <<>>)          \* through copyreg.dispatch_table
    [] o.s = "R3" -> Rd(FALSE, "R3", Atoms(o.p), VD(Attrs(o)), <<>>, <<>>)
    [] o.s = "RL" -> Rd(FALSE, "RL", <<>>, DictOrNone(o), Atoms(o.p), <<>>)
    [] o.s = "RD" -> Rd(FALSE, "RD", <<>>, VNone, <<>>, Keyed(o.p))
    [] o.s = "ML" -> Rd(TRUE, "ML", <<>>, DictOrNone(o), Atoms(o.p), <<>>)
    [] o.s = "MD" -> Rd(TRUE, "MD", <<>>, DictOrNone(o), <<>>, Keyed(o.p))
    [] o.s = "MS" -> Rd(FALSE, "MS", <<VL(Atoms(o.p))>>, VD(Attrs(o)), <<>>, <<>>)
    [] o.s = "OD" -> Rd(FALSE, "OD", <<>>, VNone, <<>>, KeyedDesc(o.p))                \* pickle's view; yaml has its own representer
    \* subclasses of types that have their own representer entry go through represent_object like everything else
    [] o.s = "MO" -> Rd(FALSE, "MO", <<>>, DictOrNone(o), <<>>, Keyed(o.p))     \* OrderedDict subclass with attributes
    [] o.s = "XS" -> Rd(TRUE, "XS", <<At(o.p[1])>>, DictOrNone(o), <<>>, <<>>)  \* int / str / float / bytes / complex subclass
    [] OTHER -> Rd(FALSE, "?", <<>>, VNone, <<>>, <<>>)

\* classes whose default reduction hands out the instance dictionary itself as the state (not a copy)
OwnDictState(fn) == fn \in {"P", "PA", "CRi", "NA", "ML", "MD", "MS", "XS"}

(***************************************************************************)
(* Class semantics, shared by H and L (both protocols call the same        *)
(* methods).  An object under construction is [lab, dig, pos, dv, at]:     *)
(* positional kids, dict values, attributes.  "ERR" marks a Python         *)
(* exception raised by the class or the protocol step.                     *)
(***************************************************************************)
Kid(c, k, v) == [c |-> c, k |-> k, r |-> v.r, d |-> v.l, dk |-> v.l, soft |-> FALSE]
Empty(lab)   == [lab |-> lab, dig |-> "", pos |-> <<>>, dv |-> <<>>, at |-> <<>>]
ERR(what)    == [lab |-> "ERR", dig |-> what, pos |-> <<>>, dv |-> <<>>, at |-> <<>>]
IsERR(rec)   == rec.lab = "ERR"

SetNamed(kids, c, name, v) ==
  IF \E j \in DOMAIN kids : kids[j].c = c /\ kids[j].k = name
  THEN [j \in DOMAIN kids |-> IF kids[j].c = c /\ kids[j].k = name THEN Kid(c, name, v) ELSE kids[j]]
  ELSE Append(kids, Kid(c, name, v))
SetAttr(rec, name, v) == [rec EXCEPT !.at = SetNamed(@, "a", name, v)]          \* rec.__dict__[name] = v
SetSlot(rec, name, v) == [rec EXCEPT !.at = SetNamed(@, "s", name, v)]          \* through the slot descriptor
SetItem(rec, key, v)  == [rec EXCEPT !.dv = SetNamed(@, "v", key, v)]
\* setattr(rec, name, v) of a class without __setattr__: a slot descriptor of that name comes first, then the instance
\* dictionary; without either AttributeError
PySetattr(rec, name, v) == IF name \in SlotNames(rec.lab) THEN SetSlot(rec, name, v)
                           ELSE IF HasDict(rec.lab) THEN SetAttr(rec, name, v) ELSE ERR("AttributeError")

RECURSIVE SetAttrs(_, _)            \* ps : Seq of <<name, view>>
SetAttrs(rec, ps) == IF ps = <<>> THEN rec ELSE SetAttrs(SetAttr(rec, Head(ps)[1], RVof(Head(ps)[2])), Tail(ps))
RECURSIVE PySetattrs(_, _)
PySetattrs(rec, ps) == IF ps = <<>> \/ IsERR(rec) THEN rec ELSE PySetattrs(PySetattr(rec, Head(ps)[1], RVof(Head(ps)[2])), Tail(ps))
\* rec.__dict__.update(ps): AttributeError when there is no instance dictionary
DictUpdate(rec, ps) == IF HasDict(rec.lab) THEN SetAttrs(rec, ps) ELSE ERR("AttributeError")
RECURSIVE SetItems(_, _)
SetItems(rec, ps) == IF ps = <<>> THEN rec ELSE SetItems(SetItem(rec, Head(ps)[1], RVof(Head(ps)[2])), Tail(ps))

RECURSIVE JoinKinds(_, _)
JoinKinds(order, kinds) == IF order = <<>> THEN ""
                           ELSE (IF Head(order) \in kinds THEN "|" \o Head(order) ELSE "") \o JoinKinds(Tail(order), kinds)
SetDig(kinds) == "m" \o JoinKinds(LeafOrder, kinds)

\* cls.__new__(cls, args...) when new, else fn(args...); args : Seq of views
ClsNew(fn, new, args) ==
  CASE fn \in ({"P", "PA", "CRi", "S", "SD", "GS", "GT", "GV", "GC", "GL", "ML", "MD"} \cup LayoutShapes) /\ new -> Empty(fn)
    [] fn = "NA" /\ new -> [Empty("NA") EXCEPT !.pos = [j \in DOMAIN args |-> Kid("t", "", RVof(args[j]))]]
    [] fn = "NT" /\ new -> IF Len(args) # 2 THEN ERR("TypeError")
                           ELSE [Empty("NT") EXCEPT !.pos = [j \in DOMAIN args |-> Kid("t", "", RVof(args[j]))]]
    [] fn \in {"make_r2", "make_cr", "R3"} /\ ~new ->
         SetAttrs(Empty(CASE fn = "make_r2" -> "R2" [] fn = "make_cr" -> "CR" [] OTHER -> "R3"),
                  [j \in DOMAIN args |-> <<PNames[j], args[j]>>])
    [] fn \in {"RL", "RD", "MO"} /\ ~new -> IF args # <<>> THEN ERR("TypeError") ELSE Empty(fn)
    [] fn = "XS" /\ new -> IF Len(args) # 1 \/ args[1].r # 0 THEN ERR("TypeError") ELSE [Empty("XS") EXCEPT !.dig = args[1].l]
    [] fn = "MS" /\ ~new -> IF Len(args) # 1 \/ args[1].t # "list" THEN ERR("TypeError")
                            ELSE [Empty("MS") EXCEPT !.dig = SetDig({args[1].e[j].l : j \in DOMAIN args[1].e})]
    [] fn = "OD" /\ ~new -> IF args = <<>> THEN Empty("OD")
                            ELSE IF Len(args) # 1 \/ args[1].t # "list" THEN ERR("TypeError")
                            ELSE SetItems(Empty("OD"), [j \in DOMAIN args[1].e |-> <<args[1].e[j].e[1].l, args[1].e[j].e[2]>>])
    [] OTHER -> ERR("TypeError")

\* instance.__setstate__(state) of the classes that define it
ClsSetState(rec, sv) ==
  CASE rec.lab = "GS" -> IF sv.t # "dict" THEN ERR("TypeError") ELSE SetAttrs(rec, sv.e)
    [] rec.lab = "GT" -> IF sv.t \notin {"list", "tuple"} THEN ERR("TypeError")
                         ELSE SetAttr(SetAttrs(rec, [j \in DOMAIN sv.e |-> <<ANames[j], sv.e[j]>>]), "n", Lf(LenLeaf[Len(sv.e) + 1]))
    [] rec.lab = "GV" -> SetAttr(rec, "v", RVof(sv))
    \* GC copies what it finds inside state["items"] at the moment of the call
    [] rec.lab = "GC" -> IF sv.t # "dict" \/ ~(\E j \in DOMAIN sv.e : sv.e[j][1] = "items") THEN ERR("KeyError")
                         ELSE LET it == sv.e[CHOOSE j \in DOMAIN sv.e : sv.e[j][1] = "items"][2] IN
                              IF it.t \notin {"list", "tuple"} THEN ERR("TypeError")
                              ELSE SetAttrs(rec, [j \in DOMAIN it.e |-> <<ANames[j], it.e[j]>>])
    \* GL keeps state["items"] (a list shared with the rest of the graph) and copies what is in it at this moment
    [] rec.lab = "GL" -> IF sv.t # "dict" \/ ~(\E j \in DOMAIN sv.e : sv.e[j][1] = "items") THEN ERR("KeyError")
                         ELSE LET it == sv.e[CHOOSE j \in DOMAIN sv.e : sv.e[j][1] = "items"][2] IN
                              IF it.t \notin {"list", "tuple"} THEN ERR("TypeError")
                              ELSE SetAttrs(SetAttr(rec, "items", RVof(it)), [j \in DOMAIN it.e |-> <<XNames[j], it.e[j]>>])
    \* E0T, PT, ST, DST apply the state the way the default does (2-tuple = (dictionary part, slot part), None = nothing)
    \* and leave a mark that says which form of state they were given
    [] rec.lab \in StateT ->
         LET two   == sv.t = "tuple" /\ Len(sv.e) = 2
             dpart == IF two THEN sv.e[1] ELSE sv
             spart == IF two THEN sv.e[2] ELSE VD(<<>>)
         IN  IF ~(dpart.t = "dict" \/ IsNoneV(dpart)) \/ spart.t # "dict" THEN ERR("TypeError")
             ELSE LET r1 == IF dpart.t = "dict" /\ dpart.e # <<>> THEN DictUpdate(rec, dpart.e) ELSE rec
                      r2 == PySetattrs(r1, spart.e)
                  IN  IF IsERR(r2) THEN r2 ELSE PySetattr(r2, "n", Lf(IF two THEN "n2" ELSE "n0"))
    [] OTHER -> ERR("AttributeError")

\* instance.extend(items)
ClsExtend(rec, items) ==
  CASE rec.lab = "ML" -> [rec EXCEPT !.pos = @ \o [j \in DOMAIN items |-> Kid("i", "", RVof(items[j]))]]
    [] rec.lab = "RL" -> LET n == Cardinality({j \in DOMAIN rec.at : \E x \in DOMAIN INames : rec.at[j].k = INames[x]})
                         IN  SetAttrs(rec, [j \in DOMAIN items |-> <<INames[n + j], items[j]>>])
    [] OTHER -> ERR("AttributeError")

\* instance[key] = value for each pair
ClsSetItems(rec, ps) ==
  CASE rec.lab \in {"MD", "OD", "MO"} -> SetItems(rec, ps)
    [] rec.lab = "RD" -> SetAttrs(rec, [j \in DOMAIN ps |-> <<DNames[KeyIndex(ps[j][1])], ps[j][2]>>])
    [] OTHER -> ERR("TypeError")

\* canonical heap node: positional kids, dict values by key (OrderedDict: in order), attributes by name; soft flags
SortBy(kids, order) ==
  LET present == SelectSeq(order, LAMBDA nm : \E j \in DOMAIN kids : kids[j].k = nm)
  IN  IF Len(present) # Len(kids) THEN Assert(FALSE, <<"name outside the order table", kids>>)
      ELSE [x \in DOMAIN present |-> kids[CHOOSE j \in DOMAIN kids : kids[j].k = present[x]]]
\* plain instance dictionary: the reduction is (__newobj__, (cls,), dict or None) and there is no __setstate__; for a class
\* with a dictionary and slots that is so as long as no slot is set
PlainRec(rec) == \/ rec.lab \in {"P", "PA", "CRi"}
                 \/ (rec.lab = "NA" /\ rec.pos = <<>>)
                 \/ (rec.lab \in {"SD", "DS", "SB"} /\ \A j \in DOMAIN rec.at : rec.at[j].c # "s")
Canon(rec) ==
  LET soften(ks, b) == [j \in DOMAIN ks |-> [ks[j] EXCEPT !.soft = b]]
      slots == SelectSeq(rec.at, LAMBDA x : x.c = "s")
      dents == SelectSeq(rec.at, LAMBDA x : x.c # "s")
  IN [lab |-> rec.lab, dig |-> rec.dig,
      kids |-> soften(rec.pos, rec.lab = "list")
               \o soften(IF rec.lab \in {"OD", "MO"} THEN rec.dv ELSE SortBy(rec.dv, KeyOrder), rec.lab = "dict")
               \o soften(SortBy(slots, AttrOrder), FALSE)                    \* slot values by name,
               \o soften(SortBy(dents, AttrOrder), PlainRec(rec))]           \* then the instance dictionary by name

(***************************************************************************)
(* H : PickleRebuild - pickle protocol 2 on the reduce value:              *)
(*   obj = cls.__new__(cls, args...)  or  function(args...)     (memoised)     *)
(*   state not None: obj.__setstate__(state) if defined, else              *)
(*       (state, slotstate) = state if it is a 2-tuple;                    *)
(*       obj.__dict__.update(state) if state; setattr(obj, k, v) for each  *)
(*       entry of slotstate (lands in the slot of that name)               *)
(*   (obj.extend(listitems) and obj[k] = v for dictitems come BEFORE that) *)
(* References keep their identity (the memo), so object i of g is node i.  *)
(***************************************************************************)
PDefaultState(rec, sv) ==
  LET two == sv.t = "tuple" /\ Len(sv.e) = 2
      dpart == IF two THEN sv.e[1] ELSE sv
      spart == IF two THEN sv.e[2] ELSE VNone
      \* if state: inst.__dict__[k] = v for each;  if slotstate: setattr(inst, k, v) for each
      r1 == IF dpart.t = "dict" /\ dpart.e # <<>> THEN DictUpdate(rec, dpart.e) ELSE rec
  IN  IF spart.t = "dict" THEN PySetattrs(r1, spart.e) ELSE r1

\* a list that is complete when pickle reaches BUILD of the object holding it (it does not lead back to that object,
\* see InDomain), seen the way __setstate__ sees it
WholeList(g, v) == [t |-> "list", r |-> v.r, l |-> "", e |-> Atoms(g[v.r].p)]
PObj(g, o) ==
  CASE o.s = "list"  -> [Empty("list") EXCEPT !.pos = [j \in DOMAIN o.p |-> Kid("i", "", o.p[j])]]
    [] o.s = "tuple" -> [Empty("tuple") EXCEPT !.pos = [j \in DOMAIN o.p |-> Kid("t", "", o.p[j])]]
    [] o.s = "dict"  -> SetItems(Empty("dict"), Keyed(o.p))
    [] o.s = "set"   -> [Empty("set") EXCEPT !.dig = SetDig({o.p[j].l : j \in DOMAIN o.p})]
    [] OTHER ->
       LET rd == ReduceOf(o)
           r0 == ClsNew(rd.fn, rd.new, rd.args)
           state == IF o.s = "GL" THEN VD(<< <<"items", WholeList(g, o.p[1])>> >>) ELSE rd.state
           \* pickle: APPENDS, SETITEMS, and only then BUILD
           r1 == IF rd.li = <<>> THEN r0 ELSE ClsExtend(r0, rd.li)
           r2 == IF rd.di = <<>> THEN r1 ELSE ClsSetItems(r1, rd.di)
       IN  IF IsNoneV(rd.state) THEN r2
           ELSE IF HasSetstate(r2.lab) THEN ClsSetState(r2, state) ELSE PDefaultState(r2, state)

PickleRebuild(g) == [i \in DOMAIN g |-> Canon(PObj(g, g[i]))]
RootKid == [c |-> "root", k |-> "", r |-> 1, d |-> "", dk |-> "", soft |-> TRUE]

(***************************************************************************)
(* L, dump side : representer.py.                                          *)
(*   node : [k, tag, cls, l, e]   k in scalar / seq / map;  e = node ids   *)
(*          (seq) or <<key, node id>> pairs (map; keys are plain strings)  *)
(*   rs   : [ns, rep, busy, err, fx]   ns the node heap, rep = represented *)
(*          _objects (object -> node, 0 = absent), busy = objects exempt   *)
(*          from aliasing that are being represented, with the number of   *)
(*          registered objects at entry (to see the infinite recursion of  *)
(*          deviation "emptytuple" instead of performing it)               *)
(* A node is registered in rep when it is created, before its children     *)
(* (represent_sequence / represent_mapping), which is what makes cycles    *)
(* representable.                                                          *)
(***************************************************************************)
ScalarTag(l) == CASE l = "c" -> "complex" [] l \in {"n", "f"} -> "name" [] l = "m" -> "module" [] l = "e" -> "apply"
                  [] OTHER -> "safe"
Scalar(l) == [k |-> IF l = "e" THEN "enum" ELSE "scalar", tag |-> ScalarTag(l), cls |-> IF l = "e" THEN "EN" ELSE "", l |-> l, e |-> <<>>]

\* SafeRepresenter.ignore_aliases: `isinstance(data, tuple) and data == ()` is also true of an empty instance of a
\* tuple subclass (deviation "emptytuple"); the empty tuple itself is outside the generated space
\* ... and `isinstance(data, (str, bytes, bool, int, float))` is also true of instances of their subclasses, which can
\* carry attributes (deviation "scalarsub"; complex is not in that list)
IgnoreAliases(o, fx) == \/ "emptytuple" \notin fx /\ o.s = "NA" /\ o.p = <<>>
                        \/ "scalarsub" \notin fx /\ o.s = "XS" /\ o.p[1].l # "c"

RECURSIVE RepVal(_, _, _), RepElems(_, _, _, _), RepPairs(_, _, _, _), RepObj(_, _, _)

RepSeq(rs, g, tag, cls, elems, owner) ==
  LET id  == Len(rs.ns) + 1
      rs1 == [rs EXCEPT !.ns = Append(@, [k |-> "seq", tag |-> tag, cls |-> cls, l |-> "", e |-> <<>>]),
                        !.rep = IF owner # 0 THEN [@ EXCEPT ![owner] = id] ELSE @]
      r   == RepElems(rs1, g, elems, <<>>)
  IN  <<[r[1] EXCEPT !.ns[id].e = r[2]], id>>
RepMap(rs, g, tag, cls, pairs, owner) ==
  LET id  == Len(rs.ns) + 1
      rs1 == [rs EXCEPT !.ns = Append(@, [k |-> "map", tag |-> tag, cls |-> cls, l |-> "", e |-> <<>>]),
                        !.rep = IF owner # 0 THEN [@ EXCEPT ![owner] = id] ELSE @]
      r   == RepPairs(rs1, g, pairs, <<>>)
  IN  <<[r[1] EXCEPT !.ns[id].e = r[2]], id>>
RepElems(rs, g, elems, acc) ==
  IF elems = <<>> \/ rs.err # "" THEN <<rs, acc>>
  ELSE LET x == RepVal(rs, g, Head(elems)) IN RepElems(x[1], g, Tail(elems), Append(acc, x[2]))
RepPairs(rs, g, pairs, acc) ==          \* sort_keys: the pairs are given in sorted key order already
  IF pairs = <<>> \/ rs.err # "" THEN <<rs, acc>>
  ELSE LET x == RepVal(rs, g, Head(pairs)[2]) IN RepPairs(x[1], g, Tail(pairs), Append(acc, <<Head(pairs)[1], x[2]>>))

RepVal(rs, g, v) ==
  IF v.t = "atom" THEN
     IF v.r = 0 THEN <<[rs EXCEPT !.ns = Append(@, Scalar(v.l))], Len(rs.ns) + 1>>
     ELSE RepObj(rs, g, v.r)
  ELSE IF v.t = "sdict" THEN            \* the instance dictionary of object v.r, an object of its own for the alias table
     IF rs.srep[v.r] # 0 THEN <<rs, rs.srep[v.r]>>
     ELSE LET id  == Len(rs.ns) + 1
              rs1 == [rs EXCEPT !.ns = Append(@, [k |-> "map", tag |-> "map", cls |-> "", l |-> "", e |-> <<>>]), !.srep[v.r] = id]
              r   == RepPairs(rs1, g, v.e, <<>>)
          IN  <<[r[1] EXCEPT !.ns[id].e = r[2]], id>>
  ELSE IF v.t = "list"  THEN RepSeq(rs, g, "seq", "", v.e, 0)
  ELSE IF v.t = "tuple" THEN RepSeq(rs, g, "tuple", "", v.e, 0)
  ELSE RepMap(rs, g, "map", "", v.e, 0)

\* Representer.represent_object after the reduce call (representer.py:322-356)
RepReduce(rs, g, rd, owner, i) ==
  LET state0 == IF IsNoneV(rd.state) THEN VD(<<>>) ELSE rd.state          \* if state is None: state = {}
      isdict == state0.t = "dict"
      nostate == isdict /\ state0.e = <<>>
      tagk   == IF rd.new THEN "new" ELSE "apply"
      \* repair "nonestate": a None state of a class with __setstate__ must not be written as an empty mapping
      keepNone == "nonestate" \in rs.fx /\ IsNoneV(rd.state) /\ HasSetstate(rd.fn)
  IN  IF rd.args = <<>> /\ rd.li = <<>> /\ rd.di = <<>> /\ isdict /\ rd.new /\ ~keepNone
      THEN RepMap(rs, g, "object", rd.fn, state0.e, owner)                 \* !!python/object:cls {state}
      ELSE IF rd.li = <<>> /\ rd.di = <<>> /\ nostate
      THEN RepSeq(rs, g, tagk, rd.fn, rd.args, owner)                      \* !!python/object/new|apply:fn [args]
      ELSE RepMap(rs, g, tagk, rd.fn,
                  (IF rd.args # <<>> THEN << <<"args", VL(rd.args)>> >> ELSE <<>>)
                  \o (IF rd.di # <<>> THEN << <<"dictitems", VD(rd.di)>> >> ELSE <<>>)
                  \o (IF rd.li # <<>> THEN << <<"listitems", VL(rd.li)>> >> ELSE <<>>)
                  \o (IF ~nostate THEN << <<"state", IF isdict /\ OwnDictState(rd.fn)
                                                              THEN [state0 EXCEPT !.t = "sdict", !.r = i] ELSE state0>> >> ELSE <<>>), owner)

NReg(rs) == Cardinality({j \in DOMAIN rs.rep : rs.rep[j] # 0}) + Cardinality({j \in DOMAIN rs.srep : rs.srep[j] # 0})
RepObj(rs, g, i) ==
  LET o == g[i]
      noalias == IgnoreAliases(o, rs.fx)
  IN  IF rs.err # "" THEN <<rs, 0>>
      ELSE IF ~noalias /\ rs.rep[i] # 0 THEN <<rs, rs.rep[i]>>
      \* an object exempt from aliasing is represented again each time it is met; that ends only if an aliased
      \* object on the way was registered in between
      ELSE IF noalias /\ rs.busy[i] = NReg(rs) + 1 THEN <<[rs EXCEPT !.err = "RecursionError"], 0>>
      ELSE LET own == IF noalias THEN 0 ELSE i
               rs0 == IF noalias THEN [rs EXCEPT !.busy[i] = NReg(rs) + 1] ELSE rs
               r == CASE o.s = "list"  -> RepSeq(rs0, g, "seq", "", Atoms(o.p), own)
                      [] o.s = "tuple" -> RepSeq(rs0, g, "tuple", "", Atoms(o.p), own)
                      [] o.s = "dict"  -> RepMap(rs0, g, "map", "", Keyed(o.p), own)
                      [] o.s = "set"   -> RepMap(rs0, g, "set", "", [j \in DOMAIN o.p |-> <<o.p[j].l, VNone>>], own)
                      \* represent_ordered_dict: apply:OrderedDict [ [ [k, v], ... ] ]
                      [] o.s = "OD"    -> RepSeq(rs0, g, "apply", "OD",
                                                 <<VL([j \in DOMAIN o.p |-> VL(<<At(Lf(KeyedDesc(o.p)[j][1])), KeyedDesc(o.p)[j][2]>>)])>>, own)
                      [] OTHER -> RepReduce(rs0, g, ReduceOf(o), own, i)
           IN  <<[r[1] EXCEPT !.busy[i] = rs.busy[i]], r[2]>>

Represent(g, fx) ==
  LET r == RepObj([ns |-> <<>>, rep |-> [i \in DOMAIN g |-> 0], srep |-> [i \in DOMAIN g |-> 0], busy |-> [i \in DOMAIN g |-> 0], err |-> "", fx |-> fx], g, 1)
  IN  [ns |-> r[1].ns, root |-> r[2], err |-> r[1].err]
TagKind(t) == IF t \in {"seq", "map", "set", "safe"} THEN "safe" ELSE t
TagsOf(ns) == {TagKind(ns[n].tag) : n \in DOMAIN ns}
              \cup UNION {{TagKind(ScalarTag(ns[n].e[j][1])) : j \in DOMAIN ns[n].e} : n \in {m \in DOMAIN ns : ns[m].tag = "set"}}

(***************************************************************************)
(* L, load side : constructor.py.                                          *)
(*   st : [ns, done, con, rec, gens, pend, deep, heap, err, fx, full]      *)
(*        done/con = constructed_objects, rec = recursive_objects,         *)
(*        gens = state_generators (<<node, object>>: the second phase of a *)
(*        two-phase constructor), pend = nodes whose second phase has not  *)
(*        started yet, deep = deep_construct, heap = the Python            *)
(*        objects built so far (one per constructed collection node),      *)
(*        full = TRUE for FullConstructor (python/module, /object, /new,   *)
(*        /apply are not registered there)                                 *)
(***************************************************************************)
Fail(st, e) == [st EXCEPT !.err = e]
Alloc(st, rec) == [st EXCEPT !.heap = Append(@, rec)]           \* the new object is Rf(Len(st.heap) + 1)

\* a constructed value seen by Python code, transient list / tuple / dict objects opened up to depth d
RECURSIVE Mat(_, _, _)
Mat(h, rv, d) ==
  IF rv.r = 0 THEN [t |-> "atom", r |-> 0, l |-> rv.l, e |-> <<>>]
  ELSE LET o == h[rv.r] IN
       IF d = 0 \/ o.lab \notin {"list", "tuple", "dict"} THEN [t |-> "atom", r |-> rv.r, l |-> "", e |-> <<>>]
       ELSE IF o.lab = "dict"
            THEN [t |-> "dict", r |-> rv.r, l |-> "", e |-> [j \in DOMAIN o.dv |-> <<o.dv[j].k, Mat(h, [r |-> o.dv[j].r, l |-> o.dv[j].d], d - 1)>>]]
            ELSE [t |-> o.lab, r |-> rv.r, l |-> "", e |-> [j \in DOMAIN o.pos |-> Mat(h, [r |-> o.pos[j].r, l |-> o.pos[j].d], d - 1)]]

\* bool(value) at this moment
Truthy(h, rv) ==
  IF rv.r = 0 THEN rv.l \notin FalsyLeaves
  ELSE LET o == h[rv.r] IN
       CASE o.lab \in {"list", "tuple", "ML", "NA", "NT"} -> o.pos # <<>>
         [] o.lab \in {"dict", "MD", "OD", "MO"} -> o.dv # <<>>
         [] o.lab = "XS" -> o.dig \notin FalsyLeaves
         [] o.lab \in {"set", "MS"} -> o.dig # SetDig({})
         [] OTHER -> TRUE

TwoPhase(node) == node.k \in {"seq", "map"} /\ node.tag \in {"seq", "map", "set", "object"}
Unregistered(st, node) == st.full /\ node.tag \in {"module", "object", "new", "apply"}

\* FullConstructor.set_python_instance_state (constructor.py:595-612), unsafe = TRUE
Blacklisted(name) == name \in {"extend", "__tag__"}                 \* '^extend$', '^__.*__$'
SetInstState(st, iv, sv) ==
  LET rec == st.heap[iv.r]
      keysOf(v) == IF v.t = "dict" THEN {v.e[j][1] : j \in DOMAIN v.e} ELSE {}
      allKeys == IF sv.t = "tuple" /\ Len(sv.e) = 2 THEN keysOf(sv.e[1]) \cup keysOf(sv.e[2]) ELSE keysOf(sv)
  IN
  IF HasSetstate(rec.lab) THEN
     LET r == ClsSetState(rec, sv) IN IF IsERR(r) THEN Fail(st, r.dig) ELSE [st EXCEPT !.heap[iv.r] = r]
  ELSE LET two   == sv.t = "tuple" /\ Len(sv.e) = 2
           dpart == IF two THEN sv.e[1] ELSE sv
           spart == IF two THEN sv.e[2] ELSE VD(<<>>)
       IN  \* check_state_key: only without `unsafe` (FullConstructor); the unsafe constructors pass unsafe=True
           IF st.full /\ \E k \in allKeys : Blacklisted(k) THEN Fail(st, "ConstructorError")
           ELSE IF spart.t # "dict" THEN Fail(st, "AttributeError")
           \* the slot part - and, for an instance without a dictionary, the whole state - is applied with
           \* setattr(instance, key, value): the value lands in the slot of that name, else in the dictionary
           ELSE LET put(r) == IF IsERR(r) THEN Fail(st, r.dig) ELSE [st EXCEPT !.heap[iv.r] = r] IN
                IF HasDict(rec.lab) THEN
                \* instance.__dict__.update(state): state None raises TypeError (deviation "slotsnone")
                IF IsNoneV(dpart) THEN
                   IF "slotsnone" \in st.fx THEN put(PySetattrs(rec, spart.e)) ELSE Fail(st, "TypeError")
                ELSE IF dpart.t # "dict" THEN Fail(st, "TypeError")
                ELSE put(PySetattrs(SetAttrs(rec, dpart.e), spart.e))
           ELSE \* elif state: slotstate.update(state)
                IF dpart.t = "dict" THEN put(PySetattrs(PySetattrs(rec, spart.e), dpart.e))
                ELSE IF IsNoneV(dpart) \/ (dpart.t = "atom" /\ ~Truthy(st.heap, RVof(dpart))) THEN put(PySetattrs(rec, spart.e))
                ELSE Fail(st, "TypeError")

Lookup(pairs, key) == IF \E j \in DOMAIN pairs : pairs[j][1] = key
                      THEN pairs[CHOOSE j \in DOMAIN pairs : pairs[j][1] = key][2] ELSE NoRV
Has(pairs, key) == \E j \in DOMAIN pairs : pairs[j][1] = key

RECURSIVE CO(_, _, _), COSeq(_, _, _, _), COPairs(_, _, _, _), Fill(_, _, _), ApplyNew(_, _)

\* construct_sequence / construct_mapping: children left to right
COSeq(st, ids, d, acc) ==
  IF ids = <<>> \/ st.err # "" THEN [st |-> st, vs |-> acc]
  ELSE LET r == CO(st, Head(ids), d) IN COSeq(r.st, Tail(ids), d, Append(acc, r.v))
COPairs(st, pairs, d, acc) ==
  IF pairs = <<>> \/ st.err # "" THEN [st |-> st, vs |-> acc]
  ELSE LET r == CO(st, Head(pairs)[2], d) IN COPairs(r.st, Tail(pairs), d, Append(acc, <<Head(pairs)[1], r.v>>))

\* BaseConstructor.construct_object (constructor.py:67-115)
CO(st, n, d) ==
  IF st.err # "" THEN [st |-> st, v |-> NoRV]
  ELSE IF n \in st.done THEN
       \* An object met again while its second phase is still queued is handed out unfilled, also to code that builds
       \* with deep=True and reads it at once (deviation "latefill"; the repair runs the queued phase first).
       IF "latefill" \in st.fx /\ (d \/ st.deep) /\ n \in st.pend
       THEN LET s1 == Fill([st EXCEPT !.pend = @ \ {n}, !.deep = TRUE], n, st.con[n])
            IN  [st |-> IF s1.err # "" THEN s1 ELSE [s1 EXCEPT !.deep = st.deep], v |-> st.con[n]]
       ELSE [st |-> st, v |-> st.con[n]]
  ELSE LET old == st.deep
           s1  == IF d THEN [st EXCEPT !.deep = TRUE] ELSE st
           node == st.ns[n]
       IN
       IF n \in s1.rec THEN [st |-> Fail(s1, "ConstructorError"), v |-> NoRV]       \* found unconstructable recursive node
       ELSE IF Unregistered(s1, node) THEN [st |-> Fail(s1, "ConstructorError"), v |-> NoRV]   \* construct_undefined
       ELSE LET s2 == [s1 EXCEPT !.rec = @ \cup {n}] IN
       IF node.k \in {"scalar", "enum"} THEN
          [st |-> [s2 EXCEPT !.done = @ \cup {n}, !.con[n] = Lf(node.l), !.rec = @ \ {n}, !.deep = IF d THEN old ELSE @], v |-> Lf(node.l)]
       ELSE IF TwoPhase(node) THEN
          \* first phase: the empty object (data = next(generator))
          LET rec0 == CASE node.tag = "seq" -> Empty("list") [] node.tag = "map" -> Empty("dict")
                        [] node.tag = "set" -> [Empty("set") EXCEPT !.dig = SetDig({})]
                        [] OTHER -> ClsNew(node.cls, TRUE, <<>>)        \* make_python_instance(newobj=True)
          IN IF IsERR(rec0) THEN [st |-> Fail(s2, rec0.dig), v |-> NoRV]
             ELSE LET s3 == Alloc(s2, rec0)
                      v  == Rf(Len(s3.heap))
                      \* deep_construct: the generator is exhausted BEFORE the object is entered into
                      \* constructed_objects (deviation "deepreg"); otherwise it is queued
                      s4 == IF s3.deep
                            THEN (IF "deepreg" \in s3.fx THEN Fill([s3 EXCEPT !.done = @ \cup {n}, !.con[n] = v], n, v)
                                  ELSE Fill(s3, n, v))
                            ELSE [s3 EXCEPT !.gens = Append(@, <<n, v>>), !.pend = @ \cup {n}]
                  IN [st |-> [s4 EXCEPT !.done = @ \cup {n}, !.con[n] = v, !.rec = @ \ {n}, !.deep = IF d THEN old ELSE @], v |-> v]
       ELSE LET r == IF node.tag = "tuple"
                     THEN LET c == COSeq(s2, node.e, FALSE, <<>>)
                              s3 == Alloc(c.st, [Empty("tuple") EXCEPT !.pos = [j \in DOMAIN c.vs |-> Kid("t", "", c.vs[j])]])
                          IN  [st |-> s3, v |-> Rf(Len(s3.heap))]
                     ELSE ApplyNew(s2, n)
            IN IF r.st.err # "" THEN [st |-> r.st, v |-> NoRV]
               ELSE [st |-> [r.st EXCEPT !.done = @ \cup {n}, !.con[n] = r.v, !.rec = @ \ {n}, !.deep = IF d THEN old ELSE @], v |-> r.v]

\* second phase of the two-phase constructors
Fill(st, n, v) ==
  LET node == st.ns[n] IN
  IF node.tag = "seq" THEN                                   \* data.extend(self.construct_sequence(node))
     LET c == COSeq(st, node.e, FALSE, <<>>) IN
     IF c.st.err # "" THEN c.st
     ELSE [c.st EXCEPT !.heap[v.r].pos = @ \o [j \in DOMAIN c.vs |-> Kid("i", "", c.vs[j])]]
  ELSE IF node.tag = "map" THEN                              \* data.update(self.construct_mapping(node))
     LET c == COPairs(st, node.e, FALSE, <<>>) IN
     IF c.st.err # "" THEN c.st
     ELSE [c.st EXCEPT !.heap[v.r] = SetItems(@, [j \in DOMAIN c.vs |-> <<c.vs[j][1], At(c.vs[j][2])>>])]
  ELSE IF node.tag = "set" THEN                              \* the members are the keys (leaves; built like any node)
     IF st.full /\ \E j \in DOMAIN node.e : ScalarTag(node.e[j][1]) \in {"module", "apply"} THEN Fail(st, "ConstructorError")
     ELSE [st EXCEPT !.heap[v.r].dig = SetDig({node.e[j][1] : j \in DOMAIN node.e})]
  ELSE \* construct_python_object: deep = hasattr(instance, '__setstate__'); state = construct_mapping(node, deep)
     LET deep == HasSetstate(st.heap[v.r].lab)
         c == COPairs(st, node.e, deep, <<>>)
     IN  IF c.st.err # "" THEN c.st
         ELSE \* the state is a fresh dict object (a class may keep it: GV does)
              LET s1 == Alloc(c.st, SetItems(Empty("dict"), [j \in DOMAIN c.vs |-> <<c.vs[j][1], At(c.vs[j][2])>>]))
              IN  SetInstState(s1, v, Mat(s1.heap, Rf(Len(s1.heap)), 2))

\* construct_python_object_apply / _new (constructor.py:623-659): everything under the node is built with deep=True
\* before the instance exists
ApplyNew(st, n) ==
  LET node == st.ns[n]
      new  == node.tag = "new"
      isseq == node.k = "seq"
      c  == IF isseq THEN COSeq(st, node.e, TRUE, <<>>) ELSE COPairs(st, node.e, TRUE, <<>>)
      s1 == c.st
  IN IF s1.err # "" THEN [st |-> s1, v |-> NoRV]
     ELSE
     LET h == s1.heap
         args  == IF isseq THEN [j \in DOMAIN c.vs |-> Mat(h, c.vs[j], 3)]
                  ELSE IF Has(c.vs, "args") THEN Mat(h, Lookup(c.vs, "args"), 4).e ELSE <<>>
         hasSt == ~isseq /\ Has(c.vs, "state")
         stRV  == Lookup(c.vs, "state")
         hasLi == ~isseq /\ Has(c.vs, "listitems")
         hasDi == ~isseq /\ Has(c.vs, "dictitems")
         rec0  == ClsNew(node.cls, new, args)
     IN IF IsERR(rec0) THEN [st |-> Fail(s1, rec0.dig), v |-> NoRV]
        ELSE
        LET s2 == Alloc(s1, rec0)
            v  == Rf(Len(s2.heap))
            \* `if state:` skips a state that is false at this moment (deviation "falsystate")
            DoState(s) == IF s.err = "" /\ hasSt /\ (Truthy(h, stRV) \/ ("falsystate" \in s.fx /\ ~(stRV.r = 0 /\ stRV.l = "z")))
                          THEN SetInstState(s, v, Mat(h, stRV, 2)) ELSE s
            \* instance.extend(listitems): `extend` is looked up on the instance, where an attribute of that name set by
            \* the state shadows the method (a function is then called and the items are dropped, anything else fails)
            DoList(s) == IF s.err = "" /\ hasLi /\ Truthy(h, Lookup(c.vs, "listitems"))
                         THEN LET rec == s.heap[v.r]
                                  sh  == {j \in DOMAIN rec.at : rec.at[j].k = "extend"}
                              IN  IF sh # {} THEN (IF \E j \in sh : rec.at[j].r = 0 /\ rec.at[j].d = "f" THEN s ELSE Fail(s, "TypeError"))
                                  ELSE LET r == ClsExtend(rec, Mat(h, Lookup(c.vs, "listitems"), 1).e)
                                       IN  IF IsERR(r) THEN Fail(s, r.dig) ELSE [s EXCEPT !.heap[v.r] = r]
                         ELSE s
            DoDict(s) == IF s.err = "" /\ hasDi /\ Truthy(h, Lookup(c.vs, "dictitems"))
                         THEN LET r == ClsSetItems(s.heap[v.r], Mat(h, Lookup(c.vs, "dictitems"), 1).e)
                              IN  IF IsERR(r) THEN Fail(s, r.dig) ELSE [s EXCEPT !.heap[v.r] = r]
                         ELSE s
            \* the code sets the state first and feeds the items afterwards; pickle does it the other way round
            \* (deviation "stateorder", observable through an attribute named extend)
            s5 == IF "stateorder" \in s2.fx THEN DoState(DoDict(DoList(s2))) ELSE DoDict(DoList(DoState(s2)))
        IN [st |-> s5, v |-> v]

\* construct_document: the queued generators are run, batch after batch, after the root was built
RECURSIVE RunGens(_, _), Drain(_)
RunGens(st, gs) == IF gs = <<>> \/ st.err # "" THEN st
                   ELSE IF gs[1][1] \notin st.pend THEN RunGens(st, Tail(gs))        \* already run on demand
                   ELSE RunGens(Fill([st EXCEPT !.pend = @ \ {gs[1][1]}], gs[1][1], gs[1][2]), Tail(gs))
Drain(st) == IF st.err # "" \/ st.gens = <<>> THEN st ELSE Drain(RunGens([st EXCEPT !.gens = <<>>], st.gens))

Construct(ns, root, fx, full) ==
  LET st0 == [ns |-> ns, done |-> {}, con |-> [n \in DOMAIN ns |-> NoRV], rec |-> {}, gens |-> <<>>, pend |-> {}, deep |-> FALSE,
              heap |-> <<>>, err |-> "", fx |-> fx, full |-> full]
      r  == CO(st0, root, FALSE)
      st == Drain(r.st)
  IN  IF st.err # "" THEN [out |-> st.err, heap |-> <<>>, root |-> RootKid]
      ELSE [out |-> "ok", heap |-> [i \in DOMAIN st.heap |-> Canon(st.heap[i])],
            root |-> [RootKid EXCEPT !.r = r.v.r, !.d = r.v.l, !.dk = r.v.l]]

\* yaml.load(yaml.dump(g, Dumper), Loader=UnsafeLoader | FullLoader) as the code does it
Load(g, fx, full) ==
  LET rp == Represent(g, fx) IN
  IF rp.err # "" THEN [out |-> "dump:" \o rp.err, heap |-> <<>>, root |-> RootKid, tags |-> {}, dumped |-> FALSE]
  ELSE LET c == Construct(rp.ns, rp.root, fx, full) IN [out |-> c.out, heap |-> c.heap, root |-> c.root, tags |-> TagsOf(rp.ns), dumped |-> TRUE]

(***************************************************************************)
(* Domain of the property: graphs pickle protocol 2 itself can rebuild.    *)
(* Constructor arguments (tuple items, __getnewargs__, reduce args) are    *)
(* pickled before the object is memoised, so a cycle that consists of      *)
(* argument edges only cannot be pickled (nor built in the first place);   *)
(* a __getstate__ result that is a dict object of the graph is excluded    *)
(* (a dict state is the instance's private description, see design notes). *)
(***************************************************************************)
ArgRefs(o) == IF o.s \in {"tuple", "NA", "NT", "R2", "R3", "CR"} THEN {o.p[j].r : j \in DOMAIN o.p} \ {0} ELSE {}
RECURSIVE ArgReach(_, _, _)
ArgReach(g, frontier, seen) ==
  IF frontier = {} THEN seen
  ELSE LET nxt == (UNION {ArgRefs(g[i]) : i \in frontier}) \ seen IN ArgReach(g, nxt, seen \cup nxt)
KidRefs(o) == ({o.p[j].r : j \in DOMAIN o.p} \cup {o.a[j].r : j \in DOMAIN o.a}) \ {0}
RECURSIVE GReach(_, _, _)
GReach(g, frontier, seen) ==
  IF frontier = {} THEN seen
  ELSE LET nxt == (UNION {KidRefs(g[i]) : i \in frontier}) \ seen IN GReach(g, nxt, seen \cup nxt)
InDomain(g) ==
  /\ \A i \in DOMAIN g : i \notin ArgReach(g, {i}, {})
  \* GL copies out of a list of the graph when its state is set: the list must not lead back to the object (pickle
  \* itself would then hand over a half-filled list, depending on where the traversal started)
  /\ \A i \in DOMAIN g : g[i].s = "GL" => /\ g[i].p[1].r # 0 /\ g[g[i].p[1].r].s = "list"
                                           /\ i \notin GReach(g, {g[i].p[1].r}, {})
  /\ \A i \in DOMAIN g : g[i].s = "GV" /\ g[i].p[1].r # 0 => g[g[i].p[1].r].s \notin {"dict", "MD", "OD", "MO"}
  \* an attribute named extend that holds a class would be *called* with the listitems by the code as it is
  /\ \A i \in DOMAIN g : g[i].s \in {"ML", "RL"} /\ g[i].n = "ext" /\ g[i].a # <<>> => g[i].a[1] # Lf("n")
  /\ \A i \in DOMAIN g : g[i].s = "XS" => g[i].p[1].r = 0 /\ g[i].p[1].l \in {"i", "i0", "s", "s0", "b", "c"}

(***************************************************************************)
(* Verdicts of H on what L computes.                                       *)
(***************************************************************************)
Ref(g) == PickleRebuild(g)
UnsafeOk(g, fx) == LET o == Load(g, fx, FALSE) IN H!UnsafeVerdict(Ref(g), RootKid, o.out, o.heap, o.root)
FullOk(g, fx)   == LET o == Load(g, fx, TRUE)  IN IF o.dumped THEN H!FullVerdict(o.tags, o.out = "ok") ELSE H!OK   \* no document

\* DEVIATIONS.  The smallest sets of repairs under which the design satisfies H on g; <<>> when H holds as it is,
\* <<"unexplained">> when no combination of the named repairs helps.
FixOrder == <<"deepreg", "slotsnone", "falsystate", "nonestate", "emptytuple", "latefill", "scalarsub", "stateorder">>
AsSeq(F) == SelectSeq(FixOrder, LAMBDA x : x \in F)
\* a repair can only matter on graphs that reach the code it changes (keeps the search small)
Relevant(g) ==
  (IF H!AnyCycle(Ref(g)) THEN {"deepreg"} ELSE {})
  \cup (IF \E i \in DOMAIN g : (g[i].s = "SD" /\ Len(g[i].a) = 1) \/ (g[i].s \in {"DS", "SB"} /\ g[i].p = <<>> /\ g[i].a # <<>>)
        THEN {"slotsnone"} ELSE {})
  \cup (IF \E i \in DOMAIN g : g[i].s \in {"GT", "GV"} THEN {"falsystate"} ELSE {})
  \cup (IF \E i \in DOMAIN g : (g[i].s = "GV" /\ g[i].p[1] = Lf("z")) \/ (g[i].s \in StateT /\ g[i].p = <<>> /\ g[i].a = <<>>)
        THEN {"nonestate"} ELSE {})
  \cup (IF \E i \in DOMAIN g : g[i].s = "NA" /\ g[i].p = <<>> THEN {"emptytuple"} ELSE {})
  \cup (IF \E i \in DOMAIN g : g[i].s = "GL" THEN {"latefill"} ELSE {})
  \cup (IF \E i \in DOMAIN g : g[i].s = "XS" THEN {"scalarsub"} ELSE {})
  \cup (IF \E i \in DOMAIN g : g[i].s \in {"ML", "RL"} /\ g[i].n = "ext" /\ g[i].a # <<>> /\ g[i].p # <<>> THEN {"stateorder"} ELSE {})
Need(g, base) ==
  IF UnsafeOk(g, base).ok THEN <<>>
  ELSE LET cands == {F \in SUBSET (Relevant(g) \ base) : F # {} /\ UnsafeOk(g, base \cup F).ok}
       IN  IF cands = {} THEN <<"unexplained">>
           ELSE AsSeq(CHOOSE F \in cands : \A F2 \in cands : Cardinality(F) <= Cardinality(F2))

(***************************************************************************)
(* Generation: one object per step, canonical numbering (object i can be   *)
(* added once it has been referenced; a kid may reference any object seen  *)
(* so far or the next unseen one), so every rooted graph appears once.     *)
(***************************************************************************)
VARIABLES g, hi, fin
vars == <<g, hi, fin>>

RECURSIVE KidSeqs(_, _, _)      \* all kid sequences of length n, with the highest object number referenced
KidSeqs(n, h, leafOnly) ==
  IF n = 0 THEN {[vs |-> <<>>, hi |-> h]}
  ELSE UNION {{[vs |-> Append(x.vs, c), hi |-> IF c.r = x.hi + 1 THEN x.hi + 1 ELSE x.hi] :
                 c \in {Lf(l) : l \in Leaves} \cup (IF leafOnly THEN {} ELSE {Rf(j) : j \in 1 .. Min(x.hi + 1, MaxObjs)})}
              : x \in KidSeqs(n - 1, h, leafOnly)}

AOnly  == {"P", "PA", "S", "SD", "GS", "PT", "ST"}
BothSec == {"DS", "SB", "DST"}          \* p = dictionary entries, a = slot values, any split
TwoSec == {"NA", "R3", "RL", "ML", "MD", "MO"}
\* allowed (np, na) for a shape with at most m kids
Splits(s, m) ==
  CASE s \in AOnly  -> {<<0, na>> : na \in 0 .. m}
    [] s \in TwoSec -> {<<np, na>> \in (0 .. 1) \X (0 .. 1) : np + na <= m}
    [] s \in BothSec -> {<<np, na>> \in (0 .. m) \X (0 .. m) : np + na <= m}
    [] s \in {"E0", "E0T"} -> {<<0, 0>>}
    [] s \in {"GV", "GL"} -> {<<1, 0>>}
    [] s = "tuple"  -> {<<np, 0>> : np \in 1 .. m}
    [] s = "XS"     -> {<<1, na>> : na \in 0 .. (IF m = 0 THEN 0 ELSE m - 1)}
    [] s = "MS"     -> {<<np, na>> \in (0 .. 1) \X (0 .. 1) : np + na <= m}
    [] OTHER        -> {<<np, 0>> : np \in 0 .. m}

Objects(s, m, h) ==
  UNION {{[o |-> [s |-> s, p |-> SubSeq(x.vs, 1, sp[1]), a |-> SubSeq(x.vs, sp[1] + 1, sp[1] + sp[2]), n |-> nm, h |-> hm], hi |-> x.hi] :
            x \in KidSeqs(sp[1] + sp[2], h, FALSE), nm \in (IF sp[2] = 0 THEN {"ord"} ELSE Schemes),
            hm \in (IF s \in Twinned THEN Homes ELSE {"own"})} : sp \in Splits(s, m)}
\* set members are leaves, pairwise different
SetOk(o) == o.s \in {"set", "MS"} => /\ \A j \in DOMAIN o.p : o.p[j].r = 0
                                     /\ \A j1, j2 \in DOMAIN o.p : j1 # j2 => o.p[j1] # o.p[j2]

Init == g = <<>> /\ hi = 1 /\ fin = FALSE
Next == /\ Len(g) < hi
        /\ \E s \in Shapes : \E x \in Objects(s, IF g = <<>> THEN KidsRoot ELSE KidsRest, hi) :
             /\ SetOk(x.o)
             /\ g' = Append(g, x.o) /\ hi' = x.hi
             /\ fin' = (Len(g') = hi' /\ InDomain(g'))
Spec == Init /\ [][Next]_vars

(***************************************************************************)
(* What TLC checks on every complete graph of the domain.                  *)
(***************************************************************************)
\* (a) with the named deviations repaired, L refines H: unsafe load equals pickle's rebuild (or rejects a hard cycle
\*     with ConstructorError), and the full loader accepts exactly the tuple / complex / name documents
RepairedRefinesH == fin => UnsafeOk(g, AllFixes).ok /\ FullOk(g, AllFixes).ok
\* (b) the design as the code has it deviates from H only through the named deviations
AsIsExplained == fin => Need(g, CodeFixes) # <<"unexplained">> /\ FullOk(g, CodeFixes).ok
\* (c) the parallel walk used by the trace specification decides the same relation as the declarative isomorphism
WalkIsIso == fin => LET o == Load(g, CodeFixes, FALSE) IN
                    o.out = "ok" => (H!WalkIso(Ref(g), RootKid, o.heap, o.root, FALSE).ok <=> H!Iso(Ref(g), RootKid, o.heap, o.root, FALSE))
\* (d) pickle rebuilds what was there: the reference graph has one node per object, reachable from the root
RefIsWhole == fin => H!NodesFrom(Ref(g), RootKid) = DOMAIN g
=============================================================================
