SPECIFICATION Spec
CONSTANTS
  MaxSteps = 2
  Ops = {"yobj", "yobjsub", "ctor", "multi", "modctor", "modctorx", "modmulti", "subctor", "load"}
  Singles = {"SafeLoader", "CSafeLoader", "BaseLoader", "FullLoader", "CFullLoader", "UnsafeLoader"}
  Lists = {{"SafeLoader"}, {"SafeLoader", "CSafeLoader"}, {"BaseLoader"}, {"FullLoader", "UnsafeLoader"}}
  SubBases = {"SafeLoader", "BaseLoader", "FullLoader"}
INVARIANT PreludeRefines
INVARIANT DefaultFrozen
INVARIANT OrderFree
