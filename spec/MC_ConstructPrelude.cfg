SPECIFICATION Spec
CONSTANTS
  MaxSteps = 2
  Ops = {"yobj", "ctor", "multi", "modctor", "modctorx", "modmulti", "subctor"}
  Singles = {"SafeLoader", "CSafeLoader", "BaseLoader", "FullLoader", "CFullLoader", "UnsafeLoader"}
  Lists = {{"SafeLoader"}, {"SafeLoader", "CSafeLoader"}, {"BaseLoader"}, {"FullLoader", "UnsafeLoader"}}
  SubBases = {"SafeLoader", "BaseLoader", "FullLoader"}
INVARIANT PreludeRefines
INVARIANT DefaultFrozen
