SPECIFICATION Spec
CONSTANTS
  Block = 4
  MaxDoc = 4
  MaxBad = 2
  Alphabet = {"A", "B2", "B3", "B4", "CR", "LF"}
  FormsC = {"str", "b8", "b8bom", "b16le", "b16be", "text", "s8", "s8bom", "s16le", "s16be"}
  Programs = {"any"}
  MaxPeek = 2
  MaxPrefix = 3
  MaxFwd = 2
  History = FALSE
  PrintableFirst = FALSE
INVARIANT NoCrash
INVARIANT H_Calls
INVARIANT H_Ahead
INVARIANT H_Position
INVARIANT H_End
INVARIANT H_Error
INVARIANT Export
