SPECIFICATION Spec
CONSTANTS
  MaxDepth = 2
  MaxScalar = 1
  Variant = "lookahead"
  MaxEvents = 12
INVARIANT EventQueueBound
INVARIANT StepCost
INVARIANT Progress
INVARIANT Drained
