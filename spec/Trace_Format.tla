---------------------------- MODULE Trace_Format ----------------------------
(***************************************************************************)
(* Judgement of dump calls observed on the real code (C15): every trace is *)
(* one call  (options, projected output)  and is judged by the H clauses   *)
(* of H_Format and, for canonical output, by the canonical-form recogniser *)
(* Canonical.tla (accepts + denotes the events that were dumped).          *)
(* One TLC run judges a whole batch: one initial state per trace.          *)
(*                                                                         *)
(* trace: [o |-> option record, obs |-> observation record (see H_Format), *)
(*         canon |-> BOOLEAN  judge clause g,                              *)
(*         ctoks |-> << <<class, a, b>> >>  canonical token classes,       *)
(*         cevents |-> << <<kind, anchor, tag, value>> >> events dumped ]  *)
(***************************************************************************)
EXTENDS Integers, Sequences, FiniteSets, TLC, Json, IOUtils
H == INSTANCE H_Format
C == INSTANCE Canonical

Traces == JsonDeserialize(IOEnv.TRACE_FILE)
VARIABLE tid

Toks(t) == [i \in DOMAIN t.ctoks |-> [c |-> t.ctoks[i][1], a |-> t.ctoks[i][2], b |-> t.ctoks[i][3]]]
Evs(t)  == [i \in DOMAIN t.cevents |-> [k |-> t.cevents[i][1], a |-> t.cevents[i][2], t |-> t.cevents[i][3], v |-> t.cevents[i][4]]]

Judge(t) ==
  LET w == H!Judge(t.o, t.obs) IN
  IF w # "-" THEN [ok |-> FALSE, why |-> w, at |-> 0]
  ELSE IF ~t.canon THEN [ok |-> TRUE, why |-> "-", at |-> 0]
  ELSE LET p == C!Parse(Toks(t)) IN
       IF ~p.ok THEN [ok |-> FALSE, why |-> "g canonical form not accepted", at |-> Len(p.events)]
       ELSE LET d == C!FirstDiff(p.events, Evs(t)) IN
            IF d # 0 THEN [ok |-> FALSE, why |-> "g canonical output denotes other events", at |-> d]
            ELSE [ok |-> TRUE, why |-> "-", at |-> 0]

Init == tid \in 1 .. Len(Traces)
Next == FALSE /\ tid' = tid
Spec == Init /\ [][Next]_tid
Verdict == LET r == Judge(Traces[tid]) IN PrintT(<<"VERDICT", tid, r.ok, r.why, r.at>>)
=============================================================================
