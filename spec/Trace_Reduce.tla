---------------------------- MODULE Trace_Reduce ----------------------------
(***************************************************************************)
(* Judgement of observations of the real code for C17.  One TLC run judges *)
(* a batch: one initial state per trace.                                   *)
(*                                                                         *)
(* trace record                                                            *)
(*   g       the abstract object graph that was instantiated (Reduce.tla)  *)
(*   ref     heap of pickle.loads(pickle.dumps(o, 2)), rroot its root      *)
(*   unsafe  << [out, heap, root] >>  the distinct outcomes of             *)
(*           load(dump(o, Dumper | CDumper), UnsafeLoader | CUnsafeLoader) *)
(*           out = "ok" | "ConstructorError" | name of another exception   *)
(*   tags    tag kinds of the dumped document                              *)
(*   full    << accepted >>  distinct outcomes of FullLoader / CFullLoader *)
(*                                                                         *)
(* Verdicts (H, from H_Reduce): UnsafeVerdict, FullVerdict.                *)
(* Conformance (never a verdict): the observed outcome is the one the L    *)
(* model Load(g) predicts; pickle's heap is PickleRebuild(g).  When H      *)
(* fails, Need(g) names the modelled deviations that explain it.           *)
(***************************************************************************)
EXTENDS Reduce, Json, IOUtils

Traces == JsonDeserialize(IOEnv.TRACE_FILE)
VARIABLE tid

Abs(heap) == [i \in DOMAIN heap |-> [lab |-> heap[i].alab, dig |-> heap[i].dig, kids |-> heap[i].kids]]
SetOf(s) == {s[i] : i \in DOMAIN s}

JudgeUnsafe(t, j) ==
  LET obs == t.unsafe[j]
      hv  == H!UnsafeVerdict(t.ref, t.rroot, obs.out, obs.heap, obs.root)
      lo  == Load(t.g, CodeFixes, FALSE)
      conf == /\ lo.out = obs.out
              /\ lo.out = "ok" => H!WalkIso(lo.heap, lo.root, Abs(obs.heap), obs.root, TRUE).ok
      need == IF hv.ok THEN <<>> ELSE Need(t.g, CodeFixes)
      pref == Ref(t.g)
      pconf == /\ H!WalkIso(pref, RootKid, Abs(t.ref), t.rroot, TRUE).ok
               /\ H!HardCycle(pref) = H!HardCycle(t.ref)
  IN  PrintT(<<"V17", tid, "u", j, hv.ok, hv.why, hv.at, conf, need, pconf>>)

\* (that L's full loader accepts exactly when H says so is an invariant of the design check, Reduce!FullOk)
JudgeFull(t, j) ==
  LET fv == H!FullVerdict(SetOf(t.tags), t.full[j])
  IN  PrintT(<<"V17", tid, "f", j, fv.ok, fv.why, 0, TRUE, <<>>, TRUE>>)

TInit == tid \in 1 .. Len(Traces) /\ g = <<>> /\ hi = 0 /\ fin = FALSE
TNext == FALSE /\ UNCHANGED <<tid, g, hi, fin>>
TSpec == TInit /\ [][TNext]_<<tid, g, hi, fin>>
Verdict == LET t == Traces[tid] IN
           /\ \A j \in DOMAIN t.unsafe : JudgeUnsafe(t, j)
           /\ \A j \in DOMAIN t.full : JudgeFull(t, j)
=============================================================================
