---------------------------- MODULE Trace_Faults ----------------------------
(***************************************************************************)
(* Judgement of fault-injection runs of the real API (property C19) with   *)
(* the H operators of H_FaultTransparency.                                 *)
(*                                                                         *)
(* trace record = one case (one call of the API) with all its injected    *)
(* runs:                                                                   *)
(*   full      what the output stream receives in the fault-free run       *)
(*   g0        digest of all module/class-level state before the call      *)
(*   runs      << [injected, reached, written, gfail, next, nextfresh, g] >>*)
(*     injected  name of the exception object the environment raised at    *)
(*               this run's invocation index                               *)
(*     reached   name of the object that reached the caller: the same name *)
(*               iff it is the same object with unchanged arguments;       *)
(*               "none" if the call returned.  With a PERSISTENT fault     *)
(*               (every invocation from the index on fails, each with its  *)
(*               own instance; streams AND user callbacks) `injected` is   *)
(*               the FIRST one                                             *)
(*     content0, content  digest of that object (type, args, attributes    *)
(*               incl. marks, str()) when raised / when caught by the      *)
(*               caller                                                    *)
(*     written   what the output stream had received when the call ended   *)
(*               (strings: TLC evaluates Len and SubSeq on strings)        *)
(*     next, nextfresh   result of the follow-up call (possibly the same    *)
(*               call with the SAME argument objects) / of that call in a  *)
(*               fresh interpreter                                         *)
(*     gfail     digest of the global state right after the failed call    *)
(*     args0, args  digest of the caller-owned argument objects (values,   *)
(*               nodes, events, with every attribute) before / after it    *)
(*     g         digest of the global state after the follow-up call       *)
(***************************************************************************)
EXTENDS Naturals, Sequences, TLC, Json, IOUtils
H == INSTANCE H_FaultTransparency

Traces == JsonDeserialize(IOEnv.TRACE_FILE)
VARIABLE tid

JudgeRun(t, r, i) ==
  IF ~H!PassedThrough(r.reached, r.injected) THEN [ok |-> FALSE, why |-> "exception did not pass through", at |-> i]
  ELSE IF ~H!ContentUnchanged(r.content, r.content0) THEN [ok |-> FALSE, why |-> "exception content changed", at |-> i]
  ELSE IF ~H!IsPrefix(r.written, t.full) THEN [ok |-> FALSE, why |-> "written is not a prefix", at |-> i]
  ELSE IF ~H!StateRestored(r.gfail, t.g0) THEN [ok |-> FALSE, why |-> "globals changed by the failed call", at |-> i]
  ELSE IF ~H!ArgumentsUntouched(r.args, r.args0) THEN [ok |-> FALSE, why |-> "caller's arguments changed", at |-> i]
  ELSE IF ~H!LeftUsable(r.next, r.nextfresh, r.g, t.g0) THEN
         [ok |-> FALSE, why |-> IF r.g # t.g0 THEN "globals changed" ELSE "follow-up differs from fresh", at |-> i]
  ELSE [ok |-> TRUE, why |-> "-", at |-> 0]
RECURSIVE JudgeFrom(_, _)
JudgeFrom(t, i) == IF i > Len(t.runs) THEN [ok |-> TRUE, why |-> "-", at |-> 0]
                   ELSE LET v == JudgeRun(t, t.runs[i], i) IN IF v.ok THEN JudgeFrom(t, i + 1) ELSE v
Judge(t) == JudgeFrom(t, 1)

Init == tid \in 1 .. Len(Traces)
Next == FALSE /\ tid' = tid
Spec == Init /\ [][Next]_tid
Verdict == LET r == Judge(Traces[tid]) IN PrintT(<<"VERDICT", tid, r.ok, r.why, r.at>>)
=============================================================================
