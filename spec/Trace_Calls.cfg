SPECIFICATION Spec
INVARIANT Verdict
