----------------------------- MODULE Canonical ------------------------------
(***************************************************************************)
(* H for C15 clause (g): a recogniser of the CANONICAL FORM of YAML,       *)
(* written from its grammar - independent of emitter.py (which produces    *)
(* it) and of scanner.py / parser.py (which read general YAML) - as a      *)
(* push-down monitor over token classes, which also yields the event       *)
(* sequence the text denotes.                                              *)
(*                                                                         *)
(*   stream    ::= document*                                               *)
(*   document  ::= directive* "---" node "..."?                            *)
(*   directive ::= "%YAML" version | "%TAG" handle prefix                  *)
(*   node      ::= ALIAS | ANCHOR? TAG? content                            *)
(*   content   ::= DQ-SCALAR                                               *)
(*               | "[" "]" | "[" node ("," node)* ","? "]"                 *)
(*               | "{" "}" | "{" entry ("," entry)* ","? "}"               *)
(*   entry     ::= "?" node ":" node                                       *)
(*                                                                         *)
(* i.e. every document is explicit, every collection is a flow collection  *)
(* with complete "? key : value" entries, every scalar is double-quoted;   *)
(* a tag is "!" (non-specific), "!<verbatim>", or handle+suffix where the  *)
(* handle is "!", "!!" or one declared by a %TAG directive of the same     *)
(* document.  Layout (one item per line, indentation) is not part of the   *)
(* form: tokens are separated by any white space.                          *)
(*                                                                         *)
(* token: [c, a, b]   c \in "YAML" (a = version) | "TAGDIR" (a = handle,   *)
(*   b = prefix) | "DS" | "DE" | "LSQ" | "RSQ" | "LBR" | "RBR" | "COMMA" | *)
(*   "QM" | "COLON" | "ANCHOR" (a = name) | "ALIAS" (a = name) |           *)
(*   "TAG" (a = handle, "" for verbatim; b = suffix) | "SCALAR" (a = value)*)
(*   anything else (e.g. "ERR" from the lexer) is rejected.                *)
(*                                                                         *)
(* event: [k, a, t, v]  kind, anchor ("" = none), tag ("" = none), value   *)
(***************************************************************************)
EXTENDS Naturals, Sequences

LOCAL Last(s) == s[Len(s)]
LOCAL Front(s) == SubSeq(s, 1, Len(s) - 1)

DefaultHandles == << <<"!", "!">>, <<"!!", "tag:yaml.org,2002:">> >>

Init == [ok |-> TRUE, stk |-> <<"S">>, pa |-> "", pt |-> "", props |-> FALSE,
         dirs |-> <<>>, yaml |-> 0, handles |-> DefaultHandles, events |-> <<>>]

LOCAL Reject(m) == [m EXCEPT !.ok = FALSE]
LOCAL Ev(k, a, t, v) == [k |-> k, a |-> a, t |-> t, v |-> v]
LOCAL Emit(m, e) == [m EXCEPT !.events = Append(@, e)]
LOCAL SetTop(m, f) == [m EXCEPT !.stk = Append(Front(@), f)]
LOCAL Push(m, f) == [m EXCEPT !.stk = Append(@, f)]
LOCAL Pop(m) == [m EXCEPT !.stk = Front(@)]
LOCAL Top(m) == Last(m.stk)
LOCAL ClearProps(m) == [m EXCEPT !.pa = "", !.pt = "", !.props = FALSE]

\* a node may begin here
LOCAL NodeStart(m) == Top(m) \in {"D0", "Q0", "Q2", "MK", "MV"}
\* the frame after a complete node
LOCAL After(f) == CASE f = "D0" -> "D1" [] f = "Q0" -> "Q1" [] f = "Q2" -> "Q1" [] f = "MK" -> "MC" [] f = "MV" -> "M1" [] OTHER -> "?"
LOCAL NodeDone(m) == SetTop(m, After(Top(m)))

LOCAL Defined(hs, h) == \E i \in DOMAIN hs : hs[i][1] = h
LOCAL Prefix(hs, h) == LET i == CHOOSE j \in DOMAIN hs : hs[j][1] = h /\ \A l \in DOMAIN hs : hs[l][1] = h => l <= j IN hs[i][2]

LOCAL StartDocument(m) ==        \* "---": the pending directives become the document's
  [Emit(SetTop(m, "D0"), Ev("DocumentStart", "", "", "")) EXCEPT !.handles = DefaultHandles \o m.dirs, !.dirs = <<>>, !.yaml = 0]
LOCAL EndDocument(m) == Emit(m, Ev("DocumentEnd", "", "", ""))

Step(m, tok) ==
  IF ~m.ok THEN m
  ELSE LET t == Top(m) c == tok.c IN
  CASE c = "YAML" ->
         IF m.props \/ t \notin {"S", "DIR", "D1"} \/ (m.yaml > 0 /\ t = "DIR") THEN Reject(m)
         ELSE [SetTop(IF t = "D1" THEN EndDocument(m) ELSE m, "DIR") EXCEPT !.yaml = 1]
    [] c = "TAGDIR" ->
         IF m.props \/ t \notin {"S", "DIR", "D1"} \/ (Defined(m.dirs, tok.a) /\ t = "DIR") THEN Reject(m)
         ELSE [SetTop(IF t = "D1" THEN EndDocument(m) ELSE m, "DIR") EXCEPT !.dirs = Append(IF t = "DIR" THEN m.dirs ELSE <<>>, <<tok.a, tok.b>>)]
    [] c = "DS" ->
         IF m.props THEN Reject(m)
         ELSE IF t \in {"S", "DIR"} THEN StartDocument(m)
         ELSE IF t = "D1" THEN StartDocument(EndDocument(m))
         ELSE Reject(m)
    [] c = "DE" -> IF t = "D1" /\ ~m.props THEN SetTop(EndDocument(m), "S") ELSE Reject(m)
    [] c = "ANCHOR" -> IF NodeStart(m) /\ ~m.props /\ tok.a # "" THEN [m EXCEPT !.pa = tok.a, !.props = TRUE] ELSE Reject(m)
    [] c = "TAG" ->
         IF ~NodeStart(m) \/ m.pt # "" THEN Reject(m)
         ELSE IF tok.a = "" THEN (IF tok.b = "" THEN Reject(m) ELSE [m EXCEPT !.pt = tok.b, !.props = TRUE])       \* !<verbatim>
         ELSE IF ~Defined(m.handles, tok.a) THEN Reject(m)
         ELSE [m EXCEPT !.pt = Prefix(m.handles, tok.a) \o tok.b, !.props = TRUE]
    [] c = "ALIAS" -> IF NodeStart(m) /\ ~m.props /\ tok.a # "" THEN NodeDone(Emit(m, Ev("Alias", tok.a, "", ""))) ELSE Reject(m)
    [] c = "SCALAR" -> IF NodeStart(m) THEN ClearProps(NodeDone(Emit(m, Ev("Scalar", m.pa, m.pt, tok.a)))) ELSE Reject(m)
    [] c = "LSQ" -> IF NodeStart(m) THEN ClearProps(Push(NodeDone(Emit(m, Ev("SequenceStart", m.pa, m.pt, ""))), "Q0")) ELSE Reject(m)
    [] c = "LBR" -> IF NodeStart(m) THEN ClearProps(Push(NodeDone(Emit(m, Ev("MappingStart", m.pa, m.pt, ""))), "M0")) ELSE Reject(m)
    [] c = "RSQ" -> IF t \in {"Q0", "Q1", "Q2"} /\ ~m.props THEN Pop(Emit(m, Ev("SequenceEnd", "", "", ""))) ELSE Reject(m)
    [] c = "RBR" -> IF t \in {"M0", "M1", "M2"} /\ ~m.props THEN Pop(Emit(m, Ev("MappingEnd", "", "", ""))) ELSE Reject(m)
    [] c = "COMMA" -> IF t = "Q1" THEN SetTop(m, "Q2") ELSE IF t = "M1" THEN SetTop(m, "M2") ELSE Reject(m)
    [] c = "QM" -> IF t \in {"M0", "M2"} /\ ~m.props THEN SetTop(m, "MK") ELSE Reject(m)
    [] c = "COLON" -> IF t = "MC" THEN SetTop(m, "MV") ELSE Reject(m)
    [] OTHER -> Reject(m)

\* end of the text
Finish(m) ==
  IF ~m.ok \/ m.props THEN Reject(m)
  ELSE IF m.stk = <<"S">> THEN m
  ELSE IF m.stk = <<"D1">> THEN SetTop(EndDocument(m), "S")
  ELSE Reject(m)

RECURSIVE Run(_, _, _)
Run(m, toks, i) == IF i > Len(toks) THEN Finish(m) ELSE Run(Step(m, toks[i]), toks, i + 1)
Parse(toks) == Run(Init, toks, 1)

(***************************************************************************)
(* "denotes the same events": same kinds in the same order, same anchors,  *)
(* same scalar values, same tags.  An event that was dumped without a tag  *)
(* may come back without one or with the non-specific "!".  Not compared:  *)
(* styles, implicit / explicit flags, directives (clause e).               *)
(***************************************************************************)
SameEvent(got, want) ==
  /\ got.k = want.k /\ got.a = want.a /\ got.v = want.v
  /\ IF want.t = "" THEN got.t \in {"", "!"} ELSE got.t = want.t

\* index of the first difference, 0 if none
FirstDiff(got, want) ==
  LET n == IF Len(got) < Len(want) THEN Len(got) ELSE Len(want)
      bad == {i \in 1 .. n : ~SameEvent(got[i], want[i])}
  IN  IF bad # {} THEN CHOOSE i \in bad : \A j \in bad : i <= j
      ELSE IF Len(got) # Len(want) THEN n + 1 ELSE 0

Accepts(toks) == Parse(toks).ok
Denotes(toks, want) == LET p == Parse(toks) IN p.ok /\ FirstDiff(p.events, want) = 0
=============================================================================
