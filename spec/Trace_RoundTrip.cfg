SPECIFICATION Spec
INVARIANT Verdict
