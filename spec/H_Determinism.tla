---------------------------- MODULE H_Determinism ----------------------------
(***************************************************************************)
(* H of C16: "with sort_keys on, the text dumped for a mapping or set with *)
(* mutually comparable keys depends only on its contents - not on          *)
(* insertion order, hash seed or process; with sort_keys off key order is  *)
(* exactly the insertion / document order.  dump(load(dump(x))) = dump(x); *)
(* anchor names are a function of the document alone."                     *)
(*                                                                         *)
(* Written on observables only: values as rooted heaps (H_RoundTrip),      *)
(* output texts as opaque digests, key orders as sequences of digests.     *)
(* What the statement leaves to interpretation is decided here (DESIGN.md  *)
(* 5.0): "mutually comparable" = every two keys are ordered by Python's <  *)
(* (numbers other than NaN among themselves, str, bytes, date, naive       *)
(* datetime, aware datetime: each only with its own kind); the iteration   *)
(* order of a Python set is not a function of its contents, so the         *)
(* clauses that fix an order do not reach a set of two or more members     *)
(* that is written unsorted.                                               *)
(***************************************************************************)
EXTENDS Naturals, Sequences, FiniteSets

IsRef(v) == v.id # 0
TypeOf(h, v) == IF IsRef(v) THEN h[v.id].t ELSE v.t
DigestOf(h, v) == IF IsRef(v) THEN h[v.id].d ELSE v.d

\* the kind of a key as far as < is concerned
Kind(h, v) == LET t == TypeOf(h, v) IN
              IF t \in {"bool", "int"} THEN "number"
              ELSE IF t = "float" THEN (IF DigestOf(h, v) = "nan" THEN "nan" ELSE "number")
              ELSE t
Orderable(k) == k \in {"number", "str", "bytes", "date", "datetime", "datetime-aware"}
KeyPos(cell) == IF cell.t = "dict" THEN {p \in DOMAIN cell.c : p % 2 = 1}
                ELSE IF cell.t = "set" THEN DOMAIN cell.c ELSE {}
MutuallyComparable(h, cell) ==
  \A p, q \in KeyPos(cell) : p # q => Kind(h, cell.c[p]) = Kind(h, cell.c[q]) /\ Orderable(Kind(h, cell.c[p]))

\* every mapping and set of the value is written sorted
SortApplies(h, sort) == sort /\ \A i \in DOMAIN h : MutuallyComparable(h, h[i])
\* no set whose order is left to the hash function
NoBigSet(h) == \A i \in DOMAIN h : h[i].t = "set" => Len(h[i].c) <= 1
\* the order of everything written is determined by contents (sorted) or by insertion order (unsorted, no big set)
OrderDetermined(h, sort) == SortApplies(h, sort) \/ (~sort /\ NoBigSet(h))

AllEqual(s) == \A i, j \in DOMAIN s : s[i] = s[j]

\* S1: outputs of runs that differ in insertion order, hash seed and process
ContentsOnly(h, sort, outs) == SortApplies(h, sort) => AllEqual(outs)
\* S1': outputs of runs with one insertion order that differ in hash seed and process
ProcessIndependent(h, sort, outs) == OrderDetermined(h, sort) => AllEqual(outs)
\* S2: key order of every dict as inserted / as written in the document / as loaded again
OrderKept(sort, ins, doc, load) == ~sort => (ins = doc /\ doc = load)
\* S3: dump(load(dump(x))) = dump(x)
FixedPoint(h, sort, t1, t2) == OrderDetermined(h, sort) => t1 = t2
\* S4: anchor names of the document dumped alone / as second document of a stream / after another document
NamesOfDocumentAlone(alone, second, after) == alone = second /\ alone = after
=============================================================================
