------------------------------ MODULE Resolver ------------------------------
(***************************************************************************)
(* L of C08: lib/yaml/resolver.py (implicit resolvers) and the scalar      *)
(* converters of SafeConstructor in lib/yaml/constructor.py, shaped like   *)
(* the code:                                                               *)
(*   - regular expressions are data (ASTs transcribed from the source      *)
(*     text, alternative by alternative) interpreted by a small matcher    *)
(*     with capture groups (Ends);  `^...$` with re.match is FullMatch,    *)
(*     including Python's "$ also matches before a final line feed";       *)
(*   - Registrations is the sequence of add_implicit_resolver calls at     *)
(*     import time; Index is the yaml_implicit_resolvers dictionary they   *)
(*     build (first character -> ordered list of (tag, regexp), key ""     *)
(*     for the empty scalar, key None for wild cards);                     *)
(*   - Resolve is BaseResolver.resolve for scalar nodes (no path           *)
(*     resolvers), with the (plain, quoted) implicit flags;                *)
(*   - ConstructNull/Bool/Int/Float/Timestamp follow the converters        *)
(*     statement by statement over models of the builtins they call        *)
(*     (str.replace/lower/split/startswith, value[0], int(), float(),      *)
(*     dict lookup, re groupdict, date(), datetime(), timedelta(),         *)
(*     timezone()).  Every partial operation raises: <<"Crash", exc>>;     *)
(*     construct_yaml_* turn the exceptions they catch into                *)
(*     <<"ConstructorError", ..>> (a YAML error), anything they do not     *)
(*     catch stays a Crash outcome.                                        *)
(* Float arithmetic is modelled exactly (decimals): the binary rounding of *)
(* float() and of the sexagesimal sum is not part of this model.           *)
(***************************************************************************)
EXTENDS Naturals, Integers, Sequences, FiniteSets, TLC, Decimal

(***************************************************************************)
(* regular expressions as data                                             *)
(***************************************************************************)
C(S)    == [k |-> "cls", c |-> S]                 \* one character of the set
Ch(c)   == C({c})
Q(a)    == [k |-> "seq", a |-> a]
A(a)    == [k |-> "alt", a |-> a]
O(r)    == [k |-> "opt", r |-> r]
St(r)   == [k |-> "star", r |-> r]
Pl(r)   == [k |-> "plus", r |-> r]
G(n, r) == [k |-> "grp", n |-> n, r |-> r]        \* (?P<n>r)
W(w)    == Q([i \in DOMAIN w |-> Ch(w[i])])       \* a literal word
Eps     == Q(<<>>)

\* Ends(r, s, I): the set of indices at which a match of r that starts at an index of I can end.
RECURSIVE Ends(_, _, _), EndsSeq(_, _, _, _), Closure(_, _, _)
Ends(r, s, I) ==
  IF I = {} THEN {} ELSE
  CASE r.k = "cls"  -> {i + 1 : i \in {i \in I : i <= Len(s) /\ s[i] \in r.c}}
    [] r.k = "seq"  -> EndsSeq(r.a, 1, s, I)
    [] r.k = "alt"  -> UNION {Ends(r.a[j], s, I) : j \in DOMAIN r.a}
    [] r.k = "opt"  -> I \cup Ends(r.r, s, I)
    [] r.k = "star" -> Closure(r.r, s, I)
    [] r.k = "plus" -> Closure(r.r, s, Ends(r.r, s, I))
    [] r.k = "grp"  -> Ends(r.r, s, I)
EndsSeq(a, j, s, I) == IF j > Len(a) \/ I = {} THEN I ELSE EndsSeq(a, j + 1, s, Ends(a[j], s, I))
Closure(r, s, I) == LET N == I \cup Ends(r, s, I) IN IF N = I THEN I ELSE Closure(r, s, N)

\* the same matcher with capture groups: a state is <<next index, captures>>, captures = sequence of <<name, from, to>>
RECURSIVE EndsC(_, _, _), EndsSeqC(_, _, _, _), ClosureC(_, _, _)
EndsC(r, s, st) ==
  CASE r.k = "cls"  -> IF st[1] <= Len(s) /\ s[st[1]] \in r.c THEN {<<st[1] + 1, st[2]>>} ELSE {}
    [] r.k = "seq"  -> EndsSeqC(r.a, 1, s, {st})
    [] r.k = "alt"  -> UNION {EndsC(r.a[j], s, st) : j \in DOMAIN r.a}
    [] r.k = "opt"  -> {st} \cup EndsC(r.r, s, st)
    [] r.k = "star" -> ClosureC(r.r, s, {st})
    [] r.k = "plus" -> ClosureC(r.r, s, EndsC(r.r, s, st))
    [] r.k = "grp"  -> {<<e[1], Append(e[2], <<r.n, st[1], e[1] - 1>>)>> : e \in EndsC(r.r, s, st)}
EndsSeqC(a, j, s, I) == IF j > Len(a) \/ I = {} THEN I
                        ELSE EndsSeqC(a, j + 1, s, UNION {EndsC(a[j], s, st) : st \in I})
ClosureC(r, s, I) == LET N == I \cup UNION {EndsC(r, s, st) : st \in I} IN IF N = I THEN I ELSE ClosureC(r, s, N)

\* re.match(r'^(?:...)$'): the end is the end of the text, or just before a final "\n"
AtEnd(s, i) == i = Len(s) + 1 \/ (i = Len(s) /\ s[i] = "\n")
FullMatch(r, s) == \E e \in Ends(r, s, {1}) : AtEnd(s, e)
Matches(r, s) == {e \in EndsC(r, s, <<1, <<>>>>) : AtEnd(s, e[1])}      \* all ways to match, with their groups

(***************************************************************************)
(* resolver.py:170-226, the regular expressions                            *)
(***************************************************************************)
D   == C({"0", "1", "2", "3", "4", "5", "6", "7", "8", "9"})
D_  == C({"0", "1", "2", "3", "4", "5", "6", "7", "8", "9", "_"})
D19 == C({"1", "2", "3", "4", "5", "6", "7", "8", "9"})
D05 == C({"0", "1", "2", "3", "4", "5"})
Sg  == O(C({"-", "+"}))
Exp == O(Q(<<C({"e", "E"}), C({"-", "+"}), Pl(D)>>))

BoolRE == A(<< W(<<"y","e","s">>), W(<<"Y","e","s">>), W(<<"Y","E","S">>), W(<<"n","o">>), W(<<"N","o">>), W(<<"N","O">>),
               W(<<"t","r","u","e">>), W(<<"T","r","u","e">>), W(<<"T","R","U","E">>),
               W(<<"f","a","l","s","e">>), W(<<"F","a","l","s","e">>), W(<<"F","A","L","S","E">>),
               W(<<"o","n">>), W(<<"O","n">>), W(<<"O","N">>), W(<<"o","f","f">>), W(<<"O","f","f">>), W(<<"O","F","F">>) >>)

FloatRE == A(<< Q(<<Sg, D, St(D_), Ch("."), St(D_), Exp>>),
                Q(<<Ch("."), D, St(D_), Exp>>),
                Q(<<Sg, D, St(D_), Pl(Q(<<Ch(":"), O(D05), D>>)), Ch("."), St(D_)>>),
                Q(<<Sg, Ch("."), A(<<W(<<"i","n","f">>), W(<<"I","n","f">>), W(<<"I","N","F">>)>>)>>),
                Q(<<Ch("."), A(<<W(<<"n","a","n">>), W(<<"N","a","N">>), W(<<"N","A","N">>)>>)>>) >>)

IntRE == A(<< Q(<<Sg, Ch("0"), Ch("b"), Pl(C({"0", "1", "_"}))>>),
              Q(<<Sg, Ch("0"), Pl(C({"0", "1", "2", "3", "4", "5", "6", "7", "_"}))>>),
              Q(<<Sg, A(<<Ch("0"), Q(<<D19, St(D_)>>)>>)>>),
              Q(<<Sg, Ch("0"), Ch("x"), Pl(C({"0", "1", "2", "3", "4", "5", "6", "7", "8", "9", "a", "b", "c", "d", "e", "f",
                                             "A", "B", "C", "D", "E", "F", "_"}))>>),
              Q(<<Sg, D19, St(D_), Pl(Q(<<Ch(":"), O(D05), D>>))>>) >>)

MergeRE == W(<<"<", "<">>)
NullRE  == A(<<Ch("~"), W(<<"n","u","l","l">>), W(<<"N","u","l","l">>), W(<<"N","U","L","L">>), Eps>>)
Ws      == C({" ", "\t"})
TimestampRE ==
  A(<< Q(<<D, D, D, D, Ch("-"), D, D, Ch("-"), D, D>>),
       Q(<<D, D, D, D, Ch("-"), D, O(D), Ch("-"), D, O(D),
           A(<<C({"T", "t"}), Pl(Ws)>>), D, O(D), Ch(":"), D, D, Ch(":"), D, D, O(Q(<<Ch("."), St(D)>>)),
           O(Q(<<St(Ws), A(<<Ch("Z"), Q(<<C({"-", "+"}), D, O(D), O(Q(<<Ch(":"), D, D>>))>>)>>)>>))>>) >>)
ValueRE == Ch("=")
YamlRE  == C({"!", "&", "*"})

\* the add_implicit_resolver calls, in source order:  tag, regexp, first
Registrations == <<
  [tag |-> "bool",      re |-> BoolRE,      first |-> <<"y", "Y", "n", "N", "t", "T", "f", "F", "o", "O">>],
  [tag |-> "float",     re |-> FloatRE,     first |-> <<"-", "+", "0", "1", "2", "3", "4", "5", "6", "7", "8", "9", ".">>],
  [tag |-> "int",       re |-> IntRE,       first |-> <<"-", "+", "0", "1", "2", "3", "4", "5", "6", "7", "8", "9">>],
  [tag |-> "merge",     re |-> MergeRE,     first |-> <<"<">>],
  [tag |-> "null",      re |-> NullRE,      first |-> <<"~", "n", "N", "">>],
  [tag |-> "timestamp", re |-> TimestampRE, first |-> <<"0", "1", "2", "3", "4", "5", "6", "7", "8", "9">>],
  [tag |-> "value",     re |-> ValueRE,     first |-> <<"=">>],
  [tag |-> "yaml",      re |-> YamlRE,      first |-> <<"!", "&", "*">>] >>

\* BaseResolver.add_implicit_resolver: for ch in first: d.setdefault(ch, []).append((tag, regexp))
RECURSIVE AddFirst(_, _, _)
AddFirst(idx, reg, first) ==
  IF first = <<>> THEN idx
  ELSE LET ch == Head(first)
           cur == IF ch \in DOMAIN idx THEN idx[ch] ELSE <<>>
       IN  AddFirst((ch :> Append(cur, <<reg.tag, reg.re>>)) @@ idx, reg, Tail(first))
RECURSIVE Register(_, _)
Register(idx, i) == IF i > Len(Registrations) THEN idx
                    ELSE Register(AddFirst(idx, Registrations[i], Registrations[i].first), i + 1)
Index == Register(<<>>, 1)                         \* yaml_implicit_resolvers of class Resolver
Get(d, key) == IF key \in DOMAIN d THEN d[key] ELSE <<>>

\* BaseResolver.resolve(ScalarNode, value, implicit), no path resolvers registered
DEFAULT_SCALAR_TAG == "str"
RECURSIVE FirstMatch(_, _, _)
FirstMatch(rs, i, value) == IF i > Len(rs) THEN "<none>"
                            ELSE IF FullMatch(rs[i][2], value) THEN rs[i][1] ELSE FirstMatch(rs, i + 1, value)
Resolve(value, implicit) ==
  IF implicit[1]
  THEN LET resolvers == IF value = <<>> THEN Get(Index, "") ELSE Get(Index, value[1])
           t == FirstMatch(resolvers \o Get(Index, "<None>"), 1, value)
       IN  IF t # "<none>" THEN t ELSE DEFAULT_SCALAR_TAG
  ELSE DEFAULT_SCALAR_TAG
\* what the list of resolvers would give without the index (every regexp tried, in registration order)
ResolveNoIndex(value) ==
  LET all == [i \in DOMAIN Registrations |-> <<Registrations[i].tag, Registrations[i].re>>]
      t == FirstMatch(all, 1, value)
  IN  IF t # "<none>" THEN t ELSE DEFAULT_SCALAR_TAG
\* every regexp that matches
AllMatching(value) == {Registrations[i].tag : i \in {j \in DOMAIN Registrations : FullMatch(Registrations[j].re, value)}}
\* the tags of the index list of the first character whose regexp matches (the order of the list has no effect
\* exactly when this never has two members)
CandidatesMatching(value) ==
  LET rs == IF value = <<>> THEN Get(Index, "") ELSE Get(Index, value[1]) IN
  {rs[i][1] : i \in {j \in DOMAIN rs : FullMatch(rs[j][2], value)}}

\* Static analysis of a regexp: can it match the empty text, and with which characters can a match begin?
RECURSIVE Nullable(_), FirstChars(_), FirstOfSeq(_, _)
Nullable(r) == CASE r.k = "cls" -> FALSE
                 [] r.k = "seq" -> \A i \in DOMAIN r.a : Nullable(r.a[i])
                 [] r.k = "alt" -> \E i \in DOMAIN r.a : Nullable(r.a[i])
                 [] r.k \in {"opt", "star"} -> TRUE
                 [] r.k \in {"plus", "grp"} -> Nullable(r.r)
FirstChars(r) == CASE r.k = "cls" -> r.c
                   [] r.k = "seq" -> FirstOfSeq(r.a, 1)
                   [] r.k = "alt" -> UNION {FirstChars(r.a[i]) : i \in DOMAIN r.a}
                   [] OTHER -> FirstChars(r.r)
FirstOfSeq(a, i) == IF i > Len(a) THEN {}
                    ELSE FirstChars(a[i]) \cup (IF Nullable(a[i]) THEN FirstOfSeq(a, i + 1) ELSE {})
\* The index loses nothing, for texts of any length: whatever a regexp can match begins with one of the characters
\* it is registered under (and the empty text is registered as '').
IndexComplete == \A i \in DOMAIN Registrations :
                   LET reg == Registrations[i] keys == {reg.first[j] : j \in DOMAIN reg.first} IN
                   FirstChars(reg.re) \subseteq keys /\ (Nullable(reg.re) => "" \in keys)

(***************************************************************************)
(* models of the Python builtins the converters call                       *)
(***************************************************************************)
Crash(exc) == <<"Crash", exc>>                    \* a Python exception that is not a YAML error propagates
IsCrash(v) == v[1] = "Crash"
\* try: r  except caught: raise ConstructorError(...)
Guard(r, caught, what) == IF IsCrash(r) /\ r[2] \in caught THEN <<"ConstructorError", what>> ELSE r

Upper == <<"A","B","C","D","E","F","G","H","I","J","K","L","M","N","O","P","Q","R","S","T","U","V","W","X","Y","Z">>
Lower == <<"a","b","c","d","e","f","g","h","i","j","k","l","m","n","o","p","q","r","s","t","u","v","w","x","y","z">>
UpperSet == {Upper[i] : i \in DOMAIN Upper}
\* Characters outside ASCII are atoms named by their code point, "u0662" = ARABIC-INDIC DIGIT TWO (the harness
\* concretises them).  The builtins are Unicode-aware although the regexps are not: str.lower maps KELVIN SIGN to k,
\* int() and float() read every Unicode decimal digit, strip() / int() / float() skip every Unicode space.
UDigitBlocks == << <<"u0660", "u0661", "u0662", "u0663", "u0664", "u0665", "u0666", "u0667", "u0668", "u0669">>,
                   <<"u0966", "u0967", "u0968", "u0969", "u096A", "u096B", "u096C", "u096D", "u096E", "u096F">>,
                   <<"uFF10", "uFF11", "uFF12", "uFF13", "uFF14", "uFF15", "uFF16", "uFF17", "uFF18", "uFF19">> >>
UDigits == UNION {{UDigitBlocks[b][i] : i \in 1 .. 10} : b \in DOMAIN UDigitBlocks}
UDigitVal(c) == (CHOOSE i \in 1 .. 10 : \E b \in DOMAIN UDigitBlocks : UDigitBlocks[b][i] = c) - 1
USpaces == {"u00A0", "u2003", "u3000"}
LowerC(c) == IF c \in UpperSet THEN Lower[CHOOSE i \in DOMAIN Upper : Upper[i] = c]
             ELSE IF c = "u212A" THEN "k" ELSE c
StrLower(s) == [i \in DOMAIN s |-> LowerC(s[i])]
StrRemove(s, c) == SelectSeq(s, LAMBDA x : x # c)                 \* s.replace(c, '')
StartsWith(s, p) == Len(s) >= Len(p) /\ SubSeq(s, 1, Len(p)) = p
Slice(s, i) == SubSeq(s, i + 1, Len(s))                          \* s[i:]
Contains(s, c) == \E i \in DOMAIN s : s[i] = c
RECURSIVE StrSplitR(_, _, _, _)
StrSplitR(s, sep, i, cur) == IF i > Len(s) THEN <<cur>>
                             ELSE IF s[i] = sep THEN <<cur>> \o StrSplitR(s, sep, i + 1, <<>>)
                             ELSE StrSplitR(s, sep, i + 1, Append(cur, s[i]))
StrSplit(s, sep) == StrSplitR(s, sep, 1, <<>>)                    \* s.split(sep)
Reverse(s) == [i \in DOMAIN s |-> s[Len(s) + 1 - i]]
PyWs == {" ", "\t", "\n"} \cup USpaces
RECURSIVE LStrip(_)
LStrip(s) == IF s # <<>> /\ s[1] \in PyWs THEN LStrip(Tail(s)) ELSE s
Strip(s) == Reverse(LStrip(Reverse(LStrip(s))))

DigSeq == <<"0","1","2","3","4","5","6","7","8","9","a","b","c","d","e","f">>
AsciiDigit(c) == IF c \in UDigits THEN DigSeq[UDigitVal(c) + 1] ELSE LowerC(c)     \* what int() / float() read c as
DigVal(c) == (CHOOSE i \in DOMAIN DigSeq : DigSeq[i] = AsciiDigit(c)) - 1
IsDig(c, base) == AsciiDigit(c) \in {DigSeq[i] : i \in 1 .. base}
\* digits with single underscores strictly inside: the shape int() and float() accept
Grouped(s, base) == /\ s # <<>> /\ IsDig(s[1], base) /\ IsDig(s[Len(s)], base)
                    /\ \A i \in DOMAIN s : IsDig(s[i], base) \/ (s[i] = "_" /\ i > 1 /\ s[i - 1] # "_")
DigitVals(s) == LET t == StrRemove(s, "_") IN [i \in DOMAIN t |-> DigVal(t[i])]

\* int(s, base), base in {2, 8, 10, 16}:  [ok, neg, mag]  or ok = FALSE (ValueError)
PyInt(s0, base) ==
  LET s == Strip(s0)
      neg == s # <<>> /\ s[1] = "-"
      u == IF s # <<>> /\ s[1] \in {"+", "-"} THEN Tail(s) ELSE s
      pfx == CASE base = 2 -> "b" [] base = 8 -> "o" [] base = 16 -> "x" [] OTHER -> "?"
      hasp == Len(u) >= 2 /\ u[1] = "0" /\ LowerC(u[2]) = pfx
      v0 == IF hasp THEN Slice(u, 2) ELSE u
      v == IF hasp /\ v0 # <<>> /\ v0[1] = "_" THEN Tail(v0) ELSE v0      \* 0x_1f is accepted by int()
  IN  IF Grouped(v, base) THEN [ok |-> TRUE, neg |-> neg, mag |-> Horner(DigitVals(v), base)]
      ELSE [ok |-> FALSE, neg |-> FALSE, mag |-> <<0>>]

\* float(s): [ok, neg, kind in "num" "inf" "nan", d |-> Dec]
PyFloat(s0) ==
  LET s == Strip(s0)
      neg == s # <<>> /\ s[1] = "-"
      u == IF s # <<>> /\ s[1] \in {"+", "-"} THEN Tail(s) ELSE s
      lu == StrLower(u)
      epos == {i \in DOMAIN u : u[i] \in {"e", "E"}}
      e == IF epos = {} THEN Len(u) + 1 ELSE CHOOSE i \in epos : \A j \in epos : i <= j
      mant == SubSeq(u, 1, e - 1)
      ex == SubSeq(u, e + 1, Len(u))
      exneg == ex # <<>> /\ ex[1] = "-"
      exd == IF ex # <<>> /\ ex[1] \in {"+", "-"} THEN Tail(ex) ELSE ex
      parts == StrSplit(mant, ".")
      ip == parts[1]
      fp == IF Len(parts) >= 2 THEN parts[2] ELSE <<>>
      okm == /\ Len(parts) <= 2 /\ (ip # <<>> \/ fp # <<>>)
             /\ (ip = <<>> \/ Grouped(ip, 10)) /\ (fp = <<>> \/ Grouped(fp, 10))
      oke == e = Len(u) + 1 \/ Grouped(exd, 10)
      ev == IF e = Len(u) + 1 THEN 0 ELSE IF exneg THEN 0 - NatOf(DigitVals(exd)) ELSE NatOf(DigitVals(exd))
  IN  IF lu \in {<<"i","n","f">>, <<"i","n","f","i","n","i","t","y">>} THEN [ok |-> TRUE, neg |-> neg, kind |-> "inf", d |-> [m |-> <<0>>, e |-> 0]]
      ELSE IF lu = <<"n","a","n">> THEN [ok |-> TRUE, neg |-> neg, kind |-> "nan", d |-> [m |-> <<0>>, e |-> 0]]
      ELSE IF okm /\ oke THEN [ok |-> TRUE, neg |-> neg, kind |-> "num",
                               d |-> DecNorm([m |-> DigitVals(ip) \o DigitVals(fp), e |-> ev - Len(StrRemove(fp, "_"))])]
      ELSE [ok |-> FALSE, neg |-> FALSE, kind |-> "err", d |-> [m |-> <<0>>, e |-> 0]]

(***************************************************************************)
(* constructor.py, scalars                                                  *)
(***************************************************************************)
IntResult(neg, mag) == <<"int", IF neg /\ ~IsZero(mag) THEN "-" ELSE "+", Norm(mag)>>

ConstructNull(value) == <<"null">>

BoolValues == {<<"y","e","s">>, <<"n","o">>, <<"t","r","u","e">>, <<"f","a","l","s","e">>, <<"o","n">>, <<"o","f","f">>}
ConstructBool(value) ==
  LET k == StrLower(value) IN
  Guard(IF k \notin BoolValues THEN Crash("KeyError")
        ELSE <<"bool", k \in {<<"y","e","s">>, <<"t","r","u","e">>, <<"o","n">>}>>, {"KeyError"}, "bool")

\* sign * int(text, base)
SignTimesInt(signneg, text, base) ==
  LET r == PyInt(text, base) IN
  IF ~r.ok THEN Crash("ValueError") ELSE IntResult(signneg # r.neg, r.mag)

\* digits.reverse(); base = 1; value = 0; for digit in digits: value += digit*base; base *= 60
RECURSIVE PowerSum(_, _, _, _)
PowerSum(digits, i, base, value) ==
  IF i > Len(digits) THEN value
  ELSE PowerSum(digits, i + 1, MulSmall(base, 60), Add(value, Mul(digits[i], base)))

ConvertInt(value0) ==
  LET value1 == StrRemove(value0, "_") IN
  IF value1 = <<>> THEN Crash("IndexError")                                  \* value[0]
  ELSE
  LET signneg == value1[1] = "-"
      value == IF value1[1] \in {"+", "-"} THEN Slice(value1, 1) ELSE value1
  IN  IF value = <<"0">> THEN IntResult(FALSE, <<0>>)
      ELSE IF StartsWith(value, <<"0", "b">>) THEN SignTimesInt(signneg, Slice(value, 2), 2)
      ELSE IF StartsWith(value, <<"0", "x">>) THEN SignTimesInt(signneg, Slice(value, 2), 16)
      ELSE IF value = <<>> THEN Crash("IndexError")                          \* value[0]
      ELSE IF value[1] = "0" THEN SignTimesInt(signneg, value, 8)
      ELSE IF Contains(value, ":")
           THEN LET parts == StrSplit(value, ":")
                    ints == [i \in DOMAIN parts |-> PyInt(parts[i], 10)]
                IN  IF \E i \in DOMAIN ints : ~ints[i].ok THEN Crash("ValueError")
                    ELSE IF \E i \in DOMAIN ints : ints[i].neg /\ ~IsZero(ints[i].mag) THEN <<"unmodelled", "negative part">>
                    ELSE IntResult(signneg, PowerSum(Reverse([i \in DOMAIN ints |-> ints[i].mag]), 1, <<1>>, <<0>>))
      ELSE SignTimesInt(signneg, value, 10)

ConstructInt(value) == Guard(ConvertInt(value), {"ValueError", "IndexError"}, "int")

FloatNum(neg, d) == LET n == DecNorm(d) IN <<"float", "num", [s |-> IF neg THEN "-" ELSE "+", m |-> n.m, e |-> n.e]>>
RECURSIVE FPowerSum(_, _, _, _)
FPowerSum(digits, i, base, value) ==
  IF i > Len(digits) THEN value
  ELSE FPowerSum(digits, i + 1, MulSmall(base, 60), DecAdd(value, DecMulBig(digits[i], base)))

ConvertFloat(value0) ==
  LET value1 == StrLower(StrRemove(value0, "_")) IN
  IF value1 = <<>> THEN Crash("IndexError")
  ELSE
  LET signneg == value1[1] = "-"
      value == IF value1[1] \in {"+", "-"} THEN Slice(value1, 1) ELSE value1
  IN  IF value = <<".", "i", "n", "f">> THEN <<"float", "inf", IF signneg THEN "-" ELSE "+">>
      ELSE IF value = <<".", "n", "a", "n">> THEN <<"float", "nan">>
      ELSE IF Contains(value, ":")
           THEN LET parts == StrSplit(value, ":")
                    fl == [i \in DOMAIN parts |-> PyFloat(parts[i])]
                IN  IF \E i \in DOMAIN fl : ~fl[i].ok THEN Crash("ValueError")
                    ELSE IF \E i \in DOMAIN fl : fl[i].kind # "num" \/ fl[i].neg THEN <<"unmodelled", "special part">>
                    ELSE FloatNum(signneg, FPowerSum(Reverse([i \in DOMAIN fl |-> fl[i].d]), 1, <<1>>, [m |-> <<0>>, e |-> 0]))
      ELSE LET r == PyFloat(value) IN
           IF ~r.ok THEN Crash("ValueError")
           ELSE IF r.kind = "nan" THEN <<"float", "nan">>
           ELSE IF r.kind = "inf" THEN <<"float", "inf", IF signneg # r.neg THEN "-" ELSE "+">>
           ELSE FloatNum(signneg # r.neg, r.d)

ConstructFloat(value) == Guard(ConvertFloat(value), {"ValueError", "IndexError"}, "float")

(***************************************************************************)
(* constructor.py, timestamps                                              *)
(***************************************************************************)
TimestampRegexp ==
  Q(<< G("year", Q(<<D, D, D, D>>)), Ch("-"), G("month", Q(<<D, O(D)>>)), Ch("-"), G("day", Q(<<D, O(D)>>)),
       O(Q(<< A(<<C({"T", "t"}), Pl(Ws)>>),
              G("hour", Q(<<D, O(D)>>)), Ch(":"), G("minute", Q(<<D, D>>)), Ch(":"), G("second", Q(<<D, D>>)),
              O(Q(<<Ch("."), G("fraction", St(D))>>)),
              O(Q(<<St(Ws), G("tz", A(<<Ch("Z"), Q(<<G("tz_sign", C({"-", "+"})), G("tz_hour", Q(<<D, O(D)>>)),
                                                    O(Q(<<Ch(":"), G("tz_minute", Q(<<D, D>>))>>))>>)>>))>>)) >>)) >>)

None == <<"<None>">>
GroupOf(caps, name, s) ==                          \* match.groupdict()[name]
  LET hits == {i \in DOMAIN caps : caps[i][1] = name} IN
  IF hits = {} THEN None ELSE LET c == caps[CHOOSE i \in hits : TRUE] IN SubSeq(s, c[2], c[3])
Truthy(x) == x # None /\ x # <<>>
SmallInt(text) == LET r == PyInt(text, 10) IN IF r.ok THEN NatOf(r.mag) ELSE 0 - 1     \* int(text) of a short digit string

LeapYear(y) == (y % 4 = 0 /\ y % 100 # 0) \/ y % 400 = 0
DaysInMonth(y, m) == IF m = 2 THEN (IF LeapYear(y) THEN 29 ELSE 28) ELSE IF m \in {4, 6, 9, 11} THEN 30 ELSE 31
DateOk(y, m, d) == 1 <= y /\ y <= 9999 /\ 1 <= m /\ m <= 12 /\ 1 <= d /\ d <= DaysInMonth(y, m)
TimeOk(h, mi, se, us) == h <= 23 /\ mi <= 59 /\ se <= 59 /\ us <= 999999

ConstructTimestamp(value) ==
  LET ms == Matches(TimestampRegexp, value) IN
  IF ms = {} THEN <<"ConstructorError", "timestamp">>                         \* match is None
  ELSE IF Cardinality(ms) > 1 THEN <<"unmodelled", "ambiguous regexp">>
  ELSE Guard(
  LET caps == (CHOOSE e \in ms : TRUE)[2]
      g(name) == GroupOf(caps, name, value)
      year == SmallInt(g("year")) month == SmallInt(g("month")) day == SmallInt(g("day"))
  IN  IF ~Truthy(g("hour"))
      THEN (IF DateOk(year, month, day) THEN <<"date", year, month, day>> ELSE Crash("ValueError"))
      ELSE
      LET hour == SmallInt(g("hour")) minute == SmallInt(g("minute")) second == SmallInt(g("second"))
          f6 == LET f == g("fraction") IN IF Len(f) >= 6 THEN SubSeq(f, 1, 6) ELSE f \o [i \in 1 .. 6 - Len(f) |-> "0"]
          fraction == IF Truthy(g("fraction")) THEN SmallInt(f6) ELSE 0
          tzmin == IF Truthy(g("tz_sign"))
                   THEN SmallInt(g("tz_hour")) * 60 + (IF Truthy(g("tz_minute")) THEN SmallInt(g("tz_minute")) ELSE 0)
                   ELSE 0
          tz == IF Truthy(g("tz_sign")) THEN <<"offmin", IF g("tz_sign") = <<"-">> THEN 0 - tzmin ELSE tzmin>>
                ELSE IF Truthy(g("tz")) THEN <<"utc">> ELSE <<"none">>
      IN  IF Truthy(g("tz_sign")) /\ tzmin >= 1440 THEN Crash("ValueError")     \* timezone(delta)
          ELSE IF ~(DateOk(year, month, day) /\ TimeOk(hour, minute, second, fraction)) THEN Crash("ValueError")
          ELSE <<"datetime", year, month, day, hour, minute, second, fraction, tz>>,
  {"ValueError"}, "timestamp")

\* SafeConstructor.yaml_constructors for scalar tags
Construct(tag, value) ==
  CASE tag = "null" -> ConstructNull(value)
    [] tag = "bool" -> ConstructBool(value)
    [] tag = "int" -> ConstructInt(value)
    [] tag = "float" -> ConstructFloat(value)
    [] tag = "timestamp" -> ConstructTimestamp(value)
    [] tag = "str" -> <<"str">>
    [] OTHER -> <<"ConstructorError", tag>>          \* construct_undefined: merge, value, yaml outside a mapping key

\* compose + construct one scalar
Load(value, implicit) == LET tag == Resolve(value, implicit) IN [tag |-> tag, val |-> Construct(tag, value)]
=============================================================================
