----------------------------- MODULE StrContext -----------------------------
(***************************************************************************)
(* C02, string level: a str of the value in a CONTEXT, dumped under the     *)
(* options that decide how its context is laid out.                         *)
(*                                                                         *)
(* A state is one text (a sequence of code points over an alphabet in which *)
(* every YAML indicator character, the white space characters and a word    *)
(* character are symbols of their own) placed at one position of a value:   *)
(*   ctx.path  the way from the root to the text, outermost first:          *)
(*             "item"  the text is an item of a list                        *)
(*             "key"   the text is a key of a dict (always the last step)   *)
(*             "value" the text is the value of the key 'k' of a dict       *)
(*   ctx.sib   "none" | "after" | "before": the innermost container has a   *)
(*             second entry after / before the text's own                   *)
(*   opts.flow default_flow_style  "T" | "F" | "N",  opts.style             *)
(*             default_style "" | "sq" | "dq" | "lit" | "fold"              *)
(* The text grows by one symbol per step, so every text up to the bound, in *)
(* every context, under every option, is one state.  Symbols are code      *)
(* points and two macro-symbols, the document markers '---' and '...'.     *)
(* A second family of states are long texts (runs of one character) of the *)
(* lengths around which a key stops being written as a simple key.         *)
(*                                                                         *)
(*   L : representer.py (which collections become flow collections:        *)
(*       default_flow_style / best_style), emitter.py (analyze_scalar:     *)
(*       the leading / inner indicator rules and the white space rules,    *)
(*       check_simple_key, choose_scalar_style, and the layout of block    *)
(*       and flow collections around a plain scalar), resolver.py (which   *)
(*       texts do not resolve to str) and scanner.py (fetch_more_tokens:   *)
(*       the dispatch on the first character with check_block_entry /      *)
(*       check_key / check_value / check_plain / check_document_start,     *)
(*       and scan_plain with its flow-context rules).                      *)
(*   H : the text that is read back is the text that was written and the   *)
(*       document is accepted (C02 on one str leaf; on the observations of *)
(*       the real code the whole value is judged by H_RoundTrip!GraphIso). *)
(*                                                                         *)
(* The quoted and block styles are abstracted by the contract that C05      *)
(* checks (a non-plain style carries any text it is chosen for); what this  *)
(* module adds is the PLAIN style, whose safety depends on the first        *)
(* characters of the text AND on the context: L => H says that whenever the *)
(* emitter model chooses plain, the scanner model reads the same text back  *)
(* from the document the emitter model lays out.  Variant # "tree" are     *)
(* deliberately broken versions of L (negative controls: TLC must reject   *)
(* them); D12Fixed = FALSE is the tree with the known defect D12, which    *)
(* the model exhibits (see PlainRoundTrip).                                *)
(***************************************************************************)
EXTENDS Integers, Sequences, FiniteSets, TLC

CONSTANTS Alphabet,    \* symbols usable at the first two positions: code points, and the macro-symbols below
          Third,       \* symbols usable at positions >= 3
          MaxLen,      \* longest text, in symbols
          MinDepth,    \* contexts: every path of MinDepth .. MaxDepth steps over {"item", "key", "value"}
          MaxDepth,    \*           ("key" only as the last step: a container is not hashable)
          Sibs,        \* subset of {"none", "after", "before"}
          FlowOpts,    \* subset of {"T", "F", "N"}
          StyleOpts,   \* subset of {"", "sq", "dq", "lit", "fold"}
          Variant,     \* "tree": the code as it is; anything else: a deliberately broken L (negative controls)
          LongUnits,   \* long texts: LongLens repetitions of one of these code points (no growth by symbols) ...
          LongLens,    \* ... around the lengths at which a key stops being a simple key (emitter) / is given up (scanner)
          D12Fixed     \* BOOLEAN: check_simple_key also bounds the WRITTEN length of a key (fix proposal D12)

VARIABLES text,         \* the text, as code points
          nsym,         \* ... and the number of symbols it was built from
          ctx, opts, lres
vars == <<text, nsym, ctx, opts, lres>>

NUL == 0   TAB == 9   LF == 10   CR == 13   SP == 32   BANG == 33   DQ == 34   HASH == 35   PCT == 37   AMP == 38
SQ == 39   STAR == 42  COMMA == 44  DASH == 45  DOT == 46  COLON == 58  LT == 60  EQ == 61  GT == 62  QM == 63
AT == 64   LBR == 91   BSL == 92   RBR == 93   BTICK == 96   LBRACE == 123   BAR == 124   RBRACE == 125   TILDE == 126
NEL == 133  LS == 8232  PS == 8233  BOM == 65279
WORD == 120                                     \* 'x': the only letter of the alphabet
KK == <<107>>  VV == <<118>>  AA == <<97>>  ZZ == <<122>>      \* the fixed neighbours 'k', 'v', 'a', 'z'
\* macro-symbols: the document markers (three characters that are special only together, and only in column 0)
DOCSTART == 2000001                             \* '---'
DOCEND   == 2000002                             \* '...'
Expand(sym) == CASE sym = DOCSTART -> <<DASH, DASH, DASH>> [] sym = DOCEND -> <<DOT, DOT, DOT>> [] OTHER -> <<sym>>

EBrk  == {LF, NEL, LS, PS}                      \* '\n\x85  '
SBrk  == {CR, LF, NEL, LS, PS}                  \* '\r\n\x85  '
WsNul == {NUL, SP, TAB, CR, LF, NEL, LS, PS}    \* '\0 \t\r\n\x85  '
FlowInd == {COMMA, QM, LBR, RBR, LBRACE, RBRACE}                                    \* ',?[]{}'
LeadInd == {HASH, COMMA, LBR, RBR, LBRACE, RBRACE, AMP, STAR, BANG, BAR, GT, SQ, DQ, PCT, AT, BTICK}   \* '#,[]{}&*!|>\'\"%@`'
\* the 19 indicator characters of YAML (c-indicator): what "leading indicator" ranges over
Indicators == LeadInd \cup {DASH, QM, COLON}

\* the alphabet has no digit and no letter but 'x', so the resolver table below is complete for it
ASSUME \A sym \in Alphabet \cup Third : (0 <= sym /\ sym <= 1114111) \/ sym \in {DOCSTART, DOCEND}
ASSUME (Alphabet \cup Third) \cap ((48 .. 57) \cup (65 .. 90) \cup {95} \cup ((97 .. 122) \ {WORD})) = {}
Steps == {"item", "key", "value"}
PathsLen(n) == {p \in [1 .. n -> Steps] : \A i \in 1 .. n : p[i] = "key" => i = n}
Paths == UNION {PathsLen(n) : n \in MinDepth .. MaxDepth}

RECURSIVE Spaces(_)
Spaces(n) == IF n <= 0 THEN <<>> ELSE <<SP>> \o Spaces(n - 1)

(***************************************************************************)
(* L.1  resolver.py: the plain texts over the alphabet that do NOT resolve *)
(* to tag:yaml.org,2002:str  ('' and ~ null, = value, << merge, ! & * yaml)*)
(***************************************************************************)
NonStrPlain == {<<>>, <<TILDE>>, <<EQ>>, <<LT, LT>>, <<BANG>>, <<AMP>>, <<STAR>>}
ResolvesStr(t) == t \notin NonStrPlain
\* constructor.py: a plain scalar is constructed as the str it spells when it resolves to str - and also '=' as a
\* mapping KEY (SafeConstructor.flatten_mapping retags a tag:yaml.org,2002:value key as str)
LoadsAsStr(t, isKey) == ResolvesStr(t) \/ (t = <<EQ>> /\ isKey)

(***************************************************************************)
(* L.2  emitter.py analyze_scalar.  Python index i (0-based) is t[i + 1].   *)
(***************************************************************************)
FollWs(t, i) == i + 1 >= Len(t) \/ t[i + 2] \in WsNul          \* followed_by_whitespace while looking at index i
PrecWs(t, i) == i = 0 \/ t[i] \in WsNul                        \* preceded_by_whitespace

\* the rule for a leading '?' / ':' / '-' (index 0): [b |-> block_indicators, w |-> flow_indicators]
LeadRule(t) ==
  LET ch == t[1]
      fw == FollWs(t, 0)
  IN  CASE Variant = "tree" ->
             [b |-> (ch \in {QM, COLON} /\ fw) \/ (ch = DASH /\ fw), w |-> ch \in {QM, COLON} \/ (ch = DASH /\ fw)]
        \* negative controls: ways of getting the rule wrong
        [] Variant = "qc_like_dash" ->                       \* '?', ':' indicators only when white space follows
             [b |-> ch \in {QM, COLON, DASH} /\ fw, w |-> ch \in {QM, COLON, DASH} /\ fw]
        [] Variant = "dash_never" ->                         \* '-' never an indicator
             [b |-> ch \in {QM, COLON} /\ fw, w |-> ch \in {QM, COLON}]
        [] OTHER ->
             [b |-> (ch \in {QM, COLON} /\ fw) \/ (ch = DASH /\ fw), w |-> ch \in {QM, COLON} \/ (ch = DASH /\ fw)]
InnerFlowInd == IF Variant = "inner_qm_free" THEN FlowInd \ {QM} ELSE FlowInd
LeadSet == IF Variant = "lead_pct_free" THEN LeadInd \ {PCT} ELSE LeadInd

Analyze(t, uni) ==
  IF t = <<>> THEN [empty |-> TRUE, multiline |-> FALSE, flowPlain |-> FALSE, blockPlain |-> TRUE,
                    single |-> TRUE, block |-> FALSE]
  ELSE
  LET n == Len(t)
      docInd == n >= 3 /\ (SubSeq(t, 1, 3) = <<DASH, DASH, DASH>> \/ SubSeq(t, 1, 3) = <<DOT, DOT, DOT>>)
      lead == LeadRule(t)
      inner == 1 .. n - 1                                      \* the Python indices > 0
      blockInd == docInd \/ t[1] \in LeadSet \/ lead.b
                  \/ \E i \in inner : (t[i + 1] = COLON /\ FollWs(t, i)) \/ (t[i + 1] = HASH /\ PrecWs(t, i))
      flowInd  == docInd \/ t[1] \in LeadSet \/ lead.w
                  \/ \E i \in inner : t[i + 1] \in InnerFlowInd \/ t[i + 1] = COLON \/ (t[i + 1] = HASH /\ PrecWs(t, i))
      lineBreaks == \E i \in 1 .. n : t[i] \in EBrk
      unicode(c) == ((160 <= c /\ c <= 55295) \/ (57344 <= c /\ c <= 65533) \/ (65536 <= c /\ c < 1114111)) /\ c # 65279
      special == \E i \in 1 .. n : ~(t[i] = LF \/ (32 <= t[i] /\ t[i] <= 126)) /\ (unicode(t[i]) => ~uni)
      edge == t[1] = SP \/ t[1] \in EBrk \/ t[n] = SP \/ t[n] \in EBrk
      brkSp == \E i \in 1 .. n - 1 : t[i] \in EBrk /\ t[i + 1] = SP
      spBrk == \E i \in 1 .. n - 1 : t[i] = SP /\ t[i + 1] \in EBrk
      dq == spBrk \/ special
  IN  [empty |-> FALSE, multiline |-> lineBreaks,
       flowPlain  |-> ~edge /\ ~brkSp /\ ~dq /\ ~lineBreaks /\ ~flowInd,
       blockPlain |-> ~edge /\ ~brkSp /\ ~dq /\ ~lineBreaks /\ ~blockInd,
       single |-> ~brkSp /\ ~dq, block |-> t[n] # SP /\ ~dq]

\* choose_scalar_style (not canonical); req = the style of the event, impl0 = event.implicit[0]
ChooseStyle(an, req, impl0, flow, sk) ==
  IF req = "dq" THEN "dq"
  ELSE IF req = "" /\ impl0 /\ ~(sk /\ (an.empty \/ an.multiline))
          /\ ((flow /\ an.flowPlain) \/ (~flow /\ an.blockPlain)) THEN "plain"
  ELSE IF req \in {"lit", "fold"} /\ ~flow /\ ~sk /\ an.block THEN req
  ELSE IF req \in {"", "sq"} /\ an.single /\ ~(sk /\ an.multiline) THEN "sq"
  ELSE "dq"

(***************************************************************************)
(* L.3  representer.py + emitter.py: the context.                          *)
(* represent_sequence / represent_mapping: flow_style = default_flow_style *)
(* or, when that is None, best_style (every child is a scalar node without *)
(* a style - so only the innermost collection, and only when no            *)
(* default_style is set).  Inside a flow collection everything is flow.    *)
(***************************************************************************)
Depth(c) == Len(c.path)
Last(c) == c.path[Len(c.path)]
InnerFlow(c, o) == Depth(c) > 0 /\ (o.flow = "T" \/ (o.flow = "N" /\ o.style = ""))
OuterFlow(o) == o.flow = "T"
\* write_double_quoted / write_single_quoted: how many characters a text takes when it is written on one line
EscRepl == {0, 7, 8, 9, 10, 11, 12, 13, 27, DQ, BSL, NEL, 160, LS, PS}          \* ESCAPE_REPLACEMENTS: two characters
Printable(c, uni) == (32 <= c /\ c <= 126) \/ (uni /\ ((160 <= c /\ c <= 55295) \/ (57344 <= c /\ c <= 65533)))
EscLen(c, uni) == IF c \in {DQ, BSL, NEL, LS, PS, BOM} \/ ~Printable(c, uni)
                  THEN (IF c \in EscRepl THEN 2 ELSE IF c <= 255 THEN 4 ELSE IF c <= 65535 THEN 6 ELSE 10)
                  ELSE 1
RECURSIVE SumSeq(_, _)
SumSeq(ns, i) == IF i > Len(ns) THEN 0 ELSE ns[i] + SumSeq(ns, i + 1)
SumLen(t, f(_)) == SumSeq([i \in 1 .. Len(t) |-> f(t[i])], 1)
WrittenLen(t, style, uni) ==
  LET dq(c) == EscLen(c, uni)
      sq(c) == IF c = SQ THEN 2 ELSE 1
  IN  CASE style = "dq" -> 2 + SumLen(t, dq)
        [] style = "sq" -> 2 + SumLen(t, sq)
        [] OTHER -> Len(t)
\* the upper bound of the repair D12 (written_length): every character in its longest form
FixWritten(t, uni) ==
  LET up(c) == IF c \in {DQ, BSL, SQ, NEL, LS, PS, BOM} \/ ~Printable(c, uni)
               THEN (IF c \in EscRepl \/ c = SQ THEN 2 ELSE IF c <= 255 THEN 4 ELSE IF c <= 65535 THEN 6 ELSE 10)
               ELSE 1
  IN  2 + SumLen(t, up)
\* check_simple_key: a scalar key that is neither empty nor multi-line is written as a simple key when the
\* (never written) tag handle "!!str" and the RAW text together are shorter than 128 characters
KeyLen(t) == 5 + Len(t)
SimpleKey(c, an, t) == /\ Depth(c) > 0 /\ Last(c) = "key" /\ ~an.empty /\ ~an.multiline
                       /\ KeyLen(t) < 128
                       /\ (D12Fixed => KeyLen(t) + (FixWritten(t, FALSE) - Len(t)) <= 1000)
\* scanner.py stale_possible_simple_keys: a simple key is given up 1024 characters after its start
SimpleKeyLimit == 1024

(***************************************************************************)
(* The document the emitter lays out around a PLAIN scalar (indent 2, no   *)
(* document markers, nothing near the width): pre \o text \o post.         *)
(*   block sequence   "- " item            (a sequence that is the value   *)
(*                                          of a block mapping entry is    *)
(*                                          not indented: "k:" LF "- x")   *)
(*   block mapping    key ": " value       (a nested block mapping goes to *)
(*                                          the next line, indented by 2)  *)
(*   flow sequence    "[" a ", " b "]"     flow mapping "{" k ": " v "}"   *)
(*   a plain scalar at the root is followed by the document end marker     *)
(* The neighbours 'k', 'v', 'a', 'z' are written plain, i.e. the layout is *)
(* the emitter's when default_style is None - the only case in which a     *)
(* scalar can be plain at all.                                             *)
(***************************************************************************)
\* the innermost collection: entries start in column ind (block)
Final(step, sib, flow, ind) ==
  LET sep    == IF flow THEN <<COMMA, SP>> ELSE <<LF>> \o Spaces(ind)
      open   == IF ~flow THEN <<>> ELSE IF step = "item" THEN <<LBR>> ELSE <<LBRACE>>
      close  == IF ~flow THEN <<LF>> ELSE IF step = "item" THEN <<RBR>> ELSE <<RBRACE>>
      bullet == IF ~flow /\ step = "item" THEN <<DASH, SP>> ELSE <<>>
      other(name) == IF step = "item" THEN bullet \o name ELSE name \o <<COLON, SP>> \o VV
      entPre  == IF step = "value" THEN KK \o <<COLON, SP>> ELSE bullet
      entPost == IF step = "key" THEN <<COLON, SP>> \o VV ELSE <<>>
  IN  [pre  |-> open \o (IF sib = "before" THEN other(AA) \o sep ELSE <<>>) \o entPre,
       post |-> entPost \o (IF sib = "after" THEN sep \o other(ZZ) ELSE <<>>) \o close]

\* the outer collections path[i .. d-1], all block (flow = F, or N where only the innermost one is flow)
RECURSIVE OuterBlock(_, _, _, _)
OuterBlock(path, i, ind, innerFlow) ==           \* -> [pre, ind]
  IF i >= Len(path) THEN [pre |-> <<>>, ind |-> ind]
  ELSE LET nextIsLast == i + 1 = Len(path)
           nextSeq == path[i + 1] = "item"
       IN  IF path[i] = "item"
           THEN LET r == OuterBlock(path, i + 1, ind + 2, innerFlow) IN [r EXCEPT !.pre = <<DASH, SP>> \o @]
           ELSE IF nextIsLast /\ innerFlow
           THEN LET r == OuterBlock(path, i + 1, ind, innerFlow) IN [r EXCEPT !.pre = KK \o <<COLON, SP>> \o @]
           ELSE LET ind2 == IF nextSeq THEN ind ELSE ind + 2
                    r == OuterBlock(path, i + 1, ind2, innerFlow)
                IN  [r EXCEPT !.pre = KK \o <<COLON, LF>> \o Spaces(ind2) \o @]
\* the outer collections, all flow
RECURSIVE OuterFlowPre(_, _), OuterFlowPost(_, _)
OuterFlowPre(path, i) == IF i >= Len(path) THEN <<>>
                         ELSE (IF path[i] = "item" THEN <<LBR>> ELSE <<LBRACE>> \o KK \o <<COLON, SP>>) \o OuterFlowPre(path, i + 1)
OuterFlowPost(path, i) == IF i >= Len(path) THEN <<>>
                          ELSE OuterFlowPost(path, i + 1) \o (IF path[i] = "item" THEN <<RBR>> ELSE <<RBRACE>>)

Layout(c, o) ==                                  \* -> [pre, post]
  IF Depth(c) = 0 THEN [pre |-> <<>>, post |-> <<LF, DOT, DOT, DOT, LF>>]
  ELSE IF OuterFlow(o)
  THEN LET f == Final(Last(c), c.sib, TRUE, 0)
       IN  [pre |-> OuterFlowPre(c.path, 1) \o f.pre, post |-> f.post \o OuterFlowPost(c.path, 1) \o <<LF>>]
  ELSE LET inner == InnerFlow(c, o)
           ob == OuterBlock(c.path, 1, 0, inner)
           f == Final(Last(c), c.sib, inner, ob.ind)
       IN  [pre |-> ob.pre \o f.pre, post |-> f.post \o (IF inner THEN <<LF>> ELSE <<>>)]

(***************************************************************************)
(* L.4  scanner.py on the document: the token that starts at offset p.     *)
(***************************************************************************)
Peek(inp, p, k) == IF p + k < Len(inp) THEN inp[p + k + 1] ELSE NUL
Column(inp, p) == LET brs == {q \in 1 .. p : inp[q] = LF} IN IF brs = {} THEN p ELSE p - (CHOOSE q \in brs : \A r \in brs : r <= q)

PlainStartExcl == WsNul \cup Indicators           \* check_plain: "may start with any non-space character except ..."
\* fetch_more_tokens: what the character at p starts (flow = self.flow_level > 0, col = self.column)
TokenKind(inp, p, flow, col) ==
  LET ch == Peek(inp, p, 0)
      nxWs == Peek(inp, p, 1) \in WsNul
      three(c) == Peek(inp, p, 0) = c /\ Peek(inp, p, 1) = c /\ Peek(inp, p, 2) = c /\ Peek(inp, p, 3) \in WsNul
  IN  IF ch = NUL THEN "stream-end"
      ELSE IF ch = PCT /\ col = 0 THEN "directive"
      ELSE IF ch = DASH /\ col = 0 /\ three(DASH) THEN "document-start"
      ELSE IF ch = DOT /\ col = 0 /\ three(DOT) THEN "document-end"
      ELSE IF ch \in {LBR, RBR, LBRACE, RBRACE, COMMA} THEN "flow-indicator"
      ELSE IF ch = DASH /\ nxWs THEN "block-entry"
      ELSE IF ch = QM /\ (flow \/ nxWs) THEN "key"
      ELSE IF ch = COLON /\ (flow \/ nxWs) THEN "value"
      ELSE IF ch = STAR THEN "alias"
      ELSE IF ch = AMP THEN "anchor"
      ELSE IF ch = BANG THEN "tag"
      ELSE IF ch = BAR /\ ~flow THEN "literal"
      ELSE IF ch = GT /\ ~flow THEN "folded"
      ELSE IF ch = SQ THEN "single"
      ELSE IF ch = DQ THEN "double"
      ELSE IF ch \notin PlainStartExcl \/ (~nxWs /\ (ch = DASH \/ (~flow /\ ch \in {QM, COLON}))) THEN "plain"
      ELSE "error"

\* scan_plain.  The documents laid out above never continue a plain scalar on the next line (what follows a line
\* break is not indented more than the current block collection), so a line break ends the scalar.
ColonFollow == {COMMA, LBR, RBR, LBRACE, RBRACE}          \* ',[]{}' after ':' ends a plain scalar in the flow context
RECURSIVE PlainLen(_, _, _, _), SpRun(_, _, _), PlainLoop(_, _, _, _)
PlainLen(inp, p, k, flow) ==
  LET ch == Peek(inp, p, k)
  IN  IF ch \in WsNul \/ (ch = COLON /\ Peek(inp, p, k + 1) \in WsNul \cup (IF flow THEN ColonFollow ELSE {}))
         \/ (flow /\ ch \in FlowInd)
      THEN k ELSE PlainLen(inp, p, k + 1, flow)
SpRun(inp, p, k) == IF Peek(inp, p, k) = SP THEN SpRun(inp, p, k + 1) ELSE k
\* -> the offset just after the last character of the token value (end), scanning the next chunk at p
PlainLoop(inp, p, end, flow) ==
  IF Peek(inp, p, 0) = HASH THEN end
  ELSE LET n == PlainLen(inp, p, 0, flow)
       IN  IF n = 0 THEN end
           ELSE LET e == p + n
                    m == SpRun(inp, e, 0)
                    ch == Peek(inp, e, m)
                IN  IF m = 0 \/ ch \in SBrk \/ ch = NUL \/ ch = HASH THEN e
                    ELSE PlainLoop(inp, e + m, e, flow)

\* reader.py: the characters a stream may contain (NON_PRINTABLE is the complement)
ReaderOk(ch) == ch \in {TAB, LF, CR, NEL} \/ (32 <= ch /\ ch <= 126) \/ (160 <= ch /\ ch <= 55295)
                \/ (57344 <= ch /\ ch <= 65533) \/ (65536 <= ch /\ ch <= 1114111)
\* the text t written plain at its place: does the scanner return it as one plain scalar that resolves to str?
PlainReadsBack(t, c, o) ==
  LET lay == Layout(c, o)
      doc == lay.pre \o t \o lay.post
      p0 == Len(lay.pre)
      flow == InnerFlow(c, o)
  IN  /\ t # <<>>
      /\ \A i \in 1 .. Len(t) : ReaderOk(t[i])
      /\ TokenKind(doc, p0, flow, Column(doc, p0)) = "plain"
      /\ PlainLoop(doc, p0, p0, flow) = p0 + Len(t)
      /\ LoadsAsStr(t, Depth(c) > 0 /\ Last(c) = "key")

(***************************************************************************)
(* Everything about one state: what L does (for the replay through the     *)
(* real classes) and the verdict of H on it.                               *)
(***************************************************************************)
RunL(t, c, o) ==
  LET an    == Analyze(t, FALSE)
      flow  == InnerFlow(c, o)
      sk    == SimpleKey(c, an, t)
      style == ChooseStyle(an, o.style, ResolvesStr(t), flow, sk)
      lay   == Layout(c, o)
      back  == PlainReadsBack(t, c, o)
  IN  [style |-> style, flow |-> flow, sk |-> sk,
       complexkey |-> Depth(c) > 0 /\ Last(c) = "key" /\ ~sk,   \* written as "? " key (the layout below does not apply)
       pre   |-> lay.pre,                                       \* the document around the scalar: pre \o scalar \o post
       post  |-> lay.post,
       narrow |-> Len(lay.pre) + Len(t) + Len(lay.post) < 80,  \* nothing gets near the width: the layout is exact
       plainok |-> back,                                        \* the scanner side alone (calibrated against scanner.py)
       keytoolong |-> sk /\ WrittenLen(t, style, FALSE) > SimpleKeyLimit,     \* the scanner gives the simple key up
       rt |-> (style # "plain" \/ back) /\ ~(sk /\ WrittenLen(t, style, FALSE) > SimpleKeyLimit)]        \* H on L

Ctxs == {[path |-> p, sib |-> s] : p \in Paths, s \in Sibs} \ {[path |-> <<>>, sib |-> s] : s \in Sibs \ {"none"}}
\* default_flow_style does not matter for a root scalar: one representative
Opts == [flow : FlowOpts, style : StyleOpts]
OptsOf(c) == IF Depth(c) = 0 THEN {o \in Opts : o.flow = CHOOSE f \in FlowOpts : TRUE} ELSE Opts

Init == /\ \/ text = <<>> /\ nsym = 0
           \/ \E u \in LongUnits, n \in LongLens : text = [i \in 1 .. n |-> u] /\ nsym = MaxLen      \* (does not grow)
        /\ ctx \in Ctxs
        /\ opts \in OptsOf(ctx)
        /\ lres = RunL(text, ctx, opts)

Grow == /\ nsym < MaxLen
        /\ \E sym \in (IF nsym < 2 THEN Alphabet ELSE Third) :
             /\ text' = text \o Expand(sym)
             /\ lres' = RunL(text', ctx, opts)
        /\ nsym' = nsym + 1
        /\ UNCHANGED <<ctx, opts>>

Next == Grow
Spec == Init /\ [][Next]_vars

\* L => H: a text the emitter writes plain is read back unchanged, and a key written as a simple key is short enough
\* for the scanner - except for the defect the model exhibits: a key of fewer than 128 raw characters whose written
\* form is longer than 1024 characters is still written as a simple key (D12); there L predicts the rejection
PlainRoundTrip == IF lres.keytoolong /\ ~D12Fixed THEN ~lres.rt ELSE lres.rt
\* block styles are used only where the scanner accepts them (block context, not a simple key)
BlockStyleInBlockContext == lres.style \in {"lit", "fold"} => ~lres.flow /\ ~lres.sk
=============================================================================
