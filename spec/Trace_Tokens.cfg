SPECIFICATION Spec
INVARIANT Verdict
